(* C06 over warm caches, part 3 (J1): ALL ConcatSource clauses (9, 1, 2, 3) of chk_C06 on the
   model's own observations (Api/ApiCheck.v: api_comp) for a ConcatSource whose children are
   trees with CachedSource nodes in ANY warm state (each child in the class `cls` of
   WarmTreeDefs.v, every cache id once in the composite).
   `api_comp` warms the composite by `run_warm [] (SConcat cs) ws` and every child, observed
   standalone, by `run_warm [] k ws`.  With distinct ids these stores agree on the caches of
   the child, and the store threaded through the children of the composite does not disturb
   them (CompWarmFrame.v): the children stream inside the composite exactly as they do
   standalone.  The event-level theorems (LawConcatAttr.concat_attr_cols,
   concat_contents_preserved, CompLinesConcat.concat_lines_attr_kids) then only need the
   children's streams to announce densely, reassemble the children's texts and keep line feeds
   last - part of the invariant `TX` of a text-carrying stream over a `Sound2` store. *)
From RS Require Import Base.Prelude Base.Text Rope.RopeModel Codec.Vlq Codec.CodecSpec
  Stream.Types Stream.Leaves Stream.Concat Stream.Replace Stream.Combined Stream.Tree
  Api.ApiTree Sem.Attr Sem.HashEq Api.ApiHist Checkers.ChkTree Checkers.ChkHist Checkers.ChkComp Api.ApiCheck
  Proofs.StreamText Proofs.StreamLeaves Proofs.StreamConcat Proofs.StreamTree
  Proofs.WfStream Proofs.WfFinal
  Proofs.RStreamText Proofs.RStreamPos Proofs.RStreamTree
  Proofs.AttrCodec Proofs.AttrSms Proofs.LawConcatAttr Proofs.LawWrappers
  Proofs.LinesBase Proofs.CompLinesBridge Proofs.CompLinesConcat Proofs.CompLinesReplace Proofs.CompLinesTree
  Proofs.FinalDense Proofs.FinalTree Proofs.ColdCache Proofs.ColdCacheTree Proofs.BoundsPos
  Proofs.WarmTreeDefs Proofs.WarmTreeNodes Proofs.WarmTreeMain Proofs.WarmTreeHist Proofs.WfMoreWarm
  Proofs.CompWarmFrame.
Require Import Lia List.
Import ListNotations.

Local Open Scope N_scope.

(* ------------------------------------------------------------------ *)
(* a child warmed and observed standalone                               *)
(* ------------------------------------------------------------------ *)
Definition kid_obs (ws : list (N * wop)) (c : bool) (k : src) : list event * (N * N) :=
  fst (stream (run_warm [] k ws) k (mkOpts c false)).

Lemma kid_obs_TX (ws : list (N * wop)) (c : bool) (k : src) :
  ids_distinct k -> cls k -> TX c k (kid_obs ws c k).
Proof.
  intros Hd Hcl. pose proof (warm_sound2 k Hd Hcl ws [] (sound2_empty k)) as Hs.
  destruct (warm2_all k Hd k (incl_refl _) Hcl) as [A _]. apply (A _ c Hs).
Qed.

Lemma kid_obs_facts (ws : list (N * wop)) (c : bool) (k : src) :
  ids_distinct k -> cls k ->
  dense (fst (kid_obs ws c k)) 0 0 = true /\ reassembles (fst (kid_obs ws c k)) (source k) = true /\
  chunks_nl_last (fst (kid_obs ws c k)) = true.
Proof.
  intros Hd Hcl. destruct (kid_obs_TX ws c k Hd Hcl) as [[D [R [_ [Nl _]]]] _].
  split; [exact D|]. split; [apply reassembles_iff; exact R|apply chunks_nl_last_iff; exact Nl].
Qed.

Section Concat.
Variable cs : list src.
Variable ws : list (N * wop).
Hypothesis Hd : ids_distinct (SConcat cs).
Hypothesis Hcl : forall c, In c cs -> cls c.

Lemma kids_dense_w c : Forall (fun k : list event * (N * N) => dense (fst k) 0 0 = true) (map (kid_obs ws c) cs).
Proof.
  rewrite Forall_map. apply Forall_forall. intros k Hk.
  apply (kid_obs_facts ws c k (ids_distinct_child cs k Hd Hk) (Hcl k Hk)).
Qed.

Lemma kids_nl_w c : Forall (fun k : list event * (N * N) => chunks_nl_last (fst k) = true) (map (kid_obs ws c) cs).
Proof.
  rewrite Forall_map. apply Forall_forall. intros k Hk.
  apply (kid_obs_facts ws c k (ids_distinct_child cs k Hd Hk) (Hcl k Hk)).
Qed.

Lemma kids_reass_w c :
  Forall2 (fun (k : list event * (N * N)) t => reassembles (fst k) t = true) (map (kid_obs ws c) cs) (map source cs).
Proof.
  apply Forall2_map_same. intros k Hk.
  apply (kid_obs_facts ws c k (ids_distinct_child cs k Hd Hk) (Hcl k Hk)).
Qed.

Lemma treeA_of_children : treeA (SConcat cs) = true.
Proof.
  unfold treeA. cbn [tree_wf tree_ascii]. apply andb_true_iff. split; apply forallb_forall; intros c Hc;
    destruct (Hcl c Hc) as [_ [_ [A _]]]; unfold treeA in A; apply andb_true_iff in A; apply A.
Qed.

(* the composite's stream is the fold over the children's standalone observations *)
Lemma concat_warm_stream c : length cs <> 1%nat ->
  fst (fst (stream (run_warm [] (SConcat cs) ws) (SConcat cs) (mkOpts c false)))
  = snd (concat_fold false (map (kid_obs ws c) cs) (concat_init, [])).
Proof.
  intros Hl. rewrite (stream_concat_fold _ cs _ Hl). cbn [fst snd final_source].
  rewrite (concat_kids_standalone cs ws (mkOpts c false) Hd). reflexivity.
Qed.

(* clauses 1, 2, 3 *)
Theorem concat_warm_clauses :
  let st := run_warm [] (SConcat cs) ws in
  let c10 := fst (fst (stream st (SConcat cs) (mkOpts true false))) in
  let c00 := fst (fst (stream st (SConcat cs) (mkOpts false false))) in
  let k10 := map (fun k => fst (kid_obs ws true k)) cs in
  let k00 := map (fun k => fst (kid_obs ws false k)) cs in
  attr_of_stream c10 true = concat_expected k10 /\
  (bindings_consistent (flat_map contents_of_events k10) = true -> contents_preserved c10 k10 = true) /\
  attr_of_stream c00 false = line_first_bytes (source (SConcat cs)) (concat_expected k00) None 0 [].
Proof.
  intros st c10 c00 k10 k00.
  assert (K1 : k10 = map fst (map (kid_obs ws true) cs)) by (unfold k10; rewrite map_map; reflexivity).
  assert (K0 : k00 = map fst (map (kid_obs ws false) cs)) by (unfold k00; rewrite map_map; reflexivity).
  destruct (Nat.eq_dec (length cs) 1) as [E|E].
  - destruct cs as [|c [|c2 r]]; try discriminate.
    assert (Hc : In c [c]) by (left; reflexivity).
    assert (E1 : c10 = fst (kid_obs ws true c)).
    { unfold c10, st, kid_obs. rewrite (concat_single_standalone c ws _ Hd). reflexivity. }
    assert (E0 : c00 = fst (kid_obs ws false c)).
    { unfold c00, st, kid_obs. rewrite (concat_single_standalone c ws _ Hd). reflexivity. }
    destruct (kid_obs_facts ws false c (ids_distinct_child [c] c Hd Hc) (Hcl c Hc)) as [_ [R0 N0]].
    unfold k10, k00. cbn [map]. rewrite <- E1, <- E0, !concat_expected_one.
    split; [reflexivity|]. split; [intros _; apply contents_preserved_same; reflexivity|].
    cbn [source map concat]. rewrite app_nil_r. rewrite <- E0 in R0, N0. apply (lines_bridge c00 _ R0 N0).
  - unfold c10, c00, st. rewrite !(concat_warm_stream _ E), K1, K0.
    split; [apply list_eqb_attr_eq; apply concat_attr_expected; apply kids_dense_w|].
    split; [intros Hb; apply concat_contents_preserved; [apply kids_dense_w|exact Hb]|].
    cbn [source]. apply (concat_lines_attr_kids _ _ (kids_dense_w false) (kids_reass_w false) (kids_nl_w false)).
Qed.

End Concat.

(* ------------------------------------------------------------------ *)
(* J1: the checker on the model's own observations                      *)
(* ------------------------------------------------------------------ *)
Lemma api_comp_concat_warm (cs : list src) (ws : list (N * wop)) :
  let st := run_warm [] (SConcat cs) ws in
  api_comp (SConcat cs) ws =
  (fst (fst (stream st (SConcat cs) (mkOpts true false))),
   fst (fst (stream st (SConcat cs) (mkOpts false false))),
   map (fun k => fst (kid_obs ws true k)) cs, map (fun k => fst (kid_obs ws false k)) cs).
Proof. reflexivity. Qed.

Theorem C06_concat_warm_checker (cs : list src) (ws : list (N * wop)) :
  ids_distinct (SConcat cs) -> (forall c, In c cs -> cls c) ->
  let '(c10, c00, k10, k00) := api_comp (SConcat cs) ws in
  chk_C06 (SConcat cs) (source (SConcat cs)) c10 c00 k10 k00 =
  if bindings_consistent (flat_map contents_of_events k10) then 0 else 100.
Proof.
  intros Hd Hcl. pose proof (api_comp_concat_warm cs ws) as E. cbn zeta in E. rewrite E.
  pose proof (concat_warm_clauses cs ws Hd Hcl) as [C1 [C2 C3]]. cbn zeta in C1, C2, C3.
  unfold chk_C06. rewrite (treeA_of_children cs Hcl). cbn [negb].
  destruct (bindings_consistent _) eqn:Hb; cbn [negb]; [|reflexivity].
  rewrite slen_map', N.eqb_refl. cbn [negb].
  rewrite C1, (list_eqb_attr_refl attr_eqb attr_eqb_refl). cbn [negb].
  rewrite (C2 eq_refl). cbn [negb].
  rewrite C3, (list_eqb_attr_refl attr_eqb_fl attr_eqb_fl_refl). reflexivity.
Qed.

(* inside the checker's domain the verdict is 0 *)
Theorem C06_concat_warm (cs : list src) (ws : list (N * wop)) :
  ids_distinct (SConcat cs) -> (forall c, In c cs -> cls c) ->
  let '(c10, c00, k10, k00) := api_comp (SConcat cs) ws in
  bindings_consistent (flat_map contents_of_events k10) = true ->
  chk_C06 (SConcat cs) (source (SConcat cs)) c10 c00 k10 k00 = 0.
Proof.
  intros Hd Hcl. pose proof (C06_concat_warm_checker cs ws Hd Hcl) as K.
  destruct (api_comp (SConcat cs) ws) as [[[c10 c00] k10] k00]. intros Hb. rewrite Hb in K. exact K.
Qed.

(* the composite itself in the class *)
Corollary C06_concat_warm_cls (cs : list src) (ws : list (N * wop)) :
  ids_distinct (SConcat cs) -> cls (SConcat cs) ->
  let '(c10, c00, k10, k00) := api_comp (SConcat cs) ws in
  bindings_consistent (flat_map contents_of_events k10) = true ->
  chk_C06 (SConcat cs) (source (SConcat cs)) c10 c00 k10 k00 = 0.
Proof. intros Hd Hcl. apply C06_concat_warm; [exact Hd|intros c Hc; apply (cls_concat cs c Hcl Hc)]. Qed.

(* ------------------------------------------------------------------ *)
(* tests                                                                *)
(* ------------------------------------------------------------------ *)
(* the bundler's shape of WarmTreeHist.v: Concat[Cached(..), Cached(Concat[Cached(..), ..,
   Replace(Cached(..),[])]), Cached(SourceMapSource), ..] after any warm-up history *)
Example cwc_instance (ws : list (N * wop)) :
  let '(c10, c00, k10, k00) := api_comp w_tree ws in
  bindings_consistent (flat_map contents_of_events k10) = true ->
  chk_C06 w_tree (source w_tree) c10 c00 k10 k00 = 0.
Proof.
  apply C06_concat_warm_cls.
  - apply ids_distinctb_spec. vm_compute. reflexivity.
  - apply tiny_cls; vm_compute; reflexivity.
Qed.

Definition cwc_hists : list (list (N * wop)) :=
  [[]; w_warm; [(2, WStream false false); (2, WStream true false)]; [(3, WMap true); (2, WMap false); (5, WStream true true)];
   [(4, WMap false); (4, WMap true); (1, WStream false false)]; [(5, WStream false false); (3, WStream true false)]].

Example cwc_recomputed :
  map (fun ws => let '(c10, c00, k10, k00) := api_comp w_tree ws in
                 (bindings_consistent (flat_map contents_of_events k10),
                  chk_C06 w_tree (source w_tree) c10 c00 k10 k00)) cwc_hists
  = map (fun _ => (true, 0)) cwc_hists.
Proof. vm_compute. reflexivity. Qed.

(* `ids_distinct` cannot be dropped.  (a) one id on two different wrapped sources (not a state
   of the library: clones share the wrapped source): the second child replays the first's map *)
Example shared_id_C06_counterexample :
  let s := SConcat [SCached 1 (SOriginal [97; 10] [102]); SCached 1 (SOriginal [98; 98; 98] [103])] in
  let '(c10, c00, k10, k00) := api_comp s [] in
  (ids_distinctb s, bindings_consistent (flat_map contents_of_events k10),
   chk_C06 s (source s) c10 c00 k10 k00) = (false, true, 1).
Proof. vm_compute. reflexivity. Qed.

(* (b) two clones of one CachedSource (same id, same wrapped source - a state of the library),
   the second below a ReplaceSource with a replacement: inside the composite the first clone
   warms the shared cache before the ReplaceSource streams, standalone the ReplaceSource sees
   it cold; the ReplaceSource attributes the two differently - known finding K2 seen through
   clause 3 of chk_C06 (the child is outside `cls`: k2_shape) *)
Example shared_clone_k2_C06 :
  let k := SCached 1 (SConcat [SOriginal [123] [97]; SOriginal [123; 123; 59] [98]]) in
  let r := SReplace k [mkRepl 2 4 [10; 123] None 1] in
  let s := SConcat [k; r] in
  let '(c10, c00, k10, k00) := api_comp s [] in
  (ids_distinctb s, k2_shape r, bindings_consistent (flat_map contents_of_events k10),
   chk_C06 s (source s) c10 c00 k10 k00) = (false, true, true, 3).
Proof. vm_compute. reflexivity. Qed.

Print Assumptions kid_obs_TX.
Print Assumptions concat_warm_stream.
Print Assumptions concat_warm_clauses.
Print Assumptions C06_concat_warm_checker.
Print Assumptions C06_concat_warm.
Print Assumptions C06_concat_warm_cls.
Print Assumptions cwc_instance.
Print Assumptions cwc_recomputed.
Print Assumptions shared_id_C06_counterexample.
Print Assumptions shared_clone_k2_C06.
