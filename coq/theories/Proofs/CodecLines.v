(* Spec half of T7: the lines-only encoder's output, read by the spec, is the
   first mapped segment of each line (column 0, no name). *)
From RS Require Import Base.Prelude Codec.Vlq Codec.CodecSpec Checkers.ChkCodec
  Proofs.CodecAlphabet Proofs.CodecVlq Proofs.CodecKept Proofs.CodecSplit Proofs.CodecEnc.

Local Open Scope N_scope.

Definition lfields (e : lenc) (o : orig) : text :=
  encode_vlq 0 0 ++ encode_vlq (o_src o) (le_src e) ++ encode_vlq (o_line o) (le_oline e) ++
  encode_vlq 0 0 ++ [].

Definition lenc_next (m : mapping) (o : orig) : lenc :=
  mkLenc (g_line m) (g_line m) (o_src o) (o_line o).

Lemma lenc_step_eq e m o :
  m_orig m = Some o -> (le_last e =? g_line m) = false ->
  lenc_step e m =
  (lenc_next m o, repeat semi (N.to_nat (g_line m - le_line e)) ++ lfields e o).
Proof.
  intros Ho El. unfold lenc_step, lenc_next, lfields. rewrite Ho, El.
  rewrite !encode_vlq_same.
  destruct (o_src o =? le_src e) eqn:Es.
  - apply N.eqb_eq in Es. rewrite <- Es, encode_vlq_same.
    destruct (o_line o =? le_oline e + 1) eqn:Eo.
    + apply N.eqb_eq in Eo. rewrite Eo, encode_vlq_succ. reflexivity.
    + reflexivity.
  - reflexivity.
Qed.

Record linv (e : lenc) : Prop := mkLinv { li_src : s30 (le_src e); li_oline : s30 (le_oline e) }.

Definition lrun_of (e : lenc) : run :=
  mkRun (Z.of_N (le_src e)) (Z.of_N (le_oline e) - 1) 0 0.

Lemma lfields_nosep e o : nosep (lfields e o).
Proof.
  assert (H : Forall digit_char (lfields e o)).
  { unfold lfields.
    repeat (first [apply Forall_app; split | apply encode_vlq_alphabet | apply Forall_nil]). }
  eapply Forall_impl; [|exact H]. intros c [_ Hc]. apply digit_not_sep. exact Hc.
Qed.

Lemma vlq_ints_lfields e o :
  linv e -> s30 (o_src o) -> s30 (o_line o) ->
  vlq_ints (lfields e o) =
  Some [0%Z; (Z.of_N (o_src o) - Z.of_N (le_src e))%Z;
        (Z.of_N (o_line o) - Z.of_N (le_oline e))%Z; 0%Z].
Proof.
  intros [H1 H2] H3 H4. unfold vlq_ints, lfields. repeat vlq_step. reflexivity.
Qed.

Lemma rseg_lenc gl e m o :
  rseg_of gl 0 (lrun_of e)
    [0%Z; (Z.of_N (o_src o) - Z.of_N (le_src e))%Z;
     (Z.of_N (o_line o) - Z.of_N (le_oline e))%Z; 0%Z]
  = Some (0%Z, lrun_of (lenc_next m o),
          Some (mkMapping gl 0 (Some (mkOrig (o_src o) (o_line o) 0 None)))).
Proof.
  unfold rseg_of, lrun_of, lenc_next. cbv zeta.
  cbn [r_src r_line r_col r_name le_src le_oline].
  rewrite ?zadd_sub, ?zline_sub, ?zline_sub', ?nonneg_of_N. cbn [andb Z.add nonneg Z.leb Z.compare].
  rewrite ?N2Z.id. reflexivity.
Qed.

Lemma spec_at_lsemis init gl r s n :
  (init = false -> (0 < n)%nat) ->
  spec_at init gl 0 r (repeat semi n ++ s) = gspec_from rseg_of (gl + N.of_nat n) 0 r s.
Proof.
  intros H. destruct n as [|n].
  - destruct init; [|specialize (H eq_refl); lia].
    cbn [repeat app N.of_nat]. unfold spec_at. rewrite N.add_0_r. reflexivity.
  - apply spec_at_semis. lia.
Qed.

Lemma lenc_run_rspec : forall ms e init,
  linv e -> ssorted ms -> Forall msmall ms -> Forall (fun m => le_line e <= g_line m) ms ->
  (init = false -> le_last e = le_line e) ->
  (init = false -> sep_start (snd (lenc_run e ms))) /\
  spec_at init (le_line e) 0 (lrun_of e) (snd (lenc_run e ms))
  = Some (line_firsts_from (le_last e) ms).
Proof.
  induction ms as [|m ms IH]; intros e init Hi Hs Hm Hl Hlast.
  - split; [intros _; exact I|]. cbn [lenc_run snd line_firsts_from]. destruct init; reflexivity.
  - destruct Hs as [Hsm Hs]. inversion Hm as [|? ? Hm1 Hm2]; subst.
    inversion Hl as [|? ? Hl1 Hl2]; subst.
    cbn [lenc_run line_firsts_from].
    destruct (m_orig m) as [o|] eqn:Ho.
    + destruct (le_last e =? g_line m) eqn:El.
      * assert (Hst : lenc_step e m = (e, [])) by (unfold lenc_step; rewrite Ho, El; reflexivity).
        rewrite Hst. specialize (IH e init Hi Hs Hm2 Hl2 Hlast).
        destruct (lenc_run e ms) as [e2 o2]. exact IH.
      * rewrite (lenc_step_eq e m o Ho El).
        destruct Hm1 as (M1 & M2 & M3 & M4). rewrite Ho in M4. destruct M4 as (O1 & O2 & _).
        assert (Hi' : linv (lenc_next m o)) by (constructor; assumption).
        assert (Hl' : Forall (fun m' => le_line (lenc_next m o) <= g_line m') ms).
        { cbn [lenc_next le_line].
          eapply Forall_impl; [|exact Hsm]. intros x Hx. apply pos_le_iff in Hx. lia. }
        destruct (IH (lenc_next m o) false Hi' Hs Hm2 Hl' (fun _ => eq_refl)) as [Hst IH'].
        specialize (Hst eq_refl).
        destruct (lenc_run (lenc_next m o) ms) as [e2 o2]. cbn [snd] in *.
        apply N.eqb_neq in El.
        assert (Hn : init = false -> (0 < N.to_nat (g_line m - le_line e))%nat).
        { intros Hf. specialize (Hlast Hf). lia. }
        split.
        -- intros Hf. specialize (Hn Hf).
           destruct (N.to_nat (g_line m - le_line e)) as [|k]; [lia|]. cbn. right. reflexivity.
        -- rewrite <- app_assoc, (spec_at_lsemis init _ _ _ _ Hn).
           replace (le_line e + N.of_nat (N.to_nat (g_line m - le_line e))) with (g_line m) by lia.
           rewrite (gspec_from_seg rseg_of _ _ _ _ _ (lfields_nosep e o) Hst).
           rewrite (vlq_ints_lfields e o Hi O1 O2), (rseg_lenc (g_line m) e m o).
           unfold spec_at in IH'. cbn [lenc_next le_line le_last] in IH'.
           cbn [lenc_next le_line le_last]. rewrite IH'. reflexivity.
    + assert (Hst : lenc_step e m = (e, [])) by (unfold lenc_step; rewrite Ho; reflexivity).
      rewrite Hst. specialize (IH e init Hi Hs Hm2 Hl2 Hlast).
      destruct (lenc_run e ms) as [e2 o2]. exact IH.
Qed.

Theorem encode_lines_rspec (ms : list mapping) :
  enc_domain ms = true -> rspec_decode (encode_lines ms) = Some (line_firsts ms).
Proof.
  intros H. apply enc_domain_unpack in H. destruct H as [Hs Hm].
  unfold rspec_decode. rewrite gspec_decode_from.
  refine (proj2 (lenc_run_rspec ms lenc_init true _ Hs Hm _ _)).
  - constructor; cbn; unfold s30; lia.
  - eapply Forall_impl; [|exact Hm]. intros m (_ & _ & H & _). exact H.
  - discriminate.
Qed.

Lemma line_firsts_from_oline_pos : forall ms last,
  Forall oline_pos ms -> Forall oline_pos (line_firsts_from last ms).
Proof.
  induction ms as [|m ms IH]; intros last H; [constructor|].
  inversion H as [|? ? H1 H2]; subst. cbn [line_firsts_from].
  unfold oline_pos in H1. destruct (m_orig m) as [o|]; [|apply IH; exact H2].
  destruct (last =? g_line m); [apply IH; exact H2|].
  constructor; [exact H1|apply IH; exact H2].
Qed.

Lemma line_firsts_from_u32 : forall ms last,
  Forall msmall ms -> forallb mapping_u32 (line_firsts_from last ms) = true.
Proof.
  induction ms as [|m ms IH]; intros last H; [reflexivity|].
  inversion H as [|? ? H1 H2]; subst. cbn [line_firsts_from].
  destruct H1 as (M1 & M2 & M3 & M4).
  destruct (m_orig m) as [o|]; [|apply IH; exact H2].
  destruct (last =? g_line m); [apply IH; exact H2|].
  cbn [forallb]. rewrite (IH _ H2), andb_true_r.
  destruct M4 as (O1 & O2 & _). unfold mapping_u32, u32, two32, s30 in *.
  cbn [g_line g_col m_orig o_src o_line o_col o_name].
  rewrite !andb_true_iff, !N.ltb_lt. repeat split; lia.
Qed.

(* spec half of T7; like T3 it needs original lines >= 1 for the format's spec *)
Theorem encode_lines_spec_partial (ms : list mapping) :
  enc_domain ms = true -> Forall oline_pos ms ->
  spec_decode (encode_lines ms) = Some (line_firsts ms).
Proof.
  intros H Hp. apply rspec_decode_spec; [apply encode_lines_rspec; exact H|].
  apply line_firsts_from_oline_pos. exact Hp.
Qed.

Print Assumptions encode_lines_rspec.
Print Assumptions encode_lines_spec_partial.
