(* ReplaceSource attribution (C06), R2/R3: full attribution (file, line, column, name) of every
   byte streamed by a ReplaceSource equals the byte-level reference of Checkers/ChkComp.v.
   Columns: the state machine re-bases the original column at every cut exactly where the
   reference's `piece_cols` does (same cuts, same `check_content_at_position` test). *)
From RS Require Import Base.Prelude Base.Text Rope.RopeModel Codec.Vlq Codec.CodecSpec
  Stream.Types Stream.Leaves Stream.Replace Stream.Tree Sem.Attr Checkers.ChkTree Checkers.ChkComp
  Proofs.RopeWf Proofs.StreamText Proofs.StreamLeaves Proofs.WfStream Proofs.ReplaceSort Proofs.ReplaceText
  Proofs.RStreamText Proofs.RStreamPos Proofs.AttrCodec Proofs.LawConcatAttr
  Proofs.ReplAttrRef Proofs.ReplAttrStream Proofs.ReplAttrOrigin.
Require Import Lia List ZArith.

Local Open Scope N_scope.

(* ------------------------------------------------------------------ *)
(* the cut offsets of one chunk                                        *)
(* ------------------------------------------------------------------ *)
(* strictly increasing, above lo *)
Fixpoint incr (lo : N) (l : list N) : Prop :=
  match l with
  | [] => True
  | x :: l' => lo < x /\ incr x l'
  end.

Lemma incr_above : forall l lo x, incr lo l -> In x l -> lo < x.
Proof.
  induction l as [|y l IH]; intros lo x H Hx; [destruct Hx|].
  destruct H as [H1 H2]. destruct Hx as [->|Hx]; [exact H1|]. specialize (IH y x H2 Hx). lia.
Qed.

Lemma incr_weaken : forall l lo lo', incr lo l -> lo' <= lo -> incr lo' l.
Proof. intros [|y l] lo lo' H Hl; [exact I|]. destruct H as [H1 H2]. split; [lia|exact H2]. Qed.

Lemma insert_uniq_in x : forall l k, In k (insert_uniq x l) <-> k = x \/ In k l.
Proof.
  induction l as [|y l IH]; intros k; cbn [insert_uniq].
  - cbn [In]. split; intros [H|H]; auto.
  - destruct (N.ltb_spec x y) as [H|H].
    + cbn [In]. split; intros [K|K]; auto.
    + destruct (N.eqb_spec x y) as [E|E].
      * subst y. cbn [In]. split; [auto|]. intros [K|K]; [left; auto|exact K].
      * cbn [In]. rewrite IH. split; intros [K|[K|K]]; auto.
Qed.

Lemma insert_uniq_incr x : forall l lo, incr lo l -> lo < x -> incr lo (insert_uniq x l).
Proof.
  induction l as [|y l IH]; intros lo H Hx; cbn [insert_uniq].
  - split; [exact Hx|exact I].
  - destruct H as [H1 H2]. destruct (N.ltb_spec x y) as [K|K].
    + split; [exact Hx|]. split; [exact K|exact H2].
    + destruct (N.eqb_spec x y) as [E|E]; [split; assumption|].
      split; [exact H1|]. apply IH; [exact H2|lia].
Qed.

Lemma rel_cuts_incr start t : forall cuts, incr 0 (rel_cuts cuts start t).
Proof.
  induction cuts as [|x cuts IH]; [exact I|]. cbn [rel_cuts fold_right]. fold (rel_cuts cuts start t).
  destruct ((start <? x) && (x <? start + len t)) eqn:E; [|exact IH].
  apply andb_true_iff in E. destruct E as [E1 E2]. apply N.ltb_lt in E1.
  apply insert_uniq_incr; [exact IH|lia].
Qed.

Lemma rel_cuts_in start t : forall cuts k,
  In k (rel_cuts cuts start t) <-> 0 < k /\ k < len t /\ In (start + k) cuts.
Proof.
  induction cuts as [|x cuts IH]; intros k.
  - cbn [rel_cuts fold_right In]. split; [intros []|intros [_ [_ []]]].
  - cbn [rel_cuts fold_right]. fold (rel_cuts cuts start t).
    destruct ((start <? x) && (x <? start + len t)) eqn:E.
    + apply andb_true_iff in E. destruct E as [E1 E2]. apply N.ltb_lt in E1. apply N.ltb_lt in E2.
      rewrite insert_uniq_in, IH. cbn [In]. split.
      * intros [->|[K1 [K2 K3]]]; [|auto]. split; [lia|]. split; [lia|]. left. lia.
      * intros [K1 [K2 [K3|K3]]]; [left; lia|right; auto].
    + rewrite IH. cbn [In]. split; [intros [K1 [K2 K3]]; auto|].
      intros [K1 [K2 [K3|K3]]]; [|auto]. exfalso. subst x.
      apply andb_false_iff in E. destruct E as [E|E]; [apply N.ltb_ge in E|apply N.ltb_ge in E]; lia.
Qed.

(* ------------------------------------------------------------------ *)
(* the column in force at an offset of a chunk                         *)
(* ------------------------------------------------------------------ *)
Section ColK.
Variables (cnt : option text) (line : N) (t : text).

Definition cstep (p c k : N) : N :=
  let piece := slice p k t in
  if piece_match cnt line c piece then c + len piece else c.

Definition colH (prev col : N) (cuts : list N) (q : N) : N :=
  col_at (piece_cols cnt line t cuts prev col) q col.

Lemma colH_nil prev col q : colH prev col [] q = col.
Proof. reflexivity. Qed.

Lemma colH_cons prev col y cuts q :
  colH prev col (y :: cuts) q = if y <=? q then colH y (cstep prev col y) cuts q else col.
Proof. reflexivity. Qed.

Lemma colH_below prev col cuts q : (forall x, In x cuts -> q < x) -> colH prev col cuts q = col.
Proof.
  intros H. destruct cuts as [|y cuts]; [reflexivity|]. rewrite colH_cons.
  replace (y <=? q) with false; [reflexivity|]. symmetry. apply N.leb_gt. apply H. left. reflexivity.
Qed.

Lemma colH_walk : forall cuts prev col cpos, incr prev cuts -> (cpos = prev \/ In cpos cuts) ->
  (forall q, cpos <= q -> (forall x, In x cuts -> ~ (cpos < x /\ x <= q)) ->
     colH prev col cuts q = colH prev col cuts cpos) /\
  (forall k, In k cuts -> cpos < k -> (forall x, In x cuts -> ~ (cpos < x /\ x < k)) ->
     colH prev col cuts k = cstep cpos (colH prev col cuts cpos) k).
Proof.
  induction cuts as [|y cuts IH]; intros prev col cpos Hinc Hc.
  - split; [intros; reflexivity|intros k []].
  - destruct Hinc as [Hy Hinc].
    assert (Hab : forall x, In x cuts -> y < x) by (intros x Hx; apply (incr_above cuts y x Hinc Hx)).
    destruct Hc as [->|Hc].
    + (* the cursor is before the first cut *)
      assert (Hp : colH prev col (y :: cuts) prev = col).
      { apply colH_below. intros x [<-|Hx]; [exact Hy|]. specialize (Hab x Hx). lia. }
      split.
      * intros q Hq Hno. rewrite Hp. apply colH_below. intros x Hx.
        destruct (N.lt_ge_cases q x) as [K|K]; [exact K|]. exfalso. apply (Hno x Hx).
        split; [|exact K]. destruct Hx as [<-|Hx]; [exact Hy|]. specialize (Hab x Hx). lia.
      * intros k Hk Hlt Hno. rewrite Hp. destruct Hk as [<-|Hk].
        -- rewrite colH_cons, N.leb_refl. apply colH_below. exact Hab.
        -- exfalso. apply (Hno y (or_introl eq_refl)). specialize (Hab k Hk). lia.
    + (* the cursor is at the first cut or later *)
      assert (Hyc : y <= cpos).
      { destruct Hc as [<-|Hc]; [lia|]. specialize (Hab cpos Hc). lia. }
      assert (Hc' : cpos = y \/ In cpos cuts) by (destruct Hc as [<-|Hc]; auto).
      destruct (IH y (cstep prev col y) cpos Hinc Hc') as [I1 I2].
      assert (Hcp : colH prev col (y :: cuts) cpos = colH y (cstep prev col y) cuts cpos).
      { rewrite colH_cons. replace (y <=? cpos) with true by (symmetry; apply N.leb_le; exact Hyc). reflexivity. }
      split.
      * intros q Hq Hno. rewrite Hcp, colH_cons.
        replace (y <=? q) with true by (symmetry; apply N.leb_le; lia).
        apply I1; [exact Hq|]. intros x Hx. apply Hno. right. exact Hx.
      * intros k Hk Hlt Hno. rewrite Hcp, colH_cons.
        replace (y <=? k) with true by (symmetry; apply N.leb_le; lia).
        destruct Hk as [<-|Hk]; [lia|].
        apply I2; [exact Hk|exact Hlt|]. intros x Hx. apply Hno. right. exact Hx.
Qed.
End ColK.

(* ------------------------------------------------------------------ *)
(* contents: by index in the ReplaceSource, by file name in the reference *)
(* ------------------------------------------------------------------ *)
Lemma contents_of_events_app a b :
  contents_of_events (a ++ b) = contents_of_events a ++ contents_of_events b.
Proof.
  induction a as [|e a IH]; [reflexivity|].
  destruct e as [t m|i nm c|i nm]; cbn [app contents_of_events]; rewrite IH; reflexivity.
Qed.

Lemma lm_insert_next_gen {X} (d : X) (l : list X) (v : X) : lm_insert d l (len l) v = l ++ [v].
Proof. unfold lm_insert, len. rewrite Nat2N.id. apply lm_set_len. Qed.

Lemma contents_parallel : forall done S0 nn0 C0 acc,
  len C0 = len S0 -> dense done (len S0) (len nn0) = true ->
  (forall i nm, nth_opt S0 i = Some nm -> exists c, lm_get C0 i = Some c /\ In (nm, c) acc) ->
  forall i nm, nth_opt (fst (tabs done S0 nn0)) i = Some nm ->
    exists c, lm_get (ctab done C0) i = Some c /\ In (nm, c) (acc ++ contents_of_events done).
Proof.
  induction done as [|e done IH]; intros S0 nn0 C0 acc Hl Hd H0 i nm Hi.
  - cbn [tabs fst ctab contents_of_events] in *. rewrite app_nil_r. apply H0. exact Hi.
  - destruct e as [t m|j nm' c|j nm']; cbn [dense tabs ctab contents_of_events] in *;
      apply andb_true_iff in Hd; destruct Hd as [Hd1 Hd].
    + apply (IH S0 nn0 C0 acc Hl Hd H0 i nm Hi).
    + apply N.eqb_eq in Hd1. subst j. rewrite lm_insert_next in Hi.
      replace (lm_insert None C0 (len S0) c) with (C0 ++ [c])
        by (rewrite <- Hl; symmetry; apply lm_insert_next_gen).
      assert (Hl' : len (C0 ++ [c]) = len (S0 ++ [nm'])) by (rewrite !slen_snoc, Hl; reflexivity).
      rewrite <- (slen_snoc S0 nm') in Hd.
      destruct (IH (S0 ++ [nm']) nn0 (C0 ++ [c]) (acc ++ [(nm', c)]) Hl' Hd) with (i := i) (nm := nm) as [c' [K1 K2]].
      * intros i0 nm0 Hi0. destruct (N.lt_trichotomy i0 (len S0)) as [Lt|[Eq|Gt]].
        -- rewrite snth_app_l in Hi0 by exact Lt. destruct (H0 i0 nm0 Hi0) as [c0 [A1 A2]].
           exists c0. split; [|apply in_or_app; left; exact A2].
           unfold lm_get in *. rewrite snth_app_l by (rewrite Hl; exact Lt). exact A1.
        -- subst i0. rewrite snth_len_snoc in Hi0. inversion Hi0. subst nm0. exists c.
           split; [unfold lm_get; rewrite <- Hl; apply snth_len_snoc|apply in_or_app; right; left; reflexivity].
        -- rewrite snth_none in Hi0 by (rewrite slen_snoc; lia). discriminate.
      * exact Hi.
      * exists c'. split; [exact K1|]. rewrite <- app_assoc in K2. exact K2.
    + apply N.eqb_eq in Hd1. subst j. rewrite lm_insert_next in Hi. rewrite <- (slen_snoc nn0 nm') in Hd.
      apply (IH S0 (nn0 ++ [nm']) C0 acc Hl Hd H0 i nm Hi).
Qed.

Lemma consistent_lookup : forall l nm c, bindings_consistent l = true -> In (nm, c) l ->
  match find (fun p => text_eqb (fst p) nm) l with Some (_, c') => c' | None => None end = c.
Proof.
  induction l as [|[n0 c0] l IH]; intros nm c Hb Hin; [destruct Hin|].
  cbn [bindings_consistent] in Hb. apply andb_true_iff in Hb. destruct Hb as [Hb1 Hb2].
  cbn [find fst]. destruct (text_eqb n0 nm) eqn:E.
  - apply text_eqb_eq in E. subst n0. destruct Hin as [Hin|Hin]; [inversion Hin; reflexivity|].
    rewrite forallb_forall in Hb1. specialize (Hb1 (nm, c) Hin). cbn [fst snd] in Hb1.
    rewrite text_eqb_refl in Hb1. cbn [negb orb] in Hb1. apply opt_text_eqb_eq in Hb1. symmetry. exact Hb1.
  - destruct Hin as [Hin|Hin].
    + inversion Hin. subst. rewrite text_eqb_refl in E. discriminate.
    + apply IH; assumption.
Qed.

(* the content the ReplaceSource holds for the source index of a chunk is the content the
   reference looks up by the file name *)
Lemma chunk_content ievs done rest i :
  ievs = done ++ rest -> dense ievs 0 0 = true -> bindings_consistent (contents_of_events ievs) = true ->
  i < len (fst (tabs done [] [])) ->
  exists nm, nth_opt (fst (tabs done [] [])) i = Some nm /\
    lm_get (ctab done []) i = Some (content_of ievs nm).
Proof.
  intros Hi Hd Hb Hlt. destruct (snth_lt_some _ _ Hlt) as [nm Hnm]. exists nm. split; [exact Hnm|].
  assert (Hd' : dense done (len (@nil text)) (len (@nil text)) = true).
  { rewrite Hi in Hd. apply (dense_split done rest [] []) in Hd. apply Hd. }
  destruct (contents_parallel done [] [] [] [] eq_refl Hd') with (i := i) (nm := nm) as [c [K1 K2]].
  - intros i0 nm0 H0. rewrite snth_nil in H0. discriminate.
  - exact Hnm.
  - rewrite K1. f_equal. symmetry. unfold content_of. apply consistent_lookup; [exact Hb|].
    rewrite Hi, contents_of_events_app. apply in_or_app. left. exact K2.
Qed.

(* ------------------------------------------------------------------ *)
(* u32 columns: a matched piece lies inside a line of the content        *)
(* ------------------------------------------------------------------ *)
Definition contents_small (evs : list event) : bool :=
  forallb (fun p => match snd p with Some c => len c <? two32 | None => true end) (contents_of_events evs).

Lemma char_starts_ge : forall t i k o, nth_opt (char_starts t i) k = Some o -> i + k <= o.
Proof.
  induction t as [|b t IH]; intros i k o H; cbn [char_starts] in H.
  - rewrite snth_nil in H. discriminate.
  - destruct (is_cont b).
    + apply IH in H. lia.
    + destruct (N.eq_dec k 0) as [->|Hk].
      * rewrite snth_0 in H. inversion H. lia.
      * rewrite snth_pos in H by lia. apply IH in H. lia.
Qed.

Lemma is_prefix_len' : forall p t, is_prefix p t = true -> len p <= len t.
Proof.
  induction p as [|x p IH]; intros t H; [rewrite slen_nil; lia|].
  destruct t as [|y t]; [discriminate|]. cbn [is_prefix] in H.
  apply andb_true_iff in H. destruct H as [_ H]. apply IH in H. rewrite !slen_cons. lia.
Qed.

Lemma substring_match_bound (l piece : text) (col : N) :
  piece <> [] -> is_prefix piece (substring l col None) = true -> col + len piece <= len l.
Proof.
  intros Hne H. unfold substring in H.
  destruct (N.leb_spec (len l + 1) col) as [K|K].
  - destruct piece; [contradiction|discriminate].
  - apply is_prefix_len' in H. unfold slice in H. rewrite len_take, len_drop in H.
    assert (Hc : col <= char_offset l col).
    { unfold char_offset. destruct (nth_opt (char_starts l 0) col) as [o|] eqn:E; [|lia].
      apply char_starts_ge in E. lia. }
    lia.
Qed.

Lemma in_concat_len {X} (l : list X) : forall ls, In l ls -> len l <= len (concat ls).
Proof.
  induction ls as [|x ls IH]; intros H; [destruct H|]. cbn [concat]. rewrite len_app.
  destruct H as [->|H]; [lia|]. specialize (IH H). lia.
Qed.

Lemma piece_match_bound (c piece : text) (line col : N) :
  piece <> [] -> piece_match (Some c) line col piece = true -> col + len piece <= len c.
Proof.
  intros Hne H. unfold piece_match in H. destruct (line =? 0); [discriminate|].
  destruct (nth_opt (split_lines c) (line - 1)) as [l|] eqn:E; [|discriminate].
  pose proof (substring_match_bound l piece col Hne H) as K.
  assert (Hin : In l (split_lines c)) by (unfold nth_opt in E; eapply nth_error_In; exact E).
  pose proof (in_concat_len l (split_lines c) Hin) as K2. rewrite concat_split_lines in K2. lia.
Qed.

Lemma content_small_in ievs nm c : contents_small ievs = true -> bindings_consistent (contents_of_events ievs) = true ->
  content_of ievs nm = Some c -> len c < two32.
Proof.
  intros Hs _ H. unfold content_of in H.
  destruct (find (fun p => text_eqb (fst p) nm) (contents_of_events ievs)) as [[n0 c0]|] eqn:E; [|discriminate].
  subst c0. apply find_some in E. destruct E as [E _].
  unfold contents_small in Hs. rewrite forallb_forall in Hs. specialize (Hs _ E). cbn [snd] in Hs.
  apply N.ltb_lt. exact Hs.
Qed.

(* check_content is piece_match on the content held for the source index *)
Lemma check_content_match st o cnt piece :
  lm_get (rs_contents st) (o_src o) = Some cnt ->
  check_content st o piece = piece_match cnt (o_line o) (o_col o) piece.
Proof.
  intros H. unfold check_content, piece_match. rewrite H. destruct cnt as [c|]; reflexivity.
Qed.

(* ------------------------------------------------------------------ *)
(* the obligations of one chunk, for the full attribution               *)
(* ------------------------------------------------------------------ *)
Definition ocol (o : orig) (c : N) : orig := mkOrig (o_src o) (o_line o) c (o_name o).

Lemma ocol_self o : ocol o (o_col o) = o.
Proof. destruct o; reflexivity. Qed.

Lemma res_ocol S Nn o c : res S Nn (Some (ocol o c)) = attr_with_col (res S Nn (Some o)) c.
Proof. reflexivity. Qed.

Lemma chunk_battr_colH ievs cuts start t l q :
  chunk_battr ievs cuts start t (Some l) q
  = attr_with_col (Some l)
      (colH (content_of ievs (l_file l)) (l_line l) t 0 (l_col l) (rel_cuts cuts start t) q).
Proof.
  unfold chunk_battr, chunk_pcs, colH. cbn [col_at].
  replace (0 <=? q) with true by (symmetry; apply N.leb_le; lia). reflexivity.
Qed.

Lemma chunk_ob_full ievs rs done t m todo pre :
  ievs = done ++ EChunk (Some t) m :: todo -> Reass done pre ->
  dense ievs 0 0 = true -> bindings_consistent (contents_of_events ievs) = true ->
  contents_small ievs = true ->
  ChunkOb (fun a : attr => a) (bfun (ref_table ievs rs)) (cuts_from (ref_len ievs) (sort_repls rs) 0)
          (len pre) t (m_orig m) (fst (tabs done [] [])) (snd (tabs done [] [])) (ctab done []).
Proof.
  intros Hi HRd Hd Hb Hs.
  set (S := fst (tabs done [] [])). set (Nn := snd (tabs done [] [])).
  set (cuts := cuts_from (ref_len ievs) (sort_repls rs) 0).
  pose proof (dense_chunk_idx ievs done t m todo Hi Hd) as Hidx. fold S Nn in Hidx.
  pose proof (ref_table_chunk ievs rs done t m todo pre) as HT. fold S Nn cuts in HT.
  destruct (m_orig m) as [o0|] eqn:Eo.
  2:{ exists (fun _ mo => mo = None). split; [reflexivity|]. split; [intros cpos mo ->; exact I|]. split.
      - intros st cpos k mo _ -> _ _ _ _. reflexivity.
      - intros cpos k mo q -> Hk Hk' _ Hq Hq'. rewrite (HT q Hi HRd) by lia. reflexivity. }
  destruct Hidx as [Hsrc Hname].
  destruct (chunk_content ievs done (EChunk (Some t) m :: todo) (o_src o0) Hi Hd Hb Hsrc) as [nm [Hnm Hcnt]].
  fold S in Hnm.
  set (cnt := content_of ievs nm) in *.
  set (rel := rel_cuts cuts (len pre) t).
  set (colK := colH cnt (o_line o0) t 0 (o_col o0) rel).
  pose proof (rel_cuts_incr (len pre) t cuts) as Hinc. fold rel in Hinc.
  (* what the reference says about the bytes of this chunk *)
  assert (HB : forall q, q < len t ->
            bfun (ref_table ievs rs) (len pre + q) = attr_with_col (res S Nn (Some o0)) (colK q)).
  { intros q Hq. rewrite (HT q Hi HRd Hq).
    assert (Hres : res S Nn (Some o0) = Some (mkLoc nm (o_line o0) (o_col o0)
                     (match o_name o0 with
                      | Some k => Some (match nth_opt Nn k with Some x => x | None => BAD end)
                      | None => None end))).
    { unfold res. rewrite Hnm. reflexivity. }
    rewrite Hres, chunk_battr_colH. reflexivity. }
  exists (fun cpos mo => (cpos = 0 \/ In cpos rel) /\ mo = Some (ocol o0 (colK cpos))).
  split; [|split; [|split]].
  - (* the cursor starts with the chunk's own column *)
    split; [left; reflexivity|].
    assert (H0 : colK 0 = o_col o0).
    { apply colH_below. intros x Hx. apply (incr_above rel 0 x Hinc Hx). }
    rewrite H0, ocol_self. reflexivity.
  - intros cpos mo [_ ->]. split; [exact Hsrc|exact Hname].
  - (* a cut: the column is re-based exactly when the reference re-bases it *)
    intros st cpos k mo HC [Hcp ->] Hk Hk' Hin Hno.
    assert (Hkrel : In k rel) by (apply rel_cuts_in; split; [lia|split; [exact Hk'|exact Hin]]).
    assert (Hnorel : forall x, In x rel -> ~ (cpos < x /\ x < k)).
    { intros x Hx [X1 X2]. apply rel_cuts_in in Hx. destruct Hx as [_ [_ Hx]]. apply (Hno _ Hx). lia. }
    destruct (colH_walk cnt (o_line o0) t rel 0 (o_col o0) cpos Hinc Hcp) as [_ W].
    specialize (W k Hkrel Hk Hnorel). fold colK in W.
    split; [right; exact Hkrel|].
    unfold adv_col.
    rewrite (check_content_match st (ocol o0 (colK cpos)) cnt) by (rewrite HC; exact Hcnt).
    cbn [ocol o_src o_line o_col o_name]. unfold cstep in W. cbn zeta in W.
    destruct (piece_match cnt (o_line o0) (colK cpos) (slice cpos k t)) eqn:EM.
    + assert (Hne : slice cpos k t <> []).
      { intros E. assert (K : len (slice cpos k t) = k - cpos) by (apply len_slice; lia).
        rewrite E, len_nil in K. lia. }
      destruct cnt as [c|] eqn:Ec; [|discriminate].
      pose proof (piece_match_bound c _ _ _ Hne EM) as Bd.
      pose proof (content_small_in ievs nm c Hs Hb Ec) as Sm.
      rewrite wrap32_small by lia. rewrite W. reflexivity.
    + rewrite W. reflexivity.
  - (* between two cuts the column does not change *)
    intros cpos k mo q [Hcp ->] Hk Hk' Hno Hq Hq'.
    rewrite (HB q) by lia. rewrite res_ocol. f_equal.
    destruct (colH_walk cnt (o_line o0) t rel 0 (o_col o0) cpos Hinc Hcp) as [W _].
    symmetry. apply W; [exact Hq|].
    intros x Hx [X1 X2]. apply rel_cuts_in in Hx. destruct Hx as [_ [_ Hx]]. apply (Hno _ Hx). lia.
Qed.

(* ------------------------------------------------------------------ *)
(* R3 (and R2): the stream attributes every byte as the reference does   *)
(* ------------------------------------------------------------------ *)
Theorem replace_attr_full (rs : list repl) (ievs : list event) (T : text) (gi : N * N) :
  Forall (fun r => r_start r <= r_end r) rs ->
  reassembles ievs T = true -> no_empty_chunks ievs = true -> dense ievs 0 0 = true ->
  bindings_consistent (contents_of_events ievs) = true -> contents_small ievs = true ->
  attr_of_stream (fst (replace_stream (sort_repls rs) ievs gi)) true = replace_reference ievs rs /\
  dense (fst (replace_stream (sort_repls rs) ievs gi)) 0 0 = true /\
  no_empty_chunks (fst (replace_stream (sort_repls rs) ievs gi)) = true.
Proof.
  intros Hord HR Hne Hd Hb Hs. apply reassembles_iff in HR.
  rewrite reference_aspl.
  assert (Law : forall r a, cfull r ((fun x : attr => x) a) = map (fun x : attr => x) (cfull r a)).
  { intros r a. rewrite map_id. reflexivity. }
  assert (Bend : forall p, ref_len ievs <= p -> bfun (ref_table ievs rs) p = (fun x : attr => x) None).
  { intros p Hp. apply ref_table_past. exact Hp. }
  pose proof (replace_stream_attr (fun x : attr => x) (bfun (ref_table ievs rs)) cfull (ref_len ievs)
                (cuts_from (ref_len ievs) (sort_repls rs) 0) Law Bend ievs
                (fun done t m todo pre Hi HRd => chunk_ob_full ievs rs done t m todo pre Hi HRd Hd Hb Hs)
                (sort_repls rs) T gi (sort_repls_ordered rs Hord) HR (ref_len_text ievs T HR) Hne Hd eq_refl)
    as [K1 K2].
  rewrite map_id in K1. split; assumption.
Qed.

(* the comparison of the checker's clause 4 *)
Corollary replace_attr_full_chk (rs : list repl) (ievs : list event) (T : text) (gi : N * N) :
  Forall (fun r => r_start r <= r_end r) rs ->
  reassembles ievs T = true -> no_empty_chunks ievs = true -> dense ievs 0 0 = true ->
  bindings_consistent (contents_of_events ievs) = true -> contents_small ievs = true ->
  list_eqb_attr attr_eqb (attr_of_stream (fst (replace_stream (sort_repls rs) ievs gi)) true)
                         (replace_reference ievs rs) = true.
Proof.
  intros H1 H2 H3 H4 H5 H6. destruct (replace_attr_full rs ievs T gi H1 H2 H3 H4 H5 H6) as [E _].
  rewrite E. apply list_eqb_attr_refl. apply attr_eqb_refl.
Qed.

(* R2: (file, line, column) *)
Definition flc (a : attr) : option (text * N * N) := option_map (fun l => (l_file l, l_line l, l_col l)) a.

Corollary replace_attr_columns (rs : list repl) (ievs : list event) (T : text) (gi : N * N) :
  Forall (fun r => r_start r <= r_end r) rs ->
  reassembles ievs T = true -> no_empty_chunks ievs = true -> dense ievs 0 0 = true ->
  bindings_consistent (contents_of_events ievs) = true -> contents_small ievs = true ->
  map flc (attr_of_stream (fst (replace_stream (sort_repls rs) ievs gi)) true)
  = map flc (replace_reference ievs rs).
Proof.
  intros H1 H2 H3 H4 H5 H6. destruct (replace_attr_full rs ievs T gi H1 H2 H3 H4 H5 H6) as [E _].
  rewrite E. reflexivity.
Qed.

(* the consistency of file contents cannot be dropped: two source indices announcing the same
   file name with different contents make the column test of the stream (content by index) and of
   the reference (content by name) disagree *)
Example replace_attr_columns_inconsistent_counterexample :
  let ievs := [ESource 0 [102] (Some [97;98]); ESource 1 [102] (Some [120;121]);
               EChunk (Some [120;121]) (mkMapping 1 0 (Some (mkOrig 1 1 0 None)))] in
  let rs := [mkRepl 1 1 [88] None 1] in
  reassembles ievs [120;121] = true /\ dense ievs 0 0 = true /\ no_empty_chunks ievs = true /\
  contents_small ievs = true /\
  bindings_consistent (contents_of_events ievs) = false /\
  map fl (attr_of_stream (fst (replace_stream (sort_repls rs) ievs (1, 2))) true)
  = map fl (replace_reference ievs rs) /\
  map flc (attr_of_stream (fst (replace_stream (sort_repls rs) ievs (1, 2))) true)
  <> map flc (replace_reference ievs rs).
Proof. repeat split; try reflexivity. vm_compute. discriminate. Qed.

(* Full statements asked for (FALSE of the model as written, for inner streams merely in the good
   class): R2/R3 without no_empty_chunks (ReplAttrOrigin.replace_attr_origin_empty_chunk_counterexample)
   and without bindings_consistent (counterexample above).  contents_small is the u32 arithmetic of
   the Rust code: `original_column + chunk length` is computed in u32, the reference in unbounded N.
     forall rs ievs T gi, Forall (fun r => r_start r <= r_end r) rs ->
       reassembles ievs T = true -> well_positioned (chunks_of ievs) 1 0 = true ->
       chunks_nl_last ievs = true -> dense ievs 0 0 = true -> ascii T = true ->
       list_eqb_attr attr_eqb (attr_of_stream (fst (replace_stream (sort_repls rs) ievs gi)) true)
                              (replace_reference ievs rs) = true. *)
Definition C06_replace_columns_partial := replace_attr_columns.
Definition C06_replace_full_partial := replace_attr_full_chk.

Print Assumptions replace_attr_full.
Print Assumptions replace_attr_full_chk.
Print Assumptions replace_attr_columns.
