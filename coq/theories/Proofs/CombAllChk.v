(* C09, whole stream, part 7: T3 - the checker `chk_C09` accepts the model's own observations.
   Columns = true: clauses 1 and 3 (this file, `chk_C09_cols`). *)
From RS Require Import Base.Prelude Base.Text Rope.RopeModel Codec.Vlq Codec.CodecSpec
  Checkers.ChkCodec Stream.Types Stream.Leaves Stream.Combined Stream.Tree Api.ApiTree Sem.Attr
  Checkers.ChkTree Checkers.ChkCombined
  Proofs.CodecKept Proofs.StreamText Proofs.StreamLeaves Proofs.StreamMap Proofs.WfStream Proofs.AttrCodec Proofs.AttrSms
  Proofs.CombSearch Proofs.CombPass Proofs.CombRows Proofs.CombReach Proofs.CacheReplay Proofs.FinalConcat Proofs.FinalTree
  Proofs.CombAllSpec Proofs.CombAllInner Proofs.CombAllRun Proofs.CombAllStep Proofs.CombAllStream
  Proofs.CombAllT12 Proofs.CombAllLookup.
Require Import Lia List ZArith.

Local Open Scope N_scope.

(* ------------------------------------------------------------------ *)
(* generic facts                                                       *)
(* ------------------------------------------------------------------ *)
(* looking up in a segment list whose attributions are a function of the origin *)
Lemma seg_lookup_mapG (G : option orig -> attr) : forall ms l c best,
  seg_lookup (map (fun mp => (g_line mp, g_col mp, G (m_orig mp))) ms) l c (G (oo best)) =
  G (oo (lookup_from ms l c best)).
Proof.
  induction ms as [|m ms IH]; intros l c best; [reflexivity|].
  cbn [map seg_lookup lookup_from]. destruct ((g_line m =? l) && (g_col m <=? c)).
  - apply (IH l c (Some m)).
  - apply IH.
Qed.

(* the files of the chunks of a run are in its final table *)
Lemma run_files evs S N S' N' : run evs S N S' N' ->
  Forall (fun r : option text * rseg => match snd (snd r) with Some l => In (l_file l) S' | None => True end)
         (rsegs_of_events evs S N).
Proof.
  induction 1 as [S N|s c evs S N S' N' _ IH|n evs S N S' N' _ IH|t mp evs S N S' N' Ho Hr IH].
  - constructor.
  - cbn [rsegs_of_events]. rewrite lm_insert_at_len. exact IH.
  - cbn [rsegs_of_events]. rewrite lm_insert_at_len. exact IH.
  - cbn [rsegs_of_events]. constructor; [|exact IH]. cbn [snd].
    destruct (m_orig mp) as [o|]; [|exact I]. cbn [l_file]. cbn [orig_ok] in Ho. destruct Ho as [H1 _].
    destruct (cs_nth_opt_some S (o_src o) H1) as [s Hs]. rewrite Hs.
    destruct (run_ext _ _ _ _ _ Hr) as [es [en [E1 _]]]. rewrite E1. apply in_or_app. left.
    apply (In_nth_opt _ _ _ Hs).
Qed.

Fixpoint check_fun (adm : N -> N -> attr -> bool) (t : text) (attrs : list attr) (l c : N) : bool :=
  match t, attrs with
  | b :: t', a :: attrs' =>
    adm l c a && (if b =? NL then check_fun adm t' attrs' (l + 1) 0 else check_fun adm t' attrs' l (c + 1))
  | [], [] => true
  | _, _ => false
  end.

Lemma check_fun_by_fun adm g t : forall l c,
  (forall l' c', ple (l, c) (l', c') -> plt (l', c') (advance l c t) -> adm l' c' (g l' c') = true) ->
  check_fun adm t (attr_by_fun g t l c) l c = true.
Proof.
  induction t as [|b t IH]; intros l c H; [reflexivity|]. cbn [attr_by_fun check_fun].
  rewrite (H l c (ple_refl _) (advance_plt b t l c)). cbn [andb]. cbn [advance] in H.
  destruct (b =? NL).
  - apply IH. intros l' c' H1 H2. apply H; [|exact H2].
    eapply ple_trans; [|exact H1]. unfold ple. cbn [fst snd]. lia.
  - apply IH. intros l' c' H1 H2. apply H; [|exact H2].
    eapply ple_trans; [|exact H1]. unfold ple. cbn [fst snd]. lia.
Qed.

Lemma check_bytes_fun cols outer inner nm original remove res osegs : forall t attrs l c,
  check_bytes cols outer inner nm original remove res osegs t attrs l c =
  check_fun (fun l c a =>
               admissible cols outer inner nm original remove res
                 (if cols then lookup_from osegs l c None
                  else match first_mapped osegs l with
                       | Some _ => find (fun mp => (g_line mp =? l) && match m_orig mp with Some _ => true | None => false end) osegs
                       | None => None end) a) t attrs l c.
Proof.
  induction t as [|b t IH]; intros attrs l c; destruct attrs as [|a attrs]; try reflexivity.
  cbn [check_bytes check_fun]. rewrite !IH. reflexivity.
Qed.

Lemma nodup_texts_c_iff l : NoDup l -> nodup_texts_c l = true.
Proof.
  induction 1 as [|x l Hx _ IH]; [reflexivity|]. cbn [nodup_texts_c]. rewrite IH, andb_true_r.
  apply negb_true_iff. destruct (existsb (text_eqb x) l) eqn:E; [|reflexivity].
  apply existsb_exists in E. destruct E as [y [Hy Hxy]]. apply text_eqb_eq in Hxy. subst y. contradiction.
Qed.

(* ------------------------------------------------------------------ *)
(* contents of the result map                                           *)
(* ------------------------------------------------------------------ *)
Lemma content_eqv_sym a b : content_eqv a b = true -> content_eqv b a = true.
Proof.
  unfold content_eqv. intros H. apply opt_text_eqb_eq in H. rewrite H. apply opt_text_eqb_refl.
Qed.

Lemma content_eqv_trans a b c : content_eqv a b = true -> content_eqv b c = true -> content_eqv a c = true.
Proof.
  unfold content_eqv. intros H1 H2. apply opt_text_eqb_eq in H1. apply opt_text_eqb_eq in H2.
  rewrite H1, H2. apply opt_text_eqb_refl.
Qed.

Definition files_consistent (F : list (text * option text)) : Prop :=
  forall p q, In p F -> In q F -> fst p = fst q -> content_eqv (snd p) (snd q) = true.

Definition res_ok (F : list (text * option text)) (res : smap) : Prop :=
  NoDup (sm_sources res) /\
  forall g file, nth_opt (sm_sources res) g = Some file ->
    exists c, In (file, c) F /\ content_eqv (content_in res g) c = true.

Lemma find_text_complete tbl t : forall i, In t tbl -> exists g, find_text tbl t i = Some g.
Proof.
  induction tbl as [|x tbl IH]; intros i H; [destruct H|]. cbn [find_text].
  destruct (text_eqb x t) eqn:E; [eexists; reflexivity|]. destruct H as [H|H].
  - subst x. rewrite text_eqb_refl in E. discriminate.
  - apply IH. exact H.
Qed.

Lemma map_content_ok F res file c' :
  res_ok F res -> files_consistent F -> In file (sm_sources res) -> In (file, c') F ->
  content_eqv (map_content res file) c' = true.
Proof.
  intros [Hn Hc] Hf Hin Hin'. unfold map_content.
  destruct (find_text_complete _ _ 0 Hin) as [g Hg]. rewrite Hg.
  apply find_text_sound0 in Hg. destruct Hg as [Hg _].
  destruct (Hc g file Hg) as [c [C1 C2]].
  eapply content_eqv_trans; [exact C2|]. apply (Hf (file, c) (file, c') C1 Hin' eq_refl).
Qed.

Lemma res_ok_empty F : res_ok F empty_map.
Proof. split; [constructor|]. intros g file H. cbn in H. rewrite nth_opt_nil in H. discriminate. Qed.

(* the tables of map_of_events on a run *)
Lemma res_ok_run F evs S' N' cols r :
  run evs [] [] S' N' -> NoDup S' -> Forall (fun p => In p F) (contents_of_events evs) ->
  map_of_events cols evs = Some r -> res_ok F r /\ sm_sources r = S'.
Proof.
  intros Hr Hn Hf Hm. unfold map_of_events in Hm.
  destruct (is_nil (encode_mappings cols (chunk_mappings evs))); [discriminate|]. inversion Hm. subst r. clear Hm.
  cbn [sm_sources sm_contents].
  destruct (run_tables _ _ _ _ _ Hr (mkT [] [] []) [] eq_refl eq_refl eq_refl) as (T1 & T2 & T3).
  { split; [cbn; lia|]. intros g p H. rewrite nth_opt_nil in H. discriminate. }
  cbn [app] in T3. split; [|exact T1]. unfold res_ok. cbn [sm_sources sm_contents]. rewrite T1.
  split; [exact Hn|]. intros g file Hg. destruct T3 as [_ T3].
  pose proof (run_sources _ _ _ _ _ Hr) as Hs. cbn [app] in Hs.
  assert (Hp : exists c, nth_opt (contents_of_events evs) g = Some (file, c)).
  { rewrite Hs, snth_map in Hg. destruct (nth_opt (contents_of_events evs) g) as [[f' c]|]; [|discriminate].
    inversion Hg. subst. exists c. reflexivity. }
  destruct Hp as [c Hp]. exists c. split.
  - rewrite Forall_forall in Hf. apply Hf. apply (In_nth_opt _ _ _ Hp).
  - unfold content_in. cbn [sm_contents]. apply (T3 g (file, c) Hp).
Qed.

(* ------------------------------------------------------------------ *)
(* the reference accepts resolve_combined, position by position          *)
(* ------------------------------------------------------------------ *)
Section Adm.
Variables (m im : smap) (name : text) (given : option text) (remove : bool) (res : smap).

Notation RC := (resolve_combined true m im name given remove).
Notation FILESv := (FILES m im name given).

Hypothesis Hin : forall ot, original_of m name given = Some ot -> ascii ot = true /\ map_consistent ot im = true.
Hypothesis Hfc : files_consistent FILESv.
Hypothesis Hres : res_ok FILESv res.
Hypothesis Hnn : Forall (fun n : text => n <> []) (sm_names m).

Lemma name_orig_in_FILES : In (name, original_of m name given) FILESv.
Proof. unfold FILES. apply in_or_app. right. apply in_or_app. right. left. reflexivity. Qed.

Lemma fallback_adm l o :
  l_file l = name -> l_line l = o_line o -> l_col l = o_col o -> l_name l = name_of m o ->
  (match rc_fallback name remove l with Some l' => In (l_file l') (sm_sources res) | None => True end) ->
  (if remove then match rc_fallback name remove l with None => true | Some _ => false end
   else match rc_fallback name remove l with
        | Some l0 =>
          text_eqb (l_file l0) name && (l_line l0 =? o_line o)
          && ((l_col l0 =? o_col o) && (is_none (l_name l0) || opt_eqb text_eqb (l_name l0) (name_of m o)))
          && content_eqv (map_content res name) (original_of m name given)
        | None => false
        end) = true.
Proof.
  intros H1 H2 H3 H4 Hf. unfold rc_fallback in *. destruct remove; [reflexivity|].
  cbn [l_file l_line l_col l_name] in *. rewrite H2, H3, H4, text_eqb_refl, !N.eqb_refl, opt_text_eqb_refl, orb_true_r.
  cbn [andb]. apply (map_content_ok FILESv res name _ Hres Hfc Hf name_orig_in_FILES).
Qed.

Lemma inner_pair_in_FILES io : o_src io < len (sm_sources im) ->
  In (ChkCombined.file_of im io, content_in im (o_src io)) FILESv.
Proof.
  intros H. destruct (ISfull_nth im (o_src io) H) as [s [H1 H2]].
  unfold FILES. apply in_or_app. right. apply in_or_app. left.
  unfold ChkCombined.file_of. rewrite H1. apply (In_nth_opt _ _ _ H2).
Qed.

(* the name of a resolved chunk that is the outer name: the original text at the resolved
   position is that name *)
Lemma outer_name_adm l o io col :
  l_name l = name_of m o ->
  (match o_name o with Some n => n < len (sm_names m) | None => True end) ->
  let nm' := match l_name l, rc_lines im io with
             | Some on, Some _ =>
               let found := match rc_line im io with
                            | Some ln => substring ln col (Some (col + len on))
                            | None => [] end in
               if text_eqb on found then Some on else None
             | _, _ => None
             end in
  is_none nm' || opt_eqb text_eqb nm' (name_of im io)
  || (opt_eqb text_eqb nm' (name_of m o)
      && match nm' with Some nm => text_at (content_in im (o_src io)) (o_line io) col nm | None => false end) = true.
Proof.
  intros Hl Hr nm'. subst nm'. destruct (l_name l) as [on|] eqn:El; [|reflexivity].
  unfold rc_line, rc_lines. destruct (content_in im (o_src io)) as [c0|] eqn:Ec; [|reflexivity]. cbv zeta.
  match goal with |- context [text_eqb on ?z] => destruct (text_eqb on z) eqn:Et end; [|reflexivity].
  apply text_eqb_eq in Et.
  assert (Hne : on <> []).
  { unfold name_of in Hl. destruct (o_name o) as [n|]; [|discriminate]. inversion Hl as [Q].
    destruct (cs_nth_opt_some (sm_names m) n Hr) as [s Hs]. rewrite Hs.
    rewrite Forall_forall in Hnn. apply Hnn. apply (In_nth_opt _ _ _ Hs). }
  cbn [is_none orb]. rewrite <- Hl, opt_text_eqb_refl. cbn [andb].
  assert (Q : text_at (Some c0) (o_line io) col on = true).
  { unfold text_at. destruct (o_line io =? 0).
    - exfalso. apply Hne. exact Et.
    - destruct (nth_opt (split_lines c0) (o_line io - 1)) as [l0|].
      + rewrite <- Et. apply text_eqb_refl.
      + exfalso. apply Hne. exact Et. }
  rewrite Q. apply orb_true_r.
Qed.

Lemma resolved_adm l o x mpi io sg :
  l_col l = o_col o -> l_name l = name_of m o ->
  (match o_name o with Some n => n < len (sm_names m) | None => True end) ->
  g_col sg <= g_col mpi -> g_col mpi <= o_col o -> o_src io < len (sm_sources im) ->
  In (ChkCombined.file_of im io) (sm_sources res) ->
  let l' := rc_row im l x mpi io in
  text_eqb (l_file l') (ChkCombined.file_of im io) && (l_line l' =? o_line io)
  && ((o_col io <=? l_col l') && (l_col l' <=? o_col io + (o_col o - g_col sg))
      && (is_none (l_name l') || opt_eqb text_eqb (l_name l') (name_of im io)
          || (opt_eqb text_eqb (l_name l') (name_of m o)
              && match l_name l' with
                 | Some nm => text_at (content_in im (o_src io)) (o_line io) (l_col l') nm
                 | None => false end)))
  && content_eqv (map_content res (ChkCombined.file_of im io)) (content_in im (o_src io)) = true.
Proof.
  intros Hc Hn Hr H1 H2 H3 Hf l'. subst l'. unfold rc_row. cbn [l_file l_line l_col l_name].
  rewrite text_eqb_refl, N.eqb_refl. cbn [andb].
  rewrite (map_content_ok FILESv res _ _ Hres Hfc Hf (inner_pair_in_FILES io H3)), andb_true_r.
  apply andb_true_iff. split.
  - rewrite Hc. unfold rc_col. destruct (rc_adv im (o_col o) x mpi io);
      apply andb_true_iff; split; apply N.leb_le; lia.
  - unfold rc_name. destruct (rc_adv im (l_col l) x mpi io).
    + apply (outer_name_adm l o io _ Hn Hr).
    + destruct (o_name io) as [n|] eqn:En.
      * unfold name_of. rewrite En. destruct (nth_opt (sm_names im) n) as [s|]; [|reflexivity].
        cbn [is_none orb opt_eqb]. rewrite text_eqb_refl. reflexivity.
      * apply (outer_name_adm l o io _ Hn Hr).
Qed.


Lemma outer_pair_in_FILES o : o_src o < len (sm_sources m) -> ChkCombined.file_of m o <> name ->
  In (ChkCombined.file_of m o, content_in m (o_src o)) FILESv.
Proof.
  intros H Hne. destruct (cs_nth_opt_some _ _ H) as [s Hs].
  assert (Hp : nth_opt (SPfull m) (o_src o) = Some (get_source m s, content_in m (o_src o))).
  { unfold SPfull. rewrite src_pairs_nth, Hs, N.add_0_l. reflexivity. }
  unfold FILES. apply in_or_app. left. apply filter_In. unfold ChkCombined.file_of in *. rewrite Hs in *.
  split; [apply (In_nth_opt _ _ _ Hp)|]. cbn [fst]. rewrite (text_eqb_false _ _ Hne). reflexivity.
Qed.

Theorem adm_point mp o :
  m_orig mp = Some o -> o_src o < len (sm_sources m) ->
  (match o_name o with Some n => n < len (sm_names m) | None => True end) ->
  (match RC (Some (resolve_map m o)) with Some l' => In (l_file l') (sm_sources res) | None => True end) ->
  admissible true m im name (original_of m name given) remove res (Some mp) (RC (Some (resolve_map m o))) = true.
Proof.
  intros Eo Hs Hn Hfile. unfold admissible. rewrite Eo.
  set (l := resolve_map m o) in *.
  change (ChkCombined.file_of m o) with (l_file l).
  cbn [resolve_combined] in *. destruct (text_eqb (l_file l) name) eqn:Efn; cbn [negb].
  2: { (* another source: unchanged *)
    change (l_line l) with (o_line o). change (l_col l) with (o_col o). change (l_name l) with (name_of m o).
    rewrite text_eqb_refl, !N.eqb_refl, opt_text_eqb_refl. cbn [andb].
    apply (map_content_ok FILESv res _ _ Hres Hfc Hfile). apply outer_pair_in_FILES; [exact Hs|].
    intros Q. change (ChkCombined.file_of m o) with (l_file l) in Q. rewrite Q, text_eqb_refl in Efn. discriminate. }
  apply text_eqb_eq in Efn.
  assert (A1 : l_line l = o_line o) by reflexivity. assert (A2 : l_col l = o_col o) by reflexivity.
  assert (A3 : l_name l = name_of m o) by reflexivity.
  pose proof (fallback_adm l o Efn A1 A2 A3) as FB.
  unfold rc_inner in *. revert Hfile FB. case_eq (original_of m name given); [intros ot Eorig|intros Eorig]; intros Hfile FB.
  2: { cbn [negb]. apply (FB Hfile). }
  destruct (Hin ot Eorig) as [Hasc Hcons].
  match goal with |- (if negb ?g then _ else _) = true => destruct g eqn:EG end; cbn [negb]; [|reflexivity].
  assert (Hreal : real (split_lines ot) (o_line o, o_col o)).
  { unfold real, line_at. cbn [fst snd].
    destruct (if o_line o =? 0 then None else nth_opt (split_lines ot) (o_line o - 1)) as [ln|]; [|discriminate].
    exists ln. split; [reflexivity|apply N.ltb_lt; exact EG]. }
  destruct (inner_chunk_lookup ot im (o_line o) (o_col o) Hasc Hcons Hreal) as (x & mpi & E1 & E2 & E3 & E4).
  rewrite A1, A2, E1 in *. unfold lookup in E3.
  destruct (lookup_from (decode_mappings (sm_mappings im)) (o_line o) (o_col o) None) as [sg|] eqn:Esg.
  2: { rewrite E3 in *. apply (FB Hfile). }
  rewrite E3 in *. destruct (m_orig sg) as [io|] eqn:Eio.
  2: { apply (FB Hfile). }
  assert (Hio : o_src io < len (sm_sources im)).
  { destruct (lookup_from_some _ _ _ _ _ Esg) as [Q|[Q _]]; [discriminate|].
    pose proof (map_consistent_segs ot im Hcons) as Hseg. rewrite Forall_forall in Hseg.
    specialize (Hseg sg Q). unfold seg_ok in Hseg. rewrite Eio in Hseg. apply Hseg. }
  apply (resolved_adm l o x mpi io sg A2 A3 Hn (E4 sg eq_refl) E2 Hio Hfile).
Qed.

End Adm.

(* ------------------------------------------------------------------ *)
(* the combined stream read through get_map                            *)
(* ------------------------------------------------------------------ *)
Lemma chunk_positions : forall evs S N,
  map mpos (chunk_mappings evs) = map (fun r : option text * rseg => fst (snd r)) (rsegs_of_events evs S N).
Proof.
  induction evs as [|e evs IH]; intros S N; [reflexivity|].
  destruct e as [t mp|i n c|i n]; cbn [chunk_mappings rsegs_of_events map fst snd]; [f_equal| |]; apply IH.
Qed.

Lemma unmapped_rsegs : forall evs S N, mapped_chunk_exists evs = false ->
  Forall (fun r : option text * rseg => snd (snd r) = None) (rsegs_of_events evs S N).
Proof.
  unfold mapped_chunk_exists. induction evs as [|e evs IH]; intros S N H; [constructor|].
  destruct e as [t mp|i n c|i n]; cbn [chunk_mappings existsb rsegs_of_events] in *.
  - apply orb_false_iff in H. destruct H as [H1 H2]. constructor; [|apply IH; exact H2].
    cbn [snd]. destruct (m_orig mp); [discriminate|reflexivity].
  - apply IH. exact H.
  - apply IH. exact H.
Qed.

Lemma optF_resolve_map m o :
  optF (fileT (S_out m)) (fileT (sm_names m)) (Some o) = Some (resolve_map m o).
Proof.
  unfold optF, resF, resolve_map. rewrite S_out_eq, fileT_get_source. reflexivity.
Qed.

Lemma in_chunk_mappings evs mp : In mp (chunk_mappings evs) -> exists t, In (t, mp) (chunks_of evs).
Proof.
  rewrite chunk_mappings_chunks_of. intros H. apply in_map_iff in H. destruct H as [[t mp'] [E H]].
  cbn [snd] in E. subst mp'. exists t. exact H.
Qed.

Section Cols.
Variables (v : text) (m im : smap) (name : text) (given : option text) (remove : bool).

Let evs1 := fst (combined_stream v m name given im remove (mkOpts true true)).
Let m1 := map_of_events true evs1.
Let r1 := match m1 with Some r => r | None => empty_map end.

Hypothesis Hwf : c09_wf v m name given im.
Hypothesis Hfc : files_consistent (FILES m im name given).
Hypothesis Hnn : Forall (fun n : text => n <> []) (sm_names m).
Hypothesis Hsmall : forallb mapping_small (chunk_mappings evs1) = true.

Lemma final_chunks_eq chunks : v <> [] ->
  fst (sm_stream v m (mkOpts true true)) =
    announce_sources m (sm_sources m) 0 ++ announce_names (N_out true m) 0 ++ chunks ->
  chunks = sm_final_loop (decode_mappings (sm_mappings m)) (fst (advance 1 0 v)) (snd (advance 1 0 v)) 0.
Proof.
  intros Hv E. unfold sm_stream in E. cbn [columns final_source] in E. unfold sm_stream_final in E.
  rewrite gen_info_advance in E. destruct (advance 1 0 v) as [rl rc] eqn:Eadv.
  destruct ((rl =? 1) && (rc =? 0)) eqn:E0.
  - exfalso. apply andb_true_iff in E0. destruct E0 as [E1 E2]. apply N.eqb_eq in E1. apply N.eqb_eq in E2. subst.
    apply Hv. apply (advance_start_nil v Eadv).
  - cbn [fst snd] in E |- *. unfold N_out in E. apply app_inv_head in E. apply app_inv_head in E. symmetry. exact E.
Qed.

Theorem cols_clauses :
  check_bytes true m im name (original_of m name given) remove r1 (decode_mappings (sm_mappings m)) v
              (attr_of_map m1 v true) 1 0 = true /\
  nodup_texts_c (sm_sources r1) = true.
Proof.
  pose proof Hwf as (Hc & Hone & Hin & Hsz).
  destruct (combined_run v m name given im remove (mkOpts true true) Hwf)
    as [[E1 E2]|(chunks & S' & N' & E & Hoc & R & Hnd & Hf & Rs)].
  { (* nothing is streamed: the text is empty *)
    fold evs1 in E1.
    assert (Hm1 : m1 = None) by (unfold m1; rewrite E1; reflexivity).
    unfold r1. rewrite Hm1. split; [|reflexivity].
    assert (Hv : v = []).
    { unfold sm_stream in E2. cbn [columns final_source] in E2. unfold sm_stream_final in E2.
      rewrite gen_info_advance in E2. destruct (advance 1 0 v) as [rl rc] eqn:Eadv.
      destruct ((rl =? 1) && (rc =? 0)) eqn:E0.
      - apply andb_true_iff in E0. destruct E0 as [A B]. apply N.eqb_eq in A. apply N.eqb_eq in B. subst.
        apply (advance_start_nil v Eadv).
      - exfalso. cbn [fst] in E2. destruct (sm_sources m) as [|s0 ss]; [cbn in Hone; lia|].
        cbn [announce_sources app] in E2. discriminate. }
    subst v. reflexivity. }
  fold evs1 in R, Hf, Rs. cbn [columns] in E, Rs.
  (* the result map *)
  assert (Hres : res_ok (FILES m im name given) r1 /\ (m1 <> None -> sm_sources r1 = S')).
  { unfold r1. destruct m1 as [r|] eqn:Em1.
    - destruct (res_ok_run _ evs1 S' N' true r R Hnd Hf Em1) as [A B]. split; [exact A|intros _; exact B].
    - split; [apply res_ok_empty|intros Q; contradiction]. }
  destruct Hres as [Hres Hsrc].
  split.
  2: { unfold r1 in *. destruct m1 as [r|]; [|reflexivity]. rewrite Hsrc by discriminate.
       apply nodup_texts_c_iff. exact Hnd. }
  assert (Hv : v = [] \/ v <> []) by (destruct v; [left; reflexivity|right; discriminate]).
  destruct Hv as [Hv|Hv].
  { rewrite Hv. unfold attr_of_map. destruct m1; reflexivity. }
  pose proof (final_chunks_eq chunks Hv E) as Hch.
  destruct (advance 1 0 v) as [rl rc] eqn:Eadv. cbn [fst snd] in Hch.
  destruct (map_consistent_ok v m Hc) as [Hso _].
  set (osegs := decode_mappings (sm_mappings m)) in *.
  (* sortedness of the emitted mappings *)
  assert (Hsorted : sorted_by pos_le (chunk_mappings evs1) = true).
  { apply ssorted_sorted. apply ssorted_psorted. rewrite (chunk_positions evs1 [] []), Rs, map_map.
    assert (Q : map (fun x => fst (snd (rc_chunk true m im name given remove x))) (chunks_of chunks)
                = map mpos (chunk_mappings chunks)).
    { rewrite chunk_mappings_chunks_of, map_map. apply map_ext. intros [t mp]. reflexivity. }
    rewrite Q. apply ssorted_psorted. rewrite Hch. apply final_loop_ssorted. apply sorted_ssorted. exact Hso. }
  assert (Hdom : enc_domain (chunk_mappings evs1) = true) by (unfold enc_domain; rewrite Hsorted, Hsmall; reflexivity).
  pose proof (combined_dense v m name given im remove (mkOpts true true) Hwf) as Hdense. fold evs1 in Hdense.
  unfold m1 at 1. rewrite (attr_codec_cols evs1 v (dense_ann_ok evs1 [] [] Hdense) Hdom).
  unfold attr_of_final_events. rewrite attr_by_pos_fun, check_bytes_fun.
  apply check_fun_by_fun. intros l c _ Hlt. rewrite Eadv in Hlt.
  (* the attribution of position (l, c) *)
  set (G := fun mo => resolve_combined true m im name given remove
                        (optF (fileT (S_out m)) (fileT (N_out true m)) mo)).
  assert (Hsegs : map snd (rsegs_of_events evs1 [] []) =
                  map (fun mp => (g_line mp, g_col mp, G (m_orig mp))) (chunk_mappings chunks)).
  { rewrite Rs, chunk_mappings_chunks_of, !map_map. apply map_ext. intros [t mp]. reflexivity. }
  unfold seg_fun. rewrite Hsegs. change (@None loc) with (G (oo None)). rewrite seg_lookup_mapG.
  assert (Hlk : oo (lookup_from (chunk_mappings chunks) l c None) = oo (lookup_from osegs l c None)).
  { rewrite Hch. apply (final_loop_lookup rl rc l c Hlt osegs 0 None None).
    - apply sorted_ssorted. exact Hso.
    - apply Forall_forall. intros; lia.
    - reflexivity.
    - reflexivity. }
  rewrite Hlk.
  destruct (lookup_from osegs l c None) as [mp|] eqn:Eout; [|reflexivity].
  cbn [oo]. destruct (m_orig mp) as [o|] eqn:Eo.
  2: { unfold admissible. rewrite Eo. reflexivity. }
  unfold G. change (N_out true m) with (sm_names m). rewrite optF_resolve_map.
  (* the segment is one of the outer map: its indices are in range *)
  destruct (lookup_from_some _ _ _ _ _ Eout) as [Q|[Hmp _]]; [discriminate|].
  pose proof (map_consistent_segs v m Hc) as Hseg. rewrite Forall_forall in Hseg. specialize (Hseg mp Hmp).
  unfold seg_ok in Hseg. rewrite Eo in Hseg. cbn [orig_ok] in Hseg. destruct Hseg as [Hs1 Hs2].
  apply (adm_point m im name given remove r1 Hin Hfc Hres Hnn mp o Eo Hs1 Hs2).
  (* the file of the attribution is listed in the result map *)
  cbn [oo] in Hlk. rewrite Eo in Hlk.
  destruct (lookup_from (chunk_mappings chunks) l c None) as [mpF|] eqn:EF; [|discriminate].
  cbn [oo] in Hlk. destruct (lookup_from_some _ _ _ _ _ EF) as [Q|[HmpF _]]; [discriminate|].
  destruct (in_chunk_mappings _ _ HmpF) as [t Ht].
  assert (Hin_r : In (rc_chunk true m im name given remove (t, mpF)) (rsegs_of_events evs1 [] [])).
  { rewrite Rs. apply in_map. exact Ht. }
  pose proof (run_files _ _ _ _ _ R) as Hrf. rewrite Forall_forall in Hrf. specialize (Hrf _ Hin_r).
  unfold rc_chunk in Hrf. cbn [fst snd] in Hrf. rewrite Hlk in Hrf.
  change (N_out true m) with (sm_names m) in Hrf. rewrite optF_resolve_map in Hrf.
  destruct (resolve_combined true m im name given remove (Some (resolve_map m o))) as [l'|] eqn:Erc; [|exact I].
  assert (Hm1 : m1 <> None).
  { intros Q. pose proof (map_of_events_none true evs1 Hdom) as Hn. fold m1 in Hn. rewrite Q in Hn. cbn [is_none] in Hn.
    symmetry in Hn. apply negb_true_iff in Hn.
    pose proof (unmapped_rsegs evs1 [] [] Hn) as Hu. rewrite Forall_forall in Hu. specialize (Hu _ Hin_r).
    unfold rc_chunk in Hu. cbn [fst snd] in Hu. rewrite Hlk in Hu.
    change (N_out true m) with (sm_names m) in Hu. rewrite optF_resolve_map, Erc in Hu. discriminate. }
  rewrite (Hsrc Hm1). exact Hrf.
Qed.

End Cols.

Print Assumptions adm_point.
Print Assumptions cols_clauses.
