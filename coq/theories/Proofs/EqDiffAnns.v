(* C14 after DIFFERENT histories on the two sides, part 4: announcements, exactly.
   Definitions and list-level facts for the strict content clauses under a condition on the
   SHAPE (EqDiffStrict.v):
     dd            what a ConcatSource forwards of its children's announcements: the first
                   announcement of every name (concat_fold_dd);
     cann s        the canonical announcement list of a tree, by recursion on the tree;
     sm_anns_exact a SourceMapSource / a replaying cache over non-empty text announces its
                   whole table, over empty text nothing;
     ctab, pad     the positional contents table map() builds from a list of announcements, and
                   the list its entries spell (a missing content in front of a present one reads
                   as ""): events_pad;  pad l = l when no content is missing in front of a
                   present one (pad_unpadded);
     lookup_exp    the strict lookup of chk_C14_pair is a function of exp_sources;
     etab s        the entries of the map() table of a tree;
     k7w_shape     the K7 class widened by "announces a file without content in front of a
                   file with content";
     k7s_shape     the same with "attributes no text" (refA) in place of "maps no chunk". *)
From RS Require Import Base.Prelude Base.Text Rope.RopeModel Codec.Vlq Codec.CodecSpec
  Stream.Types Stream.Leaves Stream.Concat Stream.Replace Stream.Combined Stream.Tree
  Api.ApiTree Sem.Attr Sem.HashEq Api.ApiHist Checkers.ChkTree Checkers.ChkHist Checkers.ChkCombined
  Proofs.HashEqBasic Proofs.StreamText Proofs.StreamLeaves Proofs.StreamMap Proofs.StreamConcat Proofs.StreamTree
  Proofs.WfStream Proofs.AttrCodec Proofs.AttrSms Proofs.AttrLeaves Proofs.LawConcatAttr
  Proofs.CombSearch Proofs.CombPass Proofs.CombAllRun Proofs.ProvConcatTables
  Proofs.ColdCache Proofs.WarmTreeDefs Proofs.CompWarmContBase Proofs.LawChkFirst.
Require Import Lia List.
Import ListNotations.

Local Open Scope N_scope.

(* ------------------------------------------------------------------ *)
(* ConcatSource: the first announcement of every name                   *)
(* ------------------------------------------------------------------ *)
Fixpoint dd (tbl : list text) (l : list (text * option text)) : list (text * option text) :=
  match l with
  | [] => []
  | (n, c) :: r =>
    match find_text tbl n 0 with
    | Some _ => dd tbl r
    | None => (n, c) :: dd (tbl ++ [n]) r
    end
  end.

Lemma dd_app tbl l1 : forall l2 tbl',
  tbl' = tbl -> dd tbl' (l1 ++ l2) = dd tbl l1 ++ dd (tbl ++ map fst (dd tbl l1)) l2.
Proof.
  revert tbl. induction l1 as [|[n c] l1 IH]; intros tbl l2 tbl' ->.
  - cbn [app dd map]. rewrite app_nil_r. reflexivity.
  - cbn [app dd]. destruct (find_text tbl n 0).
    + apply IH. reflexivity.
    + cbn [map fst app]. rewrite (IH (tbl ++ [n]) l2 _ eq_refl), <- app_assoc. reflexivity.
Qed.

Lemma concat_events_dd final evs : forall st,
  c_sources (fst (concat_events final st evs)) = c_sources st ++ map fst (dd (c_sources st) (anns evs)) /\
  anns (snd (concat_events final st evs)) = dd (c_sources st) (anns evs).
Proof.
  induction evs as [|e evs IH]; intros st.
  - cbn [concat_events fst snd contents_of_events dd map]. rewrite app_nil_r. split; reflexivity.
  - cbn [concat_events]. pose proof (concat_event_contents final st e) as A.
    destruct (concat_event final st e) as [st1 o1]. cbn [fst snd] in A. specialize (IH st1).
    destruct (concat_events final st1 evs) as [st2 o2]. cbn [fst snd] in *. rewrite contents_app.
    destruct e as [t m|i name content|i name].
    + injection A as A1 A2. rewrite A1 in IH. rewrite A2. cbn [contents_of_events app]. exact IH.
    + cbn [contents_of_events dd]. destruct (find_text (c_sources st) name 0) as [g|] eqn:E; injection A as A1 A2.
      * rewrite A1 in IH. rewrite A2. cbn [app]. exact IH.
      * rewrite A1 in IH. rewrite A2. destruct IH as [I1 I2]. cbn [map fst app]. split.
        -- rewrite I1, <- app_assoc. reflexivity.
        -- rewrite I2. reflexivity.
    + injection A as A1 A2. rewrite A1 in IH. rewrite A2. cbn [contents_of_events app]. exact IH.
Qed.

Lemma concat_child_dd final st evs gi :
  c_sources (fst (concat_child final st evs gi)) = c_sources st ++ map fst (dd (c_sources st) (anns evs)) /\
  anns (snd (concat_child final st evs gi)) = dd (c_sources st) (anns evs).
Proof.
  unfold concat_child. pose proof (concat_events_dd final evs (concat_child_start st)) as [A1 A2].
  destruct (concat_events final (concat_child_start st) evs) as [st1 o1]. cbn [fst snd] in *.
  unfold concat_child_end. cbn [fst snd c_sources]. rewrite contents_app.
  replace (contents_of_events (if c_close st1 && negb ((fst gi =? 1) && (snd gi =? 0)) then [closer st1] else []))
    with (@nil (text * option text))
    by (destruct (c_close st1 && negb ((fst gi =? 1) && (snd gi =? 0))); reflexivity).
  rewrite app_nil_r. cbn [concat_child_start c_sources] in A1, A2. split; assumption.
Qed.

Theorem concat_fold_dd final kids : forall st out,
  anns (snd (concat_fold final kids (st, out))) =
  anns out ++ dd (c_sources st) (flat_map (fun k => anns (fst k)) kids).
Proof.
  induction kids as [|k kids IH]; intros st out.
  - cbn [concat_fold fold_left snd flat_map dd]. rewrite app_nil_r. reflexivity.
  - rewrite concat_fold_cons. cbn [fst snd].
    pose proof (concat_child_dd final st (fst k) (snd k)) as [A1 A2].
    destruct (concat_child final st (fst k) (snd k)) as [st' o]. cbn [fst snd] in *.
    rewrite IH, contents_app, A1, A2. cbn [flat_map].
    rewrite (dd_app (c_sources st) (anns (fst k)) _ _ eq_refl), <- app_assoc. reflexivity.
Qed.

(* ------------------------------------------------------------------ *)
(* the canonical announcements of a tree                                *)
(* ------------------------------------------------------------------ *)
Fixpoint cann (s : src) : list (text * option text) :=
  match s with
  | SOriginal v n => [(n, Some v)]
  | SMapped v _ m _ None _ => if is_nil v then [] else exp_sources m
  | SConcat cs => match cs with [c] => cann c | _ => dd [] (flat_map cann cs) end
  | SReplace i _ => cann i
  | SCached _ i => cann i
  | _ => []
  end.

(* ------------------------------------------------------------------ *)
(* SourceMapSource / replay: all of the table, or nothing               *)
(* ------------------------------------------------------------------ *)
Lemma is_nil_split t : is_nil (split_lines t) = is_nil t.
Proof.
  destruct t as [|b t]; [reflexivity|]. destruct (split_lines (b :: t)) eqn:E; [|reflexivity].
  apply split_lines_nil in E. discriminate.
Qed.

Lemma advance_mono : forall t l c l' c', advance l c t = (l', c') -> l <= l' /\ (l = l' -> c <= c').
Proof.
  induction t as [|b t IH]; intros l c l' c' H; cbn [advance] in H.
  - inversion H. split; [lia|intros _; lia].
  - destruct (b =? NL).
    + destruct (IH _ _ _ _ H) as [A _]. split; [lia|intros E; lia].
    + destruct (IH _ _ _ _ H) as [A B]. split; [exact A|intros E; specialize (B E); lia].
Qed.

Lemma gen_info_start t : (let '(rl, rc) := gen_info t in (rl =? 1) && (rc =? 0)) = is_nil t.
Proof.
  rewrite gen_info_advance. destruct t as [|b t]; [reflexivity|]. cbn [advance is_nil].
  destruct (b =? NL).
  - destruct (advance (1 + 1) 0 t) as [rl rc] eqn:E. destruct (advance_mono _ _ _ _ _ E) as [A _].
    destruct (rl =? 1) eqn:E1; [apply N.eqb_eq in E1; lia|reflexivity].
  - destruct (advance 1 (0 + 1) t) as [rl rc] eqn:E. destruct (advance_mono _ _ _ _ _ E) as [A B].
    destruct (rl =? 1) eqn:E1; [|reflexivity]. apply N.eqb_eq in E1. subst rl. specialize (B eq_refl).
    destruct (rc =? 0) eqn:E2; [apply N.eqb_eq in E2; lia|reflexivity].
Qed.

Theorem sm_anns_exact t m o : anns (fst (sm_stream t m o)) = if is_nil t then [] else exp_sources m.
Proof.
  unfold sm_stream. destruct (columns o), (final_source o).
  - unfold sm_stream_final. pose proof (gen_info_start t) as G. destruct (gen_info t) as [rl rc]. rewrite G.
    destruct (is_nil t); [reflexivity|]. cbn [fst].
    rewrite !contents_app, announce_sources_exp, announce_names_contents.
    rewrite (only_chunks_contents _ (final_loop_chunks rl rc _ 0)), !app_nil_r. reflexivity.
  - unfold sm_stream_full. rewrite is_nil_split. destruct (is_nil t); [reflexivity|].
    destruct (lines_end_info (split_lines t)) as [fl fc].
    pose proof (loop_only (split_lines t) fl fc (decode_mappings (sm_mappings m)) (mkF 1 0 false None)) as O1.
    destruct (sm_full_loop (split_lines t) fl fc (mkF 1 0 false None) (decode_mappings (sm_mappings m))) as [st evs].
    pose proof (step_only (split_lines t) fl fc st (unmapped fl fc)) as O2.
    destruct (sm_full_step (split_lines t) fl fc st (unmapped fl fc)) as [st' evs']. cbn [fst snd] in *.
    rewrite !contents_app, announce_sources_exp, announce_names_contents.
    rewrite (only_chunks_contents _ O1), (only_chunks_contents _ O2), !app_nil_r. reflexivity.
  - unfold sm_stream_lines_final. pose proof (gen_info_start t) as G. destruct (gen_info t) as [rl rc]. rewrite G.
    destruct (is_nil t); [reflexivity|]. cbn [fst].
    rewrite !contents_app, announce_sources_exp.
    rewrite (only_chunks_contents _ (lines_final_loop_chunks _ _ _)), !app_nil_r. reflexivity.
  - unfold sm_stream_lines_full. rewrite is_nil_split. destruct (is_nil t); [reflexivity|].
    pose proof (lines_full_loop_only (split_lines t) (decode_mappings (sm_mappings m)) 1) as O1.
    destruct (sm_lines_full_loop (split_lines t) (decode_mappings (sm_mappings m)) 1) as [cur evs]. cbn [fst snd] in *.
    rewrite !contents_app, announce_sources_exp.
    rewrite (only_chunks_contents _ O1), (only_chunks_contents _ (whole_lines_only _ _ _ _)), !app_nil_r.
    reflexivity.
Qed.

(* ------------------------------------------------------------------ *)
(* the positional contents table                                        *)
(* ------------------------------------------------------------------ *)
Fixpoint ctab (l : list (text * option text)) (C : list text) (k : N) : list text :=
  match l with
  | [] => C
  | (_, c) :: r => ctab r (match c with Some x => lm_insert [] C k x | None => C end) (k + 1)
  end.

(* entries (name_i, contents[i]) *)
Definition zipexp (srcs cts : list text) : list (text * option text) :=
  map (fun i => (nth (N.to_nat i) srcs [], nth_opt cts i)) (map N.of_nat (seq 0 (length srcs))).

Definition pad (l : list (text * option text)) : list (text * option text) :=
  zipexp (map fst l) (ctab l [] 0).

Lemma exp_sources_zip m : sm_root m = None -> exp_sources m = zipexp (sm_sources m) (sm_contents m).
Proof. intros H. unfold exp_sources, zipexp, get_source. rewrite H. reflexivity. Qed.

Lemma run_ctab evs S Nn S' N' : run evs S Nn S' N' ->
  forall T, t_sources T = S ->
  t_contents (fold_left tables_event evs T) = ctab (anns evs) (t_contents T) (len S).
Proof.
  induction 1 as [S Nn|s c evs S Nn S' N' _ IH|n evs S Nn S' N' _ IH|t mp evs S Nn S' N' Ho _ IH]; intros T H1.
  - reflexivity.
  - cbn [fold_left contents_of_events ctab].
    rewrite (IH (tables_event T (ESource (len S) s c))).
    + cbn [tables_event t_contents]. rewrite slen_app. reflexivity.
    + cbn [tables_event t_sources]. rewrite H1. apply lm_insert_at_len.
  - cbn [fold_left contents_of_events]. rewrite (IH (tables_event T (EName (len Nn) n))); [reflexivity|exact H1].
  - cbn [fold_left contents_of_events]. rewrite (IH (tables_event T (EChunk t mp))); [reflexivity|exact H1].
Qed.

Theorem events_pad c evs m : dense evs 0 0 = true -> map_of_events c evs = Some m ->
  exp_sources m = pad (anns evs).
Proof.
  intros Hd Em. unfold map_of_events in Em.
  destruct (is_nil (encode_mappings c (chunk_mappings evs))); [discriminate|].
  inversion Em as [E]. clear Em.
  destruct (dense_run evs [] [] Hd) as [S' [N' R]].
  assert (C0 : cont_ok (t_contents (mkT [] [] [])) []).
  { split; [cbn; lia|]. intros g p Hg. unfold nth_opt in Hg. destruct (N.to_nat g); discriminate. }
  destruct (run_tables evs [] [] S' N' R (mkT [] [] []) [] eq_refl eq_refl eq_refl C0) as [T1 _].
  pose proof (run_sources _ _ _ _ _ R) as T2. cbn [app] in T2.
  pose proof (run_ctab evs [] [] S' N' R (mkT [] [] []) eq_refl) as T3. cbn [t_contents] in T3.
  rewrite exp_sources_zip by reflexivity. cbn [sm_sources sm_contents]. unfold pad.
  rewrite T1, T2, T3. reflexivity.
Qed.

(* ------------------------------------------------------------------ *)
(* nothing missing in front of something present: pad is the identity   *)
(* ------------------------------------------------------------------ *)
Fixpoint none_then_some (l : list (text * option text)) : bool :=
  match l with
  | [] => false
  | (_, None) :: r => existsb (fun p => match snd p with Some _ => true | None => false end) r || none_then_some r
  | _ :: r => none_then_some r
  end.

Definition unsome (c : option text) : text := match c with Some x => x | None => [] end.

Lemma ctab_nones : forall l C k, Forall (fun p => snd p = None) l -> ctab l C k = C.
Proof.
  induction l as [|[n c] l IH]; intros C k H; [reflexivity|]. inversion H as [|? ? H1 H2]. subst.
  cbn [snd] in H1. subst c. cbn [ctab]. apply IH. exact H2.
Qed.

Lemma ctab_somes : forall l1 l2 C, Forall (fun p => snd p <> None) l1 ->
  ctab (l1 ++ l2) C (len C) = ctab l2 (C ++ map (fun p => unsome (snd p)) l1) (len C + len l1).
Proof.
  induction l1 as [|[n c] l1 IH]; intros l2 C H.
  - cbn [app map]. rewrite app_nil_r. change (len (@nil (text * option text))) with 0. rewrite N.add_0_r. reflexivity.
  - inversion H as [|? ? H1 H2]. subst. cbn [snd] in H1. destruct c as [x|]; [|contradiction].
    cbn [app ctab map snd unsome]. rewrite lm_insert_at_len.
    assert (E : len C + 1 = len (C ++ [x])) by (rewrite slen_app; reflexivity).
    rewrite E. etransitivity; [exact (IH l2 (C ++ [x]) H2)|]. rewrite <- app_assoc. cbn [app]. f_equal.
    rewrite slen_app. change (len [x]) with 1. change (len ((n, Some x) :: l1)) with (len ([(n, Some x)] ++ l1)).
    rewrite (slen_app [(n, Some x)] l1). change (len [(n, Some x)]) with 1. lia.
Qed.

Lemma unpadded_split : forall l, none_then_some l = false ->
  exists l1 l2, l = l1 ++ l2 /\ Forall (fun p => snd p <> None) l1 /\ Forall (fun p => snd p = None) l2.
Proof.
  induction l as [|[n c] l IH]; intros H.
  - exists [], []. split; [reflexivity|]. split; constructor.
  - cbn [none_then_some] in H. destruct c as [x|].
    + destruct (IH H) as [l1 [l2 [E [A B]]]]. exists ((n, Some x) :: l1), l2. subst l.
      split; [reflexivity|]. split; [constructor; [discriminate|exact A]|exact B].
    + apply orb_false_iff in H. destruct H as [H _]. exists [], ((n, None) :: l).
      split; [reflexivity|]. split; [constructor|]. constructor; [reflexivity|].
      apply Forall_forall. intros p Hp. destruct (snd p) eqn:Ep; [|reflexivity].
      assert (X : existsb (fun p => match snd p with Some _ => true | None => false end) l = true).
      { apply existsb_exists. exists p. split; [exact Hp|rewrite Ep; reflexivity]. }
      congruence.
Qed.

Lemma nth_error_ext {A} : forall (a b : list A), (forall j, nth_error a j = nth_error b j) -> a = b.
Proof.
  induction a as [|x a IH]; intros [|y b] H.
  - reflexivity.
  - specialize (H O). discriminate.
  - specialize (H O). discriminate.
  - pose proof (H O) as H0. cbn in H0. inversion H0. subst. f_equal. apply IH. intros j. exact (H (S j)).
Qed.

Lemma zipexp_nth srcs cts j : nth_error (zipexp srcs cts) j =
  if (j <? length srcs)%nat then Some (nth j srcs [], nth_opt cts (N.of_nat j)) else None.
Proof.
  unfold zipexp. rewrite map_map. destruct (j <? length srcs)%nat eqn:E.
  - apply Nat.ltb_lt in E. rewrite nth_error_map, (nth_error_nth' _ 0%nat) by (rewrite seq_length; exact E).
    rewrite seq_nth by exact E. cbn [option_map plus]. rewrite Nat2N.id. reflexivity.
  - apply Nat.ltb_ge in E. apply nth_error_None. rewrite map_length, seq_length. exact E.
Qed.

Theorem pad_unpadded l : none_then_some l = false -> pad l = l.
Proof.
  intros H. destruct (unpadded_split l H) as [l1 [l2 [E [A B]]]]. subst l.
  assert (EC : ctab (l1 ++ l2) [] 0 = map (fun p => unsome (snd p)) l1).
  { change 0 with (len (@nil text)). rewrite (ctab_somes l1 l2 [] A). cbn [app]. apply ctab_nones. exact B. }
  unfold pad. rewrite EC. apply nth_error_ext. intros j. rewrite zipexp_nth, map_length.
  destruct (j <? length (l1 ++ l2))%nat eqn:Ej.
  - apply Nat.ltb_lt in Ej. destruct (nth_error (l1 ++ l2) j) as [p|] eqn:Ep; [|apply nth_error_None in Ep; lia].
    f_equal. destruct p as [pn pc].
    assert (En : nth j (map fst (l1 ++ l2)) [] = pn).
    { apply (nth_error_nth _ _ []). rewrite nth_error_map, Ep. reflexivity. }
    rewrite En. f_equal. unfold nth_opt. rewrite Nat2N.id, nth_error_map.
    destruct (Nat.lt_ge_cases j (length l1)) as [Hlt|Hge].
    + rewrite nth_error_app1 in Ep by exact Hlt. rewrite Ep. cbn [option_map snd].
      rewrite Forall_forall in A. specialize (A _ (nth_error_In _ _ Ep)). cbn [snd] in A.
      destruct pc as [x|]; [reflexivity|contradiction].
    + rewrite nth_error_app2 in Ep by exact Hge.
      rewrite Forall_forall in B. specialize (B _ (nth_error_In _ _ Ep)). cbn [snd] in B. subst pc.
      assert (X : nth_error l1 j = None) by (apply nth_error_None; exact Hge). rewrite X. reflexivity.
  - apply Nat.ltb_ge in Ej. symmetry. apply nth_error_None. exact Ej.
Qed.

(* ------------------------------------------------------------------ *)
(* the strict lookup is a function of exp_sources                       *)
(* ------------------------------------------------------------------ *)
Lemma map_nth_seq {A} (d : A) : forall l : list A, map (fun j => nth j l d) (seq 0 (length l)) = l.
Proof.
  induction l as [|x l IH]; [reflexivity|]. cbn [length seq map nth]. f_equal.
  rewrite <- seq_shift, map_map. exact IH.
Qed.

Lemma exp_sources_names m : map fst (exp_sources m) = map (get_source m) (sm_sources m).
Proof.
  unfold exp_sources. rewrite !map_map. cbn [fst].
  transitivity (map (get_source m) (map (fun j => nth j (sm_sources m) []) (seq 0 (length (sm_sources m))))).
  - rewrite map_map. apply map_ext. intros j. rewrite Nat2N.id. reflexivity.
  - rewrite map_nth_seq. reflexivity.
Qed.

Lemma exp_sources_nth m k p : nth_opt (exp_sources m) k = Some p -> snd p = nth_opt (sm_contents m) k.
Proof.
  unfold nth_opt, exp_sources. rewrite map_map, nth_error_map.
  destruct (nth_error (seq 0 (length (sm_sources m))) (N.to_nat k)) as [j|] eqn:E; [|discriminate].
  cbn [option_map]. intros H. inversion H. cbn [snd].
  assert (Hlt : (N.to_nat k < length (seq 0 (length (sm_sources m))))%nat) by (apply nth_error_Some; congruence).
  rewrite seq_length in Hlt. pose proof (nth_error_nth _ _ 0%nat E) as X. rewrite seq_nth in X by exact Hlt.
  cbn in X. subst j. rewrite N2Nat.id. reflexivity.
Qed.

Theorem lookup_exp m f : content_of_file (Some m) f = first_content f (exp_sources m).
Proof.
  unfold content_of_file, first_content.
  pose proof (file_index_first m f (exp_sources m) (sm_sources m) 0 (eq_sym (exp_sources_names m))) as K.
  destruct (file_index m (sm_sources m) f 0) as [k|].
  - destruct K as [p [A [B _]]]. rewrite A. rewrite N.sub_0_r in B. symmetry. apply (exp_sources_nth m k p B).
  - rewrite K. reflexivity.
Qed.

(* ------------------------------------------------------------------ *)
(* the entries of the map() table of a tree                             *)
(* ------------------------------------------------------------------ *)
Fixpoint etab (s : src) : list (text * option text) :=
  match s with
  | SMapped v _ m _ None _ => exp_sources m
  | SReplace i rs => if is_nil rs then etab i else pad (cann i)
  | SCached _ i => etab i
  | _ => pad (cann s)
  end.

Lemma etab_cann : forall s, none_then_some (cann s) = false -> source s <> [] -> etab s = cann s.
Proof.
  apply (src_ind' (fun s => none_then_some (cann s) = false -> source s <> [] -> etab s = cann s)).
  - intros b v H _. reflexivity.
  - intros v H _. reflexivity.
  - intros v H _. reflexivity.
  - intros v n H _. apply pad_unpadded. exact H.
  - intros v n m og i r H Hs. destruct i as [im|]; [reflexivity|]. cbn [etab cann source] in *.
    destruct v; [contradiction|reflexivity].
  - intros cs _ H _. apply pad_unpadded. exact H.
  - intros i rs IH H Hs. cbn [etab cann] in *. destruct (is_nil rs) eqn:E.
    + apply IH; [exact H|]. destruct rs; [|discriminate]. cbn [source] in Hs.
      intros X. apply Hs. rewrite X. reflexivity.
    + apply pad_unpadded. exact H.
  - intros id i IH H Hs. apply IH; assumption.
Qed.

(* ------------------------------------------------------------------ *)
(* the widened classes                                                  *)
(* ------------------------------------------------------------------ *)
Definition cold_anns (inner : src) : list (text * option text) :=
  contents_of_events (fst (fst (stream [] inner (mkOpts true false)))).

(* the map the CachedSource caches pads the contents of the wrapped source's files *)
Definition announces_padded (inner : src) : bool := none_then_some (cold_anns inner).

Fixpoint k7w_shape (s : src) : bool :=
  match s with
  | SCached _ inner => announces_unmapped inner || announces_padded inner || k7w_shape inner
  | SConcat cs => existsb k7w_shape cs
  | SReplace inner _ => k7w_shape inner
  | _ => false
  end.

(* "maps no chunk" read off the reference attribution: no byte of the text is attributed to a
   file, with or without columns *)
Definition all_none (l : list attr) : bool :=
  forallb (fun a => match a with None => true | Some _ => false end) l.

Definition announces_unattributed (inner : src) : bool :=
  negb (is_nil (cold_anns inner)) && (all_none (refA inner true) || all_none (refA inner false)).

Fixpoint k7s_shape (s : src) : bool :=
  match s with
  | SCached _ inner => announces_unattributed inner || announces_padded inner || k7s_shape inner
  | SConcat cs => existsb k7s_shape cs
  | SReplace inner _ => k7s_shape inner
  | _ => false
  end.

Lemma k7_k7w : forall s, k7_shape s = true -> k7w_shape s = true.
Proof.
  apply (src_ind' (fun s => k7_shape s = true -> k7w_shape s = true)); try (intros; discriminate).
  - intros cs IH H. cbn [k7_shape k7w_shape] in *. apply existsb_exists in H. destruct H as [c [Hc Hk]].
    apply existsb_exists. exists c. split; [exact Hc|]. rewrite Forall_forall in IH. apply (IH c Hc Hk).
  - intros i rs IH H. apply IH. exact H.
  - intros id i IH H. cbn [k7_shape k7w_shape] in *. apply orb_true_iff in H. destruct H as [H|H].
    + rewrite H. reflexivity.
    + rewrite (IH H). rewrite !orb_true_r. reflexivity.
Qed.

Print Assumptions concat_fold_dd.
Print Assumptions sm_anns_exact.
Print Assumptions events_pad.
Print Assumptions pad_unpadded.
Print Assumptions lookup_exp.
Print Assumptions etab_cann.
Print Assumptions k7_k7w.
