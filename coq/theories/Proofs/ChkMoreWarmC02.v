(* C02, checker level, for trees with CachedSource nodes in ANY warm state (class `cls` of
   WarmTreeDefs.v: raw leaves, OriginalSource, SourceMapSource without inner map, ConcatSource,
   ReplaceSource, CachedSource nodes anywhere, no ReplaceSource with replacements above a
   CachedSource (K2); every cache id once).
     chk_C02_warm     all eight clauses of `chk_C02` on the model's observations after ANY warm-up
                      history: every replayed chunk is reported where its text really starts
                      (`TG` of WarmTreeDefs.v carries `WP`), exact end info of all four streams,
                      segments of the text-less streams on positions of source() (`FG`: `kid_ok`).
     chk_C02_warm_store   the same from any `Sound` store. *)
From RS Require Import Base.Prelude Base.Text Rope.RopeModel Codec.Vlq Codec.CodecSpec
  Checkers.ChkCodec Stream.Types Stream.Leaves Stream.Concat Stream.Replace Stream.Combined Stream.Tree
  Api.ApiTree Sem.Attr Sem.HashEq Api.ApiHist Checkers.ChkTree Checkers.ChkHist
  Proofs.CodecKept Proofs.CodecEnc Proofs.CodecMain Proofs.StreamText Proofs.StreamLeaves Proofs.StreamMap Proofs.StreamConcat Proofs.StreamTree
  Proofs.WfStream Proofs.WfFinal Proofs.WfMap Proofs.RStreamText Proofs.RStreamPos Proofs.RStreamTree
  Proofs.AttrCodec Proofs.AttrSms Proofs.AttrLeaves Proofs.LawConcatAttr Proofs.LawWrappers
  Proofs.CacheStore Proofs.CacheReplay Proofs.FinalDense Proofs.FinalReplace Proofs.FinalConcat Proofs.FinalTree Proofs.FinalCache
  Proofs.ReplAttrStream Proofs.ReplAttrOrigin Proofs.ReplAttrSms Proofs.ReplAttrTree
  Proofs.LinesBase Proofs.LinesSelf Proofs.LinesConcat Proofs.LinesTree
  Proofs.ColdCache Proofs.ColdCacheTree Proofs.BoundsPos Proofs.BoundsOrig Proofs.BoundsIdx Proofs.BoundsAll
  Proofs.WarmTreeDefs Proofs.WarmTreeReplay Proofs.WarmTreeCodec Proofs.WarmTreeNodes Proofs.WarmTreeMain Proofs.WarmTreeHist
  Proofs.WfAllStrict Proofs.WfAllMap Proofs.WfAllChk Proofs.WfMoreComb Proofs.WfMoreWarm
  Proofs.ChkModelC02 Proofs.ChkModelC03.
Require Import Lia List.
Import ListNotations.

Local Open Scope N_scope.

(* ================================================================== *)
(* C02                                                                 *)
(* ================================================================== *)
Section C02.
Variable s : src.
Hypothesis Hd : ids_distinct s.
Hypothesis Hcl : cls s.

Let W := warm_all s Hd s (incl_refl _) Hcl.

Lemma warm_positions (st : store) (c : bool) : Sound st s ->
  well_positioned (chunks_of (fst (fst (stream st s (mkOpts c false))))) 1 0 = true.
Proof.
  intros Hs. destruct W as [A _]. destruct (A st c Hs) as [[_ [_ [Hw _]]] _]. exact Hw.
Qed.

Lemma warm_end_info (st : store) (o : opts) : Sound st s ->
  snd (fst (stream st s o)) = advance 1 0 (source s).
Proof.
  intros Hs. destruct o as [c [|]].
  - destruct W as [_ [B _]]. destruct (B st c Hs) as [[[_ [_ [Hi _]]] _] _]. exact Hi.
  - destruct W as [A _]. destruct (A st c Hs) as [[_ [_ [_ [_ [_ [Hi _]]]]]] _]. exact Hi.
Qed.

Lemma warm_final_positions (st : store) (c : bool) : Sound st s ->
  positions_of_text (source s) (chunks_of (fst (fst (stream st s (mkOpts c true))))) = true.
Proof.
  intros Hs. destruct W as [_ [B _]]. destruct (B st c Hs) as [[[_ [Hp _]] _] _].
  apply positions_of_events. exact Hp.
Qed.

(* from any sound store *)
Theorem chk_C02_warm_store (st : store) (o : tree_obs) : Sound st s ->
  to_source o = source s ->
  to_streams o = map (fun op => fst (stream st s op)) all_opts ->
  chk_C02 s o = 0.
Proof.
  intros Hs E1 E2. pose proof Hcl as [_ [_ [HA _]]]. apply (chk_C02_unfold s st o HA E1 E2).
  - intros c. apply warm_positions. exact Hs.
  - intros op. apply warm_end_info. exact Hs.
  - intros c. apply warm_final_positions. exact Hs.
Qed.

(* after any warm-up history *)
Theorem chk_C02_warm (ws : list (N * wop)) : chk_C02 s (api_tree s ws) = 0.
Proof.
  apply (chk_C02_warm_store (run_warm [] s ws) (api_tree s ws)
           (warm_sound s Hd Hcl ws [] (sound_empty s)) eq_refl eq_refl).
Qed.

End C02.

Print Assumptions chk_C02_warm_store.
Print Assumptions chk_C02_warm.
