(* A2, A3, A4: property C08 for the source-map driven splitters of a SourceMapSource
   without inner map.  Every byte of the text is attributed by the four streams as
   by looking its position up in the given SourceMap. *)
From RS Require Import Base.Prelude Base.Text Rope.RopeModel Codec.Vlq Codec.CodecSpec
  Checkers.ChkCodec Stream.Types Stream.Leaves Stream.Replace Stream.Tree Api.ApiTree Sem.Attr Checkers.ChkTree
  Proofs.CodecKept Proofs.StreamText Proofs.StreamLeaves Proofs.StreamMap Proofs.AttrCodec.
Require Import Lia List.

Local Open Scope N_scope.

(* ------------------------------------------------------------------ *)
(* event lists made of chunks only, read with fixed tables              *)
(* ------------------------------------------------------------------ *)
Definition is_chunk (e : event) : bool := match e with EChunk _ _ => true | _ => false end.
Definition only_chunks (evs : list event) : bool := forallb is_chunk evs.

Lemma only_chunks_app a b : only_chunks (a ++ b) = only_chunks a && only_chunks b.
Proof. apply forallb_app. Qed.

Lemma rsegs_chunks : forall evs S Nn, only_chunks evs = true ->
  rsegs_of_events evs S Nn =
  map (fun ch => (fst ch, rsF (fileT S) (fileT Nn) (snd ch))) (chunks_of evs).
Proof.
  induction evs as [|e evs IH]; intros S Nn H; [reflexivity|].
  destruct e as [t m|i n c|i n]; try discriminate.
  cbn [only_chunks forallb is_chunk andb] in H. cbn [rsegs_of_events chunks_of map fst snd].
  rewrite (IH S Nn H). f_equal.
Qed.

Lemma chunk_mappings_chunks_of evs : chunk_mappings evs = map snd (chunks_of evs).
Proof.
  induction evs as [|e evs IH]; [reflexivity|].
  destruct e; cbn [chunk_mappings chunks_of map snd]; rewrite IH; reflexivity.
Qed.

Lemma rsegs_chunks_snd evs S Nn : only_chunks evs = true ->
  map snd (rsegs_of_events evs S Nn) = map (rsF (fileT S) (fileT Nn)) (chunk_mappings evs).
Proof.
  intros H. rewrite (rsegs_chunks evs S Nn H), chunk_mappings_chunks_of, !map_map. reflexivity.
Qed.

(* the announcements of a splitter fill the tables with those of the map *)
Lemma rsegs_announce_sources m : forall srcs tbl names rest,
  rsegs_of_events (announce_sources m srcs (len tbl) ++ rest) tbl names =
  rsegs_of_events rest (tbl ++ map (get_source m) srcs) names.
Proof.
  induction srcs as [|s srcs IH]; intros tbl names rest.
  - cbn [announce_sources app map]. rewrite app_nil_r. reflexivity.
  - cbn [announce_sources app rsegs_of_events map].
    assert (Hs : slot_ok tbl (len tbl) (get_source m s) = true) by (unfold slot_ok; rewrite N.eqb_refl; reflexivity).
    rewrite (lm_insert_ok BAD tbl (len tbl) (get_source m s) Hs), N.eqb_refl.
    replace (len tbl + 1) with (len (tbl ++ [get_source m s])) by (rewrite slen_app; reflexivity).
    rewrite IH, <- app_assoc. reflexivity.
Qed.

Lemma rsegs_announce_names : forall ns tbl srcs rest,
  rsegs_of_events (announce_names ns (len tbl) ++ rest) srcs tbl =
  rsegs_of_events rest srcs (tbl ++ ns).
Proof.
  induction ns as [|s ns IH]; intros tbl srcs rest.
  - cbn [announce_names app]. rewrite app_nil_r. reflexivity.
  - cbn [announce_names app rsegs_of_events].
    assert (Hs : slot_ok tbl (len tbl) s = true) by (unfold slot_ok; rewrite N.eqb_refl; reflexivity).
    rewrite (lm_insert_ok BAD tbl (len tbl) s Hs), N.eqb_refl.
    replace (len tbl + 1) with (len (tbl ++ [s])) by (rewrite slen_app; reflexivity).
    rewrite IH, <- app_assoc. reflexivity.
Qed.

Lemma snth_map {A B} (f : A -> B) (l : list A) (i : N) :
  nth_opt (map f l) i = match nth_opt l i with Some x => Some (f x) | None => None end.
Proof.
  unfold nth_opt. generalize (N.to_nat i) as k. clear i. induction l as [|x l IH]; intros k.
  - destruct k; reflexivity.
  - destruct k as [|k]; [reflexivity|]. cbn [map nth_error]. apply IH.
Qed.

Lemma fileT_get_source m i : fileT (map (get_source m) (sm_sources m)) i = fileM m i.
Proof. unfold fileT, fileM. rewrite snth_map. destruct (nth_opt (sm_sources m) i); reflexivity. Qed.

(* the resolved segments of `announcements ++ chunks` *)
Lemma rsegs_sm_both m chunks : only_chunks chunks = true ->
  rsegs_of_events (announce_sources m (sm_sources m) 0 ++ announce_names (sm_names m) 0 ++ chunks) [] [] =
  map (fun ch => (fst ch, rsF (fileM m) (fileT (sm_names m)) (snd ch))) (chunks_of chunks).
Proof.
  intros H. rewrite (rsegs_announce_sources m (sm_sources m) [] []). cbn [app].
  rewrite (rsegs_announce_names (sm_names m) [] _ chunks). cbn [app].
  rewrite (rsegs_chunks _ _ _ H). apply map_ext. intros [tx mp]. cbn [fst snd]. f_equal.
  apply rsF_ext; [apply fileT_get_source|reflexivity].
Qed.

Lemma rsegs_sm_sources m (Nn : list text) chunks : only_chunks chunks = true ->
  rsegs_of_events (announce_sources m (sm_sources m) 0 ++ chunks) [] [] =
  map (fun ch => (fst ch, rsF (fileM m) (fileT []) (snd ch))) (chunks_of chunks).
Proof.
  intros H. rewrite (rsegs_announce_sources m (sm_sources m) [] []). cbn [app].
  rewrite (rsegs_chunks _ _ _ H). apply map_ext. intros [tx mp]. cbn [fst snd]. f_equal.
  apply rsF_ext; [apply fileT_get_source|reflexivity].
Qed.

(* ------------------------------------------------------------------ *)
(* A3, columns = true: the text-less splitter                           *)
(* ------------------------------------------------------------------ *)
Lemma final_loop_chunks rl rc : forall ms al, only_chunks (sm_final_loop ms rl rc al) = true.
Proof.
  induction ms as [|m ms IH]; intros al; [reflexivity|]. cbn [sm_final_loop].
  destruct ((rl <=? g_line m) && ((rc <=? g_col m) || (rl <? g_line m))); [apply IH|].
  destruct (m_orig m); [cbn; apply IH|]. destruct (al =? g_line m); [cbn; apply IH|apply IH].
Qed.

Lemma ssorted_lines a ms : Forall (fun b => pos_le a b = true) ms -> Forall (fun b => g_line a <= g_line b) ms.
Proof.
  intros H. eapply Forall_impl; [|exact H]. cbn beta. intros b Hb. apply pos_le_iff in Hb. lia.
Qed.

(* segments at or after the end are dropped, unmapped segments before the first mapped one of
   their line are dropped: no position of the text sees the difference *)
Lemma final_loop_lookup rl rc l c : plt (l, c) (rl, rc) -> forall ms al best best',
  ssorted ms -> Forall (fun m => al <= g_line m) ms -> oo best = oo best' -> (al < l -> oo best = None) ->
  oo (lookup_from (chunk_mappings (sm_final_loop ms rl rc al)) l c best) = oo (lookup_from ms l c best').
Proof.
  intros Hp. unfold plt in Hp. cbn [fst snd] in Hp.
  induction ms as [|m ms IH]; intros al best best' Hs Hal Hoo Hlt; [exact Hoo|].
  destruct Hs as [Hm Hs]. apply ssorted_lines in Hm. inversion Hal as [|? ? Ham Hams]; subst.
  cbn [sm_final_loop lookup_from].
  destruct ((rl <=? g_line m) && ((rc <=? g_col m) || (rl <? g_line m))) eqn:Eend.
  { assert (Q : (g_line m =? l) && (g_col m <=? c) = false).
    { apply andb_true_iff in Eend. destruct Eend as [E1 E2]. apply N.leb_le in E1. apply orb_true_iff in E2.
      apply andb_false_iff. destruct (N.eq_dec (g_line m) l) as [El|El].
      - right. apply N.leb_gt. destruct E2 as [E2|E2]; [apply N.leb_le in E2|apply N.ltb_lt in E2]; lia.
      - left. apply N.eqb_neq. exact El. }
    rewrite Q. apply IH; assumption. }
  destruct (m_orig m) as [o|] eqn:Eo.
  - cbn [chunk_mappings lookup_from]. destruct ((g_line m =? l) && (g_col m <=? c)) eqn:Q.
    + apply IH; [exact Hs|exact Hm|reflexivity|].
      apply andb_true_iff in Q. destruct Q as [Q _]. apply N.eqb_eq in Q. lia.
    + apply IH; [exact Hs|exact Hm|exact Hoo|]. intros H. apply Hlt. lia.
  - destruct (al =? g_line m) eqn:Ea.
    + cbn [chunk_mappings lookup_from unmapped g_line g_col].
      destruct ((g_line m =? l) && (g_col m <=? c)) eqn:Q.
      * apply IH; [exact Hs|exact Hams|cbn [oo m_orig]; rewrite Eo; reflexivity|reflexivity].
      * apply IH; assumption.
    + apply N.eqb_neq in Ea. destruct ((g_line m =? l) && (g_col m <=? c)) eqn:Q.
      * apply andb_true_iff in Q. destruct Q as [Q _]. apply N.eqb_eq in Q.
        assert (Hb : oo best = None) by (apply Hlt; lia).
        apply IH; [exact Hs|exact Hams|cbn [oo]; rewrite Hb, Eo; reflexivity|exact Hlt].
      * apply IH; assumption.
Qed.

Lemma advance_start_nil t : advance 1 0 t = (1, 0) -> t = [].
Proof.
  destruct t as [|b t]; [reflexivity|]. intros H. pose proof (advance_plt b t 1 0) as Hp.
  rewrite H in Hp. unfold plt in Hp. cbn [fst snd] in Hp. lia.
Qed.

Theorem sm_final_attr_sorted (t : text) (m : smap) :
  sorted_by pos_le (decode_mappings (sm_mappings m)) = true ->
  attr_of_final_events (fst (sm_stream_final t m)) t true = attr_of_map (Some m) t true.
Proof.
  intros Hs. unfold sm_stream_final. rewrite gen_info_advance.
  destruct (advance 1 0 t) as [rl rc] eqn:Eadv.
  destruct ((rl =? 1) && (rc =? 0)) eqn:E.
  - apply andb_true_iff in E. destruct E as [E1 E2]. apply N.eqb_eq in E1. apply N.eqb_eq in E2. subst.
    rewrite (advance_start_nil t Eadv). reflexivity.
  - cbn [fst]. rewrite attr_of_map_some. unfold attr_of_final_events.
    rewrite (rsegs_sm_both m _ (final_loop_chunks rl rc _ 0)), map_map. cbn [snd].
    rewrite <- (map_map snd (rsF (fileM m) (fileT (sm_names m)))), <- chunk_mappings_chunks_of.
    rewrite attr_by_pos_fun. apply attr_by_fun_ext. intros l c _ Hlt. rewrite Eadv in Hlt.
    rewrite seg_fun_map. f_equal. unfold lookup.
    apply (final_loop_lookup rl rc l c Hlt _ 0 None None).
    + apply sorted_ssorted. exact Hs.
    + apply Forall_forall. intros; lia.
    + reflexivity.
    + reflexivity.
Qed.

(* ------------------------------------------------------------------ *)
(* A3, columns = false                                                  *)
(* ------------------------------------------------------------------ *)
Lemma lines_final_loop_chunks fl : forall ms cur, only_chunks (sm_lines_final_loop ms cur fl) = true.
Proof.
  induction ms as [|m ms IH]; intros cur; [reflexivity|]. cbn [sm_lines_final_loop].
  destruct (m_orig m); [|apply IH]. destruct ((cur <=? g_line m) && (g_line m <=? fl)); [cbn; apply IH|apply IH].
Qed.

Lemma lines_final_beyond fl l : forall ms cur, Forall (fun x => l < g_line x) ms ->
  first_mapped (chunk_mappings (sm_lines_final_loop ms cur fl)) l = None /\ first_mapped ms l = None.
Proof.
  induction ms as [|m ms IH]; intros cur H; [split; reflexivity|].
  inversion H as [|? ? Hm Hms]; subst. cbn [sm_lines_final_loop first_mapped].
  replace (g_line m =? l) with false by (symmetry; apply N.eqb_neq; lia).
  destruct (m_orig m) as [o|]; [|apply IH; exact Hms].
  destruct ((cur <=? g_line m) && (g_line m <=? fl)); [|apply IH; exact Hms].
  cbn [chunk_mappings first_mapped g_line]. replace (g_line m =? l) with false by (symmetry; apply N.eqb_neq; lia).
  apply IH. exact Hms.
Qed.

Lemma lines_final_first fl l : forall ms cur, ssorted ms -> cur <= l -> l <= fl ->
  first_mapped (chunk_mappings (sm_lines_final_loop ms cur fl)) l = first_mapped ms l.
Proof.
  induction ms as [|m ms IH]; intros cur Hs Hc Hl; [reflexivity|].
  destruct Hs as [Hm Hs]. apply ssorted_lines in Hm. cbn [sm_lines_final_loop first_mapped].
  destruct (m_orig m) as [o|].
  - destruct ((cur <=? g_line m) && (g_line m <=? fl)) eqn:E.
    + cbn [chunk_mappings first_mapped g_line m_orig]. destruct (g_line m =? l) eqn:El; [reflexivity|].
      apply N.eqb_neq in El. destruct (N.lt_ge_cases (g_line m) l) as [Hlt|Hge].
      * apply IH; [exact Hs|lia|exact Hl].
      * assert (Hb : Forall (fun x => l < g_line x) ms).
        { eapply Forall_impl; [|exact Hm]. cbn beta. intros x Hx. lia. }
        destruct (lines_final_beyond fl l ms (g_line m + 1) Hb) as [E1 E2]. rewrite E1, E2. reflexivity.
    + replace (g_line m =? l) with false.
      * apply IH; assumption.
      * symmetry. apply N.eqb_neq. intros El. apply andb_false_iff in E.
        destruct E as [E|E]; [apply N.leb_gt in E|apply N.leb_gt in E]; lia.
  - destruct (g_line m =? l); apply IH; assumption.
Qed.

Theorem sm_lines_final_attr_sorted (t : text) (m : smap) :
  sorted_by pos_le (decode_mappings (sm_mappings m)) = true ->
  attr_of_final_events (fst (sm_stream_lines_final t m)) t false = attr_of_map (Some m) t false.
Proof.
  intros Hs. unfold sm_stream_lines_final. rewrite gen_info_advance.
  destruct (advance 1 0 t) as [rl rc] eqn:Eadv.
  destruct ((rl =? 1) && (rc =? 0)) eqn:E.
  - apply andb_true_iff in E. destruct E as [E1 E2]. apply N.eqb_eq in E1. apply N.eqb_eq in E2. subst.
    rewrite (advance_start_nil t Eadv). reflexivity.
  - cbn [fst]. rewrite attr_of_map_some. unfold attr_of_final_events.
    rewrite (rsegs_sm_sources m [] _ (lines_final_loop_chunks _ _ 1)), map_map. cbn [snd].
    rewrite <- (map_map snd (rsF (fileM m) (fileT []))), <- chunk_mappings_chunks_of.
    rewrite attr_by_pos_fun. apply attr_by_fun_ext. intros l c Hle Hlt. rewrite Eadv in Hlt.
    rewrite seg_fun_map. f_equal. unfold ple in Hle. unfold plt in Hlt. cbn [fst snd] in Hle, Hlt.
    apply lines_final_first; [apply sorted_ssorted; exact Hs|lia|].
    destruct (rc =? 0) eqn:Erc; [apply N.eqb_eq in Erc|apply N.eqb_neq in Erc]; lia.
Qed.

(* ------------------------------------------------------------------ *)
(* chunk texts that stay on one line                                    *)
(* ------------------------------------------------------------------ *)
Fixpoint nl_last (x : text) : Prop :=
  match x with
  | [] => True
  | b :: x' => (b = 10 -> x' = []) /\ nl_last x'
  end.

Lemma nl_last_no_nl b : no_nl b -> nl_last b.
Proof.
  induction 1 as [|c b Hc _ IH]; [exact I|]. cbn [nl_last]. split; [intros E; contradiction|exact IH].
Qed.

Lemma nl_last_snoc b : no_nl b -> nl_last (b ++ [10]).
Proof.
  induction 1 as [|c b Hc _ IH]; cbn [app nl_last].
  - split; [reflexivity|exact I].
  - split; [intros E; contradiction|exact IH].
Qed.

Lemma nl_last_piece x : piece_shape x -> nl_last x.
Proof.
  intros [b [Hb [->|[-> _]]]]; [apply nl_last_snoc|apply nl_last_no_nl]; exact Hb.
Qed.

Lemma nl_last_firstn : forall n x, nl_last x -> nl_last (firstn n x).
Proof.
  induction n as [|n IH]; intros x H; [exact I|]. destruct x as [|b x]; [exact I|].
  cbn [firstn nl_last] in *. destruct H as [H1 H2]. split; [|apply IH; exact H2].
  intros E. rewrite (H1 E). apply firstn_nil.
Qed.

Lemma nl_last_skipn : forall n x, nl_last x -> nl_last (skipn n x).
Proof.
  induction n as [|n IH]; intros x H; [exact H|]. destruct x as [|b x]; [exact I|].
  cbn [skipn]. apply IH. apply H.
Qed.

(* a chunk on one line whose bytes all get the attribution a *)
Lemma abf_const f a : forall x, nl_last x -> forall L C,
  (forall k, k < len x -> f L (C + k) = a) -> attr_by_fun f x L C = map (fun _ => a) x.
Proof.
  induction x as [|b x IH]; intros Hx L C H; [reflexivity|].
  cbn [attr_by_fun map]. destruct Hx as [H1 H2]. f_equal.
  - rewrite <- (N.add_0_r C). apply H. rewrite slen_cons. lia.
  - destruct (b =? NL) eqn:E.
    + apply N.eqb_eq in E. rewrite (H1 E). reflexivity.
    + apply IH; [exact H2|]. intros k Hk. replace (C + 1 + k) with (C + (k + 1)) by lia.
      apply H. rewrite slen_cons. lia.
Qed.

(* ------------------------------------------------------------------ *)
(* substring on ASCII lines                                             *)
(* ------------------------------------------------------------------ *)
Lemma substring_ascii_some line C C' : ascii line = true -> C <= C' -> C' <= len line ->
  substring line C (Some C') = take (C' - C) (drop C line).
Proof.
  intros Ha H1 H2. unfold substring. destruct (C' <=? C) eqn:E.
  - apply N.leb_le in E. replace (C' - C) with 0 by lia. rewrite stake_0. reflexivity.
  - rewrite !co_ascii by exact Ha. rewrite !N.min_l by lia. reflexivity.
Qed.

Lemma substring_ascii_none line C : ascii line = true -> substring line C None = drop C line.
Proof.
  intros Ha. unfold substring. destruct (len line + 1 <=? C) eqn:E.
  - apply N.leb_le in E. rewrite sdrop_all by lia. reflexivity.
  - apply N.leb_gt in E. rewrite !co_ascii by exact Ha. rewrite N.min_l by lia. rewrite N.min_r by lia.
    unfold slice. apply stake_all. rewrite slen_drop. lia.
Qed.

(* ------------------------------------------------------------------ *)
(* what a tiling says about the bytes of its chunks                     *)
(* ------------------------------------------------------------------ *)
Definition real (ls : list text) (b : N * N) : Prop :=
  exists line, line_at ls (fst b) = Some line /\ snd b < len line.

Definition span_ok (ls : list text) (p q : N * N) (e : event) : Prop :=
  match e with
  | EChunk (Some x) mp =>
    nl_last x /\ forall k, k < len x ->
      ple p (g_line mp, g_col mp + k) /\ plt (g_line mp, g_col mp + k) q /\ real ls (g_line mp, g_col mp + k)
  | _ => False
  end.

Lemma span_ok_weaken ls p p' q e : ple p' p -> span_ok ls p q e -> span_ok ls p' q e.
Proof.
  intros Hp. destruct e as [[x|] mp|i n c|i n]; cbn [span_ok]; try (intros F; exact F).
  intros [H1 H2]. split; [exact H1|]. intros k Hk. destruct (H2 k Hk) as [A [B C]].
  split; [eapply ple_trans; eassumption|]. split; assumption.
Qed.

Lemma tiles_beyond ls V evs p q : tiles ls V evs p q -> len ls < fst p -> evs = [] /\ len ls < fst q.
Proof.
  induction 1 as [p|p p' evs q H1 H2 _ IH|L C C' line o evs q Hs Hl HC HV' _ IH
    |L C C' line evs q Hs Hl HC HV' He _ IH|L C line o evs q Hs Hl _ IH|L C line evs q Hs Hl He _ IH
    |L line o evs q Hl _ IH]; intros Hb; cbn [fst] in Hb;
    try (apply line_at_some in Hl; destruct Hl as [_ [Hl _]]; lia).
  - split; [reflexivity|exact Hb].
  - apply IH. exact H2.
Qed.

Lemma tiles_mono ls V evs p q : tiles ls V evs p q -> fst p <= len ls -> ple p q.
Proof.
  induction 1 as [p|p p' evs q H1 H2 _ IH|L C C' line o evs q Hs Hl HC HV' _ IH
    |L C C' line evs q Hs Hl HC HV' He _ IH|L C line o evs q Hs Hl Ht IH|L C line evs q Hs Hl He Ht IH
    |L line o evs q Hl Ht IH]; intros Hb; cbn [fst] in *.
  - apply ple_refl.
  - lia.
  - eapply ple_trans; [|apply IH; exact Hb]. unfold ple. cbn [fst snd]. lia.
  - eapply ple_trans; [|apply IH; exact Hb]. unfold ple. cbn [fst snd]. lia.
  - destruct (N.le_gt_cases (L + 1) (len ls)) as [Hle|Hgt].
    + eapply ple_trans; [|apply IH; exact Hle]. unfold ple. cbn [fst snd]. lia.
    + destruct (tiles_beyond _ _ _ _ _ Ht) as [_ Hq]; [cbn [fst]; lia|]. unfold ple. cbn [fst snd]. lia.
  - destruct (N.le_gt_cases (L + 1) (len ls)) as [Hle|Hgt].
    + eapply ple_trans; [|apply IH; exact Hle]. unfold ple. cbn [fst snd]. lia.
    + destruct (tiles_beyond _ _ _ _ _ Ht) as [_ Hq]; [cbn [fst]; lia|]. unfold ple. cbn [fst snd]. lia.
  - destruct (N.le_gt_cases (L + 1) (len ls)) as [Hle|Hgt].
    + eapply ple_trans; [|apply IH; exact Hle]. unfold ple. cbn [fst snd]. lia.
    + destruct (tiles_beyond _ _ _ _ _ Ht) as [_ Hq]; [cbn [fst]; lia|]. unfold ple. cbn [fst snd]. lia.
Qed.

(* from (L, C) the rest of line L lies before q when the tiling continues at (L+1, 0) *)
Lemma tiles_next_line ls V evs L q c : tiles ls V evs (L + 1, 0) q -> L <= len ls -> plt (L, c) q.
Proof.
  intros Ht HL. destruct (N.le_gt_cases (L + 1) (len ls)) as [Hle|Hgt].
  - eapply plt_ple_trans; [|apply (tiles_mono _ _ _ _ _ Ht); exact Hle]. unfold plt. cbn [fst snd]. lia.
  - destruct (tiles_beyond _ _ _ _ _ Ht) as [_ Hq]; [cbn [fst]; lia|]. unfold plt. cbn [fst snd]. lia.
Qed.

Lemma ascii_line ls L line : Forall (fun l => ascii l = true) ls -> line_at ls L = Some line -> ascii line = true.
Proof. intros Ha Hl. rewrite Forall_forall in Ha. apply Ha. eapply line_at_in. exact Hl. Qed.

Lemma blen_le line : blen line <= len line.
Proof. unfold blen. destruct (ends_with_nl line); lia. Qed.

Lemma tiles_span ls : Forall (fun l => ascii l = true) ls -> lines_shape ls ->
  forall evs p q, tiles ls (Vb ls) evs p q -> Forall (span_ok ls p q) evs.
Proof.
  intros Ha Hshape. pose proof (lines_shape_pieces ls Hshape) as Hpieces.
  assert (Hnl : forall L line, line_at ls L = Some line -> nl_last line).
  { intros L line Hl. apply nl_last_piece. rewrite Forall_forall in Hpieces. apply Hpieces.
    eapply line_at_in. exact Hl. }
  induction 1 as [p|p p' evs q H1 H2 Ht IH|L C C' line o evs q Hs Hl HC HV' Ht IH
    |L C C' line evs q Hs Hl HC HV' He Ht IH|L C line o evs q Hs Hl Ht IH|L C line evs q Hs Hl He Ht IH
    |L line o evs q Hl Ht IH].
  - constructor.
  - destruct (tiles_beyond _ _ _ _ _ Ht H2) as [E _]. subst evs. constructor.
  - pose proof (ascii_line ls L line Ha Hl) as Hal. pose proof (HV' line Hl) as Hb. pose proof (blen_le line) as Hbl.
    pose proof (line_at_some _ _ _ Hl) as [_ [HL _]].
    constructor.
    + cbn [span_ok g_line g_col]. rewrite (substring_ascii_some line C C' Hal HC) by lia.
      split; [apply nl_last_firstn; apply nl_last_skipn; eapply Hnl; exact Hl|].
      intros k Hk. rewrite slen_take, slen_drop in Hk.
      split; [unfold ple; cbn [fst snd]; lia|]. split.
      * eapply plt_ple_trans; [|apply (tiles_mono _ _ _ _ _ Ht); exact HL]. unfold plt. cbn [fst snd]. lia.
      * exists line. cbn [fst snd]. split; [exact Hl|lia].
    + eapply Forall_impl; [|exact IH]. intros e. apply span_ok_weaken. unfold ple. cbn [fst snd]. lia.
  - eapply Forall_impl; [|exact IH]. intros e. apply span_ok_weaken. unfold ple. cbn [fst snd]. lia.
  - pose proof (ascii_line ls L line Ha Hl) as Hal. pose proof (line_at_some _ _ _ Hl) as [_ [HL _]].
    constructor.
    + cbn [span_ok g_line g_col]. rewrite (substring_ascii_none line C Hal).
      split; [apply nl_last_skipn; eapply Hnl; exact Hl|].
      intros k Hk. rewrite slen_drop in Hk.
      split; [unfold ple; cbn [fst snd]; lia|]. split.
      * apply (tiles_next_line _ _ _ _ _ _ Ht HL).
      * exists line. cbn [fst snd]. split; [exact Hl|lia].
    + eapply Forall_impl; [|exact IH]. intros e. apply span_ok_weaken. unfold ple. cbn [fst snd]. lia.
  - eapply Forall_impl; [|exact IH]. intros e. apply span_ok_weaken. unfold ple. cbn [fst snd]. lia.
  - pose proof (line_at_some _ _ _ Hl) as [_ [HL _]].
    constructor.
    + cbn [span_ok g_line g_col]. split; [eapply Hnl; exact Hl|].
      intros k Hk. split; [unfold ple; cbn [fst snd]; lia|]. split.
      * apply (tiles_next_line _ _ _ _ _ _ Ht HL).
      * exists line. cbn [fst snd]. split; [exact Hl|lia].
    + eapply Forall_impl; [|exact IH]. intros e. apply span_ok_weaken. unfold ple. cbn [fst snd]. lia.
Qed.

(* ------------------------------------------------------------------ *)
(* lookups in a sorted segment list                                     *)
(* ------------------------------------------------------------------ *)
Lemma lookup_from_app : forall a b l c best,
  lookup_from (a ++ b) l c best = lookup_from b l c (lookup_from a l c best).
Proof.
  induction a as [|x a IH]; intros b l c best; [reflexivity|]. cbn [app lookup_from].
  destruct ((g_line x =? l) && (g_col x <=? c)); apply IH.
Qed.

Lemma lookup_before pre post l c :
  Forall (fun x => plt (l, c) (mpos x)) post -> lookup (pre ++ post) l c = lookup pre l c.
Proof.
  intros H. unfold lookup. rewrite lookup_from_app, lookup_from_none; [reflexivity|].
  eapply Forall_impl; [|exact H]. cbn beta. intros x Hx. unfold qual. unfold plt, mpos in Hx. cbn [fst snd] in Hx.
  apply andb_false_iff. destruct (N.eq_dec (g_line x) l) as [E|E].
  - right. apply N.leb_gt. lia.
  - left. apply N.eqb_neq. exact E.
Qed.

Lemma lookup_snoc pre m l c :
  lookup (pre ++ [m]) l c = if qual l c m then m_orig m else lookup pre l c.
Proof. unfold lookup. rewrite lookup_from_snoc. destruct (qual l c m); reflexivity. Qed.

Lemma pos_le_ple a b : pos_le a b = true -> ple (mpos a) (mpos b).
Proof. intros H. apply pos_le_iff in H. unfold ple, mpos. cbn [fst snd]. exact H. Qed.

(* ------------------------------------------------------------------ *)
(* the full splitter: the label of the state is the segment in force    *)
(* ------------------------------------------------------------------ *)
Definition LabelInv (ls : list text) (pre : list mapping) (st : fstate) : Prop :=
  forall b, real ls b -> ple (fpos st) b ->
    lookup pre (fst b) (snd b) = if f_active st && (fst b =? f_line st) then f_orig st else None.

Lemma real_before_end ls fl fc b : end_ok ls fl fc -> real ls b -> plt b (fl, fc).
Proof.
  intros He [line [Hl Hc]]. pose proof (line_at_some _ _ _ Hl) as [_ [HL _]].
  unfold plt. cbn [fst snd]. destruct He as [[H1 H2]|[H1 [last [Hlast H2]]]]; [lia|].
  destruct (N.eq_dec (fst b) fl) as [E|E]; [|lia]. rewrite E in Hl. rewrite Hl in Hlast.
  inversion Hlast. subst last. lia.
Qed.

Definition lab_is (o : option orig) (e : event) : Prop :=
  match e with EChunk _ mp => m_orig mp = o | _ => True end.

Lemma ph1_labels ls st m :
  Forall (fun e => lab_is (f_orig st) e /\ f_active st = true /\
                   match e with EChunk _ mp => g_line mp = f_line st | _ => True end) (snd (ph1 ls st m)).
Proof.
  unfold ph1. destruct (f_active st && (f_line st <=? len ls)) eqn:E; [|constructor].
  apply andb_true_iff in E. destruct E as [E _].
  destruct (line_at ls (f_line st)) as [line|]; [|constructor].
  destruct (negb (g_line m =? f_line st)); cbn [snd].
  - destruct (is_nil (substring line (f_col st) None)); constructor; [|constructor].
    cbn [lab_is m_orig g_line]. repeat split. exact E.
  - destruct (is_nil (substring line (f_col st) (Some (g_col m)))); constructor; [|constructor].
    cbn [lab_is m_orig g_line]. repeat split. exact E.
Qed.

Lemma whole_lines_labels suf : forall i cur tg, Forall (lab_is None) (whole_lines suf i cur tg).
Proof.
  induction suf as [|l suf IH]; intros i cur tg; [constructor|]. cbn [whole_lines].
  destruct ((cur <=? i) && (i <? tg)); [constructor; [reflexivity|]|]; apply IH.
Qed.

Lemma ph24_labels ls st m : Forall (lab_is None) (snd (ph24 ls st m)).
Proof.
  unfold ph24.
  assert (H2 : Forall (lab_is None) (snd (ph2 ls st m))).
  { unfold ph2. destruct ((f_line st <? g_line m) && (0 <? f_col st)); [|constructor]. cbn [snd].
    destruct (f_line st <=? len ls); [|constructor].
    destruct (line_at ls (f_line st)); [|constructor]. cbv zeta.
    match goal with |- context [is_nil ?x] => destruct (is_nil x) end; [constructor|].
    constructor; [reflexivity|constructor]. }
  destruct (ph2 ls st m) as [st2 ev2]. cbn [snd] in H2.
  assert (H3 : Forall (lab_is None) (snd (ph3 ls st2 m))).
  { unfold ph3. destruct (f_line st2 <? g_line m); [|constructor]. cbn [snd]. apply whole_lines_labels. }
  destruct (ph3 ls st2 m) as [st3 ev3]. cbn [snd] in H3.
  assert (H4 : Forall (lab_is None) (snd (ph4 ls st3 m))).
  { unfold ph4. destruct (f_col st3 <? g_col m); [|constructor]. cbn [snd].
    destruct (f_line st3 <=? len ls); [|constructor].
    destruct (line_at ls (f_line st3)); [|constructor]. cbv zeta.
    match goal with |- context [is_nil ?x] => destruct (is_nil x) end; [constructor|].
    constructor; [reflexivity|constructor]. }
  destruct (ph4 ls st3 m) as [st4 ev4]. cbn [snd] in *.
  apply Forall_app. split; [exact H2|]. apply Forall_app. split; assumption.
Qed.

Lemma step_decomp ls fl fc st m :
  sm_full_step ls fl fc st m =
  if step_guard st m then (st, [])
  else (ph5 fl fc (fst (ph24 ls (fst (ph1 ls st m)) m)) m, snd (ph1 ls st m) ++ snd (ph24 ls (fst (ph1 ls st m)) m)).
Proof.
  rewrite sm_full_step_eq. destruct (step_guard st m); [reflexivity|]. unfold ph24. destruct (ph1 ls st m) as [st1 ev1]. cbn [fst snd].
  destruct (ph2 ls st1 m) as [st2 ev2]. destruct (ph3 ls st2 m) as [st3 ev3].
  destruct (ph4 ls st3 m) as [st4 ev4]. reflexivity.
Qed.

Lemma ph1_cases ls st m : 1 <= f_line st -> (f_active st = true -> f_line st <= len ls) ->
  (f_active st = false /\ fst (ph1 ls st m) = st) \/
  (f_active st = true /\ g_line m = f_line st /\ fpos (fst (ph1 ls st m)) = (f_line st, g_col m)) \/
  (f_active st = true /\ g_line m <> f_line st /\ fpos (fst (ph1 ls st m)) = (f_line st + 1, 0)).
Proof.
  intros H1 Hact. unfold ph1. destruct (f_active st) eqn:Ea.
  - specialize (Hact eq_refl).
    replace (f_line st <=? len ls) with true by (symmetry; apply N.leb_le; exact Hact). cbn [andb].
    destruct (line_at_exists ls (f_line st) H1 Hact) as [line Hline]. rewrite Hline.
    destruct (g_line m =? f_line st) eqn:E; cbn [negb fst].
    + right. left. apply N.eqb_eq in E. split; [reflexivity|]. split; [exact E|reflexivity].
    + right. right. apply N.eqb_neq in E. split; [reflexivity|]. split; [exact E|reflexivity].
  - left. cbn [andb fst]. split; reflexivity.
Qed.

Definition chunk_good (ms : list mapping) (e : event) : Prop :=
  match e with
  | EChunk (Some x) mp =>
    nl_last x /\ forall k, k < len x -> lookup ms (g_line mp) (g_col mp + k) = m_orig mp
  | _ => False
  end.

Section FullAttr.
Variable ls : list text.
Hypothesis Hasc : Forall (fun l => ascii l = true) ls.
Hypothesis Hshape : lines_shape ls.
Hypothesis SOK : Forall starts_ok ls.
Variables fl fc : N.
Hypothesis Hend : fl <= len ls + 1 /\ (fl = len ls + 1 -> fc = 0).
Hypothesis He : end_ok ls fl fc.

Lemma step_attr ms pre st m :
  Inv fl fc st -> LabelInv ls pre st -> ple (fpos st) (mpos m) -> Vb ls (g_line m) (g_col m) ->
  (forall l c, plt (l, c) (mpos m) -> lookup ms l c = lookup pre l c) ->
  Forall (chunk_good ms) (snd (sm_full_step ls fl fc st m)).
Proof.
  intros HI HL Hle HV Hms. pose proof (Inv_active_le ls fl fc Hend st HI) as Hact. destruct HI as [H1 _].
  rewrite step_decomp, (proj2 (step_guard_false st m) Hle). cbn [snd].
  pose proof (ph1_spec ls (Vb ls) SOK st m H1 Hact Hle HV) as [A1 [A2 [A3 A4]]].
  pose proof (ph1_labels ls st m) as L1. pose proof (ph1_cases ls st m H1 Hact) as Hc.
  pose proof (ph24_spec ls (Vb ls) SOK (fst (ph1 ls st m)) m A1 A2 HV) as [B1 [B2 B3]].
  pose proof (ph24_labels ls (fst (ph1 ls st m)) m) as L2.
  apply (tiles_span ls Hasc Hshape) in A4. apply (tiles_span ls Hasc Hshape) in B3.
  assert (Hst1 : ple (fpos st) (fpos (fst (ph1 ls st m)))).
  { destruct Hc as [[_ E]|[[_ [E1 E2]]|[_ [_ E2]]]].
    - rewrite E. apply ple_refl.
    - rewrite E2. unfold ple, fpos, mpos in *. cbn [fst snd] in *. lia.
    - rewrite E2. unfold ple, fpos. cbn [fst snd]. lia. }
  apply Forall_app. split.
  - rewrite Forall_forall in *. intros e Hin. specialize (A4 e Hin). specialize (L1 e Hin).
    destruct e as [[x|] mp|i n c|i n]; cbn [span_ok] in A4; try contradiction.
    destruct A4 as [N1 N2]. destruct L1 as [La [Lb Lc]]. cbn [lab_is] in La.
    split; [exact N1|]. intros k Hk. destruct (N2 k Hk) as [P1 [P2 P3]].
    rewrite Hms by (eapply plt_ple_trans; [exact P2|exact A2]).
    pose proof (HL _ P3 P1) as Q. cbn [fst snd] in Q. rewrite Q, Lb, Lc, N.eqb_refl. cbn [andb]. symmetry. exact La.
  - rewrite Forall_forall in *. intros e Hin. specialize (B3 e Hin). specialize (L2 e Hin).
    destruct e as [[x|] mp|i n c|i n]; cbn [span_ok] in B3; try contradiction.
    destruct B3 as [N1 N2]. cbn [lab_is] in L2.
    split; [exact N1|]. intros k Hk. destruct (N2 k Hk) as [P1 [P2 P3]].
    rewrite (Hms _ _ P2). pose proof (HL _ P3 (ple_trans _ _ _ Hst1 P1)) as Q. cbn [fst snd] in Q. rewrite Q, L2.
    destruct Hc as [[E _]|[[_ [E1 E2]]|[_ [_ E2]]]].
    + rewrite E. reflexivity.
    + exfalso. rewrite E2 in P1. unfold ple, plt, mpos in *. cbn [fst snd] in *. lia.
    + rewrite E2 in P1. replace (g_line mp =? f_line st) with false; [rewrite andb_false_r; reflexivity|].
      symmetry. apply N.eqb_neq. unfold ple in P1. cbn [fst snd] in P1. lia.
Qed.

Lemma step_label pre st m :
  Inv fl fc st -> LabelInv ls pre st -> ple (fpos st) (mpos m) -> Vb ls (g_line m) (g_col m) ->
  LabelInv ls (pre ++ [m]) (fst (sm_full_step ls fl fc st m)).
Proof.
  intros HI HL Hle HV. pose proof (Inv_active_le ls fl fc Hend st HI) as Hact. destruct HI as [H1 _].
  rewrite step_decomp, (proj2 (step_guard_false st m) Hle). cbn [fst].
  pose proof (ph1_spec ls (Vb ls) SOK st m H1 Hact Hle HV) as [A1 [A2 [A3 _]]].
  pose proof (ph24_spec ls (Vb ls) SOK (fst (ph1 ls st m)) m A1 A2 HV) as [B1 [B2 _]].
  set (st4 := fst (ph24 ls (fst (ph1 ls st m)) m)) in *.
  assert (Hin : f_active st4 = false) by congruence.
  assert (Hp : fpos (ph5 fl fc st4 m) = mpos m).
  { rewrite <- B1. unfold ph5. destruct (m_orig m); [|reflexivity].
    destruct ((g_line m <? fl) || ((g_line m =? fl) && (g_col m <? fc))); reflexivity. }
  assert (Hl' : f_line (ph5 fl fc st4 m) = g_line m).
  { change (f_line (ph5 fl fc st4 m)) with (fst (fpos (ph5 fl fc st4 m))). rewrite Hp. reflexivity. }
  intros b Hr Hb. rewrite Hp in Hb. rewrite lookup_snoc, Hl'. unfold qual.
  unfold ple, mpos in Hb. cbn [fst snd] in Hb.
  destruct (N.eq_dec (fst b) (g_line m)) as [E|E].
  - replace (g_line m =? fst b) with true by (symmetry; apply N.eqb_eq; lia).
    replace (g_col m <=? snd b) with true by (symmetry; apply N.leb_le; lia).
    replace (fst b =? g_line m) with true by (symmetry; apply N.eqb_eq; lia). cbn [andb]. rewrite andb_true_r.
    unfold ph5. destruct (m_orig m) as [o|] eqn:Eo.
    + destruct ((g_line m <? fl) || ((g_line m =? fl) && (g_col m <? fc))) eqn:Ec; cbn [f_active f_orig].
      * reflexivity.
      * exfalso. pose proof (real_before_end ls fl fc b He Hr) as Hlt. unfold plt in Hlt. cbn [fst snd] in Hlt.
        apply orb_false_iff in Ec. destruct Ec as [E1 E2]. apply N.ltb_ge in E1.
        apply andb_false_iff in E2. destruct E2 as [E2|E2]; [apply N.eqb_neq in E2|apply N.ltb_ge in E2]; lia.
    + rewrite Hin. reflexivity.
  - replace (g_line m =? fst b) with false by (symmetry; apply N.eqb_neq; lia).
    replace (fst b =? g_line m) with false by (symmetry; apply N.eqb_neq; lia). cbn [andb]. rewrite andb_false_r.
    assert (Hb' : ple (fpos st) b).
    { eapply ple_trans; [exact Hle|]. unfold ple, mpos. cbn [fst snd]. lia. }
    rewrite (HL b Hr Hb').
    replace (fst b =? f_line st) with false; [rewrite andb_false_r; reflexivity|].
    symmetry. apply N.eqb_neq. unfold ple, fpos, mpos in Hle. cbn [fst snd] in Hle. lia.
Qed.

Lemma loop_attr : forall rest pre st,
  Inv fl fc st -> LabelInv ls pre st -> ssorted (pre ++ rest) ->
  Forall (fun m => Vb ls (g_line m) (g_col m)) rest ->
  match rest with m :: _ => ple (fpos st) (mpos m) | [] => True end ->
  Forall (chunk_good (pre ++ rest)) (snd (sm_full_loop ls fl fc st rest)) /\
  Inv fl fc (fst (sm_full_loop ls fl fc st rest)) /\
  LabelInv ls (pre ++ rest) (fst (sm_full_loop ls fl fc st rest)).
Proof.
  induction rest as [|m rest IH]; intros pre st HI HL Hs HV Hle.
  - cbn [sm_full_loop fst snd]. rewrite app_nil_r. split; [constructor|]. split; assumption.
  - inversion HV as [|? ? HVm HVr]; subst. cbn [sm_full_loop].
    pose proof (step_spec ls (Vb ls) SOK fl fc Hend st m HI Hle HVm) as [A1 [A2 _]].
    assert (Hsuf : ssorted (m :: rest)) by (apply ssorted_app in Hs; apply Hs).
    assert (Hms : forall l c, plt (l, c) (mpos m) -> lookup (pre ++ m :: rest) l c = lookup pre l c).
    { intros l c Hlt. apply lookup_before. constructor; [exact Hlt|].
      destruct Hsuf as [Hm _]. eapply Forall_impl; [|exact Hm]. cbn beta. intros x Hx.
      eapply plt_ple_trans; [exact Hlt|apply pos_le_ple; exact Hx]. }
    pose proof (step_attr (pre ++ m :: rest) pre st m HI HL Hle HVm Hms) as A3.
    pose proof (step_label pre st m HI HL Hle HVm) as A4.
    destruct (sm_full_step ls fl fc st m) as [st1 e1]. cbn [fst snd] in *.
    assert (Hle' : match rest with m' :: _ => ple (fpos st1) (mpos m') | [] => True end).
    { destruct rest as [|m' rest']; [exact I|]. rewrite A1. apply pos_le_ple.
      destruct Hsuf as [Hm _]. inversion Hm. assumption. }
    assert (Hs' : ssorted ((pre ++ [m]) ++ rest)) by (rewrite <- app_assoc; exact Hs).
    pose proof (IH (pre ++ [m]) st1 A2 A4 Hs' HVr Hle') as [B1 [B2 B3]].
    rewrite <- app_assoc in B1, B3. cbn [app] in B1, B3.
    destruct (sm_full_loop ls fl fc st1 rest) as [st2 e2]. cbn [fst snd] in *.
    split; [apply Forall_app; split; assumption|]. split; assumption.
Qed.

Lemma full_attr ms :
  sorted_by pos_le ms = true -> Forall (fun m => Vb ls (g_line m) (g_col m)) ms ->
  Forall (fun m => 1 <= g_line m) ms -> Vb ls fl fc -> len ls <= fl ->
  Forall (chunk_good ms)
    (snd (sm_full_loop ls fl fc (mkF 1 0 false None) ms) ++
     snd (sm_full_step ls fl fc (fst (sm_full_loop ls fl fc (mkF 1 0 false None) ms)) (unmapped fl fc))).
Proof.
  intros Hs HV H1 HVe Hn.
  assert (HI0 : Inv fl fc (mkF 1 0 false None)) by (split; [cbn; lia|cbn; discriminate]).
  assert (HL0 : LabelInv ls [] (mkF 1 0 false None)) by (intros b _ _; reflexivity).
  assert (Hh : match ms with m :: _ => ple (fpos (mkF 1 0 false None)) (mpos m) | [] => True end).
  { destruct ms as [|m ms']; [exact I|]. inversion H1. subst. unfold ple, fpos, mpos. cbn [fst snd f_line f_col]. lia. }
  pose proof (loop_attr ms [] _ HI0 HL0 (sorted_ssorted _ Hs) HV Hh) as [A1 [A2 A3]]. cbn [app] in A1, A3.
  destruct (sm_full_loop ls fl fc (mkF 1 0 false None) ms) as [st evs]. cbn [fst snd] in *.
  apply Forall_app. split; [exact A1|].
  assert (Hdec : ple (fpos st) (fl, fc) \/ ~ ple (fpos st) (fl, fc)) by (unfold ple; cbn [fst snd]; lia).
  destruct Hdec as [Hle|Hnle].
  - apply (step_attr ms ms st (unmapped fl fc) A2 A3 Hle HVe). intros; reflexivity.
  - assert (Ha : f_active st = false).
    { destruct (f_active st) eqn:Ea; [|reflexivity]. destruct A2 as [_ A2]. specialize (A2 Ea).
      exfalso. apply Hnle. unfold plt in A2. unfold ple. lia. }
    rewrite (inert_step ls fl fc st Hn Ha Hnle). constructor.
Qed.

End FullAttr.

(* ------------------------------------------------------------------ *)
(* covering chunks against positions                                    *)
(* ------------------------------------------------------------------ *)
Lemma chunk_good_only ms evs : Forall (chunk_good ms) evs -> only_chunks evs = true.
Proof.
  induction 1 as [|e evs He _ IH]; [reflexivity|]. cbn [only_chunks forallb].
  destruct e as [[x|] mp|i n c|i n]; cbn [chunk_good] in He; try contradiction. exact IH.
Qed.

Lemma Reass_nil_inv t : Reass [] t -> t = [].
Proof. intros [ts [H1 H2]]. cbn in H1. inversion H1. subst ts. symmetry. exact H2. Qed.

Lemma cover_by_pos f n ms : forall evs p t, Reass evs t -> WP evs p -> Forall (chunk_good ms) evs ->
  attr_cover (map (fun ch => (fst ch, rsF f n (snd ch))) (chunks_of evs)) =
  attr_by_fun (fun l c => optF f n (lookup ms l c)) t (fst p) (snd p).
Proof.
  induction evs as [|e evs IH]; intros p t Hr Hw Hg.
  - rewrite (Reass_nil_inv t Hr). reflexivity.
  - inversion Hg as [|? ? He Hg']; subst.
    destruct e as [[x|] mp|i n0 c|i n0]; cbn [chunk_good] in He; try contradiction.
    destruct He as [N1 N2].
    apply Reass_chunk_inv in Hr. destruct Hr as [x' [t' [Ex [Et Hr]]]]. inversion Ex. subst x' t.
    apply WP_chunk_inv in Hw. destruct Hw as [x' [Ex' [Hl [Hc Hw]]]]. inversion Ex'. subst x'.
    cbn [chunks_of map attr_cover fst snd rsF]. rewrite attr_by_fun_app. f_equal.
    + symmetry. apply abf_const; [exact N1|]. intros k Hk. rewrite <- Hl, <- Hc, (N2 k Hk). reflexivity.
    + apply (IH (adv p x) t' Hr Hw Hg').
Qed.

Lemma Reass_nochunk_inv a b t : chunks_of a = [] -> Reass (a ++ b) t -> Reass b t.
Proof.
  intros Ha [ts [H1 H2]]. exists ts. rewrite chunk_texts_chunks_of in *.
  rewrite chunks_of_app, Ha in H1. split; assumption.
Qed.

Lemma WP_nochunk_inv a b p : chunks_of a = [] -> WP (a ++ b) p -> WP b p.
Proof. intros Ha H. unfold WP in *. rewrite chunks_of_app, Ha in H. exact H. Qed.

(* ------------------------------------------------------------------ *)
(* A2, columns = true                                                   *)
(* ------------------------------------------------------------------ *)
Lemma lines_nonempty_len (ls : list text) : is_nil ls = false -> 1 <= len ls.
Proof. destruct ls; [discriminate|]. intros _. rewrite slen_cons. lia. Qed.

Theorem sm_full_attr_sorted (t : text) (m : smap) :
  ascii t = true ->
  sorted_by pos_le (decode_mappings (sm_mappings m)) = true ->
  segs_ok t (decode_mappings (sm_mappings m)) = true ->
  attr_of_stream (fst (sm_stream_full t m)) true = attr_of_map (Some m) t true.
Proof.
  intros Ha Hs Hseg.
  pose proof (sm_stream_full_reassembles_ascii t m Ha Hs) as Hr. apply reassembles_iff in Hr.
  pose proof (sm_stream_full_positioned_partial t m Ha Hs Hseg) as Hw.
  change (WP (fst (sm_stream_full t m)) (1, 0)) in Hw.
  unfold sm_stream_full in *. destruct (is_nil (split_lines t)) eqn:Hnil.
  - apply is_nil_true in Hnil. rewrite (split_lines_nil t Hnil). reflexivity.
  - destruct (lines_end_info (split_lines t)) as [fl fc] eqn:Hinfo.
    pose proof (end_info_ok _ fl fc (is_nil_false _ Hnil) Hinfo) as [He HVe].
    assert (Hend : fl <= len (split_lines t) + 1 /\ (fl = len (split_lines t) + 1 -> fc = 0)).
    { destruct He as [[A B]|[A _]]; lia. }
    assert (Hn : len (split_lines t) <= fl) by (destruct He as [[A B]|[A _]]; lia).
    pose proof (full_attr (split_lines t) (ascii_lines t Ha) (split_lines_shape t)
                  (lines_ok_forall t (ascii_lines_ok t Ha)) fl fc Hend He _ Hs
                  (segs_ok_forall t _ Hseg) (decode_lines_ge1 _) HVe Hn) as Hg.
    destruct (sm_full_loop (split_lines t) fl fc (mkF 1 0 false None) (decode_mappings (sm_mappings m))) as [st evs].
    cbn [fst snd] in *.
    destruct (sm_full_step (split_lines t) fl fc st (unmapped fl fc)) as [st' evs']. cbn [fst snd] in *.
    apply Reass_nochunk_inv in Hr; [|apply announce_sources_chunks].
    apply Reass_nochunk_inv in Hr; [|apply announce_names_chunks].
    apply WP_nochunk_inv in Hw; [|apply announce_sources_chunks].
    apply WP_nochunk_inv in Hw; [|apply announce_names_chunks].
    unfold attr_of_stream. rewrite (rsegs_sm_both m _ (chunk_good_only _ _ Hg)).
    rewrite (cover_by_pos _ _ _ _ (1, 0) t Hr Hw Hg). rewrite attr_of_map_some. reflexivity.
Qed.

(* ------------------------------------------------------------------ *)
(* A2, columns = false: the line splitter                               *)
(* ------------------------------------------------------------------ *)
Definition pair_of (o : option orig) : option (N * N) :=
  match o with Some o => Some (o_src o, o_line o) | None => None end.

(* a chunk that is the whole line g_line of ls, labelled with the first mapped segment of the line *)
Definition line_chunk (ls : list text) (ms : list mapping) (lo : N) (e : event) : Prop :=
  match e with
  | EChunk (Some x) mp =>
    line_at ls (g_line mp) = Some x /\ g_col mp = 0 /\ lo <= g_line mp /\
    pair_of (m_orig mp) = first_mapped ms (g_line mp)
  | _ => False
  end.

Lemma line_chunk_ext ls ms ms' lo lo' e : lo' <= lo ->
  (forall j, lo <= j -> j <= len ls -> first_mapped ms' j = first_mapped ms j) ->
  line_chunk ls ms lo e -> line_chunk ls ms' lo' e.
Proof.
  intros Hlo H. destruct e as [[x|] mp|i n c|i n]; cbn [line_chunk]; try (intros F; exact F).
  intros [H1 [H2 [H3 H4]]]. pose proof (line_at_some _ _ _ H1) as [_ [HL _]].
  split; [exact H1|]. split; [exact H2|]. split; [lia|]. rewrite H by assumption. exact H4.
Qed.

Lemma first_mapped_beyond l : forall ms, Forall (fun x => l < g_line x) ms -> first_mapped ms l = None.
Proof.
  induction ms as [|m ms IH]; intros H; [reflexivity|]. inversion H as [|? ? Hm Hms]; subst.
  cbn [first_mapped]. replace (g_line m =? l) with false by (symmetry; apply N.eqb_neq; lia). apply IH. exact Hms.
Qed.

Lemma whole_lines_chunks ls ms : forall suf i cur tg, 1 <= i -> suf = drop (i - 1) ls ->
  (forall j, cur <= j -> j < tg -> first_mapped ms j = None) ->
  Forall (line_chunk ls ms cur) (whole_lines suf i cur tg).
Proof.
  induction suf as [|l suf IH]; intros i cur tg H1 Hsuf Hnone; [constructor|].
  symmetry in Hsuf. apply drop_cons_nth in Hsuf. destruct Hsuf as [Hnth Hdrop].
  assert (Hl : line_at ls i = Some l).
  { unfold line_at. replace (i =? 0) with false by (symmetry; apply N.eqb_neq; lia). exact Hnth. }
  assert (Hrec : Forall (line_chunk ls ms cur) (whole_lines suf (i + 1) cur tg)).
  { apply IH; [lia| |exact Hnone]. rewrite <- Hdrop. f_equal. lia. }
  cbn [whole_lines]. destruct ((cur <=? i) && (i <? tg)) eqn:E; [|exact Hrec].
  apply andb_true_iff in E. destruct E as [E1 E2]. apply N.leb_le in E1. apply N.ltb_lt in E2.
  constructor; [|exact Hrec]. cbn [line_chunk unmapped g_line g_col m_orig pair_of].
  split; [exact Hl|]. split; [reflexivity|]. split; [exact E1|]. symmetry. apply Hnone; assumption.
Qed.

Lemma lines_loop_chunks ls : forall ms cur, ssorted ms -> 1 <= cur ->
  Forall (line_chunk ls ms cur)
    (snd (sm_lines_full_loop ls ms cur) ++ whole_lines ls 1 (fst (sm_lines_full_loop ls ms cur)) (len ls + 1)).
Proof.
  induction ms as [|m ms IH]; intros cur Hs H1.
  - cbn [sm_lines_full_loop fst snd app]. apply whole_lines_chunks; [lia|rewrite sdrop_0; reflexivity|reflexivity].
  - destruct Hs as [Hm Hs]. apply ssorted_lines in Hm. cbn [sm_lines_full_loop].
    destruct (m_orig m) as [o|] eqn:Eo.
    + destruct ((g_line m <? cur) || (len ls <? g_line m)) eqn:E.
      * eapply Forall_impl; [|apply (IH cur Hs H1)]. intros e. apply line_chunk_ext; [lia|].
        intros j Hj1 Hj2. cbn [first_mapped]. replace (g_line m =? j) with false; [reflexivity|].
        symmetry. apply N.eqb_neq. apply orb_true_iff in E.
        destruct E as [E|E]; apply N.ltb_lt in E; lia.
      * apply orb_false_iff in E. destruct E as [E1 E2]. apply N.ltb_ge in E1. apply N.ltb_ge in E2.
        assert (Hg1 : 1 <= g_line m) by lia.
        destruct (line_at_exists ls (g_line m) Hg1 E2) as [line Hline]. rewrite Hline.
        assert (Hc1 : 1 <= g_line m + 1) by lia.
        pose proof (IH (g_line m + 1) Hs Hc1) as Hrec.
        destruct (sm_lines_full_loop ls ms (g_line m + 1)) as [cur' evs]. cbn [fst snd] in *.
        rewrite <- !app_assoc. apply Forall_app. split; [|cbn [app]; constructor].
        -- apply whole_lines_chunks; [lia|rewrite sdrop_0; reflexivity|].
           intros j Hj1 Hj2. cbn [first_mapped].
           replace (g_line m =? j) with false by (symmetry; apply N.eqb_neq; lia).
           apply first_mapped_beyond. eapply Forall_impl; [|exact Hm]. cbn beta. intros x Hx. lia.
        -- cbn [line_chunk g_line g_col m_orig pair_of strip_name o_src o_line].
           split; [exact Hline|]. split; [reflexivity|]. split; [exact E1|].
           cbn [first_mapped]. rewrite N.eqb_refl, Eo. reflexivity.
        -- eapply Forall_impl; [|exact Hrec]. intros e. apply line_chunk_ext; [lia|].
           intros j Hj1 Hj2. cbn [first_mapped].
           replace (g_line m =? j) with false by (symmetry; apply N.eqb_neq; lia). reflexivity.
    + eapply Forall_impl; [|apply (IH cur Hs H1)]. intros e. apply line_chunk_ext; [lia|].
      intros j Hj1 Hj2. cbn [first_mapped]. rewrite Eo. destruct (g_line m =? j); reflexivity.
Qed.

Lemma line_chunk_only ls ms lo evs : Forall (line_chunk ls ms lo) evs -> only_chunks evs = true.
Proof.
  induction 1 as [|e evs He _ IH]; [reflexivity|]. cbn [only_chunks forallb].
  destruct e as [[x|] mp|i n c|i n]; cbn [line_chunk] in He; try contradiction. exact IH.
Qed.

(* --- line_firsts_cover on whole-line chunks --- *)
Definition norm (a : attr) : attr :=
  match a with Some x => Some (mkLoc (l_file x) (l_line x) 0 None) | None => None end.

Lemma norm_optF f n o : norm (optF f n o) = fmF f (pair_of o).
Proof. destruct o; reflexivity. Qed.

Lemma lfc_cons_none x gl gc a chs acc : is_nil x = false ->
  line_firsts_cover ((Some x, (gl, gc, a)) :: chs) None acc 0 =
  if ends_with_nl x then line_firsts_cover chs None (repeat (norm a) (length x) ++ acc) 0
  else line_firsts_cover chs (norm a) acc (length x).
Proof. intros H. cbn [line_firsts_cover]. rewrite H. destruct a; reflexivity. Qed.

Lemma repeat_snoc {A} (a : A) n : repeat a n ++ [a] = a :: repeat a n.
Proof. induction n as [|n IH]; [reflexivity|]. cbn [repeat app]. rewrite IH. reflexivity. Qed.

Lemma rev_repeat' {A} (a : A) n : rev (repeat a n) = repeat a n.
Proof. induction n as [|n IH]; [reflexivity|]. cbn [repeat rev]. rewrite IH. apply repeat_snoc. Qed.

Lemma map_const_repeat {A B} (a : B) (x : list A) : map (fun _ => a) x = repeat a (length x).
Proof. induction x as [|b x IH]; [reflexivity|]. cbn [map length repeat]. rewrite IH. reflexivity. Qed.

Lemma abf_line (g : N -> attr) x L C : nl_last x ->
  attr_by_fun (fun l _ => g l) x L C = repeat (g L) (length x).
Proof.
  intros H. rewrite (abf_const (fun l _ => g l) (g L) x H L C); [apply map_const_repeat|reflexivity].
Qed.

Lemma lines_cover f n ls ms : lines_shape ls -> forall evs L t acc,
  Reass evs t -> WP evs (L, 0) -> Forall (line_chunk ls ms 0) evs ->
  line_firsts_cover (map (fun ch => (fst ch, rsF f n (snd ch))) (chunks_of evs)) None acc 0 =
  rev acc ++ attr_by_fun (fun l _ => fmF f (first_mapped ms l)) t L 0.
Proof.
  intros Hshape. pose proof (lines_shape_pieces ls Hshape) as Hpieces. rewrite Forall_forall in Hpieces.
  induction evs as [|e evs IH]; intros L t acc Hr Hw Hg.
  - rewrite (Reass_nil_inv t Hr). cbn. rewrite app_nil_r. reflexivity.
  - inversion Hg as [|? ? He Hg']; subst.
    destruct e as [[x|] mp|i n0 c|i n0]; cbn [line_chunk] in He; try contradiction.
    destruct He as [Hl [Hc0 [_ Hlab]]].
    apply Reass_chunk_inv in Hr. destruct Hr as [x' [t' [Ex [Et Hr]]]]. inversion Ex. subst x' t.
    apply WP_chunk_inv in Hw. destruct Hw as [x' [Ex' [HL [_ Hw]]]]. inversion Ex'. subst x'.
    cbn [fst] in HL. rewrite HL in *.
    assert (Hpc : piece_shape x) by (apply Hpieces; eapply line_at_in; exact Hl).
    assert (Hne : is_nil x = false).
    { destruct x; [exfalso; apply (piece_nonempty _ Hpc); reflexivity|reflexivity]. }
    pose proof (nl_last_piece x Hpc) as Hnl.
    cbn [chunks_of map fst snd]. unfold rsF at 1. rewrite (lfc_cons_none _ _ _ _ _ _ Hne).
    rewrite norm_optF, Hlab. rewrite attr_by_fun_app, (abf_line _ x L 0 Hnl).
    unfold adv in Hw. cbn [fst snd] in Hw. rewrite (piece_advance L 0 x Hpc) in *.
    destruct (ends_with_nl x).
    + cbn [fst snd]. rewrite (IH (L + 1) t' _ Hr Hw Hg'). rewrite rev_app_distr, rev_repeat', <- app_assoc.
      reflexivity.
    + destruct evs as [|e' evs'].
      * rewrite (Reass_nil_inv t' Hr). cbn [map chunks_of line_firsts_cover attr_by_fun].
        rewrite rev_app_distr, rev_repeat', app_nil_r. reflexivity.
      * exfalso. inversion Hg' as [|? ? He' _]; subst.
        destruct e' as [[y|] mp'|i n0 c|i n0]; cbn [line_chunk] in He'; try contradiction.
        destruct He' as [_ [Hc0' _]].
        apply WP_chunk_inv in Hw. destruct Hw as [y' [_ [_ [Hc' _]]]]. cbn [snd] in Hc'.
        assert (E0 : len x = 0) by lia. apply slen_0 in E0. apply (piece_nonempty _ Hpc). exact E0.
Qed.

Theorem sm_lines_full_attr_sorted (t : text) (m : smap) :
  sorted_by pos_le (decode_mappings (sm_mappings m)) = true ->
  attr_of_stream (fst (sm_stream_lines_full t m)) false = attr_of_map (Some m) t false.
Proof.
  intros Hs. pose proof (sm_stream_lines_full_good t m) as [Hr Hw].
  unfold sm_stream_lines_full in *. destruct (is_nil (split_lines t)) eqn:Hnil.
  - apply is_nil_true in Hnil. rewrite (split_lines_nil t Hnil). reflexivity.
  - assert (H11 : 1 <= 1) by lia.
    pose proof (lines_loop_chunks (split_lines t) _ 1 (sorted_ssorted _ Hs) H11) as Hg.
    destruct (sm_lines_full_loop (split_lines t) (decode_mappings (sm_mappings m)) 1) as [cur evs].
    cbn [fst snd] in *.
    apply Reass_nochunk_inv in Hr; [|apply announce_sources_chunks].
    apply WP_nochunk_inv in Hw; [|apply announce_sources_chunks].
    assert (Hg0 : Forall (line_chunk (split_lines t) (decode_mappings (sm_mappings m)) 0)
                         (evs ++ whole_lines (split_lines t) 1 cur (len (split_lines t) + 1))).
    { eapply Forall_impl; [|exact Hg]. intros e. apply line_chunk_ext; [lia|reflexivity]. }
    unfold attr_of_stream. rewrite (rsegs_sm_sources m [] _ (line_chunk_only _ _ _ _ Hg0)).
    rewrite (lines_cover _ _ _ _ (split_lines_shape t) _ 1 t [] Hr Hw Hg0). cbn [rev app].
    rewrite attr_of_map_some. reflexivity.
Qed.

(* ------------------------------------------------------------------ *)
(* A2 and A3 on the checker's domain                                    *)
(* ------------------------------------------------------------------ *)
Theorem sm_full_attr (t : text) (m : smap) :
  ascii t = true -> map_consistent t m = true ->
  attr_of_stream (fst (sm_stream_full t m)) true = attr_of_map (Some m) t true.
Proof.
  intros Ha Hc. destruct (map_consistent_ok t m Hc) as [Hs Hseg]. apply sm_full_attr_sorted; assumption.
Qed.

Theorem sm_lines_full_attr (t : text) (m : smap) :
  map_consistent t m = true ->
  attr_of_stream (fst (sm_stream_lines_full t m)) false = attr_of_map (Some m) t false.
Proof. intros Hc. destruct (map_consistent_ok t m Hc) as [Hs _]. apply sm_lines_full_attr_sorted. exact Hs. Qed.

Corollary sm_lines_full_attr_fl (t : text) (m : smap) :
  ascii t = true -> map_consistent t m = true ->
  list_eqb_attr attr_eqb_fl (attr_of_stream (fst (sm_stream_lines_full t m)) false) (attr_of_map (Some m) t false) = true.
Proof. intros _ Hc. apply attr_lists_eqb_fl. apply sm_lines_full_attr. exact Hc. Qed.

Theorem sm_final_attr (t : text) (m : smap) :
  map_consistent t m = true ->
  attr_of_final_events (fst (sm_stream_final t m)) t true = attr_of_map (Some m) t true.
Proof. intros Hc. destruct (map_consistent_ok t m Hc) as [Hs _]. apply sm_final_attr_sorted. exact Hs. Qed.

Theorem sm_lines_final_attr (t : text) (m : smap) :
  map_consistent t m = true ->
  attr_of_final_events (fst (sm_stream_lines_final t m)) t false = attr_of_map (Some m) t false.
Proof. intros Hc. destruct (map_consistent_ok t m Hc) as [Hs _]. apply sm_lines_final_attr_sorted. exact Hs. Qed.

Corollary sm_lines_final_attr_fl (t : text) (m : smap) :
  map_consistent t m = true ->
  list_eqb_attr attr_eqb_fl (attr_of_final_events (fst (sm_stream_lines_final t m)) t false) (attr_of_map (Some m) t false) = true.
Proof. intros Hc. apply attr_lists_eqb_fl. apply sm_lines_final_attr. exact Hc. Qed.

(* ------------------------------------------------------------------ *)
(* A4: declared sources, contents and names are exactly those of M      *)
(* ------------------------------------------------------------------ *)
Definition exp_sources (m : smap) : list (text * option text) :=
  map (fun i => (get_source m (nth (N.to_nat i) (sm_sources m) []), nth_opt (sm_contents m) i))
      (map N.of_nat (seq 0 (length (sm_sources m)))).

Definition names_of (evs : list event) : list text :=
  flat_map (fun e => match e with EName _ n => [n] | _ => [] end) evs.

Lemma contents_app a b : contents_of_events (a ++ b) = contents_of_events a ++ contents_of_events b.
Proof.
  induction a as [|e a IH]; [reflexivity|]. destruct e; cbn [app contents_of_events]; rewrite IH; reflexivity.
Qed.

Lemma names_of_app a b : names_of (a ++ b) = names_of a ++ names_of b.
Proof. apply flat_map_app. Qed.

Lemma only_chunks_contents evs : only_chunks evs = true -> contents_of_events evs = [].
Proof.
  induction evs as [|e evs IH]; [reflexivity|]. destruct e; try discriminate.
  cbn [only_chunks forallb is_chunk andb contents_of_events]. exact IH.
Qed.

Lemma only_chunks_names evs : only_chunks evs = true -> names_of evs = [].
Proof.
  induction evs as [|e evs IH]; [reflexivity|]. destruct e; try discriminate.
  cbn [only_chunks forallb is_chunk andb names_of flat_map app]. exact IH.
Qed.

Lemma announce_names_contents ns : forall i, contents_of_events (announce_names ns i) = [].
Proof. induction ns as [|s ns IH]; intros i; [reflexivity|]. cbn [announce_names contents_of_events]. apply IH. Qed.

Lemma announce_names_names ns : forall i, names_of (announce_names ns i) = ns.
Proof.
  induction ns as [|s ns IH]; intros i; [reflexivity|]. cbn [announce_names names_of flat_map app].
  f_equal. apply IH.
Qed.

Lemma announce_sources_names m srcs : forall i, names_of (announce_sources m srcs i) = [].
Proof.
  induction srcs as [|s srcs IH]; intros i; [reflexivity|]. cbn [announce_sources names_of flat_map app]. apply IH.
Qed.

Lemma skipn_cons_nth {A} (d : A) : forall k (l : list A) x r,
  skipn k l = x :: r -> nth k l d = x /\ skipn (S k) l = r.
Proof.
  induction k as [|k IH]; intros l x r H.
  - cbn [skipn] in H. subst l. split; reflexivity.
  - destruct l as [|y l]; [discriminate|]. cbn [skipn] in H. apply IH in H. exact H.
Qed.

Lemma announce_sources_contents m : forall srcs k, srcs = skipn k (sm_sources m) ->
  contents_of_events (announce_sources m srcs (N.of_nat k)) =
  map (fun i => (get_source m (nth (N.to_nat i) (sm_sources m) []), nth_opt (sm_contents m) i))
      (map N.of_nat (seq k (length srcs))).
Proof.
  induction srcs as [|s srcs IH]; intros k H; [reflexivity|].
  symmetry in H. apply (skipn_cons_nth []) in H. destruct H as [Hn Hs].
  cbn [announce_sources contents_of_events length seq map]. rewrite Nat2N.id. f_equal.
  { f_equal. f_equal. symmetry. exact Hn. }
  replace (N.of_nat k + 1) with (N.of_nat (S k)) by lia. apply IH. symmetry. exact Hs.
Qed.

Lemma announce_sources_exp m : contents_of_events (announce_sources m (sm_sources m) 0) = exp_sources m.
Proof. apply (announce_sources_contents m (sm_sources m) 0). reflexivity. Qed.

(* the four splitters emit chunks only *)
Lemma whole_lines_only suf : forall i cur tg, only_chunks (whole_lines suf i cur tg) = true.
Proof.
  induction suf as [|l suf IH]; intros i cur tg; [reflexivity|]. cbn [whole_lines].
  destruct ((cur <=? i) && (i <? tg)); [cbn|]; apply IH.
Qed.

Lemma ph1_only ls st m : only_chunks (snd (ph1 ls st m)) = true.
Proof.
  unfold ph1. destruct (f_active st && (f_line st <=? len ls)); [|reflexivity].
  destruct (line_at ls (f_line st)); [|reflexivity].
  destruct (negb (g_line m =? f_line st)); cbn [snd].
  - destruct (is_nil (substring t (f_col st) None)); reflexivity.
  - destruct (is_nil (substring t (f_col st) (Some (g_col m)))); reflexivity.
Qed.

Lemma ph24_only ls st m : only_chunks (snd (ph24 ls st m)) = true.
Proof.
  unfold ph24.
  assert (H2 : only_chunks (snd (ph2 ls st m)) = true).
  { unfold ph2. destruct ((f_line st <? g_line m) && (0 <? f_col st)); [|reflexivity]. cbn [snd].
    destruct (f_line st <=? len ls); [|reflexivity]. destruct (line_at ls (f_line st)); [|reflexivity]. cbv zeta.
    match goal with |- context [is_nil ?x] => destruct (is_nil x) end; reflexivity. }
  destruct (ph2 ls st m) as [st2 ev2]. cbn [snd] in H2.
  assert (H3 : only_chunks (snd (ph3 ls st2 m)) = true).
  { unfold ph3. destruct (f_line st2 <? g_line m); [|reflexivity]. cbn [snd]. apply whole_lines_only. }
  destruct (ph3 ls st2 m) as [st3 ev3]. cbn [snd] in H3.
  assert (H4 : only_chunks (snd (ph4 ls st3 m)) = true).
  { unfold ph4. destruct (f_col st3 <? g_col m); [|reflexivity]. cbn [snd].
    destruct (f_line st3 <=? len ls); [|reflexivity]. destruct (line_at ls (f_line st3)); [|reflexivity]. cbv zeta.
    match goal with |- context [is_nil ?x] => destruct (is_nil x) end; reflexivity. }
  destruct (ph4 ls st3 m) as [st4 ev4]. cbn [snd] in *.
  rewrite !only_chunks_app, H2, H3, H4. reflexivity.
Qed.

Lemma step_only ls fl fc st m : only_chunks (snd (sm_full_step ls fl fc st m)) = true.
Proof. rewrite step_decomp. destruct (step_guard st m); [reflexivity|]. cbn [snd]. rewrite only_chunks_app, ph1_only, ph24_only. reflexivity. Qed.

Lemma loop_only ls fl fc : forall ms st, only_chunks (snd (sm_full_loop ls fl fc st ms)) = true.
Proof.
  induction ms as [|m ms IH]; intros st; [reflexivity|]. cbn [sm_full_loop].
  pose proof (step_only ls fl fc st m) as H1. destruct (sm_full_step ls fl fc st m) as [st1 e1].
  pose proof (IH st1) as H2. destruct (sm_full_loop ls fl fc st1 ms) as [st2 e2]. cbn [snd] in *.
  rewrite only_chunks_app, H1, H2. reflexivity.
Qed.

Lemma lines_full_loop_only ls : forall ms cur, only_chunks (snd (sm_lines_full_loop ls ms cur)) = true.
Proof.
  induction ms as [|m ms IH]; intros cur; [reflexivity|]. cbn [sm_lines_full_loop].
  destruct (m_orig m); [|apply IH]. destruct ((g_line m <? cur) || (len ls <? g_line m)); [apply IH|].
  pose proof (IH (g_line m + 1)) as H. destruct (sm_lines_full_loop ls ms (g_line m + 1)) as [cur' evs].
  cbn [snd] in *. rewrite !only_chunks_app, whole_lines_only, H.
  destruct (line_at ls (g_line m)); reflexivity.
Qed.

Theorem sm_stream_announces (t : text) (m : smap) (o : opts) : t <> [] ->
  contents_of_events (fst (sm_stream t m o)) = exp_sources m /\
  names_of (fst (sm_stream t m o)) = if columns o then sm_names m else [].
Proof.
  intros Hne. destruct o as [cols fin]. unfold sm_stream. cbn [columns final_source].
  assert (Hgi : forall rl rc, gen_info t = (rl, rc) -> (rl =? 1) && (rc =? 0) = false).
  { intros rl rc E. destruct ((rl =? 1) && (rc =? 0)) eqn:E1; [|reflexivity]. exfalso. apply Hne.
    apply andb_true_iff in E1. destruct E1 as [A B]. apply N.eqb_eq in A. apply N.eqb_eq in B. subst.
    rewrite gen_info_advance in E. apply advance_start_nil. exact E. }
  assert (Hsl : is_nil (split_lines t) = false).
  { destruct (is_nil (split_lines t)) eqn:E; [|reflexivity]. exfalso. apply Hne.
    apply split_lines_nil. apply is_nil_true. exact E. }
  destruct cols, fin.
  - unfold sm_stream_final. destruct (gen_info t) as [rl rc] eqn:E. rewrite (Hgi rl rc eq_refl). cbn [fst].
    rewrite !contents_app, !names_of_app, announce_sources_exp, announce_names_contents,
      announce_sources_names, announce_names_names.
    rewrite (only_chunks_contents _ (final_loop_chunks rl rc _ 0)), (only_chunks_names _ (final_loop_chunks rl rc _ 0)).
    rewrite !app_nil_r. split; reflexivity.
  - unfold sm_stream_full. rewrite Hsl. destruct (lines_end_info (split_lines t)) as [fl fc].
    pose proof (loop_only (split_lines t) fl fc (decode_mappings (sm_mappings m)) (mkF 1 0 false None)) as H1.
    destruct (sm_full_loop (split_lines t) fl fc (mkF 1 0 false None) (decode_mappings (sm_mappings m))) as [st evs].
    pose proof (step_only (split_lines t) fl fc st (unmapped fl fc)) as H2.
    destruct (sm_full_step (split_lines t) fl fc st (unmapped fl fc)) as [st' evs']. cbn [fst snd] in *.
    rewrite !contents_app, !names_of_app, announce_sources_exp, announce_names_contents,
      announce_sources_names, announce_names_names.
    rewrite (only_chunks_contents _ H1), (only_chunks_contents _ H2), (only_chunks_names _ H1), (only_chunks_names _ H2).
    rewrite !app_nil_r. split; reflexivity.
  - unfold sm_stream_lines_final. destruct (gen_info t) as [rl rc] eqn:E. rewrite (Hgi rl rc eq_refl). cbn [fst].
    rewrite !contents_app, !names_of_app, announce_sources_exp, announce_sources_names.
    rewrite (only_chunks_contents _ (lines_final_loop_chunks _ _ 1)), (only_chunks_names _ (lines_final_loop_chunks _ _ 1)).
    rewrite !app_nil_r. split; reflexivity.
  - unfold sm_stream_lines_full. rewrite Hsl.
    pose proof (lines_full_loop_only (split_lines t) (decode_mappings (sm_mappings m)) 1) as H1.
    destruct (sm_lines_full_loop (split_lines t) (decode_mappings (sm_mappings m)) 1) as [cur evs]. cbn [fst snd] in *.
    rewrite !contents_app, !names_of_app, announce_sources_exp, announce_sources_names.
    rewrite (only_chunks_contents _ H1), (only_chunks_names _ H1).
    rewrite (only_chunks_contents _ (whole_lines_only _ _ _ _)), (only_chunks_names _ (whole_lines_only _ _ _ _)).
    rewrite !app_nil_r. split; reflexivity.
Qed.

(* ------------------------------------------------------------------ *)
(* capstone: the checker of C08 accepts the model's own observations     *)
(* ------------------------------------------------------------------ *)
Lemma list_eqb_refl {A} (eqb : A -> A -> bool) :
  (forall a, eqb a a = true) -> forall l, list_eqb eqb l l = true.
Proof.
  intros H l. induction l as [|x l IH]; [reflexivity|]. cbn [list_eqb]. rewrite H, IH. reflexivity.
Qed.

Lemma forallb_attr_by_fun (P : attr -> bool) f t :
  (forall l c, P (f l c) = true) -> forall l c, forallb P (attr_by_fun f t l c) = true.
Proof.
  intros H. induction t as [|b t IH]; intros l c; [reflexivity|]. cbn [attr_by_fun forallb].
  rewrite H. destruct (b =? NL); apply IH.
Qed.

Theorem chk_C08_model (v n : text) (m : smap) (orig : option text) (r : bool) :
  treeA (SMapped v n m orig None r) = true ->
  chk_C08 (SMapped v n m orig None r) (api_tree (SMapped v n m orig None r) []) = 0.
Proof.
  intros HA.
  assert (Hdom : ascii v = true /\ map_consistent v m = true).
  { unfold treeA in HA. apply andb_true_iff in HA. destruct HA as [_ H]. cbn [tree_ascii] in H.
    apply andb_true_iff in H. destruct H as [H _]. apply andb_true_iff in H. destruct H as [H _].
    apply andb_true_iff in H. destruct H as [H Hc]. apply andb_true_iff in H. destruct H as [H _].
    apply andb_true_iff in H. destruct H as [H _]. split; assumption. }
  destruct Hdom as [Hav Hc].
  unfold chk_C08. rewrite HA. cbn [negb].
  change (to_streams (api_tree (SMapped v n m orig None r) []))
    with [sm_stream_full v m; sm_stream_lines_full v m; sm_stream_final v m; sm_stream_lines_final v m].
  cbv beta iota zeta.
  rewrite (sm_full_attr v m Hav Hc), (sm_lines_full_attr v m Hc), (sm_final_attr v m Hc), (sm_lines_final_attr v m Hc).
  rewrite (list_eqb_attr_refl attr_eqb attr_eqb_refl), (list_eqb_attr_refl attr_eqb_fl attr_eqb_fl_refl).
  cbn [negb].
  rewrite forallb_app.
  match goal with
  | |- context [@forallb ?A ?P (attr_of_map (Some m) v false)] =>
    assert (H5 : @forallb A P (attr_of_map (Some m) v false) = true)
  end.
  { rewrite attr_of_map_some. apply forallb_attr_by_fun. intros l c.
    destruct (first_mapped (decode_mappings (sm_mappings m)) l) as [[s ln]|]; reflexivity. }
  rewrite H5. cbn [andb negb].
  destruct (is_nil v) eqn:Ev; [reflexivity|]. apply is_nil_false in Ev.
  destruct (sm_stream_announces v m (mkOpts true false) Ev) as [C10 N10].
  destruct (sm_stream_announces v m (mkOpts false false) Ev) as [C00 _].
  destruct (sm_stream_announces v m (mkOpts true true) Ev) as [C11 N11].
  destruct (sm_stream_announces v m (mkOpts false true) Ev) as [C01 _].
  cbn [sm_stream columns final_source] in *. unfold names_of, exp_sources in *.
  rewrite C10, C00, C11, C01, N10, N11.
  rewrite (list_eqb_refl text_eqb text_eqb_refl).
  rewrite list_eqb_refl; [reflexivity|].
  intros [a b]. cbn [fst snd]. rewrite text_eqb_refl, opt_text_eqb_refl. reflexivity.
Qed.

Print Assumptions sm_full_attr.
Print Assumptions sm_lines_full_attr_fl.
Print Assumptions sm_final_attr.
Print Assumptions sm_lines_final_attr_fl.
Print Assumptions sm_stream_announces.
Print Assumptions chk_C08_model.
