(* C11, map part, step 1: the text-less stream with columns of every tree of the class
   rshape / treeA / rsmall reports its segments at STRICTLY increasing positions, each strictly
   before the end position (`strict_tree`).  FinalTree.final_stream_facts only has the non-strict
   order and "on a position of source()"; the strict facts are what `map_wf` asks of the decoded
   map (WfAllMap.v). *)
From RS Require Import Base.Prelude Base.Text Rope.RopeModel Codec.Vlq Codec.CodecSpec
  Checkers.ChkCodec Stream.Types Stream.Leaves Stream.Concat Stream.Replace Stream.Combined Stream.Tree
  Sem.Attr Checkers.ChkTree
  Proofs.CodecKept Proofs.StreamText Proofs.StreamLeaves Proofs.StreamMap Proofs.StreamConcat Proofs.StreamTree
  Proofs.WfStream Proofs.WfFinal Proofs.RStreamText Proofs.RStreamPos Proofs.RStreamTree
  Proofs.AttrCodec Proofs.AttrSms Proofs.AttrLeaves Proofs.LawConcatAttr Proofs.LawWrappers
  Proofs.CacheReplay Proofs.FinalDense Proofs.FinalReplace Proofs.FinalConcat Proofs.FinalTree
  Proofs.ReplAttrStream Proofs.ReplAttrTree.
Require Import Lia List.

Local Open Scope N_scope.

(* ------------------------------------------------------------------ *)
(* strictly increasing position lists                                   *)
(* ------------------------------------------------------------------ *)
Fixpoint sstrict (ps : list (N * N)) : Prop :=
  match ps with
  | [] => True
  | p :: ps' => Forall (plt p) ps' /\ sstrict ps'
  end.

Lemma plt_trans a b c : plt a b -> plt b c -> plt a c.
Proof. unfold plt. lia. Qed.

Lemma sstrict_app a b : sstrict a -> sstrict b -> (forall x y, In x a -> In y b -> plt x y) -> sstrict (a ++ b).
Proof.
  induction a as [|p a IH]; intros Ha Hb Hab; [exact Hb|]. destruct Ha as [Ha1 Ha2]. cbn [app sstrict]. split.
  - apply Forall_app. split; [exact Ha1|]. apply Forall_forall. intros y Hy. apply Hab; [left; reflexivity|exact Hy].
  - apply IH; [exact Ha2|exact Hb|]. intros x y Hx Hy. apply Hab; [right; exact Hx|exact Hy].
Qed.

Lemma sstrict_shift lo co ps : sstrict ps -> sstrict (map (shift lo co) ps).
Proof.
  induction ps as [|p ps IH]; intros H; [exact I|]. destruct H as [H1 H2]. cbn [map sstrict]. split; [|apply IH; exact H2].
  rewrite Forall_map. eapply Forall_impl; [|exact H1]. cbn beta. intros q Hq. apply shift_plt. exact Hq.
Qed.

(* the segments of an event list: strictly increasing, all strictly before gi *)
Definition strict_ok (evs : list event) (gi : N * N) : Prop :=
  sstrict (map mpos (chunk_mappings evs)) /\ Forall (fun m => plt (mpos m) gi) (chunk_mappings evs).

Lemma strict_ok_nochunk evs gi : chunk_mappings evs = [] -> strict_ok evs gi.
Proof. intros H. unfold strict_ok. rewrite H. split; [exact I|constructor]. Qed.

(* ------------------------------------------------------------------ *)
(* text-carrying, well-positioned streams without empty chunks          *)
(* ------------------------------------------------------------------ *)
Lemma wp_strict : forall evs p t, Reass evs t -> WP evs p -> no_empty_chunks evs = true ->
  sstrict (map mpos (chunk_mappings evs)) /\
  Forall (fun m => ple p (mpos m) /\ plt (mpos m) (adv p t)) (chunk_mappings evs).
Proof.
  induction evs as [|e evs IH]; intros p t Hr Hw Hne; [split; [exact I|constructor]|].
  destruct e as [tx m|i n c|i n]; [|apply (IH p t); assumption|apply (IH p t); assumption].
  apply Reass_chunk_inv in Hr. destruct Hr as [x [t' [Ex [Et Hr]]]]. subst tx t.
  apply WP_chunk_inv in Hw. destruct Hw as [x' [Ex' [Hl [Hc Hw]]]]. inversion Ex'. subst x'.
  unfold no_empty_chunks in Hne. cbn [chunk_texts forallb] in Hne. apply andb_true_iff in Hne.
  destruct Hne as [Hx Hne]. destruct x as [|b x]; [discriminate|].
  destruct (IH _ _ Hr Hw Hne) as [I1 I2].
  assert (Hm : mpos m = p) by (unfold mpos; rewrite Hl, Hc; destruct p; reflexivity).
  assert (Hstep : plt p (adv p (b :: x))) by (unfold adv; destruct p as [l c]; apply advance_plt).
  cbn [chunk_mappings map sstrict]. rewrite adv_app. split.
  - split; [|exact I1]. rewrite Forall_map. eapply Forall_impl; [|exact I2]. cbn beta.
    intros r [Hr1 _]. rewrite Hm. eapply plt_ple_trans; eassumption.
  - constructor.
    + rewrite Hm. split; [apply ple_refl|]. eapply plt_ple_trans; [exact Hstep|].
      unfold adv. destruct (adv p (b :: x)) as [l c]. apply advance_ple.
    + eapply Forall_impl; [|exact I2]. cbn beta. intros r [Hr1 Hr2]. split; [|exact Hr2].
      eapply ple_trans; [apply plt_ple; exact Hstep|exact Hr1].
Qed.

Lemma text_stream_strict evs t gi :
  Reass evs t -> WP evs (1, 0) -> no_empty_chunks evs = true -> gi = advance 1 0 t -> strict_ok evs gi.
Proof.
  intros Hr Hw Hne ->. destruct (wp_strict evs (1, 0) t Hr Hw Hne) as [A B]. split; [exact A|].
  eapply Forall_impl; [|exact B]. cbn beta. intros m [_ Hm]. exact Hm.
Qed.

(* ------------------------------------------------------------------ *)
(* OriginalSource                                                      *)
(* ------------------------------------------------------------------ *)
Lemma tokens_strict toks : Forall piece_shape toks -> forall fin line col,
  sstrict (map mpos (chunk_mappings (fst (original_tokens toks fin line col)))) /\
  Forall (fun m => ple (line, col) (mpos m) /\ plt (mpos m) (advance line col (concat toks)))
         (chunk_mappings (fst (original_tokens toks fin line col))).
Proof.
  induction 1 as [|tk toks Htk Hall IH]; intros fin line col; [split; [exact I|constructor]|].
  rewrite original_tokens_cons. cbn [concat]. rewrite advance_app, (nxt_advance tk line col Htk).
  destruct (IH fin (nxt_line tk line) (nxt_col tk col)) as [I1 I2].
  assert (Hstep : plt (line, col) (nxt_line tk line, nxt_col tk col)).
  { rewrite <- (nxt_advance tk line col Htk). pose proof (piece_nonempty tk Htk) as Hne.
    destruct tk as [|b x]; [contradiction|]. apply advance_plt. }
  assert (Hrest : Forall (fun m => ple (line, col) (mpos m) /\
                     plt (mpos m) (advance (nxt_line tk line) (nxt_col tk col) (concat toks)))
                    (chunk_mappings (fst (original_tokens toks fin (nxt_line tk line) (nxt_col tk col))))).
  { eapply Forall_impl; [|exact I2]. cbn beta. intros r [Hr1 Hr2]. split; [|exact Hr2].
    eapply ple_trans; [apply plt_ple; exact Hstep|exact Hr1]. }
  assert (Hhead : forall m, mpos m = (line, col) ->
    sstrict (map mpos (m :: chunk_mappings (fst (original_tokens toks fin (nxt_line tk line) (nxt_col tk col))))) /\
    Forall (fun m => ple (line, col) (mpos m) /\
                     plt (mpos m) (advance (nxt_line tk line) (nxt_col tk col) (concat toks)))
           (m :: chunk_mappings (fst (original_tokens toks fin (nxt_line tk line) (nxt_col tk col))))).
  { intros m Hm. cbn [map sstrict]. split.
    - split; [|exact I1]. rewrite Forall_map. eapply Forall_impl; [|exact I2]. cbn beta.
      intros r [Hr1 _]. rewrite Hm. eapply plt_ple_trans; eassumption.
    - constructor; [|exact Hrest]. rewrite Hm. split; [apply ple_refl|].
      eapply plt_ple_trans; [exact Hstep|apply advance_ple]. }
  destruct (lone tk), fin; cbn [app chunk_mappings];
    try (apply Hhead; reflexivity); split; assumption.
Qed.

Lemma original_strict v name : strict_ok (fst (original_stream v name oF)) (snd (original_stream v name oF)).
Proof.
  rewrite original_stream_end. unfold oF. rewrite original_stream_cols_fst. cbn [chunk_mappings].
  destruct (tokens_strict _ (potential_tokens_pieces v) true 1 0) as [A B].
  rewrite concat_potential_tokens in B. split; [exact A|].
  eapply Forall_impl; [|exact B]. cbn beta. intros m [_ Hm]. exact Hm.
Qed.

(* ------------------------------------------------------------------ *)
(* SourceMapSource without inner map                                    *)
(* ------------------------------------------------------------------ *)
Lemma pos_lt_plt a b : pos_lt a b = true -> plt (mpos a) (mpos b).
Proof.
  unfold pos_lt, plt, mpos. cbn [fst snd].
  rewrite orb_true_iff, andb_true_iff, N.ltb_lt, N.eqb_eq, N.ltb_lt. intros H. exact H.
Qed.

Lemma final_loop_strict rl rc : forall ms al, lt_sorted ms ->
  sstrict (map mpos (chunk_mappings (sm_final_loop ms rl rc al))) /\
  Forall (fun x => plt (mpos x) (rl, rc)) (chunk_mappings (sm_final_loop ms rl rc al)) /\
  forall a, Forall (fun x => plt a (mpos x)) ms ->
            Forall (fun x => plt a (mpos x)) (chunk_mappings (sm_final_loop ms rl rc al)).
Proof.
  induction ms as [|m ms IH]; intros al Hs; [split; [exact I|split; [constructor|intros; constructor]]|].
  destruct Hs as [Hm Hs]. cbn [sm_final_loop].
  assert (Hm' : Forall (fun x => plt (mpos m) (mpos x)) ms).
  { eapply Forall_impl; [|exact Hm]. cbn beta. intros x Hx. apply pos_lt_plt. exact Hx. }
  destruct ((rl <=? g_line m) && ((rc <=? g_col m) || (rl <? g_line m))) eqn:Eb.
  { destruct (IH al Hs) as [I1 [I2 I3]]. split; [exact I1|]. split; [exact I2|].
    intros a Ha. inversion Ha; subst. apply I3. assumption. }
  assert (Hb : plt (mpos m) (rl, rc)).
  { unfold plt, mpos. cbn [fst snd]. apply andb_false_iff in Eb. destruct Eb as [Eb|Eb].
    - apply N.leb_gt in Eb. left. exact Eb.
    - apply orb_false_iff in Eb. destruct Eb as [E1 E2]. apply N.leb_gt in E1. apply N.ltb_ge in E2. lia. }
  destruct (m_orig m) as [o|].
  - destruct (IH (g_line m) Hs) as [I1 [I2 I3]]. cbn [chunk_mappings map sstrict]. split; [|split].
    + split; [|exact I1]. rewrite Forall_map. apply I3. exact Hm'.
    + constructor; assumption.
    + intros a Ha. inversion Ha; subst. constructor; [assumption|apply I3; assumption].
  - destruct (IH al Hs) as [I1 [I2 I3]]. destruct (al =? g_line m).
    + cbn [chunk_mappings map sstrict]. split; [|split].
      * split; [|exact I1]. rewrite Forall_map. apply (I3 (mpos m)). exact Hm'.
      * constructor; assumption.
      * intros a Ha. inversion Ha; subst. constructor; [assumption|apply I3; assumption].
    + split; [exact I1|]. split; [exact I2|]. intros a Ha. inversion Ha; subst. apply I3. assumption.
Qed.

Lemma sm_strict v m : map_consistent v m = true -> strict_ok (fst (sm_stream v m oF)) (snd (sm_stream v m oF)).
Proof.
  intros Hc.
  assert (Hso : sorted_by pos_lt (decode_mappings (sm_mappings m)) = true).
  { unfold map_consistent in Hc. apply andb_true_iff in Hc. destruct Hc as [Hc _].
    apply andb_true_iff in Hc. destruct Hc as [Hc _]. exact Hc. }
  unfold sm_stream, oF. cbn [columns final_source]. unfold sm_stream_final.
  destruct (gen_info v) as [rl rc]. destruct ((rl =? 1) && (rc =? 0)); cbn [fst snd].
  { apply strict_ok_nochunk. reflexivity. }
  unfold strict_ok.
  rewrite !chunk_mappings_app, (chunk_mappings_chunks_of (announce_sources _ _ _)), announce_sources_chunks.
  rewrite (chunk_mappings_chunks_of (announce_names _ _)), announce_names_chunks. cbn [map app].
  destruct (final_loop_strict rl rc _ 0 (sorted_lt_sorted _ Hso)) as [A [B _]]. split; assumption.
Qed.

(* ------------------------------------------------------------------ *)
(* ConcatSource                                                        *)
(* ------------------------------------------------------------------ *)
Definition kidS (tr : kid) : Prop := kid_ok tr /\ strict_ok (tr_events tr) (tr_info tr).

Record sinv (st : cstate) (out : list event) : Prop := mkSinv {
  si_fin : finv st out;
  si_strict : sstrict (map fst (fsegs out [] []));
  si_before : Forall (fun p => plt p (cpos st)) (map fst (fsegs out [] [])) }.

Lemma sinv_init : sinv concat_init [].
Proof. constructor; [exact finv_init|exact I|constructor]. Qed.

Lemma ple_10 p : 1 <= fst p -> ple (1, 0) p.
Proof. unfold ple. cbn [fst snd]. lia. Qed.

Lemma plt_10 p : 1 <= fst p -> p <> (1, 0) -> plt (1, 0) p.
Proof.
  destruct p as [l c]. unfold plt. cbn [fst snd]. intros H Hne.
  destruct (N.eq_dec l 1) as [->|]; [|lia]. right. split; [reflexivity|].
  destruct (N.eq_dec c 0) as [->|]; [contradiction Hne; reflexivity|lia].
Qed.

Lemma sinv_step st out tr : sinv st out -> kidS tr ->
  sinv (fst (concat_child true st (tr_events tr) (tr_info tr)))
       (out ++ snd (concat_child true st (tr_events tr) (tr_info tr))).
Proof.
  intros [HI Hst Hbe] [Hk [Ks Kb]].
  pose proof (finv_step st out tr HI Hk) as HI'.
  pose proof (child_decomp st out tr (fi_tabs _ _ HI) Hk) as [_ [B2 [B3 _]]]. cbn zeta in *.
  pose proof (child_mono st out tr (fi_tabs _ _ HI) Hk) as Hmono.
  pose proof (kid_facts tr Hk) as Hf.
  destruct Hk as [Hd [Hp [Hi _]]].
  destruct (concat_child true st (tr_events tr) (tr_info tr)) as [st' o]. cbn [fst snd] in *.
  set (P := map mpos (chunk_mappings (tr_events tr))) in *.
  assert (HP1 : Forall (fun p => 1 <= fst p) P).
  { unfold P. rewrite Forall_map. eapply Forall_impl; [|exact Hf]. cbn beta. intros m [H _]. exact H. }
  assert (HPb : Forall (fun p => plt p (tr_info tr)) P).
  { unfold P. rewrite Forall_map. exact Kb. }
  assert (Hgi1 : 1 <= fst (tr_info tr)).
  { rewrite Hi. apply advance_line_ge. }
  (* the closing segment, when there is one, lies strictly before what the child adds and
     strictly before the new position *)
  assert (Hneed : need (chunk_mappings (tr_events tr)) (tr_info tr) = true ->
                  Forall (plt (1, 0)) P /\ plt (1, 0) (tr_info tr)).
  { unfold P. destruct (chunk_mappings (tr_events tr)) as [|m ms] eqn:Ems; cbn [need map]; intros Hn.
    - split; [constructor|]. apply plt_10; [exact Hgi1|]. intros E. rewrite E in Hn. discriminate.
    - assert (Hm : plt (1, 0) (mpos m)).
      { inversion HP1 as [|? ? H1 _]; subst. apply plt_10; [exact H1|]. intros E. unfold at10 in Hn.
        unfold mpos in E. inversion E as [[E1 E2]]. rewrite E1, E2 in Hn. discriminate. }
      cbn [map sstrict] in Ks. destruct Ks as [Ks1 _]. split.
      + constructor; [exact Hm|]. eapply Forall_impl; [|exact Ks1]. cbn beta. intros q Hq.
        eapply plt_trans; eassumption.
      + inversion Kb as [|? ? Kb1 _]; subst. eapply plt_trans; eassumption. }
  assert (Epos : map fst (fsegs (out ++ o) [] []) =
                 map fst (fsegs out [] []) ++ map fst (child_cl st tr) ++ map (shift (c_loff st) (c_coff st)) P).
  { rewrite B3, !map_app, map_fst_shseg, (fsegs_pos (tr_events tr)). reflexivity. }
  assert (Hsh_ge : Forall (ple (cpos st)) (map (shift (c_loff st) (c_coff st)) P)).
  { rewrite Forall_map. eapply Forall_impl; [|exact HP1]. cbn beta. intros p H1.
    rewrite <- (shift_start st). apply shift_ple. apply ple_10. exact H1. }
  assert (Hsh_lt : Forall (fun p => plt p (cpos st')) (map (shift (c_loff st) (c_coff st)) P)).
  { rewrite Forall_map. eapply Forall_impl; [|exact HPb]. cbn beta. intros p H1.
    rewrite B2. apply shift_plt. exact H1. }
  assert (Hsh_s : sstrict (map (shift (c_loff st) (c_coff st)) P)) by (apply sstrict_shift; exact Ks).
  constructor; [exact HI'| |]; rewrite Epos.
  - apply sstrict_app; [exact Hst| |].
    + unfold child_cl. destruct (c_close st && need (chunk_mappings (tr_events tr)) (tr_info tr)) eqn:Ec;
        cbn [map app]; [|exact Hsh_s].
      apply andb_true_iff in Ec. destruct Ec as [_ Ec]. destruct (Hneed Ec) as [N1 _].
      cbn [sstrict]. split; [|exact Hsh_s]. cbn [clseg fst]. rewrite Forall_map.
      eapply Forall_impl; [|exact N1]. cbn beta. intros p Hp0. change (c_loff st + 1, c_coff st) with (cpos st).
      rewrite <- (shift_start st). apply shift_plt. exact Hp0.
    + intros x y Hx Hy. rewrite Forall_forall in Hbe. specialize (Hbe x Hx).
      eapply plt_ple_trans; [exact Hbe|]. apply in_app_or in Hy. destruct Hy as [Hy|Hy].
      * unfold child_cl in Hy. destruct (c_close st && need (chunk_mappings (tr_events tr)) (tr_info tr)); [|destruct Hy].
        cbn [map clseg fst] in Hy. destruct Hy as [<-|[]]. apply ple_refl.
      * rewrite Forall_forall in Hsh_ge. apply Hsh_ge. exact Hy.
  - apply Forall_app. split; [|apply Forall_app; split; [|exact Hsh_lt]].
    + eapply Forall_impl; [|exact Hbe]. cbn beta. intros p Hp0. eapply plt_ple_trans; eassumption.
    + unfold child_cl. destruct (c_close st && need (chunk_mappings (tr_events tr)) (tr_info tr)) eqn:Ec;
        cbn [map]; [|constructor].
      apply andb_true_iff in Ec. destruct Ec as [_ Ec]. destruct (Hneed Ec) as [_ N2].
      constructor; [|constructor]. cbn [clseg fst]. change (c_loff st + 1, c_coff st) with (cpos st).
      rewrite B2, <- (shift_start st). apply shift_plt. exact N2.
Qed.

Lemma sinv_fold : forall (trs : list kid) st out, sinv st out -> Forall kidS trs ->
  sinv (fst (concat_fold true (map fst trs) (st, out))) (snd (concat_fold true (map fst trs) (st, out))).
Proof.
  induction trs as [|tr trs IH]; intros st out HI HF; [exact HI|].
  inversion HF as [|? ? Hk HF']; subst. cbn [map]. rewrite concat_fold_cons. cbn [fst snd].
  change (fst (fst tr)) with (tr_events tr). change (snd (fst tr)) with (tr_info tr).
  pose proof (sinv_step st out tr HI Hk) as HI'.
  destruct (concat_child true st (tr_events tr) (tr_info tr)) as [st' o]. cbn [fst snd] in *.
  apply IH; assumption.
Qed.

Theorem concat_kidS (trs : list kid) : Forall kidS trs ->
  kidS (snd (concat_fold true (map fst trs) (concat_init, [])),
        concat_result (fst (concat_fold true (map fst trs) (concat_init, []))),
        concat (map tr_text trs)).
Proof.
  intros H. split.
  - apply concat_kid_ok. eapply Forall_impl; [|exact H]. intros tr [Hk _]. exact Hk.
  - unfold tr_events, tr_info. cbn [fst snd].
    destruct (sinv_fold trs concat_init [] sinv_init H) as [_ A B].
    rewrite fsegs_pos in A, B. split; [exact A|]. rewrite Forall_map in B. exact B.
Qed.

(* ------------------------------------------------------------------ *)
(* the induction over trees                                             *)
(* ------------------------------------------------------------------ *)
Definition sgood (s : src) : Prop :=
  forall st, rshape s = true -> treeA s = true -> rsmall s = true ->
    strict_ok (fst (fst (stream st s oF))) (snd (fst (stream st s oF))).

Lemma concat_sgood cs : Forall sgood cs -> sgood (SConcat cs).
Proof.
  intros IH st Hsh Ha Hsm.
  pose proof (rshape_concat cs Hsh) as Hsh'. pose proof (treeA_concat cs Ha) as Ha'.
  pose proof (rsmall_concat cs Hsm) as Hsm'. rewrite Forall_forall in IH.
  destruct (Nat.eq_dec (length cs) 1) as [E|E].
  { destruct cs as [|c [|c2 r]]; try discriminate.
    assert (Hin : In c [c]) by (left; reflexivity).
    change (stream st (SConcat [c]) oF) with (stream st c oF).
    apply (IH c Hin st (Hsh' c Hin) (Ha' c Hin) (Hsm' c Hin)). }
  assert (PF : forall c, In c cs -> forall st0, snd (stream st0 c oF) = st0).
  { intros c Hin st0. apply (tgood_all c st0 (Hsh' c Hin) (Ha' c Hin) (Hsm' c Hin)). }
  rewrite (stream_concat_fold st cs oF E).
  rewrite (kid_streams_pure oF cs PF st). cbn [fst snd final_source oF].
  set (trs := map (fun c => (fst (stream st c oF), source c)) cs : list kid).
  assert (E1 : map (fun c => fst (stream st c oF)) cs = map fst trs).
  { unfold trs. rewrite map_map. apply map_ext. intros c. reflexivity. }
  assert (Hk : Forall kidS trs).
  { unfold trs. rewrite Forall_map. apply Forall_forall. intros c Hin. split.
    - apply (tgood_all c st (Hsh' c Hin) (Ha' c Hin) (Hsm' c Hin)).
    - unfold tr_events, tr_info. cbn [fst snd].
      apply (IH c Hin st (Hsh' c Hin) (Ha' c Hin) (Hsm' c Hin)). }
  rewrite E1. destruct (concat_kidS trs Hk) as [_ X]. exact X.
Qed.

Lemma replace_sgood i rs : sgood (SReplace i rs).
Proof.
  intros st Hsh Ha Hsm.
  pose proof (rgood_all (SReplace i rs) st true Hsh Ha Hsm) as [[A1 A2] [A3 [A4 A5]]]. cbn zeta in *.
  pose proof (tidy_tree (SReplace i rs) Hsh Ha Hsm st) as [_ T2]. unfold evs_of, o10 in T2.
  change (stream st (SReplace i rs) oF) with (stream st (SReplace i rs) (mkOpts true false)).
  apply (text_stream_strict _ (source (SReplace i rs))); assumption.
Qed.

Lemma sgood_all : forall s, sgood s.
Proof.
  apply src_ind'.
  - intros b v st _ _ _. cbn [stream fst snd final_source oF]. apply strict_ok_nochunk. reflexivity.
  - intros v st _ _ _. cbn [stream fst snd final_source oF]. apply strict_ok_nochunk. reflexivity.
  - intros v st _ _ _. cbn [stream fst snd final_source oF]. apply strict_ok_nochunk. reflexivity.
  - intros v n st _ _ _. cbn [stream fst snd]. apply original_strict.
  - intros v n m og i r st Hsh Ha _. cbn [rshape] in Hsh. destruct i as [im|]; [discriminate|].
    unfold treeA in Ha. apply andb_true_iff in Ha. destruct Ha as [_ Ha].
    destruct (mapped_ascii v n m og r Ha) as [Hav Hmc].
    cbn [stream fst snd]. apply sm_strict. exact Hmc.
  - intros cs IH. apply concat_sgood. exact IH.
  - intros i rs _. apply replace_sgood.
  - intros id i _ st Hsh. discriminate.
Qed.

(* the text-less stream with columns: segments at strictly increasing positions, each on a line
   >= 1 and strictly before the end position advance 1 0 (source s) *)
Theorem strict_tree (st : store) (s : src) :
  rshape s = true -> treeA s = true -> rsmall s = true ->
  let r := stream st s (mkOpts true true) in
  sstrict (map mpos (chunk_mappings (fst (fst r)))) /\
  Forall (fun m => 1 <= g_line m /\ plt (mpos m) (advance 1 0 (source s))) (chunk_mappings (fst (fst r))).
Proof.
  intros H1 H2 H3. cbn zeta. destruct (sgood_all s st H1 H2 H3) as [A B]. fold oF.
  destruct (tgood_all s st H1 H2 H3) as [Hk _]. pose proof (kid_facts _ Hk) as F.
  destruct Hk as [_ [_ [Hi _]]]. unfold tr_events, tr_info, tr_text in *. cbn [fst snd] in *.
  split; [exact A|]. rewrite <- Hi. apply Forall_forall. intros m Hm.
  rewrite Forall_forall in B, F. split; [apply (F m Hm)|apply (B m Hm)].
Qed.

Print Assumptions strict_tree.
