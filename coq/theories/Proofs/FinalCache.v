(* C03 / C10 for composite trees, part 4 (G5): a CachedSource over a composite tree
   (ConcatSource / ReplaceSource over raw leaves, OriginalSource, SourceMapSource without
   inner map) is transparent along every history of observer calls that stream and map with
   columns = true.

   Deviation from the plan "FaithfulOn with a suitable K": the predicate K of `FaithfulOn`
   (CacheReplay.v) only guards the two replay conditions; the fields F_end, F_reass, F_codec,
   F_self and F_map are quantified over BOTH column settings, so no choice of K restricts a
   `FaithfulOn` to columns = true.  `FaithfulCols C` below is the same record with every field
   guarded by a predicate C on the column setting, and `cached_history_transparent_cols` is
   `cached_history_transparent_on` re-proved for it (histories whose map/stream calls satisfy C). *)
From RS Require Import Base.Prelude Base.Text Rope.RopeModel Codec.Vlq Codec.CodecSpec
  Checkers.ChkCodec Stream.Types Stream.Leaves Stream.Concat Stream.Replace Stream.Combined Stream.Tree
  Api.ApiTree Sem.Attr Sem.HashEq Api.ApiHist Checkers.ChkTree Checkers.ChkHist
  Proofs.CodecKept Proofs.CodecMain Proofs.StreamText Proofs.StreamLeaves Proofs.StreamMap
  Proofs.StreamConcat Proofs.StreamTree Proofs.ViewsUtf8 Proofs.ProvOriginal Proofs.ReplaceSort
  Proofs.RStreamText Proofs.RStreamPos Proofs.RStreamTree
  Proofs.AttrCodec Proofs.AttrSms Proofs.AttrLeaves Proofs.WfFinal Proofs.LawWrappers
  Proofs.CacheStore Proofs.CacheReplay
  Proofs.FinalDense Proofs.FinalReplace Proofs.FinalConcat Proofs.FinalTree.
Require Import Lia List Permutation.

Local Open Scope N_scope.

(* ------------------------------------------------------------------ *)
(* K4 with the column setting restricted                                *)
(* ------------------------------------------------------------------ *)
Record FaithfulCols (C : bool -> Prop) (a : src) : Prop := mkFaithfulCols {
  FC_pure_stream : forall st o, stream st a o = (fst (stream [] a o), st);
  FC_pure_map : forall st c, map_of st a c = (fst (map_of [] a c), st);
  FC_end : forall c f, C c -> gi_of a c f = advance 1 0 (source a);
  FC_reass : forall c, C c -> reassembles (CacheReplay.evs_of a c false) (source a) = true;
  FC_codec : forall c f, C c ->
    attr_of_map (map_of_events c (CacheReplay.evs_of a c f)) (source a) c =
    attr_of_final_events (CacheReplay.evs_of a c f) (source a) c;
  FC_self : forall c, C c ->
    attr_of_final_events (CacheReplay.evs_of a c false) (source a) c = attr_of_stream (CacheReplay.evs_of a c false) c;
  FC_map : forall c, C c ->
    attr_of_map (map_fresh a c) (source a) c = attr_of_stream (CacheReplay.evs_of a c false) c;
  FC_replay_ev : forall c f m, C c ->
    map_of_events c (CacheReplay.evs_of a c f) = Some m -> replayable (source a) c f m;
  FC_replay_map : forall c m, C c -> map_fresh a c = Some m -> replayable (source a) c false m }.

(* FaithfulOn is the instance "every column setting" *)
Lemma faithful_cols_of_faithful (a : src) : Faithful a -> FaithfulCols (fun _ => True) a.
Proof.
  intros [P1 P2 P3 P4 P5 P6 P7 P8 P9]. constructor; auto.
Qed.

Section TransparentCols.
Variables (id : N) (a : src) (C : bool -> Prop).
Hypothesis HF : FaithfulCols C a.

Let evs := CacheReplay.evs_of a.

Lemma goodc_replayable c f v : C c -> good_value a c f v ->
  match v with Some m => replayable (source a) c f m | None => True end.
Proof.
  intros HC Hv. destruct v as [m|]; [|exact I]. destruct Hv as [H|[Hf H]].
  - apply (FC_replay_ev C a HF); [exact HC|]. symmetry. exact H.
  - subst f. apply (FC_replay_map C a HF); [exact HC|]. symmetry. exact H.
Qed.

Lemma goodc_attr_text c v : C c -> good_value a c false v ->
  attr_of_map v (source a) c = attr_of_stream (evs c false) c.
Proof.
  intros HC [H|[_ H]]; subst v.
  - rewrite (FC_codec C a HF) by exact HC. apply (FC_self C a HF). exact HC.
  - apply (FC_map C a HF). exact HC.
Qed.

Lemma goodc_attr_final c v : C c -> good_value a c true v ->
  attr_of_map v (source a) c = attr_of_final_events (evs c true) (source a) c.
Proof.
  intros HC [H|[F _]]; [|discriminate]. subst v. apply (FC_codec C a HF). exact HC.
Qed.

Lemma runc_cached_stream st c f :
  run_hop st (SCached id a) (OStream c f) =
  match cache_get (store_get st id) (mkOpts c f) with
  | Some v => (AStream (fst (replay (source a) v (mkOpts c f))) (snd (replay (source a) v (mkOpts c f))), st)
  | None => (AStream (evs c f) (gi_of a c f),
             store_put st id (mkOpts c f) (map_of_events c (evs c f)))
  end.
Proof.
  cbn [run_hop stream]. destruct (cache_get (store_get st id) (mkOpts c f)) as [[m|]|].
  - cbn [replay]. destruct (sm_stream (source a) m (mkOpts c f)) as [e g]. reflexivity.
  - cbn [replay final_source]. destruct (raw_stream (source a) f) as [e g]. reflexivity.
  - rewrite (FC_pure_stream C a HF). unfold evs, CacheReplay.evs_of, gi_of.
    destruct (stream [] a (mkOpts c f)) as [[e g] s]. reflexivity.
Qed.

Lemma runc_cached_map st c :
  run_hop st (SCached id a) (OMap c) =
  match cache_get (store_get st id) (mkOpts c false) with
  | Some v => (AMap v, st)
  | None => (AMap (map_fresh a c), store_put st id (mkOpts c false) (map_fresh a c))
  end.
Proof.
  cbn [run_hop map_of]. destruct (cache_get (store_get st id) (mkOpts c false)) as [v|] eqn:G; [reflexivity|].
  rewrite (FC_pure_map C a HF). unfold map_fresh. destruct (map_of [] a c) as [m s]. cbn [fst].
  rewrite store_put_get_same, G. reflexivity.
Qed.

Lemma equivc_same_stream c f : C c ->
  answer_equiv (source a) (OStream c f) (AStream (evs c f) (gi_of a c f))
               (AStream (evs c f) (gi_of a c f)) = true.
Proof.
  intros HC. destruct f; cbn [answer_equiv]; rewrite gi_eqb_refl.
  - apply attr_list_ok. reflexivity.
  - unfold evs. rewrite (FC_reass C a HF c HC). cbn [andb]. apply attr_list_ok. reflexivity.
Qed.

Lemma equivc_replay c f v : C c -> good_value a c f v ->
  answer_equiv (source a) (OStream c f)
    (AStream (fst (replay (source a) v (mkOpts c f))) (snd (replay (source a) v (mkOpts c f))))
    (AStream (evs c f) (gi_of a c f)) = true.
Proof.
  intros HC Hv. pose proof (goodc_replayable c f v HC Hv) as Hr.
  destruct f; cbn [answer_equiv]; rewrite replay_end, (FC_end C a HF _ _ HC), gi_eqb_refl; cbn [andb].
  - apply attr_list_ok. rewrite (replay_final_attr _ _ _ Hr). apply goodc_attr_final; assumption.
  - unfold evs. rewrite (replay_text_reass _ _ _ Hr), (FC_reass C a HF c HC). cbn [andb].
    apply attr_list_ok. rewrite (replay_text_attr _ _ _ Hr). apply goodc_attr_text; assumption.
Qed.

Lemma equivc_map c v : C c -> good_value a c false v ->
  answer_equiv (source a) (OMap c) (AMap v) (AMap (map_fresh a c)) = true.
Proof.
  intros HC Hv. cbn [answer_equiv]. apply attr_list_ok.
  rewrite (goodc_attr_text c v HC Hv). symmetry. apply (FC_map C a HF). exact HC.
Qed.

(* the observer calls of the history: map() and stream_chunks only with column settings in C *)
Definition hop_cols (op : hop) : Prop :=
  match op with OStream c _ => C c | OMap c => C c | _ => True end.

Theorem hop_transparent_cols (st : store) (op : hop) : hop_cols op -> StoreSound id a st ->
  answer_equiv (source a) op (fst (run_hop st (SCached id a) op)) (fst (run_hop [] a op)) = true /\
  StoreSound id a (snd (run_hop st (SCached id a) op)).
Proof.
  intros HK Hs. destruct op as [| | | |c|c f| |].
  - split; [apply text_eqb_refl|exact Hs].
  - split; [apply text_eqb_refl|exact Hs].
  - split; [apply N.eqb_refl|exact Hs].
  - split; [apply opt_text_eqb_refl|exact Hs].
  - rewrite runc_cached_map, fresh_map.
    destruct (cache_get (store_get st id) (mkOpts c false)) as [v|] eqn:G; cbn [fst snd].
    + split; [apply equivc_map; [exact HK|apply (Hs _ _ _ G)]|exact Hs].
    + split; [apply equivc_map; [exact HK|right; split; reflexivity]|].
      apply sound_put; [exact Hs|right; split; reflexivity].
  - rewrite runc_cached_stream, fresh_stream.
    destruct (cache_get (store_get st id) (mkOpts c f)) as [v|] eqn:G; cbn [fst snd].
    + split; [apply equivc_replay; [exact HK|apply (Hs _ _ _ G)]|exact Hs].
    + split; [apply equivc_same_stream; exact HK|]. apply sound_put; [exact Hs|left; reflexivity].
  - split; [reflexivity|exact Hs].
  - split; [reflexivity|exact Hs].
Qed.

Theorem history_transparent_cols_from : forall (ops : list hop) (st : store) (i : N),
  Forall hop_cols ops -> StoreSound id a st ->
  answers_equiv (source a) ops (fst (run_hops st (SCached id a) ops)) (fresh_answers a ops) i = 0 /\
  StoreSound id a (snd (run_hops st (SCached id a) ops)).
Proof.
  induction ops as [|op ops IH]; intros st i HK Hs; [split; [reflexivity|exact Hs]|].
  inversion HK as [|? ? HK1 HK2]; subst.
  cbn [run_hops fresh_answers map]. destruct (hop_transparent_cols st op HK1 Hs) as [He Hs1].
  destruct (run_hop st (SCached id a) op) as [x st1]. cbn [fst snd] in He, Hs1.
  destruct (IH st1 (i + 1) HK2 Hs1) as [IH1 IH2].
  destruct (run_hops st1 (SCached id a) ops) as [as_ st2]. cbn [fst snd] in *.
  cbn [answers_equiv]. rewrite He. split; [exact IH1|exact IH2].
Qed.

Theorem cached_history_transparent_cols (ops : list hop) : Forall hop_cols ops ->
  answers_equiv (source a) ops (fst (run_hops [] (SCached id a) ops)) (fresh_answers a ops) 0 = 0.
Proof. intros HK. apply (history_transparent_cols_from ops [] 0 HK (sound_empty id a)). Qed.

End TransparentCols.

(* ------------------------------------------------------------------ *)
(* source() of an ASCII tree is ASCII                                   *)
(* ------------------------------------------------------------------ *)
Lemma In_take {A} (n : N) (l : list A) x : In x (take n l) -> In x l.
Proof. unfold take. intros H. rewrite <- (firstn_skipn (N.to_nat n) l). apply in_or_app. left. exact H. Qed.

Lemma In_drop {A} (n : N) (l : list A) x : In x (drop n l) -> In x l.
Proof. unfold drop. intros H. rewrite <- (firstn_skipn (N.to_nat n) l). apply in_or_app. right. exact H. Qed.

Lemma In_slice {A} (x y : N) (l : list A) z : In z (slice x y l) -> In z l.
Proof. unfold slice. intros H. apply In_take in H. apply In_drop in H. exact H. Qed.

Lemma splice_in inner : forall rs pos c, In c (splice inner rs pos) ->
  In c inner \/ exists r, In r rs /\ In c (r_content r).
Proof.
  induction rs as [|r rs IH]; intros pos c H; cbn [splice] in H.
  - left. apply In_drop in H. exact H.
  - apply in_app_or in H. destruct H as [H|H].
    + left. destruct (pos <? r_start r); [apply In_slice in H; exact H|destruct H].
    + apply in_app_or in H. destruct H as [H|H].
      * right. exists r. split; [left; reflexivity|exact H].
      * apply IH in H. destruct H as [H|[r' [H1 H2]]]; [left; exact H|].
        right. exists r'. split; [right; exact H1|exact H2].
Qed.

Lemma ascii_concat ts : Forall (fun t => ascii t = true) ts -> ascii (concat ts) = true.
Proof.
  intros H. apply ascii_of_in. intros c Hc. apply in_concat in Hc. destruct Hc as [t [Ht Hc]].
  rewrite Forall_forall in H. apply (ascii_in t c (H t Ht) Hc).
Qed.

Lemma ascii_source_tree : forall s, tree_ascii s = true -> ascii (source s) = true.
Proof.
  apply (src_ind' (fun s => tree_ascii s = true -> ascii (source s) = true)).
  - intros b v H. cbn [tree_ascii source] in *. destruct b; [|exact H].
    rewrite (utf8_lossy_valid v (ascii_valid v H)). exact H.
  - intros v H. exact H.
  - intros v H. cbn [tree_ascii source] in *. rewrite (utf8_lossy_valid v (ascii_valid v H)). exact H.
  - intros v n H. cbn [tree_ascii source] in *. apply andb_true_iff in H. apply H.
  - intros v n m og i r H. cbn [tree_ascii source] in *.
    apply andb_true_iff in H. destruct H as [H _]. apply andb_true_iff in H. destruct H as [H _].
    apply andb_true_iff in H. destruct H as [H _]. apply andb_true_iff in H. destruct H as [H _].
    apply andb_true_iff in H. destruct H as [H _]. exact H.
  - intros cs IH H. cbn [tree_ascii source] in *. apply ascii_concat. rewrite Forall_map.
    rewrite Forall_forall in *. rewrite forallb_forall in H. intros c Hc. apply (IH c Hc (H c Hc)).
  - intros i rs IH H. cbn [tree_ascii source] in *. apply andb_true_iff in H. destruct H as [Hi Hr].
    specialize (IH Hi). unfold replace_source_text. destruct (is_nil (sort_repls rs)); [exact IH|].
    apply ascii_of_in. intros c Hc. apply splice_in in Hc. destruct Hc as [Hc|[r [Hr1 Hr2]]].
    + apply (ascii_in _ c IH Hc).
    + apply (Permutation_in _ (sort_repls_perm rs)) in Hr1. rewrite forallb_forall in Hr.
      specialize (Hr r Hr1). apply andb_true_iff in Hr. destruct Hr as [Hr _]. apply (ascii_in _ c Hr Hr2).
  - intros id i IH H. cbn [tree_ascii source] in *. apply IH. exact H.
Qed.

Lemma rshape_nocache : forall s, rshape s = true -> has_cached s = false.
Proof.
  apply (src_ind' (fun s => rshape s = true -> has_cached s = false)); try (intros; reflexivity).
  - intros cs IH H. cbn [rshape has_cached] in *. rewrite Forall_forall in IH. rewrite forallb_forall in H.
    destruct (existsb has_cached cs) eqn:E; [|reflexivity]. apply existsb_exists in E. destruct E as [c [Hc E]].
    rewrite (IH c Hc (H c Hc)) in E. discriminate.
  - intros i rs IH H. cbn [rshape has_cached] in *. apply IH. exact H.
  - intros id i _ H. discriminate.
Qed.

(* ------------------------------------------------------------------ *)
(* G5: composite trees are faithful for columns = true                  *)
(* ------------------------------------------------------------------ *)
Definition cols_true (c : bool) : Prop := c = true.

Section CompositeFaithful.
Variable a : src.
Hypothesis Hsh : rshape a = true.
Hypothesis Ha : treeA a = true.
Hypothesis Hsm : rsmall a = true.
(* map() of `a` is Tree.get_map (ConcatSource, OriginalSource, ReplaceSource with replacements) *)
Hypothesis Hroot : forall st, map_of st a true = Tree.get_map st a true.
(* the encoder's domain: all fields of the streamed segments below 2^30 *)
Hypothesis HsF : forallb mapping_small (chunk_mappings (CacheReplay.evs_of a true true)) = true.
Hypothesis HsT : forallb mapping_small (chunk_mappings (CacheReplay.evs_of a true false)) = true.

Lemma comp_text_facts :
  Reass (CacheReplay.evs_of a true false) (source a) /\ WP (CacheReplay.evs_of a true false) (1, 0) /\
  NLL (CacheReplay.evs_of a true false) /\ gi_of a true false = advance 1 0 (source a).
Proof.
  pose proof (rgood_all a [] true Hsh Ha Hsm) as [[A1 A2] [A3 [A4 _]]]. cbn zeta in *.
  unfold CacheReplay.evs_of, gi_of. auto.
Qed.

Lemma comp_domain f : enc_domain (chunk_mappings (CacheReplay.evs_of a true f)) = true.
Proof.
  destruct f.
  - apply (final_enc_domain [] a Hsh Ha Hsm HsF).
  - destruct comp_text_facts as [A1 [A2 _]]. destruct (wp_facts _ [] _ A1 A2) as [W1 _].
    unfold enc_domain. rewrite (ssorted_sorted _ W1), HsT. reflexivity.
Qed.

Lemma comp_ascii : ascii (source a) = true.
Proof. apply ascii_source_tree. unfold treeA in Ha. apply andb_true_iff in Ha. apply Ha. Qed.

Lemma comp_map_fresh : map_fresh a true = map_of_events true (CacheReplay.evs_of a true true).
Proof.
  unfold map_fresh. rewrite Hroot. unfold Tree.get_map, CacheReplay.evs_of.
  destruct (stream [] a (mkOpts true true)) as [[e g] s]. reflexivity.
Qed.

Theorem composite_faithful_cols : FaithfulCols cols_true a.
Proof.
  destruct (nocache_pure a (rshape_nocache a Hsh)) as [P1 P2].
  destruct comp_text_facts as [A1 [A2 [A3 A4]]].
  pose proof (tgood_all a [] Hsh Ha Hsm) as [[K1 [K2 [K3 K4]]] _].
  unfold tr_events, tr_info, tr_text in K1, K2, K3, K4. cbn [fst snd] in K1, K2, K3, K4.
  constructor; try assumption.
  - intros c f ->. destruct f; [exact K3|exact A4].
  - intros c ->. apply reassembles_iff. exact A1.
  - intros c f ->. apply attr_codec_dense; [apply dense_tree_any; assumption|apply comp_domain].
  - intros c ->. apply (rshape_self_cols [] a Hsh Ha Hsm).
  - intros c ->. unfold map_fresh. rewrite Hroot. apply (get_map_attr_tree [] a Hsh Ha Hsm HsF).
  - intros c f m -> Hm. apply (replayable_events _ true f _ m (comp_domain f)); [|exact Hm].
    intros _ ->. split; [exact comp_ascii|].
    destruct (wp_facts _ [] _ A1 A2) as [_ W2]. cbn [app] in W2. apply pos_fact_segs_ok. exact W2.
  - intros c m -> Hm. rewrite comp_map_fresh in Hm.
    apply (replayable_events _ true false _ m (comp_domain true)); [|exact Hm].
    intros _ _. split; [exact comp_ascii|]. apply positions_segs_ok. apply ev_pos_mappings. exact K2.
Qed.

(* CachedSource over a composite tree: every answer of every history of column-mode
   observer calls is equivalent to the answer of the fresh wrapped source *)
Theorem cached_composite_transparent (id : N) (ops : list hop) :
  Forall (hop_cols cols_true) ops ->
  answers_equiv (source a) ops (fst (run_hops [] (SCached id a) ops)) (fresh_answers a ops) 0 = 0.
Proof. apply (cached_history_transparent_cols id a cols_true composite_faithful_cols). Qed.

End CompositeFaithful.

(* the roots for which map() is Tree.get_map *)
Lemma concat_root cs st : map_of st (SConcat cs) true = Tree.get_map st (SConcat cs) true.
Proof. reflexivity. Qed.

Lemma replace_root i r rs st : map_of st (SReplace i (r :: rs)) true = Tree.get_map st (SReplace i (r :: rs)) true.
Proof. reflexivity. Qed.

Corollary cached_concat_transparent (id : N) (cs : list src) (ops : list hop) :
  rshape (SConcat cs) = true -> treeA (SConcat cs) = true -> rsmall (SConcat cs) = true ->
  forallb mapping_small (chunk_mappings (CacheReplay.evs_of (SConcat cs) true true)) = true ->
  forallb mapping_small (chunk_mappings (CacheReplay.evs_of (SConcat cs) true false)) = true ->
  Forall (hop_cols cols_true) ops ->
  answers_equiv (source (SConcat cs)) ops (fst (run_hops [] (SCached id (SConcat cs)) ops))
                (fresh_answers (SConcat cs) ops) 0 = 0.
Proof.
  intros H1 H2 H3 H4 H5. apply (cached_composite_transparent (SConcat cs) H1 H2 H3 (concat_root cs) H4 H5).
Qed.

Print Assumptions cached_history_transparent_cols.
Print Assumptions composite_faithful_cols.
Print Assumptions cached_concat_transparent.
