(* C02, checker level, for trees with BOTH combined-map leaves and CachedSource nodes in ANY warm
   state (class `cls2` of WarmCombDefs.v: raw leaves, OriginalSource, SourceMapSource with or
   without an inner map, ConcatSource, ReplaceSource, CachedSource nodes anywhere - above combined
   leaves included -, no ReplaceSource with replacements above a CachedSource (K2); every cache id
   once).  ChkMoreWarmC02.v for `cls2` / `Sound2` / `warm_all2`.
     chk_C02_warm2_store  all eight clauses of `chk_C02` on the model's observations from any
                          `Sound2` store;
     chk_C02_warm2        the same after ANY warm-up history;
     C02_warm_comb_checker   the statement with the hypotheses spelled out. *)
From RS Require Import Base.Prelude Base.Text Rope.RopeModel Codec.Vlq Codec.CodecSpec
  Checkers.ChkCodec Stream.Types Stream.Leaves Stream.Concat Stream.Replace Stream.Combined Stream.Tree
  Api.ApiTree Sem.Attr Sem.HashEq Api.ApiHist Checkers.ChkTree Checkers.ChkHist
  Proofs.CodecKept Proofs.CodecEnc Proofs.CodecMain Proofs.StreamText Proofs.StreamLeaves Proofs.StreamMap Proofs.StreamConcat Proofs.StreamTree
  Proofs.WfStream Proofs.WfFinal Proofs.WfMap Proofs.RStreamText Proofs.RStreamPos Proofs.RStreamTree
  Proofs.AttrCodec Proofs.AttrSms Proofs.AttrLeaves Proofs.LawConcatAttr Proofs.LawWrappers
  Proofs.CacheStore Proofs.CacheReplay Proofs.FinalDense Proofs.FinalReplace Proofs.FinalConcat Proofs.FinalTree Proofs.FinalCache
  Proofs.ReplAttrStream Proofs.ReplAttrOrigin Proofs.ReplAttrSms Proofs.ReplAttrTree
  Proofs.LinesBase Proofs.LinesSelf Proofs.LinesConcat Proofs.LinesTree
  Proofs.ColdCache Proofs.ColdCacheTree Proofs.BoundsPos Proofs.BoundsOrig Proofs.BoundsIdx Proofs.BoundsAll
  Proofs.CombLeafTree
  Proofs.WarmTreeDefs Proofs.WarmTreeReplay Proofs.WarmTreeCodec Proofs.WarmTreeNodes
  Proofs.WfAllStrict Proofs.WfAllMap Proofs.WfAllChk
  Proofs.ChkModelC02 Proofs.ChkModelC03
  Proofs.WarmCombBounds Proofs.WarmCombDefs Proofs.WarmCombReplay Proofs.WarmCombCodec Proofs.WarmCombNodes
  Proofs.WarmCombMain Proofs.WarmCombHist.
Require Import Lia List.
Import ListNotations.

Local Open Scope N_scope.

Section C02.
Variable s : src.
Hypothesis Hd : ids_distinct s.
Hypothesis Hcl : cls2 s.

Let W := warm_all2 s Hd s (incl_refl _) Hcl.

Lemma warm_positions2 (st : store) (c : bool) : WarmCombDefs.Sound2 st s ->
  well_positioned (chunks_of (fst (fst (stream st s (mkOpts c false))))) 1 0 = true.
Proof.
  intros Hs. destruct W as [A _]. destruct (A st c Hs) as [[_ [_ [Hw _]]] _]. exact Hw.
Qed.

Lemma warm_end_info2 (st : store) (o : opts) : WarmCombDefs.Sound2 st s ->
  snd (fst (stream st s o)) = advance 1 0 (source s).
Proof.
  intros Hs. destruct o as [c [|]].
  - destruct W as [_ [B _]]. destruct (B st c Hs) as [[[_ [_ [Hi _]]] _] _]. exact Hi.
  - destruct W as [A _]. destruct (A st c Hs) as [[_ [_ [_ [_ [_ [Hi _]]]]]] _]. exact Hi.
Qed.

Lemma warm_final_positions2 (st : store) (c : bool) : WarmCombDefs.Sound2 st s ->
  positions_of_text (source s) (chunks_of (fst (fst (stream st s (mkOpts c true))))) = true.
Proof.
  intros Hs. destruct W as [_ [B _]]. destruct (B st c Hs) as [[[_ [Hp _]] _] _].
  apply positions_of_events. exact Hp.
Qed.

Lemma cls2_treeA : treeA s = true.
Proof. pose proof Hcl as [_ [_ [A _]]]. exact A. Qed.

(* from any sound store *)
Theorem chk_C02_warm2_store (st : store) (o : tree_obs) : WarmCombDefs.Sound2 st s ->
  to_source o = source s ->
  to_streams o = map (fun op => fst (stream st s op)) all_opts ->
  chk_C02 s o = 0.
Proof.
  intros Hs E1 E2. apply (chk_C02_unfold s st o cls2_treeA E1 E2).
  - intros c. apply warm_positions2. exact Hs.
  - intros op. apply warm_end_info2. exact Hs.
  - intros c. apply warm_final_positions2. exact Hs.
Qed.

(* after any warm-up history *)
Theorem chk_C02_warm2 (ws : list (N * wop)) : chk_C02 s (api_tree s ws) = 0.
Proof.
  apply (chk_C02_warm2_store (run_warm [] s ws) (api_tree s ws)
           (WarmCombHist.warm_sound2 s Hd Hcl ws [] (WarmCombDefs.sound2_empty s)) eq_refl eq_refl).
Qed.

End C02.

(* the statement with the hypotheses spelled out (`rsmall` follows from `tiny2`) *)
Theorem C02_warm_comb_checker (s : src) (ws : list (N * wop)) :
  ids_distinct s -> k2_shape s = false -> rshape2 (uncache s) = true -> treeA s = true ->
  tiny2 (uncache s) = true ->
  chk_C02 s (api_tree s ws) = 0.
Proof. intros H1 H2 H3 H4 H5. apply chk_C02_warm2; [exact H1|apply tiny2_cls2; assumption]. Qed.

(* the trees of WarmCombHist.v, any warm-up history *)
Example wc_tree_C02 (r : bool) (ws : list (N * wop)) :
  chk_C02 (wc_tree r) (api_tree (wc_tree r) ws) = 0 /\ chk_C02 (wc_small r) (api_tree (wc_small r) ws) = 0.
Proof.
  split; apply C02_warm_comb_checker; try (destruct r; vm_compute; reflexivity).
  - apply wc_tree_distinct.
  - apply wc_small_distinct.
Qed.

Print Assumptions chk_C02_warm2_store.
Print Assumptions chk_C02_warm2.
Print Assumptions C02_warm_comb_checker.
Print Assumptions wc_tree_C02.
