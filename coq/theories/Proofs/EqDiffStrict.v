(* C14 after DIFFERENT histories on the two sides, part 5: the STRICT content clauses under a
   condition on the SHAPE - the K7 class widened so that the theorem holds.
   `k7s_shape s` (EqDiffAnns.v): some CachedSource of `s` wraps a source that
     - announces a file but attributes no text to any file (the K7 class, read off the
       reference attribution), or
     - announces a file without content in front of a file with content (the map it caches
       pads: EqDiffRefute.D2_refuted).
   Outside it every stream of every node, over every reachable store, announces exactly the
   canonical list `cann` (same names, same contents, same order - warm or cold), every map a
   cache holds spells exactly that list, every table map() returns spells `etab`, and the
   strict lookups of chk_C14_pair agree:
     strict_all        the tree induction (the shape of CompWarmContInv.cont_all);
     D2_strict         k7s_shape a = false -> verdict 0, any two histories, no hypothesis on
                       the contents (names need not determine contents);
     k7c_k7s           the checker's class k7c_shape (Checkers/ChkHist.v: cold streams of the
                       wrapped source, no `uncache`) is k7s_shape; k7_k7c: it contains k7_shape;
     D2_final          k7c_shape a = false -> chk_C14_pair .. = 0;
     D1_final          chk_C14_pair .. = 0, or 57 inside k7c_shape. *)
From RS Require Import Base.Prelude Base.Text Rope.RopeModel Codec.Vlq Codec.CodecSpec
  Stream.Types Stream.Leaves Stream.Concat Stream.Replace Stream.Combined Stream.Tree
  Api.ApiTree Sem.Attr Sem.HashEq Api.ApiHist Checkers.ChkTree Checkers.ChkHist Checkers.ChkCombined
  Proofs.HashEqBasic Proofs.StreamText Proofs.StreamLeaves Proofs.StreamConcat Proofs.StreamTree
  Proofs.WfStream Proofs.AttrCodec Proofs.AttrSms Proofs.AttrLeaves Proofs.LawConcatAttr Proofs.LawWrappers
  Proofs.CombSearch Proofs.CombPass Proofs.CombAllRun
  Proofs.CacheStore Proofs.FinalConcat Proofs.RStreamTree Proofs.ReplAttrTree Proofs.ProvConcatTables
  Proofs.EqObsTree Proofs.EqObsHist Proofs.ColdCache Proofs.ColdCacheTree Proofs.BoundsPos
  Proofs.WarmTreeDefs Proofs.WarmTreeNodes Proofs.WarmTreeMain Proofs.WarmTreeHist
  Proofs.CompWarmLaws Proofs.CompWarmContBase Proofs.CompWarmContInv Proofs.CompWarmLawsFull Proofs.LawChkFirst
  Proofs.EqDiffBase Proofs.EqDiffChk Proofs.EqDiffAnns.
Require Import Lia List.
Import ListNotations.

Local Open Scope N_scope.

(* ------------------------------------------------------------------ *)
(* small facts                                                          *)
(* ------------------------------------------------------------------ *)
Lemma all_none_nones {A} (t : list A) : all_none (map (fun _ => @None loc) t) = true.
Proof. induction t as [|x t IH]; [reflexivity|]. cbn [map all_none forallb]. exact IH. Qed.

Lemma attr_of_map_nil v c : attr_of_map v [] c = [].
Proof. destruct v; reflexivity. Qed.

Lemma cann_concat cs : length cs <> 1%nat -> cann (SConcat cs) = dd [] (flat_map cann cs).
Proof. intros H. destruct cs as [|c [|c2 r]]; [reflexivity|exfalso; apply H; reflexivity|reflexivity]. Qed.

Lemma existsb_false_in {A} (f : A -> bool) l x : existsb f l = false -> In x l -> f x = false.
Proof.
  intros H Hx. destruct (f x) eqn:E; [|reflexivity].
  assert (X : existsb f l = true) by (apply existsb_exists; exists x; split; assumption). congruence.
Qed.

(* ------------------------------------------------------------------ *)
(* the tree induction                                                   *)
(* ------------------------------------------------------------------ *)
Section Cont.
Variable U : src.
Hypothesis HU : ColdCache.ids_distinct U.

(* every map a cache holds over non-empty text spells the canonical announcements of the
   wrapped source *)
Definition ACt (st : store) : Prop :=
  forall id inner, In (id, inner) (nodes U) ->
  forall o m, cache_get (store_get st id) o = Some (Some m) -> source inner <> [] ->
  exp_sources m = cann inner.

Definition AInv (st : store) : Prop := Sound st U /\ ACt st.

Lemma act_empty : ACt [].
Proof. intros id inner _ o m H. discriminate. Qed.

Lemma act_put st id inner o v : In (id, inner) (nodes U) -> ACt st ->
  (forall m, v = Some m -> source inner <> [] -> exp_sources m = cann inner) ->
  ACt (store_put st id o v).
Proof.
  intros Hin Hs Hv id' inner' Hin' o' m H. apply store_put_get_inv in H.
  destruct H as [H|[Ei [Eo [Ex _]]]].
  - apply (Hs id' inner' Hin' o' m H).
  - subst id'. rewrite (nodes_inj U HU id inner' inner Hin' Hin). apply Hv. symmetry. exact Ex.
Qed.

(* the table map() returns *)
Definition mtab (s : src) (v : option smap) : Prop :=
  forall m, v = Some m -> source s <> [] -> exp_sources m = etab s.

Definition astream_ok (s : src) : Prop :=
  forall st o, AInv st -> anns (fst (fst (stream st s o))) = cann s /\ ACt (snd (stream st s o)).

Definition amap_ok (s : src) : Prop :=
  forall st c, AInv st -> mtab s (fst (map_of st s c)) /\ ACt (snd (map_of st s c)).

Definition APC (s : src) : Prop :=
  incl (nodes s) (nodes U) -> cls s -> k7s_shape s = false -> astream_ok s /\ amap_ok s.

(* map() of a node that streams *)
Lemma aget_map_ok s : incl (nodes s) (nodes U) -> cls s -> astream_ok s -> etab s = pad (cann s) ->
  forall st c, AInv st -> mtab s (fst (Tree.get_map st s c)) /\ ACt (snd (Tree.get_map st s c)).
Proof.
  intros Hin Hcl K Et st c Hs. destruct (K st (mkOpts c true) Hs) as [A B].
  destruct (sound_stream U HU s st (mkOpts c true) Hin Hcl (proj1 Hs)) as [Dn _]. unfold Tree.get_map.
  destruct (stream st s (mkOpts c true)) as [[evs gi] st']. cbn [fst snd] in *.
  split; [|exact B]. intros m Em _. rewrite (events_pad c evs m Dn Em), A, Et. reflexivity.
Qed.

Lemma araw_ok (s : src) : cann s = [] ->
  (forall st o, stream st s o = (raw_stream (source s) (final_source o), st)) ->
  (forall st c, map_of st s c = (None, st)) -> astream_ok s /\ amap_ok s.
Proof.
  intros Ec E1 E2. split.
  - intros st o Hs. rewrite E1. cbn [fst snd]. rewrite raw_anns, Ec. split; [reflexivity|apply Hs].
  - intros st c Hs. rewrite E2. cbn [fst snd]. split; [intros m H; discriminate|apply Hs].
Qed.

Lemma akids o : forall cs, (forall ch, In ch cs -> incl (nodes ch) (nodes U) /\ cls ch /\ astream_ok ch) ->
  forall st, AInv st ->
  flat_map (fun k : list event * (N * N) => anns (fst k)) (fst (kid_streams st cs o)) = flat_map cann cs /\
  AInv (snd (kid_streams st cs o)).
Proof.
  induction cs as [|ch cs IH]; intros Hall st Hs.
  - cbn [kid_streams fst snd flat_map]. split; [reflexivity|exact Hs].
  - cbn [kid_streams]. destruct (Hall ch (or_introl eq_refl)) as [Hin [Hcl K]].
    destruct (K st o Hs) as [A B]. destruct (sound_stream U HU ch st o Hin Hcl (proj1 Hs)) as [_ S].
    destruct (stream st ch o) as [[evs gi] st1]. cbn [fst snd] in *.
    destruct (IH (fun x Hx => Hall x (or_intror Hx)) st1 (conj S B)) as [A2 S2].
    destruct (kid_streams st1 cs o) as [ks st2]. cbn [fst snd flat_map] in *.
    split; [|exact S2]. rewrite A, A2. reflexivity.
Qed.

(* a cache that replays nothing wraps a source that announces nothing *)
Lemma silent_cann (i : src) (c : bool) (v : option smap) :
  good_entry i c v -> (v = None \/ source i = []) ->
  announces_unattributed i = false -> cold_anns i = cann i -> cann i = [].
Proof.
  intros [G _] Hv Hu Ec.
  assert (X : all_none (refA i c) = true).
  { rewrite <- G. destruct Hv as [->|E].
    - cbn [attr_of_map]. apply all_none_nones.
    - rewrite E, attr_of_map_nil. reflexivity. }
  unfold announces_unattributed in Hu. rewrite Ec in Hu.
  assert (Y : all_none (refA i true) || all_none (refA i false) = true).
  { destruct c; rewrite X; [reflexivity|apply orb_true_r]. }
  rewrite Y, andb_true_r in Hu. apply negb_false_iff in Hu. destruct (cann i); [reflexivity|discriminate].
Qed.

Theorem strict_all : forall s, APC s.
Proof.
  apply (src_ind' APC); unfold APC.
  - intros b v _ _ _. apply araw_ok; intros; reflexivity.
  - intros v _ _ _. apply araw_ok; intros; reflexivity.
  - intros v _ _ _. apply araw_ok; intros; reflexivity.
  - (* SOriginal *) intros v n Hin Hcl _.
    assert (A : astream_ok (SOriginal v n)).
    { intros st o Hs. cbn [stream fst snd]. rewrite original_anns. split; [reflexivity|apply Hs]. }
    split; [exact A|]. intros st c Hs.
    change (map_of st (SOriginal v n) c) with (Tree.get_map st (SOriginal v n) c).
    apply aget_map_ok; try assumption. reflexivity.
  - (* SMapped *) intros v n m og i r Hin Hcl _. destruct i as [im|].
    + destruct Hcl as [_ [Sh _]]. discriminate.
    + split.
      * intros st o Hs. cbn [stream fst snd cann]. split; [apply sm_anns_exact|apply Hs].
      * intros st c Hs. cbn [map_of fst snd]. split; [|apply Hs].
        intros m0 E _. inversion E. reflexivity.
  - (* SConcat *) intros cs IH Hin Hcl Hk. rewrite Forall_forall in IH. cbn [k7s_shape] in Hk.
    assert (Hkids : forall ch, In ch cs -> incl (nodes ch) (nodes U) /\ cls ch /\ astream_ok ch).
    { intros ch Hch.
      assert (Hi : incl (nodes ch) (nodes U)) by (intros x Hx; apply Hin; apply (nodes_child cs ch Hch); exact Hx).
      split; [exact Hi|]. split; [apply (cls_concat cs ch Hcl Hch)|].
      apply (IH ch Hch Hi (cls_concat cs ch Hcl Hch) (existsb_false_in _ _ _ Hk Hch)). }
    assert (A : astream_ok (SConcat cs)).
    { intros st o Hs. destruct (Nat.eq_dec (length cs) 1) as [E|E].
      - destruct cs as [|ch [|c2 r]]; try discriminate.
        change (stream st (SConcat [ch]) o) with (stream st ch o). change (cann (SConcat [ch])) with (cann ch).
        destruct (Hkids ch (or_introl eq_refl)) as [_ [_ K]]. exact (K st o Hs).
      - rewrite (stream_concat_fold st cs o E). cbn [fst snd].
        destruct (akids o cs Hkids st Hs) as [K1 K2]. split; [|apply K2].
        rewrite concat_fold_dd, K1, (cann_concat cs E). reflexivity. }
    split; [exact A|]. intros st c Hs.
    change (map_of st (SConcat cs) c) with (Tree.get_map st (SConcat cs) c).
    apply aget_map_ok; try assumption. reflexivity.
  - (* SReplace *) intros i rs IH Hin Hcl Hk. destruct (cls_replace i rs Hcl) as [Hci _].
    cbn [k7s_shape] in Hk. destruct (IH Hin Hci Hk) as [IA IM].
    assert (A : astream_ok (SReplace i rs)).
    { intros st o Hs. cbn [stream cann]. destruct (IA st (mkOpts (columns o) false) Hs) as [K1 K2].
      destruct (stream st i (mkOpts (columns o) false)) as [[ievs gi] st']. cbn [fst snd] in *.
      rewrite replace_stream_contents. split; assumption. }
    split; [exact A|]. intros st c Hs.
    change (map_of st (SReplace i rs) c) with
      (if is_nil rs then map_of st i c else Tree.get_map st (SReplace i rs) c).
    destruct (is_nil rs) eqn:En.
    + destruct rs; [|discriminate]. destruct (IM st c Hs) as [M1 M2]. split; [|exact M2].
      intros m Em Hne. cbn [etab is_nil]. apply (M1 m Em). exact Hne.
    + apply aget_map_ok; try assumption. cbn [etab cann]. rewrite En. reflexivity.
  - (* SCached *) intros id i IH Hin Hcl Hk. pose proof (cls_cached id i Hcl) as Hci.
    assert (Hnode : In (id, i) (nodes U)) by (apply Hin; left; reflexivity).
    assert (Hin' : incl (nodes i) (nodes U)) by (intros x Hx; apply Hin; right; exact Hx).
    cbn [k7s_shape] in Hk. apply orb_false_iff in Hk. destruct Hk as [Hk Hk3].
    apply orb_false_iff in Hk. destruct Hk as [Hk1 Hk2].
    destruct (IH Hin' Hci Hk3) as [IA IM].
    (* the cold announcements of the wrapped source are the canonical ones *)
    assert (Ec : cold_anns i = cann i).
    { unfold cold_anns. apply (IA [] (mkOpts true false)). split; [apply sound_empty|apply act_empty]. }
    assert (Hun : none_then_some (cann i) = false) by (rewrite <- Ec; exact Hk2).
    split.
    + intros st o Hs. cbn [stream cann].
      destruct (cache_get (store_get st id) o) as [v|] eqn:G.
      * destruct o as [c f]. pose proof (proj1 Hs id i Hnode c f v G) as Gd. destruct v as [m|]; cbn [fst snd].
        -- split; [|apply Hs]. rewrite sm_anns_exact. destruct (source i) as [|b t] eqn:Es.
           ++ cbn [is_nil]. symmetry. apply (silent_cann i c (Some m) Gd); [right; exact Es|exact Hk1|exact Ec].
           ++ cbn [is_nil]. apply (proj2 Hs id i Hnode _ m G). rewrite Es. discriminate.
        -- split; [|apply Hs]. rewrite raw_anns. symmetry.
           apply (silent_cann i c None Gd); [left; reflexivity|exact Hk1|exact Ec].
      * destruct (IA st o Hs) as [K1 K2]. destruct (sound_stream U HU i st o Hin' Hci (proj1 Hs)) as [Dn _].
        destruct (stream st i o) as [[evs gi] st']. cbn [fst snd] in *.
        split; [exact K1|]. apply (act_put st' id i o _ Hnode K2).
        intros m Em _. rewrite (events_pad _ evs m Dn Em), K1. apply pad_unpadded. exact Hun.
    + intros st c Hs. cbn [map_of].
      destruct (cache_get (store_get st id) (mkOpts c false)) as [v|] eqn:G.
      * cbn [fst snd]. split; [|apply Hs]. intros m Em Hne. subst v. cbn [etab source] in *.
        rewrite (proj2 Hs id i Hnode _ m G Hne). symmetry. apply etab_cann; assumption.
      * destruct (IM st c Hs) as [K1 K2]. destruct (map_of st i c) as [m st']. cbn [fst snd] in *.
        assert (Hm : forall m0, m = Some m0 -> source i <> [] -> exp_sources m0 = cann i).
        { intros m0 Em Hne. rewrite (K1 m0 Em Hne). apply etab_cann; assumption. }
        pose proof (act_put st' id i (mkOpts c false) m Hnode K2 Hm) as C'. split; [|exact C'].
        intros m0 Em Hne. cbn [etab source] in *.
        destruct (cache_get (store_get (store_put st' id (mkOpts c false) m) id) (mkOpts c false)) as [m'|] eqn:G'.
        -- subst m'. rewrite (C' id i Hnode _ m0 G' Hne). symmetry. apply etab_cann; assumption.
        -- apply (K1 m0 Em Hne).
Qed.

End Cont.

(* ------------------------------------------------------------------ *)
(* a tree                                                               *)
(* ------------------------------------------------------------------ *)
Section Tree.
Variable s : src.
Hypothesis Hd : ColdCache.ids_distinct s.
Hypothesis Hcl : cls s.
Hypothesis Hk : k7s_shape s = false.

Let C := strict_all s Hd s (incl_refl _) Hcl Hk.

Lemma ainv_empty : AInv s [].
Proof. split; [apply sound_empty|apply act_empty]. Qed.

Lemma stream_ainv (st : store) (o : opts) : AInv s st -> AInv s (snd (stream st s o)).
Proof.
  intros Hs. destruct C as [A _]. split; [|apply (A st o Hs)].
  apply (sound_stream s Hd s st o (incl_refl _) Hcl (proj1 Hs)).
Qed.

Lemma map_ainv (st : store) (c : bool) : AInv s st ->
  mtab s (fst (map_of st s c)) /\ AInv s (snd (map_of st s c)).
Proof.
  intros Hs. destruct C as [_ M]. destruct (M st c Hs) as [T K]. split; [exact T|].
  split; [apply (sound_map s Hd s st c (incl_refl _) Hcl (proj1 Hs))|exact K].
Qed.

Lemma hop_ainv (st : store) (op : hop) : AInv s st -> AInv s (snd (run_hop st s op)).
Proof.
  intros Hs. destruct op as [| | | |c|c f| |]; cbn [run_hop snd]; try exact Hs.
  - pose proof (map_ainv st c Hs) as [_ X]. destruct (map_of st s c) as [m st']. exact X.
  - pose proof (stream_ainv st (mkOpts c f) Hs) as X. destruct (stream st s (mkOpts c f)) as [[evs gi] st']. exact X.
Qed.

Lemma hops_ainv : forall (ops : list hop) (st : store), AInv s st -> AInv s (snd (run_hops st s ops)).
Proof.
  induction ops as [|op ops IH]; intros st Hs; [exact Hs|].
  cbn [run_hops]. pose proof (hop_ainv st op Hs) as H1.
  destruct (run_hop st s op) as [x st1]. cbn [snd] in H1. specialize (IH st1 H1).
  destruct (run_hops st1 s ops) as [as_ st2]. exact IH.
Qed.

(* the announcements of every stream after every history: the canonical ones *)
Theorem anns_history_independent (ops : list hop) (o : opts) :
  anns (fst (fst (stream (snd (run_hops [] s ops)) s o))) = cann s.
Proof. destruct C as [A _]. apply (A _ o). apply hops_ainv. apply ainv_empty. Qed.

Lemma final_maps_mtab (st : store) : AInv s st ->
  mtab s (get_map (nth_ans (fst (run_hops st s final_ops)) 3)) /\
  mtab s (get_map (nth_ans (fst (run_hops st s final_ops)) 4)).
Proof.
  intros Hs. destruct (final_maps s st) as [-> ->].
  destruct (map_ainv st true Hs) as [T3 S3]. destruct (map_ainv _ false S3) as [T4 _]. split; assumption.
Qed.

End Tree.

(* ------------------------------------------------------------------ *)
(* `==` preserves the canonical lists and the widened class              *)
(* ------------------------------------------------------------------ *)
Lemma cann_erase : forall s, cann (erase_ids s) = cann s.
Proof.
  apply (src_ind' (fun s => cann (erase_ids s) = cann s)); try reflexivity.
  - intros cs IH. cbn [erase_ids]. destruct cs as [|c [|c2 r]].
    + reflexivity.
    + inversion IH as [|? ? Hc _]. exact Hc.
    + change (cann (SConcat (map erase_ids (c :: c2 :: r)))) with (dd [] (flat_map cann (map erase_ids (c :: c2 :: r)))).
      change (cann (SConcat (c :: c2 :: r))) with (dd [] (flat_map cann (c :: c2 :: r))).
      rewrite (flat_map_map_ext cann erase_ids _ IH). reflexivity.
  - intros i rs IH. exact IH.
  - intros id i IH. exact IH.
Qed.

Lemma etab_erase : forall s, etab (erase_ids s) = etab s.
Proof.
  apply (src_ind' (fun s => etab (erase_ids s) = etab s)); try reflexivity.
  - intros cs _. change (etab (erase_ids (SConcat cs))) with (pad (cann (erase_ids (SConcat cs)))).
    rewrite cann_erase. reflexivity.
  - intros i rs IH. cbn [erase_ids etab]. rewrite IH, cann_erase. reflexivity.
  - intros id i IH. exact IH.
Qed.

Theorem eq_etab (a b : src) : src_eqb a b = true -> etab a = etab b.
Proof. intros H. apply src_eqb_spec in H. rewrite <- (etab_erase a), <- (etab_erase b), H. reflexivity. Qed.

Lemma cold_anns_eq (a b : src) :
  src_eqb a b = true -> ColdCache.ids_distinct a -> ColdCache.ids_distinct b -> cold_anns a = cold_anns b.
Proof.
  intros H Ha Hb. unfold cold_anns.
  destruct (E3_eq_cold_answers a b H (proj2 (ids_distinct_same a) Ha) (proj2 (ids_distinct_same b) Hb)
              (mkOpts true false) true) as [E _].
  rewrite E. reflexivity.
Qed.

Theorem eq_k7s : forall a b, src_eqb a b = true -> ColdCache.ids_distinct a -> ColdCache.ids_distinct b ->
  k7s_shape a = k7s_shape b.
Proof.
  induction a as [ba va|va|va|va na|va na ma oa ia ra|ca IH|ia ra IH|ida ia IH] using src_ind';
    intros [bb vb|vb|vb|vb nb|vb nb mb ob ib rb|cb|ib rb|idb ib] H Ha Hb;
    try discriminate H; try reflexivity.
  - rewrite src_eqb_concat in H. cbn [k7s_shape]. revert cb H Hb.
    induction IH as [|c ca Hc _ IHl]; intros [|d cb] H Hb; try discriminate H; [reflexivity|].
    rewrite concat_eqb_cons in H. apply andb_true_iff in H. destruct H as [H1 H2].
    destruct (distinct_concat_head _ _ Ha) as [Ha1 Ha2]. destruct (distinct_concat_head _ _ Hb) as [Hb1 Hb2].
    cbn [existsb]. rewrite (Hc d H1 Ha1 Hb1), (IHl Ha2 cb H2 Hb2). reflexivity.
  - cbn [src_eqb] in H. apply andb_true_iff in H. destruct H as [H _]. cbn [k7s_shape]. apply (IH ib H Ha Hb).
  - cbn [src_eqb] in H. cbn [k7s_shape].
    pose proof (distinct_cached _ _ Ha) as Ha'. pose proof (distinct_cached _ _ Hb) as Hb'.
    unfold announces_unattributed, announces_padded.
    rewrite (cold_anns_eq ia ib H Ha' Hb'), (eq_refA ia ib true H), (eq_refA ia ib false H), (IH ib H Ha' Hb').
    reflexivity.
Qed.

(* ------------------------------------------------------------------ *)
(* the strict contents clause from equal tables                         *)
(* ------------------------------------------------------------------ *)
Lemma opt_text_refl (x : option text) : opt_eqb text_eqb x x = true.
Proof. destruct x; cbn [opt_eqb]; [apply text_eqb_refl|reflexivity]. Qed.

Theorem contents_agree_tabs (E : list (text * option text)) (x y : option smap) (t : text) (c : bool) :
  attr_of_map x t c = attr_of_map y t c ->
  (forall m, x = Some m -> t <> [] -> exp_sources m = E) ->
  (forall m, y = Some m -> t <> [] -> exp_sources m = E) ->
  referenced_contents_agree x y t c = true.
Proof.
  intros Eq Tx Ty. unfold referenced_contents_agree. apply forallb_forall. intros a Ha.
  destruct a as [l|]; [|reflexivity].
  pose proof Ha as Hb. rewrite Eq in Hb.
  destruct x as [mx|]; [|exfalso; apply (in_none_map t l Ha)].
  destruct y as [my|]; [|exfalso; apply (in_none_map t l Hb)].
  assert (Ht : t <> []) by (intros ->; destruct Ha).
  rewrite !lookup_exp, (Tx mx eq_refl Ht), (Ty my eq_refl Ht). apply opt_text_refl.
Qed.

(* ------------------------------------------------------------------ *)
(* the checker                                                          *)
(* ------------------------------------------------------------------ *)
Section Pair.
Variables a b : src.
Variables opsa opsb : list hop.
Hypothesis He : src_eqb a b = true.
Hypothesis Hda : ColdCache.ids_distinct a.
Hypothesis Hdb : ColdCache.ids_distinct b.
Hypothesis Hca : cls a.
Hypothesis Hka : k7s_shape a = false.

Theorem D2_strict_sec : chk_C14_pair a b (api_pair a opsa b opsb) = 0.
Proof.
  pose proof (Hcb a b He Hca) as Hcb'.
  assert (Hkb : k7s_shape b = false) by (rewrite <- (eq_k7s a b He Hda Hdb); exact Hka).
  destruct (eq_pair_facts a b opsa opsb He Hda Hdb Hca) as [_ [_ [_ [_ M]]]].
  pose proof (M true) as M3. pose proof (M false) as M4. cbn iota in M3, M4.
  pose proof (final_maps_mtab a Hda Hca Hka _ (hops_ainv a Hda Hca Hka opsa [] (ainv_empty a))) as [TA3 TA4].
  pose proof (final_maps_mtab b Hdb Hcb' Hkb _ (hops_ainv b Hdb Hcb' Hkb opsb [] (ainv_empty b))) as [TB3 TB4].
  unfold mtab in TB3, TB4. rewrite <- (eq_etab a b He), <- (proj1 (eq_source a b He)) in TB3, TB4.
  rewrite (verdict_form a b opsa opsb He Hca), (obs_equiv_form a b opsa opsb He Hda Hdb Hca).
  unfold api_pair in *. cbn [po_a po_b] in *.
  rewrite (contents_agree_tabs (etab a) _ _ (source a) true M3 TA3 TB3).
  rewrite (contents_agree_tabs (etab a) _ _ (source a) false M4 TA4 TB4).
  reflexivity.
Qed.

End Pair.

(* D2 with the class drawn wide enough: the strict checker, all clauses, any two histories *)
Theorem D2_strict (a b : src) (opsa opsb : list hop) :
  src_eqb a b = true -> ColdCache.ids_distinct a -> ColdCache.ids_distinct b -> cls a -> cls b ->
  k7s_shape a = false ->
  chk_C14_pair a b (api_pair a opsa b opsb) = 0.
Proof. intros He Hda Hdb Hca _ Hk. apply D2_strict_sec; assumption. Qed.

(* ------------------------------------------------------------------ *)
(* the class of the checker                                             *)
(* ------------------------------------------------------------------ *)
(* k7s_shape reads the attribution off the cache-free tree (refA: uncache).  The checker's
   k7c_shape (Checkers/ChkHist.v) is the same class written with the cold streams of the
   wrapped source itself. *)
Lemma content_gap_same l : content_gap l = none_then_some l.
Proof. induction l as [|[n [x|]] l IH]; cbn [content_gap none_then_some]; [reflexivity|exact IH|rewrite IH; reflexivity]. Qed.

Lemma history_dependent_same (inner : src) : ColdCache.ids_distinct inner ->
  announces_history_dependent inner = announces_unattributed inner || announces_padded inner.
Proof.
  intros Hd. unfold announces_history_dependent, announces_unattributed, announces_padded, attributes_nothing,
    cold_anns, cold_events, refA, ref_evs, all_none.
  cbv zeta. rewrite content_gap_same, !(fresh_stream_uncache inner _ Hd).
  destruct (anns (fst (fst (stream [] (uncache inner) (mkOpts true false))))) as [|p l] eqn:Ea.
  - reflexivity.
  - cbn [is_nil negb andb]. destruct (none_then_some (p :: l)); [rewrite orb_true_r; reflexivity|].
    rewrite orb_false_r.
    match goal with |- (if ?x then true else ?y) = _ => destruct x; reflexivity end.
Qed.

Theorem k7c_k7s : forall s, ColdCache.ids_distinct s -> k7c_shape s = k7s_shape s.
Proof.
  apply (src_ind' (fun s => ColdCache.ids_distinct s -> k7c_shape s = k7s_shape s)); try reflexivity.
  - intros cs IH Hd. cbn [k7c_shape k7s_shape]. induction IH as [|c cs Hc _ IHl]; [reflexivity|].
    destruct (distinct_concat_head _ _ Hd) as [H1 H2]. cbn [existsb]. rewrite (Hc H1), (IHl H2). reflexivity.
  - intros i rs IH Hd. apply IH. exact Hd.
  - intros id i IH Hd. pose proof (distinct_cached _ _ Hd) as Hd'. cbn [k7c_shape k7s_shape].
    rewrite (history_dependent_same i Hd'), (IH Hd'). reflexivity.
Qed.

(* it is a widening of the former class k7_shape: a stream without mapped chunk attributes nothing *)
Lemma unmapped_cover : forall evs srcs names, mapped_chunk_exists evs = false ->
  forallb (fun a : attr => match a with None => true | Some _ => false end)
          (attr_cover (rsegs_of_events evs srcs names)) = true.
Proof.
  unfold mapped_chunk_exists. induction evs as [|e evs IH]; intros srcs names H; [reflexivity|].
  destruct e as [t mp|i n c|i n]; cbn [rsegs_of_events chunk_mappings existsb] in *.
  - apply orb_false_iff in H. destruct H as [H1 H2]. destruct (m_orig mp); [discriminate|].
    destruct t as [t|]; cbn [attr_cover]; [|apply IH; exact H2].
    rewrite forallb_app, (IH _ _ H2), andb_true_r. clear. induction t as [|x t IHt]; [reflexivity|exact IHt].
  - apply IH. exact H.
  - apply IH. exact H.
Qed.

Lemma unmapped_history_dependent (inner : src) :
  announces_unmapped inner = true -> announces_history_dependent inner = true.
Proof.
  unfold announces_unmapped, announces_history_dependent, attributes_nothing, cold_events.
  intros H. apply andb_true_iff in H. destruct H as [H1 H2]. apply negb_true_iff in H2, H1.
  cbv zeta. rewrite H1. destruct (content_gap _); [reflexivity|].
  unfold attr_of_stream. cbv beta iota zeta.
  match goal with |- (if ?x then true else _) = true => replace x with true; [reflexivity|] end.
  symmetry. exact (unmapped_cover _ [] [] H2).
Qed.

Theorem k7_k7c : forall s, k7_shape s = true -> k7c_shape s = true.
Proof.
  apply (src_ind' (fun s => k7_shape s = true -> k7c_shape s = true)); try (intros; discriminate).
  - intros cs IH H. cbn [k7_shape k7c_shape] in *. apply existsb_exists in H. destruct H as [c [Hc Hk]].
    apply existsb_exists. exists c. split; [exact Hc|]. rewrite Forall_forall in IH. apply (IH c Hc Hk).
  - intros i rs IH H. apply IH. exact H.
  - intros id i IH H. cbn [k7_shape k7c_shape] in *. apply orb_true_iff in H. destruct H as [H|H].
    + rewrite (unmapped_history_dependent i H). reflexivity.
    + rewrite (IH H). apply orb_true_r.
Qed.

(* ------------------------------------------------------------------ *)
(* the final statements, about the checker as it is                     *)
(* ------------------------------------------------------------------ *)
(* D2: outside the class the checker accepts, any two histories, no hypothesis on the contents *)
Theorem D2_final (a b : src) (opsa opsb : list hop) :
  src_eqb a b = true -> ColdCache.ids_distinct a -> ColdCache.ids_distinct b -> cls a -> cls b ->
  k7c_shape a = false ->
  chk_C14_pair a b (api_pair a opsa b opsb) = 0.
Proof.
  intros He Hda Hdb Hca Hcb Hk. apply D2_strict; try assumption. rewrite <- (k7c_k7s a Hda). exact Hk.
Qed.

(* D1: 0, or the known finding inside the class *)
Theorem D1_final (a b : src) (opsa opsb : list hop) :
  src_eqb a b = true -> ColdCache.ids_distinct a -> ColdCache.ids_distinct b -> cls a -> cls b ->
  let v := chk_C14_pair a b (api_pair a opsa b opsb) in
  v = 0 \/ (k7c_shape a = true /\ v = 57).
Proof.
  intros He Hda Hdb Hca Hcb. cbn zeta. destruct (k7c_shape a) eqn:K.
  - destruct (D1_partial a b opsa opsb He Hda Hdb Hca Hcb) as [H|[[_ H]|[X _]]].
    + left. exact H.
    + right. split; [reflexivity|exact H].
    + rewrite K in X. discriminate.
  - left. apply D2_final; assumption.
Qed.

(* the spelling of "every cache id once" used by E4 (EqObsTree.ids_distinct) *)
Corollary D1_final_E (a b : src) (opsa opsb : list hop) :
  src_eqb a b = true -> EqObsTree.ids_distinct a -> EqObsTree.ids_distinct b -> cls a -> cls b ->
  let v := chk_C14_pair a b (api_pair a opsa b opsb) in
  v = 0 \/ (k7c_shape a = true /\ v = 57).
Proof.
  intros He Hda Hdb. apply D1_final; [exact He|apply ids_distinct_same; exact Hda|apply ids_distinct_same; exact Hdb].
Qed.

Print Assumptions strict_all.
Print Assumptions anns_history_independent.
Print Assumptions eq_k7s.
Print Assumptions contents_agree_tabs.
Print Assumptions D2_strict.
Print Assumptions k7c_k7s.
Print Assumptions k7_k7c.
Print Assumptions D2_final.
Print Assumptions D1_final.
Print Assumptions D1_final_E.
