(* Property C01 for ALL source trees of the model: the chunks streamed with final_source = false
   (either column setting, any store) carry their text and concatenate to source().
   Covers CachedSource (cold and warm, ANY store content) and SourceMapSource with an inner map
   (the combined stream rewrites attribution, never text). *)
From RS Require Import Base.Prelude Base.Text Rope.RopeModel Codec.Vlq Codec.CodecSpec
  Stream.Types Stream.Leaves Stream.Concat Stream.Replace Stream.Combined Stream.Tree
  Checkers.ChkTree
  Proofs.ViewsUtf8 Proofs.ViewsTree
  Proofs.StreamText Proofs.StreamLeaves Proofs.StreamMap Proofs.StreamMapAny Proofs.StreamConcat
  Proofs.StreamTree Proofs.ReplaceSort Proofs.ReplaceText Proofs.RStreamText Proofs.RStreamTree.
Require Import Lia List ZArith.

Local Open Scope N_scope.

(* ------------------------------------------------------------------ *)
(* 1. the combined stream keeps the chunk texts of the outer stream     *)
(* ------------------------------------------------------------------ *)
Lemma intern_cases tbl s : exists tbl' g fresh, intern tbl s = (tbl', g, fresh).
Proof. destruct (intern tbl s) as [[a b] c]. eauto. Qed.

Lemma ct_app a b : chunk_texts (a ++ b) = chunk_texts a ++ chunk_texts b.
Proof. apply chunk_texts_app. Qed.

Lemma ct_if_src (b : bool) g n c : chunk_texts (if b then [ESource g n c] else []) = [].
Proof. destruct b; reflexivity. Qed.

Lemma ct_if_name (b : bool) g n : chunk_texts (if b then [EName g n] else []) = [].
Proof. destruct b; reflexivity. Qed.

Lemma outer_name_texts st ni : chunk_texts (snd (outer_name st ni)) = [].
Proof.
  unfold outer_name.
  destruct (match lm_get (b_name_idx st) (Z.to_N ni) with Some v => v | None => (-2)%Z end =? -2)%Z;
    [|reflexivity].
  destruct (lm_get (b_name_val st) (Z.to_N ni)) as [name|]; [|reflexivity].
  destruct (intern (b_names st) name) as [[tbl g] fresh]. cbn [snd]. apply ct_if_name.
Qed.

Ltac break_match :=
  match goal with
  | |- context [match ?x with _ => _ end] =>
    lazymatch x with
    | context [match _ with _ => _ end] => fail
    | _ => destruct x eqn:?
    end
  end.

Lemma mk_chunk_text chunk m a b c d : chunk_texts [mk_chunk chunk m a b c d] = [chunk].
Proof. reflexivity. Qed.

Lemma outer_chunk_texts name rm st chunk m :
  chunk_texts (snd (outer_chunk name rm st chunk m)) = [chunk].
Proof.
  unfold outer_chunk. cbn zeta.
  repeat first
    [ match goal with
      | |- context [outer_name ?a ?b] =>
        let H := fresh "Hon" in
        pose proof (outer_name_texts a b) as H; destruct (outer_name a b) as [[? ?] ?]; cbn [snd] in H
      end
    | break_match ];
    cbn [snd fst]; rewrite ?ct_app, ?ct_if_src, ?ct_if_name, ?mk_chunk_text; cbn [app chunk_texts];
    try reflexivity; try (repeat match goal with H : chunk_texts ?l = [] |- context [chunk_texts ?l] => rewrite H end; reflexivity).
Qed.

Lemma outer_event_texts f name rm st e :
  chunk_texts (snd (outer_event f name rm st e)) = chunk_texts [e].
Proof.
  destruct e as [chunk m|i source content|i nm]; cbn [outer_event].
  - apply outer_chunk_texts.
  - destruct (text_eqb source name).
    + destruct (match b_inner_source st with Some s => Some s | None => content end); reflexivity.
    + destruct (intern (b_sources st) source) as [[tbl g] fresh]. cbn [snd]. apply ct_if_src.
  - reflexivity.
Qed.

Lemma outer_events_texts f name rm : forall evs st,
  chunk_texts (snd (outer_events f name rm st evs)) = chunk_texts evs.
Proof.
  induction evs as [|e evs IH]; intros st; [reflexivity|].
  cbn [outer_events].
  pose proof (outer_event_texts f name rm st e) as A.
  destruct (outer_event f name rm st e) as [st1 o1]. cbn [snd] in A.
  specialize (IH st1). destruct (outer_events f name rm st1 evs) as [st2 o2]. cbn [snd] in *.
  rewrite ct_app, A, IH. change (e :: evs) with ([e] ++ evs). rewrite ct_app. reflexivity.
Qed.

(* holds for every outer map, inner map, texts and options: no hypothesis *)
Theorem combined_stream_texts v m name orig im remove o :
  chunk_texts (fst (combined_stream v m name orig im remove o)) = chunk_texts (fst (sm_stream v m o)).
Proof.
  unfold combined_stream. destruct (sm_stream v m o) as [oevs gi].
  pose proof (outer_events_texts (fun c => fst (sm_stream c im (mkOpts (columns o) false))) name remove
                oevs (b_init orig)) as A.
  destruct (outer_events _ name remove (b_init orig) oevs) as [st evs]. exact A.
Qed.

(* ------------------------------------------------------------------ *)
(* 2. leaves                                                           *)
(* ------------------------------------------------------------------ *)
Lemma sm_stream_Reass t m cols : valid_utf8 t = true ->
  Reass (fst (sm_stream t m (mkOpts cols false))) t.
Proof.
  intros Hv. apply reassembles_iff. unfold sm_stream. cbn [columns final_source]. destruct cols.
  - apply sm_stream_full_reassembles_any_utf8. exact Hv.
  - apply sm_stream_lines_full_reassembles.
Qed.

Lemma raw_stream_Reass t : Reass (fst (raw_stream t false)) t.
Proof. apply raw_stream_good. Qed.

Lemma combined_stream_Reass v m name orig im remove cols : valid_utf8 v = true ->
  Reass (fst (combined_stream v m name orig im remove (mkOpts cols false))) v.
Proof.
  intros Hv. apply (Reass_texts _ _ _ (combined_stream_texts v m name orig im remove _)).
  apply sm_stream_Reass. exact Hv.
Qed.

(* ------------------------------------------------------------------ *)
(* 3. the tree induction, for every store                              *)
(* ------------------------------------------------------------------ *)
Definition reass_good (s : src) : Prop :=
  forall st cols, tree_wf s = true ->
    Reass (fst (fst (stream st s (mkOpts cols false)))) (source s).

Lemma cfold_reass cols cs : Forall reass_good cs -> forallb tree_wf cs = true ->
  forall cst evs st T, c_close cst = false -> Reass evs T ->
  let r := fold_left (cfold_step (mkOpts cols false)) cs (cst, evs, st) in
  c_close (fst (fst r)) = false /\ Reass (snd (fst r)) (T ++ concat (map source cs)).
Proof.
  induction 1 as [|c cs Hc _ IH]; intros Hw cst evs st T HC HR.
  - cbn [fold_left map concat fst snd]. rewrite app_nil_r. auto.
  - cbn [forallb] in Hw. apply andb_true_iff in Hw. destruct Hw as [Hw1 Hw2].
    cbn [fold_left]. rewrite cfold_step_eq.
    pose proof (Hc st cols Hw1) as A1.
    destruct (stream st c (mkOpts cols false)) as [[cevs gi] st1]. cbn [fst snd] in *.
    cbn [final_source].
    pose proof (concat_child_texts cst cevs gi HC) as [B1 B2].
    destruct (concat_child false cst cevs gi) as [cst' out]. cbn [fst snd] in *.
    assert (HR' : Reass (evs ++ out) (T ++ source c)).
    { apply Reass_app; [exact HR|]. apply (Reass_texts _ _ _ B2). exact A1. }
    pose proof (IH Hw2 cst' (evs ++ out) st1 (T ++ source c) B1 HR') as C. cbn zeta in C.
    cbn [map concat]. rewrite app_assoc. exact C.
Qed.

Lemma stream_cached_eq st id inner o :
  stream st (SCached id inner) o =
  match cache_get (store_get st id) o with
  | Some (Some m) => (sm_stream (source inner) m o, st)
  | Some None => (raw_stream (source inner) (final_source o), st)
  | None =>
    let '(evs, gi, st') := stream st inner o in
    (evs, gi, store_put st' id o (map_of_events (columns o) evs))
  end.
Proof. reflexivity. Qed.

Lemma reass_good_all : forall s, reass_good s.
Proof.
  apply src_ind'.
  - intros b v st cols _. cbn [stream fst final_source]. apply raw_stream_Reass.
  - intros v st cols _. cbn [stream fst final_source]. apply raw_stream_Reass.
  - intros v st cols _. cbn [stream fst final_source]. apply raw_stream_Reass.
  - intros v n st cols _. cbn [stream fst source]. apply original_stream_good. reflexivity.
  - intros v n m o i r st cols Hw. cbn [tree_wf] in Hw. apply andb_true_iff in Hw. destruct Hw as [Hv _].
    cbn [stream source]. destruct i as [im|]; cbn [fst].
    + apply combined_stream_Reass. exact Hv.
    + apply sm_stream_Reass. exact Hv.
  - (* SConcat *) intros cs IH st cols Hw. cbn [tree_wf] in Hw.
    rewrite stream_concat_eq. cbn [source].
    pose proof (cfold_reass cols cs IH Hw concat_init [] st [] eq_refl Reass_nil) as [A1 A2].
    cbn zeta in *. cbn [app] in *.
    destruct cs as [|c [|c2 r]].
    + cbn [fold_left fst snd map concat]. apply Reass_nil.
    + inversion IH as [|? ? Hc _]. subst. cbn [forallb] in Hw. rewrite andb_true_r in Hw.
      cbn [map concat]. rewrite app_nil_r. apply Hc. exact Hw.
    + destruct (fold_left (cfold_step (mkOpts cols false)) (c :: c2 :: r) (concat_init, [], st))
        as [[cst evs] st']. cbn [fst snd] in *. exact A2.
  - (* SReplace *) intros i rs IH st cols Hw. cbn [tree_wf] in Hw.
    apply andb_true_iff in Hw. destruct Hw as [Hw1 Hw2].
    rewrite stream_replace_eq. cbn [source].
    pose proof (IH st cols Hw1) as A1.
    destruct (stream st i (mkOpts cols false)) as [[ievs gi] st1]. cbn [fst snd] in *.
    rewrite replace_source_text_splice. apply replace_stream_Reass; [|exact A1].
    apply sort_repls_ordered. apply (repl_ok_ordered _ _ Hw2).
  - (* SCached: warm (any cached map, or no map) or cold *)
    intros id i IH st cols Hw. cbn [tree_wf] in Hw. rewrite stream_cached_eq. cbn [source].
    destruct (cache_get (store_get st id) (mkOpts cols false)) as [[m|]|].
    + cbn [fst]. apply sm_stream_Reass. apply source_valid. exact Hw.
    + cbn [fst final_source]. apply raw_stream_Reass.
    + pose proof (IH st cols Hw) as A1.
      destruct (stream st i (mkOpts cols false)) as [[evs gi] st1]. cbn [fst snd] in *. exact A1.
Qed.

(* ------------------------------------------------------------------ *)
(* 4. the theorems                                                     *)
(* ------------------------------------------------------------------ *)
(* A3: property C01, first sentence, for ALL trees of the model, every store, both column settings *)
Theorem all_stream_reassembles : forall s, tree_wf s = true -> forall st cols,
  reassembles (fst (fst (stream st s (mkOpts cols false)))) (source s) = true.
Proof.
  intros s Hw st cols. apply reassembles_iff. apply reass_good_all. exact Hw.
Qed.

(* A2: the class without combined maps (SourceMapSource with an inner map) *)
Fixpoint noinner (s : src) : bool :=
  match s with
  | SMapped _ _ _ _ (Some _) _ => false
  | SConcat cs => forallb noinner cs
  | SReplace inner _ => noinner inner
  | SCached _ inner => noinner inner
  | _ => true
  end.

Theorem noinner_stream_reassembles : forall s, noinner s = true -> tree_wf s = true -> forall st cols,
  reassembles (fst (fst (stream st s (mkOpts cols false)))) (source s) = true.
Proof. intros s _. apply all_stream_reassembles. Qed.

(* A1: the class of RStreamTree.v, without the sortedness hypothesis *)
Theorem rshape_stream_reassembles_unsorted : forall s, rshape s = true -> tree_wf s = true -> forall st cols,
  reassembles (fst (fst (stream st s (mkOpts cols false)))) (source s) = true.
Proof. intros s _. apply all_stream_reassembles. Qed.

(* A4 on well-formed trees: every chunk carries its text *)
Lemma Reass_carries evs T : Reass evs T -> forall t m, In (EChunk t m) evs -> exists x, t = Some x.
Proof.
  revert T. induction evs as [|e evs IH]; intros T HR t m Hin; [contradiction|].
  destruct Hin as [->|Hin].
  - apply Reass_chunk_inv in HR. destruct HR as [t' [x' [-> _]]]. eauto.
  - destruct e as [t0 m0|i n c|i n].
    + apply Reass_chunk_inv in HR. destruct HR as [t' [x' [_ [_ HR]]]]. apply (IH _ HR t m Hin).
    + apply (IH _ HR t m Hin).
    + apply (IH _ HR t m Hin).
Qed.

Theorem all_stream_chunks_carry_text_wf : forall s, tree_wf s = true -> forall st cols t m,
  In (EChunk t m) (fst (fst (stream st s (mkOpts cols false)))) -> exists x, t = Some x.
Proof.
  intros s Hw st cols t m Hin. apply (Reass_carries _ _ (reass_good_all s st cols Hw) t m Hin).
Qed.

(* ------------------------------------------------------------------ *)
(* 5. computed instances                                               *)
(* ------------------------------------------------------------------ *)
From RS Require Import Api.ApiTree.

(* the wild map of StreamMapAny.any_wild_1 on "é\nab\nç" *)
Definition ex_text : text := [195; 169; 10; 97; 98; 10; 195; 167].
Definition ex_wild : smap :=
  mkSmap None [75;65;65;65;44;68;65;65;65;44;85;59;67;65;65;65;44;68;65;65;65;59;59;69;65;65;65;59;65;65;65;65;44;65;65;65;65;59;59;59;59;65]
    [[120]] [] [] None None.
(* inner map "AAAA;AACA" for the combined node *)
Definition ex_inner : smap := mkSmap None [65;65;65;65;59;65;65;67;65] [[121]] [[97; 10; 98]] [] None None.
(* Cached(7) over Replace("\na" -> "ß", insert "ü\n" at 8) over SourceMapSource with the wild map *)
Definition ex_cached : src :=
  SCached 7 (SReplace (SMapped ex_text [120] ex_wild None None false)
                      [mkRepl 2 4 [195; 159] None 1; mkRepl 8 8 [195; 188; 10] (Some [110]) 1]).
(* two clones of the CachedSource, a combined SourceMapSource and a lossy buffer, concatenated *)
Definition ex_tree : src :=
  SConcat [ex_cached; SMapped ex_text [120] ex_wild None (Some ex_inner) true; ex_cached;
           SRawBuffer [255; 97; 10]].

Example ex_tree_checked :
  let warm := run_warm [] ex_tree [(7, WStream true false); (7, WMap false)] in
  (* a store whose entries have nothing to do with the tree *)
  let hostile := [(7, [(mkOpts true false, Some ex_inner); (mkOpts false false, None)])] in
  (tree_wf ex_tree,
   map (fun st => map (fun cols => reassembles (fst (fst (stream st ex_tree (mkOpts cols false)))) (source ex_tree))
                      [true; false]) [[]; warm; hostile])
  = (true, [[true; true]; [true; true]; [true; true]]).
Proof. vm_compute. reflexivity. Qed.

(* tree_wf cannot be dropped: a SourceMapSource whose text is not valid UTF-8 (a line that starts
   with a continuation byte) loses that byte - StreamMap.cex_full_reassembles *)

Print Assumptions combined_stream_texts.
Print Assumptions all_stream_reassembles.
Print Assumptions noinner_stream_reassembles.
Print Assumptions rshape_stream_reassembles_unsorted.
Print Assumptions all_stream_chunks_carry_text_wf.
Print Assumptions ex_tree_checked.
