(* C04, checker level, for trees with CachedSource nodes observed first (cold caches).
   The provenance semantics `prov`, the table of OriginalSources `originals` and `has_replace`
   do not see CachedSource wrappers; the observations of a freshly built tree are those of the
   tree without its wrappers (ChkModelC02.api_tree_cold).  Hence, for a tree `s` inside the
   checker's domain (`c04_domain s`: in particular no CachedSource below a ReplaceSource) whose
   cache-free form `uncache s` is of the class `pshape` and satisfies the hypotheses of
   `ProvReplaceTables.replace_chk_C04`:
     chk_C04_cold          chk_C04 s (api_tree s []) = 0;
     chk_C04_cold_kinds    without the hypothesis `c04_kinds s false` the verdict is 0 or 100
                           (100 exactly when a CachedSource sits below a ReplaceSource);
     chk_C04_cold_store    the same from any store that is cold for the tree. *)
From RS Require Import Base.Prelude Base.Text Rope.RopeModel Codec.Vlq Codec.CodecSpec
  Checkers.ChkCodec Stream.Types Stream.Leaves Stream.Concat Stream.Replace Stream.Tree Api.ApiTree
  Sem.Attr Sem.Prov Checkers.ChkTree Checkers.ChkProv
  Proofs.StreamTree Proofs.RStreamTree Proofs.ReplAttrTree
  Proofs.ProvConcatBytes Proofs.ProvConcatTables Proofs.ProvConcatLines
  Proofs.ProvReplaceBytes Proofs.ProvReplaceTables
  Proofs.ColdCache Proofs.ColdCacheTree Proofs.ChkModelC02.
Require Import Lia List.
Import ListNotations.

Local Open Scope N_scope.

(* ------------------------------------------------------------------ *)
(* what the checker reads of the tree does not see the wrappers         *)
(* ------------------------------------------------------------------ *)
Lemma flat_map_map_ext {A B} (f : A -> list B) (g : A -> A) (l : list A) :
  Forall (fun x => f (g x) = f x) l -> flat_map f (map g l) = flat_map f l.
Proof.
  induction 1 as [|x l Hx _ IH]; [reflexivity|]. cbn [map flat_map]. rewrite Hx, IH. reflexivity.
Qed.

Theorem uncache_prov : forall s, prov (uncache s) = prov s.
Proof.
  apply (src_ind' (fun s => prov (uncache s) = prov s)); try reflexivity.
  - intros cs IH. cbn [uncache prov]. apply flat_map_map_ext. exact IH.
  - intros i rs IH. cbn [uncache]. rewrite !prov_replace, IH. reflexivity.
  - intros id i IH. cbn [uncache prov]. exact IH.
Qed.

Theorem uncache_originals : forall s, originals (uncache s) = originals s.
Proof.
  apply (src_ind' (fun s => originals (uncache s) = originals s)); try reflexivity.
  - intros cs IH. cbn [uncache originals]. apply flat_map_map_ext. exact IH.
  - intros i rs IH. cbn [uncache originals]. exact IH.
  - intros id i IH. cbn [uncache originals]. exact IH.
Qed.

Theorem uncache_has_replace : forall s, has_replace (uncache s) = has_replace s.
Proof.
  apply (src_ind' (fun s => has_replace (uncache s) = has_replace s)); try reflexivity.
  - intros cs IH. cbn [uncache has_replace]. induction IH as [|c cs Hc _ IHl]; [reflexivity|].
    cbn [map existsb]. rewrite Hc, IHl. reflexivity.
  - intros id i IH. cbn [uncache has_replace]. exact IH.
Qed.

(* the checker reads the tree through its domain guard, `prov`, `originals`, `has_replace` *)
Lemma chk_C04_guard s s' o :
  c04_domain s = c04_domain s' -> prov s = prov s' -> originals s = originals s' ->
  has_replace s = has_replace s' -> chk_C04 s o = chk_C04 s' o.
Proof. intros E1 E2 E3 E4. unfold chk_C04. rewrite E1, E2, E3, E4. reflexivity. Qed.

(* the domain: only the clause on the kinds sees the wrappers *)
Lemma c04_domain_uncache s : pshape (uncache s) = true ->
  c04_domain (uncache s) = treeA s && names_determine_content (originals s).
Proof.
  intros Hp. unfold c04_domain.
  rewrite uncache_treeA, uncache_originals, (pshape_kinds (uncache s) false Hp), andb_true_r. reflexivity.
Qed.

Lemma c04_domain_split s : c04_domain s = c04_kinds s false && (treeA s && names_determine_content (originals s)).
Proof.
  unfold c04_domain. destruct (treeA s), (c04_kinds s false), (names_determine_content (originals s)); reflexivity.
Qed.

Lemma c04_domain_of_uncache s : pshape (uncache s) = true -> c04_domain s = true -> c04_domain (uncache s) = true.
Proof.
  intros Hp Hd. rewrite (c04_domain_uncache s Hp). rewrite c04_domain_split in Hd.
  apply andb_true_iff in Hd. exact (proj2 Hd).
Qed.

(* ------------------------------------------------------------------ *)
(* the checker on the first observation                                 *)
(* ------------------------------------------------------------------ *)
Theorem chk_C04_cold (s : src) :
  ids_distinct s -> pshape (uncache s) = true -> c04_domain s = true ->
  rsmall (uncache s) = true -> csmall (uncache s) = true ->
  fields_small [] (peel (uncache s)) ->
  (has_replace s = false -> fields_small_lines [] (uncache s)) ->
  chk_C04 s (api_tree s []) = 0.
Proof.
  intros Hd Hp Hdm Hs Hc Hf Hl.
  pose proof (c04_domain_of_uncache s Hp Hdm) as Hdu.
  rewrite (api_tree_cold s Hd).
  rewrite (chk_C04_guard s (uncache s) _ (eq_trans Hdm (eq_sym Hdu)) (eq_sym (uncache_prov s))
             (eq_sym (uncache_originals s)) (eq_sym (uncache_has_replace s))).
  apply replace_chk_C04; try assumption.
  intros Hr. apply Hl. rewrite <- uncache_has_replace. exact Hr.
Qed.

(* with the hypotheses of `replace_chk_C04` stated on `uncache s` only: the verdict is decided by
   the kinds clause of the domain *)
Theorem chk_C04_cold_kinds (s : src) :
  ids_distinct s -> pshape (uncache s) = true -> c04_domain (uncache s) = true ->
  rsmall (uncache s) = true -> csmall (uncache s) = true ->
  fields_small [] (peel (uncache s)) ->
  (has_replace (uncache s) = false -> fields_small_lines [] (uncache s)) ->
  chk_C04 s (api_tree s []) = if c04_kinds s false then 0 else 100.
Proof.
  intros Hd Hp Hdu Hs Hc Hf Hl. rewrite (c04_domain_uncache s Hp) in Hdu.
  destruct (c04_kinds s false) eqn:Hk.
  - apply chk_C04_cold; try assumption.
    + rewrite c04_domain_split, Hk, Hdu. reflexivity.
    + intros Hr. apply Hl. rewrite uncache_has_replace. exact Hr.
  - unfold chk_C04. rewrite c04_domain_split, Hk. reflexivity.
Qed.

(* from any store that is cold for the tree *)
Theorem chk_C04_cold_store (s : src) (st : store) (o : tree_obs) :
  ids_distinct s -> cold st s -> pshape (uncache s) = true -> c04_domain s = true ->
  rsmall (uncache s) = true -> csmall (uncache s) = true ->
  fields_small [] (peel (uncache s)) ->
  (has_replace s = false -> fields_small_lines [] (uncache s)) ->
  to_source o = source s ->
  to_maps o = [fst (map_of st s true); fst (map_of st s false)] ->
  chk_C04 s o = 0.
Proof.
  intros Hd Hco Hp Hdm Hs Hc Hf Hl E1 E2.
  pose proof (chk_C04_cold s Hd Hp Hdm Hs Hc Hf Hl) as H.
  unfold chk_C04 in *. cbn [api_tree to_source to_maps run_warm] in H.
  rewrite E1, E2, !(cold_map_uncache st s _ Hd Hco).
  rewrite !(fresh_map_uncache s _ Hd) in H. exact H.
Qed.

(* non-vacuous: CachedSource nodes around and inside ConcatSources, next to a ReplaceSource; one
   file used twice; and a tree outside the domain (a cache below a ReplaceSource) *)
Definition pc_o1 := SOriginal [97; 59; 98; 10; 99; 100] [102].
Definition pc_o2 := SOriginal [123; 97; 125; 10] [103].
Definition pc_o3 := SOriginal [10; 10; 97; 10] [104].
Definition pc_tree := SCached 9 (SConcat [SCached 1 pc_o1; SRawString [120; 10];
  SCached 2 (SConcat [pc_o2; SCached 3 pc_o3; SRaw false [59]]); SReplace pc_o1 [mkRepl 1 2 [113] None 1]]).
Definition pc_norepl := SCached 9 (SConcat [SCached 1 pc_o1; SRawString [120; 10];
  SCached 2 (SConcat [pc_o2; SCached 3 pc_o3; SRaw false [59]])]).
Definition pc_out := SReplace (SCached 1 pc_o1) [mkRepl 1 2 [113] None 1].

Example chk_C04_cold_examples :
  chk_C04 pc_tree (api_tree pc_tree []) = 0 /\ chk_C04 pc_norepl (api_tree pc_norepl []) = 0 /\
  chk_C04 pc_out (api_tree pc_out []) = 100.
Proof.
  split; [|split].
  - apply chk_C04_cold; try (vm_compute; reflexivity).
    apply ids_distinctb_spec. vm_compute. reflexivity.
  - apply chk_C04_cold; try (vm_compute; reflexivity).
    apply ids_distinctb_spec. vm_compute. reflexivity.
  - rewrite (chk_C04_cold_kinds pc_out); try (vm_compute; reflexivity).
    apply ids_distinctb_spec. vm_compute. reflexivity.
Qed.

Print Assumptions uncache_prov.
Print Assumptions uncache_originals.
Print Assumptions uncache_has_replace.
Print Assumptions chk_C04_cold.
Print Assumptions chk_C04_cold_kinds.
Print Assumptions chk_C04_cold_store.
Print Assumptions chk_C04_cold_examples.
