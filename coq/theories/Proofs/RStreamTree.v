(* ReplaceSource stream, part 3 (P3, TREE): the tree-level theorem for trees built from raw
   leaves, OriginalSource, SourceMapSource without inner map, ConcatSource and ReplaceSource. *)
From RS Require Import Base.Prelude Base.Text Rope.RopeModel Codec.Vlq Codec.CodecSpec
  Stream.Types Stream.Leaves Stream.Concat Stream.Replace Stream.Combined Stream.Tree
  Checkers.ChkTree
  Proofs.RopeWf Proofs.StreamText Proofs.StreamLeaves Proofs.StreamMap Proofs.StreamConcat
  Proofs.StreamTree Proofs.ReplaceSort Proofs.ReplaceText Proofs.RStreamText Proofs.RStreamPos.
Require Import Lia List ZArith.

Local Open Scope N_scope.

(* ------------------------------------------------------------------ *)
(* nl_last: closure under take / slice / substring                      *)
(* ------------------------------------------------------------------ *)
Lemma nl_last_take' t n : nl_last t -> nl_last (take n t).
Proof.
  intros [b [Hb [->| ->]]].
  - apply nl_last_no_nl. apply no_nl_take. exact Hb.
  - destruct (N.le_gt_cases n (len b)) as [H|H].
    + rewrite take_app_l by exact H. apply nl_last_no_nl. apply no_nl_take. exact Hb.
    + rewrite take_all by (rewrite len_app; change (len [10]) with 1; lia).
      exists b. split; [exact Hb|right; reflexivity].
Qed.

Lemma nl_last_slice' t x y : nl_last t -> nl_last (slice x y t).
Proof. intros H. unfold slice. apply nl_last_take'. apply nl_last_drop. exact H. Qed.

Lemma nl_last_substring line s e : nl_last line -> nl_last (substring line s e).
Proof.
  intros H. unfold substring. destruct (_ <=? s); [apply nl_last_nil|apply nl_last_slice'; exact H].
Qed.

Lemma lines_nl_last ls : lines_shape ls -> Forall nl_last ls.
Proof.
  intros H. apply lines_shape_pieces in H. eapply Forall_impl; [|exact H].
  intros a Ha. apply piece_nl_last'. exact Ha.
Qed.

Lemma NLL_nochunk evs : chunks_of evs = [] -> NLL evs.
Proof. intros H. apply NLL_silent. rewrite chunk_texts_chunks_of, H. reflexivity. Qed.

Lemma NLL_source i n c evs : NLL evs -> NLL (ESource i n c :: evs).
Proof. intros H. exact H. Qed.

(* ------------------------------------------------------------------ *)
(* leaves                                                              *)
(* ------------------------------------------------------------------ *)
Lemma raw_chunks_NLL ls : Forall nl_last ls -> forall line, NLL (raw_chunks ls line).
Proof.
  induction 1 as [|l ls Hl _ IH]; intros line; [apply NLL_nil|].
  cbn [raw_chunks]. apply NLL_chunk; [exact Hl|apply IH].
Qed.

Lemma raw_stream_NLL t : NLL (fst (raw_stream t false)).
Proof.
  unfold raw_stream. cbn [fst]. apply raw_chunks_NLL. apply lines_nl_last. apply split_lines_shape.
Qed.

Lemma original_tokens_NLL toks : Forall piece_shape toks -> forall line col,
  NLL (fst (original_tokens toks false line col)).
Proof.
  induction 1 as [|tk toks Htk _ IH]; intros line col; [apply NLL_nil|].
  cbn [original_tokens].
  destruct (ends_with_nl tk).
  - specialize (IH (line + 1) 0). destruct (original_tokens toks false (line + 1) 0) as [evs gi].
    cbn [fst] in *. apply NLL_app; [|exact IH].
    destruct (true && (len tk =? 1)); apply NLL_one; apply piece_nl_last'; exact Htk.
  - specialize (IH line (col + len tk)). destruct (original_tokens toks false line (col + len tk)) as [evs gi].
    cbn [fst andb] in *. apply NLL_app; [|exact IH]. apply NLL_one. apply piece_nl_last'. exact Htk.
Qed.

Lemma original_line_chunks_NLL ls : Forall nl_last ls -> forall line, NLL (original_line_chunks ls line).
Proof.
  induction 1 as [|l ls Hl _ IH]; intros line; [apply NLL_nil|].
  cbn [original_line_chunks]. apply NLL_chunk; [exact Hl|apply IH].
Qed.

Lemma original_stream_NLL v name cols : NLL (fst (original_stream v name (mkOpts cols false))).
Proof.
  unfold original_stream. cbn [columns final_source]. destruct cols.
  - pose proof (original_tokens_NLL _ (potential_tokens_pieces v) 1 0) as H.
    destruct (original_tokens (potential_tokens v) false 1 0) as [evs gi]. cbn [fst] in *.
    apply NLL_source. exact H.
  - cbn [fst]. apply NLL_source. apply original_line_chunks_NLL. apply lines_nl_last. apply split_lines_shape.
Qed.

Lemma tiles_NLL ls V evs p q : Forall nl_last ls -> tiles ls V evs p q -> NLL evs.
Proof.
  intros Hls. rewrite Forall_forall in Hls.
  induction 1 as [p|p p' evs q H1 H2 _ IH|L C C' line o evs q Hs Hl HC HV _ IH
    |L C C' line evs q Hs Hl HC HV He _ IH|L C line o evs q Hs Hl _ IH|L C line evs q Hs Hl He _ IH
    |L line o evs q Hl _ IH]; try assumption.
  - apply NLL_nil.
  - apply NLL_chunk; [|exact IH]. apply nl_last_substring. apply Hls. apply (line_at_in _ _ _ Hl).
  - apply NLL_chunk; [|exact IH]. apply nl_last_substring. apply Hls. apply (line_at_in _ _ _ Hl).
  - apply NLL_chunk; [|exact IH]. apply Hls. apply (line_at_in _ _ _ Hl).
Qed.

Lemma sm_stream_lines_full_NLL t m : NLL (fst (sm_stream_lines_full t m)).
Proof.
  unfold sm_stream_lines_full. destruct (is_nil (split_lines t)) eqn:Hnil; [apply NLL_nil|].
  set (ls := split_lines t) in *. set (V := fun _ _ : N => False).
  assert (H1 : 1 <= 1) by lia. assert (H2 : 1 <= len ls + 1) by lia.
  pose proof (lines_loop_spec ls V (decode_mappings (sm_mappings m)) 1 H1 H2) as [A1 [A2 A3]].
  destruct (sm_lines_full_loop ls (decode_mappings (sm_mappings m)) 1) as [cur evs]. cbn [fst snd] in *.
  apply NLL_app; [apply NLL_nochunk; apply announce_sources_chunks|].
  assert (Ht : tiles ls V (evs ++ whole_lines ls 1 cur (len ls + 1)) (1, 0) (len ls + 1, 0)).
  { apply (tiles_app ls V _ _ (1, 0) (cur, 0)); [exact A3|]. apply whole_lines_tiles; assumption. }
  apply (tiles_NLL ls V _ _ _ (lines_nl_last _ (split_lines_shape t)) Ht).
Qed.

Lemma sm_stream_full_NLL t m :
  lines_ok t = true -> sorted_by pos_le (decode_mappings (sm_mappings m)) = true ->
  NLL (fst (sm_stream_full t m)).
Proof.
  intros Hok Hs. destruct (is_nil (split_lines t)) eqn:Hnil.
  - unfold sm_stream_full. rewrite Hnil. apply NLL_nil.
  - destruct (lines_end_info (split_lines t)) as [fl fc] eqn:Hinfo.
    destruct (sm_full_tiles t m (fun _ _ => True) fl fc Hnil Hinfo (lines_ok_forall t Hok) Hs)
      as [evs [q [E [Ht Hq]]]].
    { apply Forall_forall. intros; exact I. }
    { exact I. }
    rewrite E. apply NLL_app; [apply NLL_nochunk; apply announce_sources_chunks|].
    apply NLL_app; [apply NLL_nochunk; apply announce_names_chunks|].
    apply (tiles_NLL _ _ _ _ _ (lines_nl_last _ (split_lines_shape t)) Ht).
Qed.

Lemma sm_stream_NLL t m cols :
  lines_ok t = true -> sorted_by pos_le (decode_mappings (sm_mappings m)) = true ->
  NLL (fst (sm_stream t m (mkOpts cols false))).
Proof.
  intros Hok Hs. unfold sm_stream. cbn [columns final_source]. destruct cols.
  - apply sm_stream_full_NLL; assumption.
  - apply sm_stream_lines_full_NLL.
Qed.

(* ------------------------------------------------------------------ *)
(* ConcatSource children keep their chunk texts                         *)
(* ------------------------------------------------------------------ *)
Lemma concat_child_texts st evs gi : c_close st = false ->
  c_close (fst (concat_child false st evs gi)) = false /\
  chunk_texts (snd (concat_child false st evs gi)) = chunk_texts evs.
Proof.
  intros Hc. unfold concat_child.
  assert (Hc0 : c_close (concat_child_start st) = false) by exact Hc.
  pose proof (concat_events_spec evs (concat_child_start st) Hc0) as [[A1 [A2 A3]] A4].
  destruct (concat_events false (concat_child_start st) evs) as [st1 o1]. cbn [fst snd] in *.
  unfold concat_child_end. rewrite A3. cbn [andb orb fst snd c_close app].
  rewrite app_nil_r. split; [reflexivity|].
  rewrite !chunk_texts_map, (shift_texts _ _ _ _ A4). reflexivity.
Qed.

Lemma Reass_texts a b t : chunk_texts a = chunk_texts b -> Reass b t -> Reass a t.
Proof. unfold Reass. intros ->. auto. Qed.

Lemma NLL_texts a b : chunk_texts a = chunk_texts b -> NLL b -> NLL a.
Proof. unfold NLL. intros ->. auto. Qed.

(* ------------------------------------------------------------------ *)
(* the class of trees                                                  *)
(* ------------------------------------------------------------------ *)
(* raw leaves, OriginalSource, SourceMapSource without inner map, ConcatSource, ReplaceSource *)
Fixpoint rshape (s : src) : bool :=
  match s with
  | SMapped _ _ _ _ (Some _) _ => false
  | SCached _ _ => false
  | SConcat cs => forallb rshape cs
  | SReplace inner _ => rshape inner
  | _ => true
  end.

Fixpoint rmaps_sorted (s : src) : bool :=
  match s with
  | SMapped _ _ m _ _ _ => sorted_by pos_le (decode_mappings (sm_mappings m))
  | SConcat cs => forallb rmaps_sorted cs
  | SReplace inner _ => rmaps_sorted inner
  | _ => true
  end.

(* every ReplaceSource node: inner text + inserted contents stay below 2^32 bytes
   (lines and columns are reported as u32) *)
Fixpoint rsmall (s : src) : bool :=
  match s with
  | SConcat cs => forallb rsmall cs
  | SReplace inner rs =>
    rsmall inner && (len (source inner) + len (concat (map r_content rs)) + 1 <? 4294967296)
  | _ => true
  end.

Lemma repl_ok_ordered T rs : forallb (repl_ok T) rs = true ->
  Forall (fun r => r_start r <= r_end r) rs.
Proof.
  intros H. rewrite forallb_forall in H. apply Forall_forall. intros r Hr. specialize (H r Hr).
  unfold repl_ok in H. apply andb_true_iff in H. destruct H as [H _].
  apply andb_true_iff in H. destruct H as [H _]. apply andb_true_iff in H. destruct H as [H _].
  apply N.leb_le. exact H.
Qed.

Lemma stream_replace_eq st inner rs cols :
  stream st (SReplace inner rs) (mkOpts cols false) =
  let '(ievs, gi, st') := stream st inner (mkOpts cols false) in
  (replace_stream (sort_repls rs) ievs gi, st').
Proof. reflexivity. Qed.

(* ------------------------------------------------------------------ *)
(* text only: valid UTF-8 texts, sorted maps (no ASCII hypothesis)       *)
(* ------------------------------------------------------------------ *)
Definition rtext_good (s : src) : Prop :=
  forall st cols, rshape s = true -> tree_wf s = true -> rmaps_sorted s = true ->
    let r := stream st s (mkOpts cols false) in
    Reass (fst (fst r)) (source s) /\ snd r = st.

Lemma leaf_text s : simple_shape s = true -> tree_wf s = true -> maps_sorted s = true ->
  forall st cols, let r := stream st s (mkOpts cols false) in
  Reass (fst (fst r)) (source s) /\ snd r = st.
Proof.
  intros H1 H2 H3 st cols. pose proof (wf_stream_reassembles st s cols H1 H2 H3) as H.
  cbn zeta. destruct (stream st s (mkOpts cols false)) as [[evs gi] st']. destruct H as [A [_ B]].
  cbn [fst snd]. split; [apply reassembles_iff; exact A|exact B].
Qed.

Lemma cfold_text cols cs : Forall rtext_good cs ->
  forallb rshape cs = true -> forallb tree_wf cs = true -> forallb rmaps_sorted cs = true ->
  forall cst evs st T, c_close cst = false -> Reass evs T ->
  let r := fold_left (cfold_step (mkOpts cols false)) cs (cst, evs, st) in
  c_close (fst (fst r)) = false /\ Reass (snd (fst r)) (T ++ concat (map source cs)) /\ snd r = st.
Proof.
  induction 1 as [|c cs Hc _ IH]; intros Hs Hw Hm cst evs st T HC HR.
  - cbn [fold_left map concat fst snd]. rewrite app_nil_r. auto.
  - cbn [forallb] in Hs, Hw, Hm.
    apply andb_true_iff in Hs. destruct Hs as [Hs1 Hs2].
    apply andb_true_iff in Hw. destruct Hw as [Hw1 Hw2].
    apply andb_true_iff in Hm. destruct Hm as [Hm1 Hm2].
    cbn [fold_left]. rewrite cfold_step_eq.
    pose proof (Hc st cols Hs1 Hw1 Hm1) as [A1 A2]. cbn zeta in A1, A2.
    destruct (stream st c (mkOpts cols false)) as [[cevs gi] st1]. cbn [fst snd] in *. subst st1.
    cbn [final_source].
    pose proof (concat_child_texts cst cevs gi HC) as [B1 B2].
    destruct (concat_child false cst cevs gi) as [cst' out]. cbn [fst snd] in *.
    assert (HR' : Reass (evs ++ out) (T ++ source c)).
    { apply Reass_app; [exact HR|]. apply (Reass_texts _ _ _ B2). exact A1. }
    pose proof (IH Hs2 Hw2 Hm2 cst' (evs ++ out) st (T ++ source c) B1 HR') as C. cbn zeta in C.
    cbn [map concat]. rewrite app_assoc. exact C.
Qed.

Lemma rtext_good_all : forall s, rtext_good s.
Proof.
  apply src_ind'.
  - intros b v st cols H1 H2 H3. apply (leaf_text (SRaw b v)); assumption.
  - intros v st cols H1 H2 H3. apply (leaf_text (SRawString v)); assumption.
  - intros v st cols H1 H2 H3. apply (leaf_text (SRawBuffer v)); assumption.
  - intros v n st cols H1 H2 H3. apply (leaf_text (SOriginal v n)); assumption.
  - intros v n m o i r st cols H1 H2 H3. apply (leaf_text (SMapped v n m o i r)); assumption.
  - (* SConcat *) intros cs IH st cols Hs Hw Hm. cbn [rshape tree_wf rmaps_sorted] in Hs, Hw, Hm.
    cbn zeta. rewrite stream_concat_eq. cbn [source].
    pose proof (cfold_text cols cs IH Hs Hw Hm concat_init [] st [] eq_refl Reass_nil) as [A1 [A2 A3]].
    cbn zeta in *. cbn [app] in *.
    destruct cs as [|c [|c2 r]].
    + cbn [fold_left fst snd map concat]. split; [apply Reass_nil|reflexivity].
    + inversion IH as [|? ? Hc _]. subst. cbn [forallb] in Hs, Hw, Hm. rewrite andb_true_r in Hs, Hw, Hm.
      pose proof (Hc st cols Hs Hw Hm) as [B1 B2]. cbn zeta in *.
      cbn [map concat]. rewrite app_nil_r. split; assumption.
    + destruct (fold_left (cfold_step (mkOpts cols false)) (c :: c2 :: r) (concat_init, [], st))
        as [[cst evs] st']. cbn [fst snd] in *. split; assumption.
  - (* SReplace *) intros i rs IH st cols Hs Hw Hm. cbn [rshape tree_wf rmaps_sorted] in Hs, Hw, Hm.
    apply andb_true_iff in Hw. destruct Hw as [Hw1 Hw2].
    cbn zeta. rewrite stream_replace_eq. cbn [source].
    pose proof (IH st cols Hs Hw1 Hm) as [A1 A2]. cbn zeta in A1, A2.
    destruct (stream st i (mkOpts cols false)) as [[ievs gi] st1]. cbn [fst snd] in *.
    split; [|exact A2].
    rewrite replace_source_text_splice. apply replace_stream_Reass; [|exact A1].
    apply sort_repls_ordered. apply (repl_ok_ordered _ _ Hw2).
  - (* SCached *) intros id i _ st cols Hs. discriminate.
Qed.

(* P3, text part: C01's text-mode clauses on this class *)
Theorem rshape_stream_reassembles (st : store) (s : src) (cols : bool) :
  rshape s = true -> tree_wf s = true -> rmaps_sorted s = true ->
  let '(evs, gi, st') := stream st s (mkOpts cols false) in
  reassembles evs (source s) = true /\ st' = st.
Proof.
  intros H1 H2 H3. pose proof (rtext_good_all s st cols H1 H2 H3) as [A1 A2]. cbn zeta in *.
  destruct (stream st s (mkOpts cols false)) as [[evs gi] st']. cbn [fst snd] in *.
  split; [apply reassembles_iff; exact A1|exact A2].
Qed.

(* ------------------------------------------------------------------ *)
(* text and positions: ASCII trees with consistent maps (treeA)          *)
(* ------------------------------------------------------------------ *)
Definition rgood (s : src) : Prop :=
  forall st cols, rshape s = true -> treeA s = true -> rsmall s = true ->
    let r := stream st s (mkOpts cols false) in
    Good (fst (fst r)) (1, 0) (source s) /\ NLL (fst (fst r)) /\
    snd (fst r) = advance 1 0 (source s) /\ snd r = st.

Lemma leaf_good s : simple_shape s = true -> treeA s = true ->
  forall st cols, NLL (fst (fst (stream st s (mkOpts cols false)))) ->
  let r := stream st s (mkOpts cols false) in
  Good (fst (fst r)) (1, 0) (source s) /\ NLL (fst (fst r)) /\
  snd (fst r) = advance 1 0 (source s) /\ snd r = st.
Proof.
  intros H1 H2 st cols HN. pose proof (treeA_stream_good st s cols H1 H2) as H.
  cbn zeta. destruct (stream st s (mkOpts cols false)) as [[evs gi] st']. destruct H as [A [B [C D]]].
  cbn [fst snd] in *. split; [split; [apply reassembles_iff; exact A|exact B]|]. auto.
Qed.

Lemma cfold_good cols cs : Forall rgood cs ->
  forallb rshape cs = true -> forallb tree_wf cs = true -> forallb tree_ascii cs = true ->
  forallb rsmall cs = true ->
  forall cst evs st T, cinv (cst, evs) T -> WP evs (1, 0) -> NLL evs ->
  let r := fold_left (cfold_step (mkOpts cols false)) cs (cst, evs, st) in
  cinv (fst r) (T ++ concat (map source cs)) /\ snd r = st /\
  WP (snd (fst r)) (1, 0) /\ NLL (snd (fst r)).
Proof.
  induction 1 as [|c cs Hc _ IH]; intros Hs Hw Ha Hm cst evs st T HI HW HN.
  - cbn [fold_left map concat fst snd]. rewrite app_nil_r. auto.
  - cbn [forallb] in Hs, Hw, Ha, Hm.
    apply andb_true_iff in Hs. destruct Hs as [Hs1 Hs2].
    apply andb_true_iff in Hw. destruct Hw as [Hw1 Hw2].
    apply andb_true_iff in Ha. destruct Ha as [Ha1 Ha2].
    apply andb_true_iff in Hm. destruct Hm as [Hm1 Hm2].
    assert (HA : treeA c = true) by (unfold treeA; rewrite Hw1, Ha1; reflexivity).
    cbn [fold_left]. rewrite cfold_step_eq.
    pose proof (Hc st cols Hs1 HA Hm1) as [[A1 A1w] [A2 [A3 A4]]]. cbn zeta in A1, A1w, A2, A3, A4.
    destruct (stream st c (mkOpts cols false)) as [[cevs gi] st1]. cbn [fst snd] in *. subst st1.
    cbn [final_source].
    pose proof (cinv_step (cst, evs) T cevs gi (source c) HI A1 A3) as [B1 B2]. cbn zeta in B1, B2.
    cbn [fst snd] in B1, B2.
    destruct HI as [HC _]. cbn [fst] in HC.
    pose proof (concat_child_texts cst cevs gi HC) as [_ B3].
    destruct (concat_child false cst cevs gi) as [cst' out]. cbn [fst snd] in *.
    assert (HN' : NLL (evs ++ out)).
    { apply NLL_app; [exact HN|]. apply (NLL_texts _ _ B3). exact A2. }
    pose proof (IH Hs2 Hw2 Ha2 Hm2 cst' (evs ++ out) st (T ++ source c) B1 (B2 HW A1w) HN') as C.
    cbn zeta in C. cbn [map concat]. rewrite app_assoc. exact C.
Qed.

Lemma rgood_all : forall s, rgood s.
Proof.
  apply src_ind'.
  - intros b v st cols H1 H2 H3. apply (leaf_good (SRaw b v)); [assumption|assumption|].
    cbn [stream fst final_source]. apply raw_stream_NLL.
  - intros v st cols H1 H2 H3. apply (leaf_good (SRawString v)); [assumption|assumption|].
    cbn [stream fst final_source]. apply raw_stream_NLL.
  - intros v st cols H1 H2 H3. apply (leaf_good (SRawBuffer v)); [assumption|assumption|].
    cbn [stream fst final_source]. apply raw_stream_NLL.
  - intros v n st cols H1 H2 H3. apply (leaf_good (SOriginal v n)); [assumption|assumption|].
    cbn [stream fst]. apply original_stream_NLL.
  - intros v n m o i r st cols H1 H2 H3. apply (leaf_good (SMapped v n m o i r)); [assumption|assumption|].
    destruct (treeA_simple (SMapped v n m o i r) H1 H2) as [Hs _]. cbn [rshape simple] in *.
    destruct i as [im|]; [discriminate|]. apply andb_true_iff in Hs. destruct Hs as [Hok Hso].
    cbn [stream fst]. apply sm_stream_NLL; assumption.
  - (* SConcat *) intros cs IH st cols Hs HA Hm. cbn [rshape rsmall] in Hs, Hm.
    unfold treeA in HA. cbn [tree_wf tree_ascii] in HA. apply andb_true_iff in HA. destruct HA as [Hw Ha].
    cbn zeta. rewrite stream_concat_eq. cbn [source].
    pose proof (cfold_good cols cs IH Hs Hw Ha Hm concat_init [] st [] cinv_init (WP_nil _) NLL_nil)
      as [[A1 [A2 A3]] [A4 [A5 A6]]].
    cbn zeta in *. cbn [app] in *.
    destruct cs as [|c [|c2 r]].
    + cbn [fold_left fst snd map concat]. split; [apply Good_nil|]. split; [apply NLL_nil|]. split; reflexivity.
    + inversion IH as [|? ? Hc _]. subst. cbn [forallb] in Hs, Hw, Ha, Hm. rewrite andb_true_r in Hs, Hw, Ha, Hm.
      assert (HA : treeA c = true) by (unfold treeA; rewrite Hw, Ha; reflexivity).
      pose proof (Hc st cols Hs HA Hm) as B. cbn zeta in *.
      cbn [map concat]. rewrite app_nil_r. exact B.
    + destruct (fold_left (cfold_step (mkOpts cols false)) (c :: c2 :: r) (concat_init, [], st))
        as [[cst evs] st']. cbn [fst snd] in *.
      split; [split; assumption|]. split; [exact A6|]. split; [exact A3|exact A4].
  - (* SReplace *) intros i rs IH st cols Hs HA Hm. cbn [rshape rsmall] in Hs, Hm.
    unfold treeA in HA. cbn [tree_wf tree_ascii] in HA. apply andb_true_iff in HA. destruct HA as [Hw Ha].
    apply andb_true_iff in Hw. destruct Hw as [Hw1 Hw2].
    apply andb_true_iff in Ha. destruct Ha as [Ha1 Ha2].
    apply andb_true_iff in Hm. destruct Hm as [Hm1 Hm2]. apply N.ltb_lt in Hm2.
    assert (HAi : treeA i = true) by (unfold treeA; rewrite Hw1, Ha1; reflexivity).
    cbn zeta. rewrite stream_replace_eq. cbn [source].
    pose proof (IH st cols Hs HAi Hm1) as [[A1 A1w] [A2 [A3 A4]]]. cbn zeta in A1, A1w, A2, A3, A4.
    destruct (stream st i (mkOpts cols false)) as [[ievs gi] st1]. cbn [fst snd] in *. subst gi.
    rewrite replace_source_text_splice.
    assert (Hord : Forall ordered (sort_repls rs)).
    { apply sort_repls_ordered. apply (repl_ok_ordered _ _ Hw2). }
    assert (Hb : len (source i) + clen (sort_repls rs) + 1 < two32).
    { rewrite clen_sort. exact Hm2. }
    pose proof (replace_stream_Good (sort_repls rs) ievs (source i) Hord A1 A1w A2 Hb) as [B1 [B2 B3]].
    cbn zeta in *. split; [exact B1|]. split; [exact B2|]. split; [exact B3|exact A4].
  - (* SCached *) intros id i _ st cols Hs. discriminate.
Qed.

(* P3 *)
Theorem rshape_stream_good (st : store) (s : src) (cols : bool) :
  rshape s = true -> treeA s = true -> rsmall s = true ->
  let '(evs, gi, st') := stream st s (mkOpts cols false) in
  reassembles evs (source s) = true /\ well_positioned (chunks_of evs) 1 0 = true /\
  gi = advance 1 0 (source s) /\ st' = st.
Proof.
  intros H1 H2 H3. pose proof (rgood_all s st cols H1 H2 H3) as [[A1 A2] [A3 [A4 A5]]]. cbn zeta in *.
  destruct (stream st s (mkOpts cols false)) as [[evs gi] st']. cbn [fst snd] in *.
  split; [apply reassembles_iff; exact A1|]. split; [exact A2|]. split; assumption.
Qed.

(* every chunk streamed by a tree of this class carries a line feed at most as last byte *)
Theorem rshape_stream_nl_last (st : store) (s : src) (cols : bool) :
  rshape s = true -> treeA s = true -> rsmall s = true ->
  chunks_nl_last (fst (fst (stream st s (mkOpts cols false)))) = true.
Proof.
  intros H1 H2 H3. pose proof (rgood_all s st cols H1 H2 H3) as [_ [A3 _]]. cbn zeta in *.
  apply chunks_nl_last_iff. exact A3.
Qed.

Print Assumptions rshape_stream_reassembles.
Print Assumptions rshape_stream_good.
Print Assumptions rshape_stream_nl_last.
