(* Free-running observers (Sem/ConcFree.v): on a tree without CachedSource nodes every call of every
   thread, under every interleaving, answers what a single thread gets from a fresh object; with
   CachedSource nodes the same holds for the text views and the hash, and - outside the K2 shape -
   up to attribution for maps and streams (that is WarmTreeHist.warm_history_transparent applied
   to the calls of the interleaving). *)
From RS Require Import Base.Prelude Stream.Types Stream.Tree Api.ApiHist Sem.ConcFree Sem.HashEq
  Checkers.ChkHist Proofs.CacheReplay.
Require Import List Lia.

Lemma run_hop_pure (s : src) : pure s -> forall st o, run_hop st s o = (fst (run_hop [] s o), st).
Proof.
  intros [P1 P2] st o. destruct o; cbn [run_hop]; try reflexivity.
  - rewrite (P2 st). rewrite (P2 []). reflexivity.
  - rewrite (P1 st). rewrite (P1 []). destruct (fst (stream [] s (mkOpts cols final))) as [e g]. reflexivity.
Qed.

Lemma run_tagged_pure (s : src) : pure s -> forall l st,
  run_tagged st s l = (map (fun x => (fst x, fst (run_hop [] s (snd x)))) l, st).
Proof.
  intros P. induction l as [|[t o] l IH]; intros st; [reflexivity|].
  cbn [run_tagged map fst snd]. rewrite (run_hop_pure s P st o), (IH st). reflexivity.
Qed.

Lemma thread_view_map {A B} (f : A -> B) (tid : nat) (l : list (nat * A)) :
  thread_view tid (map (fun x => (fst x, f (snd x))) l) = map f (thread_view tid l).
Proof.
  unfold thread_view. induction l as [|[t a] l IH]; [reflexivity|].
  cbn [map filter fst snd]. destruct (Nat.eqb t tid); cbn [map snd]; rewrite IH; reflexivity.
Qed.

(* every thread, under every interleaving, gets the answers of fresh objects *)
Theorem free_running (s : src) : has_cached s = false ->
  forall (l : list (nat * hop)) (tid : nat),
    thread_view tid (fst (run_tagged [] s l)) = fresh_answers s (thread_view tid l).
Proof.
  intros H l tid. rewrite (run_tagged_pure s (nocache_pure s H) l []). cbn [fst].
  rewrite (thread_view_map (fun o => fst (run_hop [] s o))). reflexivity.
Qed.

(* in terms of the programs: whatever the interleaving, thread `tid` sees the sequential answers
   of its own program *)
Theorem free_running_programs (s : src) (progs : list (list hop)) : has_cached s = false ->
  forall l, interleaving_of progs l ->
  forall tid, thread_view tid (fst (run_tagged [] s l)) = fresh_answers s (nth tid progs []).
Proof. intros H l Hl tid. rewrite (free_running s H l tid), (Hl tid). reflexivity. Qed.

(* the thread-major order IS an interleaving of the programs (so the statement is not vacuous) *)
Lemma thread_view_other {A} (tid t : nat) (p : list A) : t <> tid ->
  thread_view tid (map (fun o => (t, o)) p) = [].
Proof.
  intros Hn. unfold thread_view. induction p as [|a p IH]; [reflexivity|].
  cbn [map filter fst]. destruct (Nat.eqb_spec t tid); [contradiction|exact IH].
Qed.
Lemma thread_view_same {A} (tid : nat) (p : list A) : thread_view tid (map (fun o => (tid, o)) p) = p.
Proof.
  unfold thread_view. induction p as [|a p IH]; [reflexivity|].
  cbn [map filter fst]. rewrite Nat.eqb_refl. cbn [map snd]. rewrite IH. reflexivity.
Qed.
Lemma thread_view_app {A} (tid : nat) (a b : list (nat * A)) :
  thread_view tid (a ++ b) = thread_view tid a ++ thread_view tid b.
Proof. unfold thread_view. rewrite filter_app, map_app. reflexivity. Qed.

Lemma thread_major_view (progs : list (list hop)) : forall base tid,
  thread_view tid (thread_major base progs) = if Nat.ltb tid base then [] else nth (tid - base) progs [].
Proof.
  induction progs as [|p ps IH]; intros base tid.
  - cbn [thread_major]. destruct (Nat.ltb tid base); [reflexivity|]. destruct (tid - base)%nat; reflexivity.
  - cbn [thread_major]. rewrite thread_view_app, IH.
    destruct (Nat.ltb_spec tid base) as [Hlt|Hge].
    + rewrite thread_view_other by lia. destruct (Nat.ltb_spec tid (S base)); [reflexivity|lia].
    + destruct (Nat.eq_dec tid base) as [->|Hne].
      * rewrite thread_view_same. destruct (Nat.ltb_spec base (S base)); [|lia].
        rewrite Nat.sub_diag, app_nil_r. reflexivity.
      * rewrite thread_view_other by lia. destruct (Nat.ltb_spec tid (S base)); [lia|].
        replace (tid - base)%nat with (S (tid - S base)) by lia. reflexivity.
Qed.

Theorem thread_major_interleaving (progs : list (list hop)) : interleaving_of progs (thread_major 0 progs).
Proof. intros tid. rewrite thread_major_view. cbn [Nat.ltb Nat.leb]. rewrite Nat.sub_0_r. reflexivity. Qed.

(* text views and the hash never depend on the store: with caches too *)
Definition storeless (o : hop) : bool := match o with OMap _ | OStream _ _ => false | _ => true end.
Theorem free_running_text_views (s : src) (st : store) (o : hop) :
  storeless o = true -> fst (run_hop st s o) = fst (run_hop [] s o).
Proof. destruct o; cbn [storeless]; intros H; try discriminate; reflexivity. Qed.

(* an interleaving run on the shared store is a history of calls on that store *)
Lemma run_tagged_hops (s : src) : forall l st,
  map snd (fst (run_tagged st s l)) = fst (run_hops st s (map snd l)) /\
  snd (run_tagged st s l) = snd (run_hops st s (map snd l)).
Proof.
  induction l as [|[t o] l IH]; intros st; [split; reflexivity|].
  cbn [run_tagged run_hops map snd]. destruct (run_hop st s o) as [a st1].
  destruct (IH st1) as [I1 I2].
  destruct (run_tagged st1 s l) as [r st2]. destruct (run_hops st1 s (map snd l)) as [as_ st3].
  cbn [fst snd map] in *. subst. split; reflexivity.
Qed.

Print Assumptions free_running.
Print Assumptions run_tagged_hops.
Print Assumptions free_running_programs.
Print Assumptions thread_major_interleaving.
Print Assumptions free_running_text_views.
