(* C17 (decoder part): the mappings decoder never trips an overflow check of a
   debug Rust build on any input shorter than 2^32-1 bytes, and the checked
   decoder (Sem/Panic.v) agrees with the unchecked model (Codec/Vlq.v).
   Also: the decoder is total and emits at most one segment per byte plus one. *)
From Coq Require Import Lia ZArith NArith List Bool.
From RS Require Import Base.Prelude Codec.Vlq Sem.Panic.

Local Open Scope N_scope.

(* ---------- bit-level bounds ---------- *)

Lemma lor_lt_pow2 (a b n : N) : a < 2 ^ n -> b < 2 ^ n -> N.lor a b < 2 ^ n.
Proof.
  intros Ha Hb.
  destruct (N.eq_dec a 0) as [->|Ha0]; [rewrite N.lor_0_l; exact Hb|].
  destruct (N.eq_dec b 0) as [->|Hb0]; [rewrite N.lor_0_r; exact Ha|].
  assert (E : N.lor a b <> 0).
  { intros E. apply N.lor_eq_0_iff in E. tauto. }
  apply N.log2_lt_pow2; [lia|].
  rewrite N.log2_lor. apply N.max_lub_lt.
  - apply N.log2_lt_pow2; [lia|exact Ha].
  - apply N.log2_lt_pow2; [lia|exact Hb].
Qed.

Lemma two64_pow2 : two64 = 2 ^ 64.
Proof. reflexivity. Qed.

Lemma acc_or_lt (bits x pos : N) : bits < two64 -> acc_or bits x pos < two64.
Proof.
  intros Hb. unfold acc_or. destruct (pos <? 64); [|exact Hb].
  assert (Hm : (N.shiftl x pos) mod two64 < two64) by (apply N.mod_lt; discriminate).
  rewrite two64_pow2 in *. apply lor_lt_pow2; assumption.
Qed.

Lemma signed64_range (bits : N) :
  bits < two64 -> (-9223372036854775808 <= signed64 bits < 9223372036854775808)%Z.
Proof.
  intros Hb. unfold signed64. unfold two64 in *. unfold two63.
  destruct (N.ltb_spec bits 9223372036854775808); lia.
Qed.

Lemma half_range (bits : N) :
  bits < two64 ->
  (-4611686018427387904 <= Z.shiftr (signed64 bits) 1 < 4611686018427387904)%Z.
Proof.
  intros Hb. pose proof (signed64_range bits Hb) as Hs.
  rewrite Z.shiftr_div_pow2 by lia. change (2 ^ 1)%Z with 2%Z.
  set (sv := signed64 bits) in *.
  pose proof (Z.div_mod sv 2 ltac:(lia)) as Hd.
  pose proof (Z.mod_pos_bound sv 2 ltac:(lia)) as Hr.
  lia.
Qed.

Lemma final_value_range (bits : N) :
  bits < two64 ->
  (-4611686018427387904 <= final_value bits <= 4611686018427387904)%Z.
Proof.
  intros Hb. pose proof (half_range bits Hb) as Hh.
  unfold final_value. cbv zeta. destruct (N.testbit bits 0); lia.
Qed.

Lemma fits_i64_intro (z : Z) :
  (-9223372036854775808 <= z <= 9223372036854775807)%Z -> fits_i64 z = true.
Proof.
  intros [H1 H2]. unfold fits_i64, i64_min, i64_max.
  apply andb_true_iff. split; apply Z.leb_le; assumption.
Qed.

Lemma wrap32z_lt (z : Z) : wrap32z z < two32.
Proof.
  unfold wrap32z, two32.
  pose proof (Z.mod_pos_bound z 4294967296 ltac:(lia)) as H. lia.
Qed.

(* ---------- the run invariant ---------- *)

Definition flds (d : dec) : Prop :=
  d0 d < two32 /\ d1 d < two32 /\ d2 d < two32 /\ d3 d < two32 /\ d4 d < two32.

(* n = number of bytes consumed so far *)
Definition inv (n : N) (d : dec) : Prop :=
  flds d /\ d_pos d <= n /\ d_vpos d <= 5 * n /\ d_val d < two64 /\ d_gline d <= 1 + n.

Lemma dec_get_lt (d : dec) (i : N) : flds d -> dec_get d i < two32.
Proof.
  intros (H0 & H1 & H2 & H3 & H4). unfold dec_get.
  destruct (i =? 0); [assumption|]. destruct (i =? 1); [assumption|].
  destruct (i =? 2); [assumption|]. destruct (i =? 3); assumption.
Qed.

Lemma dec_set_flds (d : dec) (i v : N) : flds d -> v < two32 -> flds (dec_set d i v).
Proof.
  intros (H0 & H1 & H2 & H3 & H4) Hv. unfold dec_set, flds.
  destruct (i =? 0); [cbn [d0 d1 d2 d3 d4]; tauto|].
  destruct (i =? 1); [cbn [d0 d1 d2 d3 d4]; tauto|].
  destruct (i =? 2); [cbn [d0 d1 d2 d3 d4]; tauto|].
  destruct (i =? 3); cbn [d0 d1 d2 d3 d4]; tauto.
Qed.

Lemma inv_init : inv 0 dec_init.
Proof.
  unfold inv, flds, dec_init. cbn [d0 d1 d2 d3 d4 d_pos d_val d_vpos d_gline].
  unfold two32, two64. repeat split; lia.
Qed.

(* one byte: no check fails, and the invariant advances *)
Lemma step_ok (n : N) (d : dec) (c : N) :
  inv n d -> n + 1 < u32_max ->
  dec_byte_chk d c = Some (dec_byte d c) /\ inv (n + 1) (fst (dec_byte d c)).
Proof.
  intros (Hf & Hp & Hvp & Hv & Hg) Hn.
  unfold dec_byte_chk, dec_byte. cbv zeta.
  generalize (b64_val c) as v. intros v.
  destruct (v =? ERR).
  { split; [reflexivity|]. cbn [fst]. unfold inv. split; [exact Hf|]. repeat split; try assumption; lia. }
  destruct (negb (N.land v COM =? 0)).
  { (* separator *)
    assert (Hgl : (d_gline d <? u32_max) = true) by (apply N.ltb_lt; lia).
    rewrite Hgl. cbn [negb]. rewrite andb_false_r.
    split; [reflexivity|]. cbn [fst].
    destruct Hf as (H0 & H1 & H2 & H3 & H4).
    destruct (v =? SEM); unfold inv, flds;
      cbn [d0 d1 d2 d3 d4 d_pos d_val d_vpos d_gline];
      repeat split; try assumption; unfold two32; lia. }
  destruct (N.land v 32 =? 0).
  { (* last digit of a value *)
    set (bits := acc_or (d_val d) v (d_vpos d)).
    assert (Hb : bits < two64) by (apply acc_or_lt; exact Hv).
    pose proof (half_range bits Hb) as Hh.
    pose proof (final_value_range bits Hb) as Hfv.
    rewrite (fits_i64_intro (- Z.shiftr (signed64 bits) 1)) by lia.
    cbn [negb].
    assert (Hget : fits_i64 (Z.of_N (dec_get d (d_pos d)) + final_value bits) = true).
    { apply fits_i64_intro.
      pose proof (dec_get_lt d (d_pos d) Hf) as Hgt. unfold two32 in Hgt. lia. }
    rewrite Hget. cbn [negb]. rewrite andb_false_r.
    assert (Hpu : (d_pos d <? usize_max) = true)
      by (apply N.ltb_lt; unfold usize_max, u32_max in *; lia).
    rewrite Hpu. cbn [negb].
    split; [reflexivity|]. cbn [fst].
    set (d' := if d_pos d <? 5
               then dec_set d (d_pos d)
                      (wrap32z (Z.of_N (dec_get d (d_pos d)) + final_value bits))
               else d).
    assert (Hf' : flds d').
    { unfold d'. destruct (d_pos d <? 5); [|exact Hf].
      apply dec_set_flds; [exact Hf|apply wrap32z_lt]. }
    destruct Hf' as (H0 & H1 & H2 & H3 & H4).
    unfold inv, flds. cbn [d0 d1 d2 d3 d4 d_pos d_val d_vpos d_gline].
    repeat split; try assumption; unfold two64; lia. }
  (* continuation digit *)
  assert (Hvu : (d_vpos d + 5 <=? usize_max) = true)
    by (apply N.leb_le; unfold usize_max, u32_max in *; lia).
  rewrite Hvu. cbn [negb].
  split; [reflexivity|]. cbn [fst].
  destruct Hf as (H0 & H1 & H2 & H3 & H4).
  unfold inv, flds. cbn [d0 d1 d2 d3 d4 d_pos d_val d_vpos d_gline].
  repeat split; try assumption; try lia.
  apply acc_or_lt; exact Hv.
Qed.

Lemma run_ok : forall (s : text) (d : dec) (n : N),
  inv n d -> n + N.of_nat (length s) < u32_max ->
  dec_run_chk d s = Some (dec_run d s).
Proof.
  induction s as [|c s IH]; intros d n I Hn.
  - reflexivity.
  - cbn [dec_run_chk dec_run].
    cbn [length] in Hn.
    destruct (step_ok n d c I ltac:(lia)) as [E I'].
    rewrite E. destruct (dec_byte d c) as [d' out]. cbn [fst] in I'.
    rewrite (IH d' (n + 1) I') by lia.
    destruct out; reflexivity.
Qed.

(* D1 *)
Theorem decode_never_panics : forall s : text,
  N.of_nat (length s) < 4294967295 ->
  decode_mappings_chk s = Some (decode_mappings s).
Proof.
  intros s H. unfold decode_mappings_chk, decode_mappings.
  apply (run_ok s dec_init 0 inv_init). unfold u32_max. lia.
Qed.

(* ---------- totality / output size ---------- *)

Lemma dec_run_length : forall (s : text) (d : dec),
  (length (dec_run d s) <= S (length s))%nat.
Proof.
  induction s as [|c s IH]; intros d.
  - cbn [dec_run length]. destruct (emit d (d_pos d)); cbn [length]; lia.
  - cbn [dec_run]. destruct (dec_byte d c) as [d' out].
    pose proof (IH d') as H.
    destruct out; cbn [length]; lia.
Qed.

(* D2 *)
Theorem decode_total : forall s : text,
  exists l, decode_mappings s = l /\ (length l <= S (length s))%nat.
Proof.
  intros s. exists (decode_mappings s). split; [reflexivity|].
  unfold decode_mappings. apply dec_run_length.
Qed.

Print Assumptions decode_never_panics.
Print Assumptions decode_total.
