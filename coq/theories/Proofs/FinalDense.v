(* C03 for composite trees, part 0: the announcements of every stream of a tree built from
   raw leaves, OriginalSource, SourceMapSource without inner map, ConcatSource and
   ReplaceSource are `dense` (every announcement takes the next free index, every chunk
   uses indices announced before it), in both streaming modes (text-carrying and text-less).
   This is `stream_wf_tree` (WfStream.v) with `<=` strengthened to `=`. *)
From RS Require Import Base.Prelude Base.Text Rope.RopeModel Codec.Vlq Codec.CodecSpec
  Stream.Types Stream.Leaves Stream.Concat Stream.Replace Stream.Combined Stream.Tree
  Sem.Attr Checkers.ChkTree
  Proofs.StreamText Proofs.StreamLeaves Proofs.StreamConcat Proofs.StreamTree
  Proofs.RStreamText Proofs.WfStream Proofs.AttrCodec Proofs.AttrSms Proofs.AttrLeaves
  Proofs.LawConcatAttr Proofs.LawWrappers Proofs.RStreamTree.
Require Import Lia List ZArith.

Local Open Scope N_scope.

(* ------------------------------------------------------------------ *)
(* dense from (ns, nn), ending with the counters (ns', nn')             *)
(* ------------------------------------------------------------------ *)
Lemma dcnt_app a : forall b ns nn,
  dcnt (a ++ b) ns nn = dcnt b (fst (dcnt a ns nn)) (snd (dcnt a ns nn)).
Proof.
  induction a as [|e a IH]; intros b ns nn; [reflexivity|].
  destruct e as [t m|i n c|i n]; cbn [app dcnt]; apply IH.
Qed.

Definition dn_to (evs : list event) (ns nn ns' nn' : N) : Prop :=
  dense evs ns nn = true /\ dcnt evs ns nn = (ns', nn').

Lemma dn_to_nil ns nn : dn_to [] ns nn ns nn.
Proof. split; reflexivity. Qed.

Lemma dn_to_app a b ns nn ns1 nn1 ns2 nn2 :
  dn_to a ns nn ns1 nn1 -> dn_to b ns1 nn1 ns2 nn2 -> dn_to (a ++ b) ns nn ns2 nn2.
Proof.
  intros [A1 A2] [B1 B2]. split.
  - rewrite dense_app_n, A1, A2. exact B1.
  - rewrite dcnt_app, A2. exact B2.
Qed.

Lemma dn_to_dense evs ns nn ns' nn' : dn_to evs ns nn ns' nn' -> dense evs ns nn = true.
Proof. intros [H _]. exact H. Qed.

Lemma chunks_dn ns nn evs : Forall (chunk_ok ns nn) evs -> dn_to evs ns nn ns nn.
Proof. intros H. apply chunks_dense. exact H. Qed.

Lemma dense_cons e evs ns nn :
  dense (e :: evs) ns nn = dense [e] ns nn && dense evs (fst (dcnt [e] ns nn)) (snd (dcnt [e] ns nn)).
Proof. apply (dense_app_n [e] evs). Qed.

Lemma dcnt_cons e evs ns nn : dcnt (e :: evs) ns nn = dcnt evs (fst (dcnt [e] ns nn)) (snd (dcnt [e] ns nn)).
Proof. apply (dcnt_app [e] evs). Qed.

(* ------------------------------------------------------------------ *)
(* ConcatSource, both modes                                            *)
(* ------------------------------------------------------------------ *)
Lemma concat_event_dn final st e ns nn :
  dense [e] ns nn = true ->
  tbl_ok (c_src_idx st) ns (len (c_sources st)) -> tbl_ok (c_name_idx st) nn (len (c_names st)) ->
  dn_to (snd (concat_event final st e)) (len (c_sources st)) (len (c_names st))
        (len (c_sources (fst (concat_event final st e)))) (len (c_names (fst (concat_event final st e)))) /\
  tbl_ok (c_src_idx (fst (concat_event final st e))) (fst (dcnt [e] ns nn))
         (len (c_sources (fst (concat_event final st e)))) /\
  tbl_ok (c_name_idx (fst (concat_event final st e))) (snd (dcnt [e] ns nn))
         (len (c_names (fst (concat_event final st e)))).
Proof.
  intros Hwf Hs Hn. destruct e as [chunk m|i name content|i name]; cbn [concat_event].
  - (* chunk *)
    cbn [fst snd c_sources c_names c_src_idx c_name_idx dcnt].
    split; [|split; assumption]. apply chunks_dn. apply Forall_app. split.
    { destruct (c_close st && negb ((g_line m =? 1) && (g_col m =? 0))); [|constructor].
      constructor; [exact I|constructor]. }
    constructor; [|constructor].
    cbn [dense] in Hwf. rewrite andb_true_r in Hwf.
    destruct (m_orig m) as [o|]; [|exact I].
    apply andb_true_iff in Hwf. destruct Hwf as [Ho Hna]. apply N.ltb_lt in Ho.
    destruct (Hs (o_src o) Ho) as [si [A B]]. rewrite A. cbn [chunk_ok m_orig orig_ok o_src o_name].
    split; [exact B|]. destruct (o_name o) as [n|]; [|exact I]. apply N.ltb_lt in Hna.
    destruct (Hn n Hna) as [ni [C D]]. rewrite C. exact D.
  - (* source *)
    cbn [dense] in Hwf. rewrite andb_true_r in Hwf. apply N.eqb_eq in Hwf. subst i. cbn [dcnt fst snd].
    assert (Hins : forall g G', g < G' -> len (c_sources st) <= G' ->
                   tbl_ok (lm_insert 0 (c_src_idx st) ns g) (ns + 1) G').
    { intros g G' Hg HG. pose proof (tbl_ok_insert _ ns (len (c_sources st)) ns g G' Hs (N.le_refl _) Hg HG) as T.
      rewrite N.eqb_refl in T. exact T. }
    destruct (find_text (c_sources st) name 0) as [g|] eqn:E;
      cbn [fst snd c_sources c_names c_src_idx c_name_idx].
    + apply find_text_bound in E. split; [apply dn_to_nil|]. split; [|exact Hn].
      apply Hins; lia.
    + rewrite slen_app. change (len [name]) with 1. split.
      * split; cbn [dense dcnt]; rewrite ?N.eqb_refl; reflexivity.
      * split; [|exact Hn]. apply Hins; lia.
  - (* name *)
    cbn [dense] in Hwf. rewrite andb_true_r in Hwf. apply N.eqb_eq in Hwf. subst i. cbn [dcnt fst snd].
    assert (Hins : forall g G', g < G' -> len (c_names st) <= G' ->
                   tbl_ok (lm_insert 0 (c_name_idx st) nn g) (nn + 1) G').
    { intros g G' Hg HG. pose proof (tbl_ok_insert _ nn (len (c_names st)) nn g G' Hn (N.le_refl _) Hg HG) as T.
      rewrite N.eqb_refl in T. exact T. }
    destruct (find_text (c_names st) name 0) as [g|] eqn:E;
      cbn [fst snd c_sources c_names c_src_idx c_name_idx].
    + apply find_text_bound in E. split; [apply dn_to_nil|]. split; [exact Hs|].
      apply Hins; lia.
    + rewrite slen_app. change (len [name]) with 1. split.
      * split; cbn [dense dcnt]; rewrite ?N.eqb_refl; reflexivity.
      * split; [exact Hs|]. apply Hins; lia.
Qed.

Lemma concat_events_dn final evs : forall st ns nn,
  dense evs ns nn = true ->
  tbl_ok (c_src_idx st) ns (len (c_sources st)) -> tbl_ok (c_name_idx st) nn (len (c_names st)) ->
  dn_to (snd (concat_events final st evs)) (len (c_sources st)) (len (c_names st))
        (len (c_sources (fst (concat_events final st evs)))) (len (c_names (fst (concat_events final st evs)))).
Proof.
  induction evs as [|e evs IH]; intros st ns nn Hwf Hs Hn; [apply dn_to_nil|].
  rewrite dense_cons in Hwf. apply andb_true_iff in Hwf. destruct Hwf as [H1 H2].
  cbn [concat_events]. pose proof (concat_event_dn final st e ns nn H1 Hs Hn) as [A [B C]].
  destruct (concat_event final st e) as [st1 o1]. cbn [fst snd] in A, B, C.
  pose proof (IH st1 _ _ H2 B C) as D. destruct (concat_events final st1 evs) as [st2 o2].
  cbn [fst snd] in *. eapply dn_to_app; eassumption.
Qed.

Lemma concat_child_dn final st evs gi :
  dense evs 0 0 = true ->
  dn_to (snd (concat_child final st evs gi)) (len (c_sources st)) (len (c_names st))
        (len (c_sources (fst (concat_child final st evs gi)))) (len (c_names (fst (concat_child final st evs gi)))).
Proof.
  intros Hwf. unfold concat_child.
  pose proof (concat_events_dn final evs (concat_child_start st) 0 0 Hwf (tbl_ok_nil _) (tbl_ok_nil _)) as A.
  change (c_sources (concat_child_start st)) with (c_sources st) in A.
  change (c_names (concat_child_start st)) with (c_names st) in A.
  destruct (concat_events final (concat_child_start st) evs) as [st1 o1]. cbn [fst snd] in A.
  unfold concat_child_end. cbn [fst snd c_sources c_names].
  eapply dn_to_app; [exact A|]. apply chunks_dn.
  destruct (c_close st1 && negb ((fst gi =? 1) && (snd gi =? 0))); [|constructor].
  constructor; [exact I|constructor].
Qed.

Lemma concat_fold_dn_inv final cs : Forall (fun c => dense (fst c) 0 0 = true) cs ->
  forall acc, dn_to (snd acc) 0 0 (len (c_sources (fst acc))) (len (c_names (fst acc))) ->
  dn_to (snd (concat_fold final cs acc)) 0 0
        (len (c_sources (fst (concat_fold final cs acc)))) (len (c_names (fst (concat_fold final cs acc)))).
Proof.
  induction 1 as [|c cs Hc _ IH]; intros [st out] Hacc; [exact Hacc|].
  unfold concat_fold. cbn [fold_left]. fold (concat_fold final cs).
  pose proof (concat_child_dn final st (fst c) (snd c) Hc) as A.
  destruct (concat_child final st (fst c) (snd c)) as [st' o]. cbn [fst snd] in *.
  apply IH. cbn [fst snd]. eapply dn_to_app; eassumption.
Qed.

(* `concat_fold_dense` (LawConcatAttr.v) for both modes *)
Theorem concat_fold_dense_any (final : bool) (cs : list (list event * (N * N))) :
  Forall (fun c => dense (fst c) 0 0 = true) cs ->
  dense (snd (concat_fold final cs (concat_init, []))) 0 0 = true.
Proof.
  intros H. eapply dn_to_dense. apply (concat_fold_dn_inv final cs H (concat_init, [])). apply dn_to_nil.
Qed.

(* ------------------------------------------------------------------ *)
(* ReplaceSource                                                       *)
(* ------------------------------------------------------------------ *)
Lemma rl_name_dn ns nn r st1 v1 :
  names_ok st1 nn -> orig_ok ns nn (v_orig v1) ->
  names_ok (fst (fst (rl_name r st1 v1))) nn /\
  dn_to (snd (rl_name r st1 v1)) ns (len (rs_names st1)) ns (len (rs_names (fst (fst (rl_name r st1 v1))))) /\
  name_ok (len (rs_names (fst (fst (rl_name r st1 v1))))) (snd (fst (rl_name r st1 v1))).
Proof.
  intros Hn Hv. unfold rl_name.
  assert (Hinh : name_ok (len (rs_names st1))
            match v_orig v1 with
            | Some o => match o_name o with Some n => lm_get (rs_name_idx st1) n | None => None end
            | None => None end).
  { destruct (v_orig v1) as [o|]; [|exact I]. cbn [orig_ok] in Hv. destruct Hv as [_ B].
    destruct (o_name o) as [n|]; [|exact I]. destruct (Hn n B) as [g [C D]]. rewrite C. exact D. }
  destruct (r_name r) as [nm|]; [destruct (v_orig v1) as [o|]|]; cbn zeta.
  - destruct (find_text (rs_names st1) nm 0) as [g|] eqn:E; cbn [fst snd rs_names rs_name_idx].
    + apply find_text_bound in E. split; [exact Hn|]. split; [apply dn_to_nil|]. cbn [name_ok]. lia.
    + rewrite slen_app. change (len [nm]) with 1. split.
      * unfold names_ok. cbn [rs_names rs_name_idx]. rewrite slen_app. change (len [nm]) with 1.
        apply (tbl_ok_grow _ _ (len (rs_names st1))); [exact Hn|lia].
      * split; [|cbn [name_ok]; lia].
        split; cbn [dense dcnt]; rewrite ?N.eqb_refl; reflexivity.
  - cbn [fst snd]. split; [exact Hn|]. split; [apply dn_to_nil|exact I].
  - cbn [fst snd]. split; [exact Hn|]. split; [apply dn_to_nil|exact Hinh].
Qed.

Lemma repl_loop_dn ns nn chunk gl end_pos : forall rest st v,
  names_ok st nn -> orig_ok ns nn (v_orig v) ->
  names_ok (fst (fst (fst (repl_loop rest st v chunk gl end_pos)))) nn /\
  orig_ok ns nn (v_orig (snd (fst (fst (repl_loop rest st v chunk gl end_pos))))) /\
  dn_to (snd (fst (repl_loop rest st v chunk gl end_pos))) ns (len (rs_names st)) ns
        (len (rs_names (fst (fst (fst (repl_loop rest st v chunk gl end_pos)))))).
Proof.
  induction rest as [|r rest' IH]; intros st v Hn Hv.
  - cbn [repl_loop fst snd]. split; [exact Hn|]. split; [exact Hv|apply dn_to_nil].
  - rewrite repl_loop_eq. destruct (negb (r_start r <? end_pos)).
    { cbn [fst snd]. split; [exact Hn|]. split; [exact Hv|apply dn_to_nil]. }
    cbn zeta.
    pose proof (rl_pre_ok ns nn r st v chunk (Z.of_N gl + rs_loff st)%Z Hn Hv) as [A1 [A2 A3]].
    destruct (rl_pre r st v chunk (Z.of_N gl + rs_loff st)%Z) as [[st1 v1] ev1]. cbn [fst snd] in A1, A2, A3.
    pose proof (names_ok_same st st1 nn A1 Hn) as Hn1.
    pose proof (rl_name_dn ns nn r st1 v1 Hn1 A2) as [B1 [B2 B3]].
    destruct (rl_name r st1 v1) as [[st2 name_idx] ev_name]. cbn [fst snd] in B1, B2, B3.
    pose proof (emit_content_ok ns (len (rs_names st2)) (v_gc v1) (v_orig v1) (split_lines (r_content r))
                  st2 (Z.of_N gl + rs_loff st)%Z name_idx (orig_ok_src ns nn _ A2) B3) as [C1 C2].
    destruct (emit_content st2 (split_lines (r_content r)) (Z.of_N gl + rs_loff st)%Z (v_gc v1) (v_orig v1) name_idx)
      as [[st3 l3] ev2]. cbn [fst snd] in C1, C2.
    pose proof (names_ok_same st2 st3 nn C1 B1) as Hn3.
    pose proof (names_ok_same st3 _ nn (rl_st4_names r rest' st3) Hn3) as Hn4.
    assert (Hout : dn_to (ev1 ++ ev_name ++ ev2) ns (len (rs_names st)) ns (len (rs_names (rl_st4 r rest' st3)))).
    { destruct A1 as [A1 _]. destruct C1 as [C1 _].
      eapply dn_to_app; [apply chunks_dn; exact A3|]. rewrite <- A1.
      eapply dn_to_app; [exact B2|]. change (rs_names (rl_st4 r rest' st3)) with (rs_names st3).
      rewrite C1. apply chunks_dn. exact C2. }
    set (st4 := rl_st4 r rest' st3) in *. clearbody st4.
    match goal with |- context [(0 <? ?off)%Z] => destruct (0 <? off)%Z end.
    + match goal with |- context [end_pos <=? ?re] => destruct (end_pos <=? re) end.
      * cbn [fst snd].
        match goal with |- names_ok (set_pos ?s5 _) _ /\ _ =>
          assert (S5 : same_names st4 (set_pos s5 end_pos))
            by (eapply same_names_trans; [apply skip_whole_names|apply set_pos_names]) end.
        split; [eapply names_ok_same; [exact S5|exact Hn4]|]. split; [exact A2|].
        destruct S5 as [S5 _]. rewrite S5. exact Hout.
      * match goal with |- context [repl_loop rest' ?s5 ?v2 chunk gl end_pos] =>
          assert (S5 : same_names st4 s5)
            by (eapply same_names_trans; [apply set_pos_names|apply drop_cols_names]);
          pose proof (IH s5 v2 (names_ok_same _ _ nn S5 Hn4)) as D;
          destruct (repl_loop rest' s5 v2 chunk gl end_pos) as [[[st6 v3] ev3] early] end.
        cbn [fst snd v_orig] in *. destruct (D (adv_col_ok ns nn _ _ _ A2)) as [D1 [D2 D3]].
        split; [exact D1|]. split; [exact D2|].
        destruct S5 as [S5 _]. rewrite S5 in D3.
        rewrite 2!app_assoc, <- (app_assoc ev1). eapply dn_to_app; [exact Hout|exact D3].
    + pose proof (IH st4 v1 Hn4 A2) as [D1 [D2 D3]].
      destruct (repl_loop rest' st4 v1 chunk gl end_pos) as [[[st6 v3] ev3] early].
      cbn [fst snd] in *. split; [exact D1|]. split; [exact D2|].
      rewrite 2!app_assoc, <- (app_assoc ev1). eapply dn_to_app; [exact Hout|exact D3].
Qed.

Lemma replace_chunk_dn ns nn st chunk m :
  names_ok st nn -> orig_ok ns nn (m_orig m) ->
  names_ok (fst (replace_chunk st chunk m)) nn /\
  dn_to (snd (replace_chunk st chunk m)) ns (len (rs_names st)) ns
        (len (rs_names (fst (replace_chunk st chunk m)))).
Proof.
  intros Hn Hm. rewrite replace_chunk_eq. cbn zeta.
  pose proof (rc_pre_ok ns nn st chunk m Hm) as [A1 A2].
  destruct (rc_pre st chunk m) as [[st1 v1] early]. cbn [fst snd] in A1, A2.
  pose proof (names_ok_same st st1 nn A1 Hn) as Hn1. destruct A1 as [A1 _].
  destruct early.
  { cbn [fst snd]. split; [exact Hn1|]. rewrite A1. apply dn_to_nil. }
  pose proof (repl_loop_dn ns nn chunk (g_line m) (rs_pos st + len chunk) (rs_rest st1) st1 v1 Hn1 A2)
    as [B1 [B2 B3]].
  destruct (repl_loop (rs_rest st1) st1 v1 chunk (g_line m) (rs_pos st + len chunk)) as [[[st2 v2] ev2] early2].
  cbn [fst snd] in B1, B2, B3. rewrite A1 in B3.
  destruct early2; cbn [fst snd]; [split; [exact B1|exact B3]|].
  split; [eapply names_ok_same; [apply set_pos_names|exact B1]|].
  change (rs_names (set_pos st2 (rs_pos st + len chunk))) with (rs_names st2).
  eapply dn_to_app; [exact B3|]. apply chunks_dn.
  destruct (v_cpos v2 <? len chunk); [|constructor]. constructor; [|constructor].
  cbn [chunk_ok m_orig]. apply (map_name_ok ns nn); assumption.
Qed.

Lemma replace_event_dn ns nn st e :
  dense [e] ns nn = true -> names_ok st nn ->
  names_ok (fst (replace_event st e)) (snd (dcnt [e] ns nn)) /\
  dn_to (snd (replace_event st e)) ns (len (rs_names st)) (fst (dcnt [e] ns nn))
        (len (rs_names (fst (replace_event st e)))).
Proof.
  intros Hwf Hn. destruct e as [t m|i name content|i name]; cbn [replace_event].
  - cbn [dcnt fst snd]. cbn [dense] in Hwf. rewrite andb_true_r in Hwf.
    assert (Hm : orig_ok ns nn (m_orig m)).
    { destruct (m_orig m) as [o|]; [|exact I]. apply andb_true_iff in Hwf. destruct Hwf as [A B].
      apply N.ltb_lt in A. split; [exact A|]. destruct (o_name o); [apply N.ltb_lt; exact B|exact I]. }
    destruct t as [chunk|]; [apply replace_chunk_dn; assumption|].
    cbn [fst snd]. split; [exact Hn|apply dn_to_nil].
  - cbn [dcnt fst snd rs_names]. split; [exact Hn|]. cbn [dense] in Hwf. rewrite andb_true_r in Hwf.
    split; cbn [dense dcnt]; [rewrite Hwf; reflexivity|reflexivity].
  - cbn [dense] in Hwf. rewrite andb_true_r in Hwf. apply N.eqb_eq in Hwf. subst i. cbn [dcnt fst snd].
    assert (Hins : forall g G', g < G' -> len (rs_names st) <= G' ->
                   tbl_ok (lm_insert 0 (rs_name_idx st) nn g) (nn + 1) G').
    { intros g G' Hg HG. pose proof (tbl_ok_insert _ nn (len (rs_names st)) nn g G' Hn (N.le_refl _) Hg HG) as T.
      rewrite N.eqb_refl in T. exact T. }
    destruct (find_text (rs_names st) name 0) as [g|] eqn:E; cbn [fst snd rs_names].
    + apply find_text_bound in E. split; [|apply dn_to_nil].
      unfold names_ok. cbn [rs_names rs_name_idx]. apply Hins; lia.
    + rewrite slen_app. change (len [name]) with 1. split.
      * unfold names_ok. cbn [rs_names rs_name_idx]. rewrite slen_app. change (len [name]) with 1.
        apply Hins; lia.
      * split; cbn [dense dcnt]; rewrite ?N.eqb_refl; reflexivity.
Qed.

Lemma replace_events_dn evs : forall ns nn st,
  dense evs ns nn = true -> names_ok st nn ->
  dn_to (snd (replace_events st evs)) ns (len (rs_names st)) (fst (dcnt evs ns nn))
        (len (rs_names (fst (replace_events st evs)))).
Proof.
  induction evs as [|e evs IH]; intros ns nn st Hwf Hn; [apply dn_to_nil|].
  rewrite dense_cons in Hwf. apply andb_true_iff in Hwf. destruct Hwf as [H1 H2].
  cbn [replace_events]. pose proof (replace_event_dn ns nn st e H1 Hn) as [A B].
  destruct (replace_event st e) as [st1 o1]. cbn [fst snd] in A, B.
  pose proof (IH _ _ st1 H2 A) as C. destruct (replace_events st1 evs) as [st2 o2]. cbn [fst snd] in *.
  rewrite dcnt_cons. eapply dn_to_app; eassumption.
Qed.

(* the stream of a ReplaceSource over a dense inner stream is dense *)
Theorem replace_stream_dense (sorted : list repl) (ievs : list event) (gi : N * N) :
  dense ievs 0 0 = true -> dense (fst (replace_stream sorted ievs gi)) 0 0 = true.
Proof.
  intros Hwf. unfold replace_stream.
  pose proof (replace_events_dn ievs 0 0 (replace_init sorted) Hwf (tbl_ok_nil _)) as A.
  destruct (replace_events (replace_init sorted) ievs) as [st evs]. cbn [fst snd] in A.
  pose proof (emit_remainder_ok (fst (dcnt ievs 0 0)) (len (rs_names st)) (snd gi)
                (split_lines (concat (map r_content (rs_rest st)))) st
                (Z.of_N (fst gi) + rs_loff st)%Z) as B.
  destruct (emit_remainder st (split_lines (concat (map r_content (rs_rest st))))
              (Z.of_N (fst gi) + rs_loff st)%Z (snd gi)) as [[st' line'] evs'].
  cbn [fst snd] in *. eapply dn_to_dense. eapply dn_to_app; [exact A|]. apply chunks_dn. exact B.
Qed.

(* ------------------------------------------------------------------ *)
(* leaves, both modes                                                  *)
(* ------------------------------------------------------------------ *)
Lemma raw_stream_dense_any t f : dense (fst (raw_stream t f)) 0 0 = true.
Proof. destruct f; [reflexivity|apply raw_stream_dense]. Qed.

Lemma original_stream_dense_any v name o : dense (fst (original_stream v name o)) 0 0 = true.
Proof.
  destruct o as [cols f]. destruct f; [|apply original_stream_dense].
  destruct cols.
  - rewrite original_stream_cols_fst. cbn [dense]. rewrite N.eqb_refl. apply tokens_dense.
  - rewrite original_stream_lines_final_fst. cbn [dense]. rewrite N.eqb_refl. apply marks_dense.
Qed.

Lemma sm_stream_dense_any t m o : map_consistent t m = true ->
  dense (fst (sm_stream t m o)) 0 0 = true.
Proof.
  intros Hc. destruct o as [cols f]. destruct f; [|apply sm_stream_dense; exact Hc].
  pose proof (map_consistent_segs t m Hc) as Hs.
  unfold sm_stream. cbn [columns final_source]. destruct cols.
  - unfold sm_stream_final. destruct (gen_info t) as [rl rc].
    destruct ((rl =? 1) && (rc =? 0)); cbn [fst]; [reflexivity|].
    apply announced_dense. apply sm_final_loop_ok. exact Hs.
  - unfold sm_stream_lines_final. destruct (gen_info t) as [rl rc].
    destruct ((rl =? 1) && (rc =? 0)); cbn [fst]; [reflexivity|].
    apply announced_sources_dense. apply (sm_lines_final_loop_ok _ (len (sm_names m))). exact Hs.
Qed.

(* ------------------------------------------------------------------ *)
(* trees                                                               *)
(* ------------------------------------------------------------------ *)
Definition dense_any (s : src) : Prop :=
  forall o st, dense (fst (fst (stream st s o))) 0 0 = true.

Lemma kid_streams_dense_any o cs : Forall dense_any cs -> forall st,
  Forall (fun k => dense (fst k) 0 0 = true) (fst (kid_streams st cs o)).
Proof.
  induction 1 as [|c cs Hc _ IH]; intros st; [constructor|].
  cbn [kid_streams]. specialize (Hc o st).
  destruct (stream st c o) as [[evs gi] st1]. specialize (IH st1).
  destruct (kid_streams st1 cs o) as [ks st2]. cbn [fst snd] in *.
  constructor; assumption.
Qed.

Lemma dense_tree_ascii : forall s,
  WfStream.rshape s = true -> tree_ascii s = true -> dense_any s.
Proof.
  apply (src_ind' (fun s => WfStream.rshape s = true -> tree_ascii s = true -> dense_any s)).
  - intros b v _ _ o st. cbn [stream fst]. apply raw_stream_dense_any.
  - intros v _ _ o st. cbn [stream fst]. apply raw_stream_dense_any.
  - intros v _ _ o st. cbn [stream fst]. apply raw_stream_dense_any.
  - intros v n _ _ o st. cbn [stream fst]. apply original_stream_dense_any.
  - intros v n m og i r Hsh Ha o st. cbn [WfStream.rshape] in Hsh. destruct i as [im|]; [discriminate|].
    cbn [stream fst]. apply sm_stream_dense_any. cbn [tree_ascii] in Ha.
    rewrite andb_true_r in Ha. apply andb_true_iff in Ha. destruct Ha as [Ha _].
    apply andb_true_iff in Ha. destruct Ha as [_ Ha]. exact Ha.
  - intros cs IH Hsh Ha o st. cbn [WfStream.rshape tree_ascii] in Hsh, Ha.
    assert (Hall : Forall dense_any cs).
    { rewrite Forall_forall in *. rewrite forallb_forall in Hsh, Ha. intros c Hc.
      apply IH; [exact Hc|apply Hsh; exact Hc|apply Ha; exact Hc]. }
    destruct (Nat.eq_dec (length cs) 1) as [E|E].
    + destruct cs as [|c [|c2 r]]; try discriminate. inversion Hall as [|? ? Hc _]. apply Hc.
    + rewrite (stream_concat_fold st cs o E). cbn [fst].
      apply concat_fold_dense_any. apply kid_streams_dense_any. exact Hall.
  - intros i rs IH Hsh Ha o st. cbn [WfStream.rshape tree_ascii] in Hsh, Ha.
    apply andb_true_iff in Ha. destruct Ha as [Ha _].
    cbn [stream]. pose proof (IH Hsh Ha (mkOpts (columns o) false) st) as A.
    destruct (stream st i (mkOpts (columns o) false)) as [[ievs gi] st']. cbn [fst snd] in *.
    apply replace_stream_dense. exact A.
  - intros id i _ Hsh. discriminate.
Qed.

(* the two definitions of the class (WfStream.v, RStreamTree.v) agree *)
Lemma rshape_eq : forall s, WfStream.rshape s = RStreamTree.rshape s.
Proof.
  apply (src_ind' (fun s => WfStream.rshape s = RStreamTree.rshape s)); reflexivity.
Qed.

(* D0: every stream of a tree of the class is dense, in both modes *)
Theorem dense_tree_any (s : src) (st : store) (o : opts) :
  RStreamTree.rshape s = true -> treeA s = true -> dense (fst (fst (stream st s o))) 0 0 = true.
Proof.
  intros Hsh Ha. unfold treeA in Ha. apply andb_true_iff in Ha. destruct Ha as [_ Ha].
  rewrite <- rshape_eq in Hsh. apply dense_tree_ascii; assumption.
Qed.

Print Assumptions concat_fold_dense_any.
Print Assumptions replace_stream_dense.
Print Assumptions dense_tree_any.
