(* C11 for trees with CachedSource nodes in ANY sound warm state (class `cls` of WarmTreeDefs.v,
   every cache id once).
   The store invariant `Sound` (WarmTreeDefs.v) is extended by `Wf2`: every entry a cache holds
   under a text-less key (c, true), and every entry under a key (c, false) of a node whose wrapped
   source is outside the class K1, is a `map_wf` map of the node's text (decoded segments STRICTLY
   increasing, on lines >= 1, strictly before the end, indices inside the tables, alphabet).
   [An entry under (c, false) of a node inside K1 may be the given map of a SourceMapSource,
   stored verbatim by map(): the known finding K1.  Such an entry is only ever replayed by the
   text-carrying splitter, whose chunks are strictly increasing whatever the map.]
   `Sound2 = Sound /\ Wf2` holds for the empty store and is preserved by stream_chunks (all four
   option sets), map(), every observer history (`run_hops`) and every warm-up history on inner
   nodes (`run_warm`).  Over a `Sound2` store
     warm_stream_wf   all four streams are `stream_wf` (needs `Sound` only);
     warm_strict      the text-less stream with columns is strictly increasing and strictly
                      before the end; no text-carrying chunk is empty;
     warm_map_wf      map() outside K1 is `map_wf`;
     chk_C11_warm     the extracted checker accepts the model's observations after ANY warm-up
                      history (outside K1; inside K1 the only other verdict is 51). *)
From RS Require Import Base.Prelude Base.Text Rope.RopeModel Codec.Vlq Codec.CodecSpec
  Checkers.ChkCodec Stream.Types Stream.Leaves Stream.Concat Stream.Replace Stream.Combined Stream.Tree
  Api.ApiTree Sem.Attr Sem.HashEq Api.ApiHist Checkers.ChkTree Checkers.ChkHist
  Proofs.CodecKept Proofs.CodecMain Proofs.StreamText Proofs.StreamLeaves Proofs.StreamMap Proofs.StreamConcat Proofs.StreamTree
  Proofs.WfStream Proofs.WfFinal Proofs.WfMap Proofs.RStreamText Proofs.RStreamPos Proofs.RStreamTree
  Proofs.AttrCodec Proofs.AttrSms Proofs.AttrLeaves Proofs.LawConcatAttr Proofs.LawWrappers
  Proofs.CacheStore Proofs.CacheReplay Proofs.FinalDense Proofs.FinalReplace Proofs.FinalConcat Proofs.FinalTree Proofs.FinalCache
  Proofs.ReplAttrStream Proofs.ReplAttrOrigin Proofs.ReplAttrSms Proofs.ReplAttrTree
  Proofs.LinesBase Proofs.LinesSelf Proofs.LinesConcat Proofs.LinesTree
  Proofs.ColdCache Proofs.ColdCacheTree Proofs.BoundsPos Proofs.BoundsOrig Proofs.BoundsIdx Proofs.BoundsAll
  Proofs.WarmTreeDefs Proofs.WarmTreeReplay Proofs.WarmTreeCodec Proofs.WarmTreeNodes Proofs.WarmTreeMain Proofs.WarmTreeHist
  Proofs.WfAllStrict Proofs.WfAllMap Proofs.WfAllChk Proofs.WfMoreComb.
Require Import Lia List.

Local Open Scope N_scope.

(* ------------------------------------------------------------------ *)
(* what the induction carries on top of TG / FG                         *)
(* ------------------------------------------------------------------ *)
(* a text-carrying stream: no empty chunk, in both column settings *)
Definition TX (c : bool) (s : src) (r : list event * (N * N)) : Prop :=
  TG c s r /\ no_empty_chunks (fst r) = true.

(* a text-less stream: with columns, strictly increasing and strictly before the end info *)
Definition FX (c : bool) (s : src) (r : list event * (N * N)) : Prop :=
  FG c s r /\ (c = true -> strict_ok (fst r) (snd r)).

Lemma TX_TG c s r : TX c s r -> TG c s r.
Proof. intros [H _]. exact H. Qed.

Lemma FX_FG c s r : FX c s r -> FG c s r.
Proof. intros [H _]. exact H. Qed.

Lemma FX_of_TX c s r : TX c s r -> FX c s r.
Proof.
  intros [HT Hne]. split; [apply FG_of_TG; exact HT|]. intros _.
  destruct HT as [_ [Hr [Hw [_ [_ [Hi _]]]]]].
  apply (text_stream_strict _ (source s)); assumption.
Qed.

(* ------------------------------------------------------------------ *)
(* the map built from such a stream passes map_wf                       *)
(* ------------------------------------------------------------------ *)
Lemma FX_segs_good c s r : FX c s r -> segs_good (source s) c (chunk_mappings (fst r)).
Proof.
  intros [[[K1 [K2 [K3 K4]]] [KL _]] Hst]. unfold tr_events, tr_info, tr_text in *. cbn [fst snd] in *.
  pose proof (ev_pos_cm _ _ K2) as P. destruct c; cbn [segs_good].
  - destruct (Hst eq_refl) as [A B]. split; [exact A|].
    apply Forall_forall. intros m Hm. rewrite Forall_forall in B, P.
    pose proof (P m Hm) as Pm. pose proof (is_position_ple _ _ _ Pm) as [L _].
    split; [exact L|]. split; [exact Pm|]. apply plt_pos_ltb. rewrite <- K3. apply (B m Hm).
  - destruct (KL eq_refl) as [D [E Sb]]. unfold tr_events, tr_info, tr_text in *. cbn [fst snd] in *.
    rewrite (fsegs_dense _ D), Forall_map in Sb.
    split; [exact K4|]. split.
    + eapply Forall_impl; [|exact P]. cbn beta. intros m Hm. apply is_position_ple in Hm. apply Hm.
    + apply Forall_forall. intros m Hm Hmp. rewrite Forall_forall in P, Sb.
      specialize (Sb m Hm). unfold seg_before in Sb. cbn [rsF fst snd] in Sb.
      assert (Ha : amap (optF (kfile (fst r)) (kname (fst r)) (m_orig m)) = true).
      { unfold is_mapped in Hmp. destruct (m_orig m); [reflexivity|discriminate]. }
      destruct (Sb Ha) as [S1 S2]. rewrite E in S2. split; [exact S1|]. split; [apply (P m Hm)|].
      apply plt_pos_ltb. exact S2.
Qed.

Theorem FX_map_wf c s r : cls s -> FX c s r -> map_wf (source s) (map_of_events c (fst r)) = true.
Proof.
  intros Hcl HX. pose proof (FX_segs_good c s r HX) as Hg.
  destruct HX as [[[K1 [K2 [K3 K4]]] [_ [_ Hb]]] _]. unfold tr_events, tr_info, tr_text in *. cbn [fst snd] in *.
  apply events_map_wf.
  - apply dense_stream_wf. exact K1.
  - apply (entry_domain s (fst r) Hcl K1 K4 (ev_pos_cm _ _ K2) Hb).
  - exact Hg.
Qed.

Theorem TX_map_wf c s r : cls s -> TX c s r -> map_wf (source s) (map_of_events c (fst r)) = true.
Proof. intros Hcl HX. apply FX_map_wf; [exact Hcl|apply FX_of_TX; exact HX]. Qed.

(* ------------------------------------------------------------------ *)
(* replaying a well-formed entry, text-less with columns                 *)
(* ------------------------------------------------------------------ *)
Lemma map_wf_sorted t m : map_wf t (Some m) = true ->
  sorted_by pos_lt (decode_mappings (sm_mappings m)) = true.
Proof.
  unfold map_wf. intros H. apply andb_true_iff in H. destruct H as [H _].
  apply andb_true_iff in H. destruct H as [H _]. exact H.
Qed.

Lemma sm_strict_sorted t m : sorted_by pos_lt (decode_mappings (sm_mappings m)) = true ->
  strict_ok (fst (sm_stream t m oF)) (snd (sm_stream t m oF)).
Proof.
  intros Hso. unfold sm_stream, oF. cbn [columns final_source]. unfold sm_stream_final.
  destruct (gen_info t) as [rl rc]. destruct ((rl =? 1) && (rc =? 0)); cbn [fst snd].
  { apply strict_ok_nochunk. reflexivity. }
  unfold strict_ok.
  rewrite !chunk_mappings_app, (chunk_mappings_chunks_of (announce_sources _ _ _)), announce_sources_chunks.
  rewrite (chunk_mappings_chunks_of (announce_names _ _)), announce_names_chunks. cbn [map app].
  destruct (final_loop_strict rl rc _ 0 (sorted_lt_sorted _ Hso)) as [A [B _]]. split; assumption.
Qed.

Lemma replay_strict t v : map_wf t v = true ->
  strict_ok (fst (replay t v oF)) (snd (replay t v oF)).
Proof.
  destruct v as [m|]; cbn [replay].
  - intros H. apply sm_strict_sorted. apply (map_wf_sorted t m H).
  - intros _. apply strict_ok_nochunk. reflexivity.
Qed.

Lemma replay_ne t v c : no_empty_chunks (fst (replay t v (mkOpts c false))) = true.
Proof.
  destruct v as [m|]; cbn [replay final_source]; [|apply raw_stream_ne].
  unfold sm_stream. cbn [columns final_source]. destruct c.
  - apply sm_stream_full_ne_any.
  - apply sm_stream_lines_full_ne.
Qed.

(* ------------------------------------------------------------------ *)
(* the extended store invariant                                         *)
(* ------------------------------------------------------------------ *)
Definition entry_wf (inner : src) (f : bool) (v : option smap) : Prop :=
  f = true \/ k1_shape inner = false -> map_wf (source inner) v = true.

Definition Wf2 (st : store) (U : src) : Prop :=
  forall id inner, In (id, inner) (nodes U) ->
  forall c f v, cache_get (store_get st id) (mkOpts c f) = Some v -> entry_wf inner f v.

Definition Sound2 (st : store) (U : src) : Prop := Sound st U /\ Wf2 st U.

Theorem sound2_empty (U : src) : Sound2 [] U.
Proof. split; [apply sound_empty|]. intros id inner _ c f v H. discriminate. Qed.

Lemma wf2_put (U : src) st id inner c f v : ids_distinct U -> In (id, inner) (nodes U) ->
  Wf2 st U -> entry_wf inner f v -> Wf2 (store_put st id (mkOpts c f) v) U.
Proof.
  intros Hd Hin Hs Hv id' inner' Hin' c' f' x H. apply store_put_get_inv in H.
  destruct H as [H|[Ei [Eo [Ex _]]]].
  - apply (Hs id' inner' Hin' c' f' x H).
  - subst id' x. inversion Eo. subst c' f'.
    rewrite (nodes_inj U Hd id inner' inner Hin' Hin). exact Hv.
Qed.

Lemma sound2_put (U : src) st id inner c f v : ids_distinct U -> In (id, inner) (nodes U) ->
  Sound2 st U -> good_entry inner c v -> entry_wf inner f v -> Sound2 (store_put st id (mkOpts c f) v) U.
Proof.
  intros Hd Hin [A B] G W. split; [apply (sound_put U st id inner c f v Hd Hin A G)|].
  apply (wf2_put U st id inner c f v Hd Hin B W).
Qed.

Lemma sound2_sub (U s : src) st : incl (nodes s) (nodes U) -> Sound2 st U -> Sound2 st s.
Proof.
  intros Hi [A B]. split; [apply (sound_sub U s st Hi A)|].
  intros id inner Hin. apply B. apply Hi. exact Hin.
Qed.

(* ------------------------------------------------------------------ *)
(* the induction                                                        *)
(* ------------------------------------------------------------------ *)
Section Warm2.
Variable U : src.
Hypothesis HU : ids_distinct U.

Definition stream_ok2 (P : bool -> src -> list event * (N * N) -> Prop) (f : bool) (s : src) : Prop :=
  forall st c, Sound2 st U ->
    P c s (fst (stream st s (mkOpts c f))) /\ Sound2 (snd (stream st s (mkOpts c f))) U.

Definition map_ok2 (s : src) : Prop :=
  forall st c, Sound2 st U ->
    good_entry s c (fst (map_of st s c)) /\
    (k1_shape s = false -> map_wf (source s) (fst (map_of st s c)) = true) /\
    Sound2 (snd (map_of st s c)) U.

Definition PW2 (s : src) : Prop :=
  incl (nodes s) (nodes U) -> cls s -> stream_ok2 TX false s /\ stream_ok2 FX true s /\ map_ok2 s.

(* map() of a node that streams *)
Lemma get_map_ok2 s : cls s -> stream_ok2 FX true s ->
  forall st c, Sound2 st U ->
    good_entry s c (fst (Tree.get_map st s c)) /\
    (k1_shape s = false -> map_wf (source s) (fst (Tree.get_map st s c)) = true) /\
    Sound2 (snd (Tree.get_map st s c)) U.
Proof.
  intros Hcl HF st c Hs. destruct (HF st c Hs) as [A B]. unfold Tree.get_map.
  destruct (stream st s (mkOpts c true)) as [[evs gi] st']. cbn [fst snd] in *.
  split; [apply (entry_of_final c s (evs, gi) Hcl (FX_FG _ _ _ A))|]. split; [|exact B].
  intros _. apply (FX_map_wf c s (evs, gi) Hcl A).
Qed.

(* subtrees without caches *)
Lemma nocache_streams2 s : cls s -> has_cached s = false -> stream_ok2 TX false s /\ stream_ok2 FX true s.
Proof.
  intros Hcl Hn. destruct (cls_nocache s Hcl Hn) as [Hsh [HA [Hsm _]]]. split; intros st c Hs.
  - destruct (nocache_TG c s st Hcl Hn) as [A B]. rewrite B. split; [|exact Hs]. split; [exact A|].
    destruct c.
    + rewrite (nocache_stream s st _ Hn). cbn [fst].
      destruct (tidy_tree s Hsh HA Hsm []) as [_ T]. exact T.
    + destruct A as [_ [_ [_ [_ [Hne _]]]]]. apply Hne. reflexivity.
  - destruct (nocache_FG c s st Hcl Hn) as [A B]. rewrite B. split; [|exact Hs]. split; [exact A|].
    intros ->. rewrite (nocache_stream s st _ Hn). cbn [fst]. apply (sgood_all s [] Hsh HA Hsm).
Qed.

(* the children of a ConcatSource, the store threaded through *)
Lemma kids_thread2 (P : bool -> src -> list event * (N * N) -> Prop) (f c : bool) : forall cs,
  (forall ch, In ch cs -> stream_ok2 P f ch) ->
  forall st, Sound2 st U ->
  exists trs : list kid,
    map fst trs = fst (kid_streams st cs (mkOpts c f)) /\ Forall2 (child_of (P c)) cs trs /\
    Sound2 (snd (kid_streams st cs (mkOpts c f))) U.
Proof.
  induction cs as [|ch cs IH]; intros Hall st Hs.
  - exists []. cbn [kid_streams map fst snd]. split; [reflexivity|]. split; [constructor|exact Hs].
  - cbn [kid_streams]. destruct (Hall ch (or_introl eq_refl) st c Hs) as [A B].
    destruct (stream st ch (mkOpts c f)) as [[evs gi] st1]. cbn [fst snd] in A, B.
    destruct (IH (fun x Hx => Hall x (or_intror Hx)) st1 B) as [trs [E [F S]]].
    destruct (kid_streams st1 cs (mkOpts c f)) as [ks st2]. cbn [fst snd] in *.
    exists ((evs, gi, source ch) :: trs). cbn [map fst]. rewrite E. split; [reflexivity|].
    split; [|exact S]. constructor; [|exact F]. split; [reflexivity|exact A].
Qed.

Lemma concat_stream_ok2 (P : bool -> src -> list event * (N * N) -> Prop) (f : bool) cs :
  (forall c ch r, P c ch r -> P c (SConcat [ch]) r) ->
  (forall c (trs : list kid), length cs <> 1%nat -> Forall2 (child_of (P c)) cs trs ->
     P c (SConcat cs) (snd (concat_fold f (map fst trs) (concat_init, [])),
                       concat_result (fst (concat_fold f (map fst trs) (concat_init, []))))) ->
  (forall ch, In ch cs -> stream_ok2 P f ch) -> stream_ok2 P f (SConcat cs).
Proof.
  intros Hsingle Hfold Hall st c Hs.
  destruct (Nat.eq_dec (length cs) 1) as [E|E].
  - destruct cs as [|ch [|c2 r]]; try discriminate.
    change (stream st (SConcat [ch]) (mkOpts c f)) with (stream st ch (mkOpts c f)).
    destruct (Hall ch (or_introl eq_refl) st c Hs) as [A B]. split; [apply Hsingle; exact A|exact B].
  - rewrite (stream_concat_fold st cs _ E). cbn [fst snd final_source].
    destruct (kids_thread2 P f c cs Hall st Hs) as [trs [E1 [F S]]]. rewrite <- E1.
    split; [apply Hfold; assumption|exact S].
Qed.

Lemma TX_single c ch r : TX c ch r -> TX c (SConcat [ch]) r.
Proof. intros [A B]. split; [apply TG_single; exact A|exact B]. Qed.

Lemma FX_single c ch r : FX c ch r -> FX c (SConcat [ch]) r.
Proof. intros [A B]. split; [apply FG_single; exact A|exact B]. Qed.

Lemma concat_TX c cs (trs : list kid) : length cs <> 1%nat -> cls (SConcat cs) ->
  Forall2 (child_of (TX c)) cs trs ->
  TX c (SConcat cs) (snd (concat_fold false (map fst trs) (concat_init, [])),
                     concat_result (fst (concat_fold false (map fst trs) (concat_init, [])))).
Proof.
  intros Hl Hcl Hk.
  assert (Hk' : Forall2 (child_of (TG c)) cs trs).
  { apply (F2_impl _ _ _ _ Hk). intros ch tr _ [E H]. split; [exact E|apply TX_TG; exact H]. }
  split; [apply concat_TG; assumption|]. cbn [fst].
  pose proof (concat_fold_chunk_texts _ (ct_dense c cs trs Hk')) as Htx.
  apply (ne_flat _ _ Htx). rewrite Forall_map.
  apply (F2_right _ _ _ _ Hk). intros ch tr _ [_ [_ H]]. exact H.
Qed.

Lemma concat_FX c cs (trs : list kid) : length cs <> 1%nat -> cls (SConcat cs) ->
  Forall2 (child_of (FX c)) cs trs ->
  FX c (SConcat cs) (snd (concat_fold true (map fst trs) (concat_init, [])),
                     concat_result (fst (concat_fold true (map fst trs) (concat_init, [])))).
Proof.
  intros Hl Hcl Hk.
  assert (Hk' : Forall2 (child_of (FG c)) cs trs).
  { apply (F2_impl _ _ _ _ Hk). intros ch tr _ [E H]. split; [exact E|apply FX_FG; exact H]. }
  split; [apply concat_FG; assumption|]. intros ->. cbn [fst snd].
  assert (HS : Forall kidS trs).
  { pose proof (cf_kid_ok true cs trs Hk') as K. rewrite Forall_forall in K.
    assert (X : Forall (fun tr : kid => strict_ok (tr_events tr) (tr_info tr)) trs).
    { apply (F2_right _ _ _ _ Hk). intros ch tr _ [_ [_ H]]. apply H. reflexivity. }
    rewrite Forall_forall in X. apply Forall_forall. intros tr Htr. split; [apply K|apply X]; exact Htr. }
  destruct (concat_kidS trs HS) as [_ X]. exact X.
Qed.

Theorem warm2_all : forall s, PW2 s.
Proof.
  apply (src_ind' PW2); unfold PW2.
  - (* SRaw *) intros b v _ Hcl. destruct (nocache_streams2 _ Hcl eq_refl) as [A B].
    split; [exact A|]. split; [exact B|]. intros st c Hs. cbn [map_of fst snd].
    split; [apply raw_entry; reflexivity|]. split; [reflexivity|exact Hs].
  - intros v _ Hcl. destruct (nocache_streams2 _ Hcl eq_refl) as [A B].
    split; [exact A|]. split; [exact B|]. intros st c Hs. cbn [map_of fst snd].
    split; [apply raw_entry; reflexivity|]. split; [reflexivity|exact Hs].
  - intros v _ Hcl. destruct (nocache_streams2 _ Hcl eq_refl) as [A B].
    split; [exact A|]. split; [exact B|]. intros st c Hs. cbn [map_of fst snd].
    split; [apply raw_entry; reflexivity|]. split; [reflexivity|exact Hs].
  - (* SOriginal *) intros v n _ Hcl. destruct (nocache_streams2 _ Hcl eq_refl) as [A B].
    split; [exact A|]. split; [exact B|]. intros st c Hs.
    change (map_of st (SOriginal v n) c) with (Tree.get_map st (SOriginal v n) c). apply get_map_ok2; assumption.
  - (* SMapped *) intros v n m og i r _ Hcl. destruct (nocache_streams2 _ Hcl eq_refl) as [A B].
    split; [exact A|]. split; [exact B|]. intros st c Hs.
    destruct i as [im|].
    + destruct Hcl as [_ [Sh _]]. discriminate.
    + cbn [map_of fst snd]. split; [apply mapped_entry; exact Hcl|]. split; [|exact Hs].
      cbn [k1_shape]. discriminate.
  - (* SConcat *) intros cs IH Hin Hcl. rewrite Forall_forall in IH.
    assert (Hkids : forall ch, In ch cs -> stream_ok2 TX false ch /\ stream_ok2 FX true ch /\ map_ok2 ch).
    { intros ch Hch. apply (IH ch Hch).
      - intros x Hx. apply Hin. apply (nodes_child cs ch Hch). exact Hx.
      - apply (cls_concat cs ch Hcl Hch). }
    assert (A : stream_ok2 TX false (SConcat cs)).
    { apply concat_stream_ok2.
      - intros c ch r. apply TX_single.
      - intros c trs Hl Hk. apply concat_TX; assumption.
      - intros ch Hch. apply (Hkids ch Hch). }
    assert (B : stream_ok2 FX true (SConcat cs)).
    { apply concat_stream_ok2.
      - intros c ch r. apply FX_single.
      - intros c trs Hl Hk. apply concat_FX; assumption.
      - intros ch Hch. apply (Hkids ch Hch). }
    split; [exact A|]. split; [exact B|]. intros st c Hs.
    change (map_of st (SConcat cs) c) with (Tree.get_map st (SConcat cs) c). apply get_map_ok2; assumption.
  - (* SReplace *) intros i rs IH Hin Hcl. destruct (cls_replace i rs Hcl) as [Hci Hnc].
    destruct rs as [|r rs].
    + (* no replacements: delegate *)
      destruct (IH Hin Hci) as [IA [_ IM]].
      assert (A : forall f, stream_ok2 TX f (SReplace i [])).
      { intros f st c Hs. cbn [stream columns]. destruct (IA st c Hs) as [[T Ne] S].
        destruct (stream st i (mkOpts c false)) as [[ievs gi] st']. cbn [fst snd] in *.
        split; [|exact S]. split; [apply (replace_nil_TG c i (ievs, gi) Hcl T)|].
        destruct T as [Hd [Hr _]]. cbn [fst snd] in *.
        apply (ReplAttrOrigin.replace_stream_dense [] ievs (source i) gi (Forall_nil _));
          [apply reassembles_iff; exact Hr|exact Ne|exact Hd]. }
      split; [apply A|]. split.
      * intros st c Hs. destruct (A true st c Hs) as [T S]. split; [apply FX_of_TX; exact T|exact S].
      * intros st c Hs. change (map_of st (SReplace i []) c) with (map_of st i c).
        destruct (IM st c Hs) as [G [W S]]. split; [apply good_entry_replace_nil; assumption|].
        split; [|exact S]. cbn [k1_shape is_nil andb]. change (source (SReplace i [])) with (source i). exact W.
    + (* replacements: no cache below *)
      assert (Hn : has_cached (SReplace i (r :: rs)) = false) by (apply Hnc; discriminate).
      destruct (nocache_streams2 _ Hcl Hn) as [A B].
      split; [exact A|]. split; [exact B|]. intros st c Hs.
      change (map_of st (SReplace i (r :: rs)) c) with (Tree.get_map st (SReplace i (r :: rs)) c).
      apply get_map_ok2; assumption.
  - (* SCached *) intros id i IH Hin Hcl. pose proof (cls_cached id i Hcl) as Hci.
    assert (Hnode : In (id, i) (nodes U)) by (apply Hin; left; reflexivity).
    assert (Hin' : incl (nodes i) (nodes U)) by (intros x Hx; apply Hin; right; exact Hx).
    destruct (IH Hin' Hci) as [IA [IB IM]].
    split; [|split].
    + (* text-carrying *)
      intros st c Hs. cbn [stream]. unfold TX. rewrite TG_cached.
      destruct (cache_get (store_get st id) (mkOpts c false)) as [v|] eqn:G.
      * destruct Hs as [Hs1 Hs2].
        pose proof (replay_TG c i v Hci (Hs1 id i Hnode c false v G)) as T.
        pose proof (replay_ne (source i) v c) as Ne.
        destruct v as [m|]; cbn [replay final_source fst snd] in *;
          (split; [split; assumption|split; assumption]).
      * destruct (IA st c Hs) as [[T Ne] S].
        destruct (stream st i (mkOpts c false)) as [[evs gi] st']. cbn [fst snd columns] in *.
        split; [split; assumption|]. apply (sound2_put U st' id i c false _ HU Hnode S).
        -- apply (entry_of_text c i (evs, gi) Hci T).
        -- intros _. apply (TX_map_wf c i (evs, gi) Hci). split; assumption.
    + (* text-less *)
      intros st c Hs. cbn [stream]. unfold FX. rewrite FG_cached.
      destruct (cache_get (store_get st id) (mkOpts c true)) as [v|] eqn:G.
      * destruct Hs as [Hs1 Hs2].
        pose proof (replay_FG c i v Hci (Hs1 id i Hnode c true v G)) as T.
        pose proof (Hs2 id i Hnode c true v G (or_introl eq_refl)) as Wv.
        assert (St : c = true -> strict_ok (fst (replay (source i) v (mkOpts c true)))
                                            (snd (replay (source i) v (mkOpts c true)))).
        { intros ->. apply replay_strict. exact Wv. }
        destruct v as [m|]; cbn [replay final_source fst snd] in *;
          (split; [split; assumption|split; assumption]).
      * destruct (IB st c Hs) as [[T St] S].
        destruct (stream st i (mkOpts c true)) as [[evs gi] st']. cbn [fst snd columns] in *.
        split; [split; assumption|]. apply (sound2_put U st' id i c true _ HU Hnode S).
        -- apply (entry_of_final c i (evs, gi) Hci T).
        -- intros _. apply (FX_map_wf c i (evs, gi) Hci). split; assumption.
    + (* map() *)
      intros st c Hs. cbn [map_of]. rewrite good_entry_cached. cbn [k1_shape].
      change (source (SCached id i)) with (source i).
      destruct (cache_get (store_get st id) (mkOpts c false)) as [v|] eqn:G.
      * cbn [fst snd]. destruct Hs as [Hs1 Hs2]. split; [apply (Hs1 id i Hnode c false v G)|].
        split; [|split; assumption]. intros Hk. apply (Hs2 id i Hnode c false v G). right. exact Hk.
      * destruct (IM st c Hs) as [E [W S]]. destruct (map_of st i c) as [m st']. cbn [fst snd] in *.
        assert (We : entry_wf i false m) by (intros [X|X]; [discriminate|apply W; exact X]).
        pose proof (sound2_put U st' id i c false m HU Hnode S E We) as S'.
        split; [|split; [|exact S']].
        -- destruct S' as [S1 _].
           destruct (cache_get (store_get (store_put st' id (mkOpts c false) m) id) (mkOpts c false)) as [m'|] eqn:G';
             [apply (S1 id i Hnode c false m' G')|exact E].
        -- intros Hk. destruct S' as [_ S2].
           destruct (cache_get (store_get (store_put st' id (mkOpts c false) m) id) (mkOpts c false)) as [m'|] eqn:G';
             [apply (S2 id i Hnode c false m' G'); right; exact Hk|apply W; exact Hk].
Qed.

End Warm2.

(* ------------------------------------------------------------------ *)
(* G2: the statements                                                   *)
(* ------------------------------------------------------------------ *)
Section G2.
Variable s : src.
Hypothesis Hd : ids_distinct s.
Hypothesis Hcl : cls s.

Let W := warm_all s Hd s (incl_refl _) Hcl.
Let W2 := warm2_all s Hd s (incl_refl _) Hcl.

Lemma cls_treeA : treeA s = true.
Proof. pose proof Hcl as [_ [_ [A _]]]. exact A. Qed.

(* all four streams are well-formed, over any sound store *)
Theorem warm_stream_wf (st : store) (o : opts) : Sound st s ->
  stream_wf (fst (fst (stream st s o))) 0 0 = true.
Proof.
  intros Hs. apply dense_stream_wf. destruct o as [c f]. destruct f.
  - destruct W as [_ [B _]]. destruct (B st c Hs) as [[[K _] _] _]. exact K.
  - destruct W as [A _]. destruct (A st c Hs) as [[K _] _]. exact K.
Qed.

(* the extended invariant is preserved *)
Theorem stream_sound2 (st : store) (o : opts) : Sound2 st s -> Sound2 (snd (stream st s o)) s.
Proof.
  intros Hs. destruct o as [c f]. destruct f.
  - destruct W2 as [_ [B _]]. apply (B st c Hs).
  - destruct W2 as [A _]. apply (A st c Hs).
Qed.

Theorem map_of_sound2 (st : store) (c : bool) : Sound2 st s -> Sound2 (snd (map_of st s c)) s.
Proof. intros Hs. destruct W2 as [_ [_ M]]. apply (M st c Hs). Qed.

(* the strictness theorem: the text-less stream with columns *)
Theorem warm_strict (st : store) : Sound2 st s ->
  let r := stream st s (mkOpts true true) in
  sstrict (map mpos (chunk_mappings (fst (fst r)))) /\
  Forall (fun m => 1 <= g_line m /\ plt (mpos m) (advance 1 0 (source s))) (chunk_mappings (fst (fst r))).
Proof.
  intros Hs. cbn zeta. destruct W2 as [_ [B _]]. destruct (B st true Hs) as [[[Hk _] St] _].
  destruct (St eq_refl) as [S1 S2]. pose proof (kid_facts _ Hk) as F.
  destruct Hk as [_ [_ [Hi _]]]. unfold tr_events, tr_info, tr_text in *. cbn [fst snd] in *.
  split; [exact S1|]. rewrite <- Hi. apply Forall_forall. intros m Hm.
  rewrite Forall_forall in S2, F. split; [apply (F m Hm)|apply (S2 m Hm)].
Qed.

(* no text-carrying chunk is empty *)
Theorem warm_text_ne (st : store) (c : bool) : Sound2 st s ->
  no_empty_chunks (fst (fst (stream st s (mkOpts c false)))) = true.
Proof. intros Hs. destruct W2 as [A _]. destruct (A st c Hs) as [[_ Ne] _]. exact Ne. Qed.

(* map() outside the class K1 *)
Theorem warm_map_wf (st : store) (c : bool) : Sound2 st s -> k1_shape s = false ->
  map_wf (source s) (fst (map_of st s c)) = true.
Proof. intros Hs Hk. destruct W2 as [_ [_ M]]. destruct (M st c Hs) as [_ [X _]]. apply X. exact Hk. Qed.

(* the map a streaming node would build (get_map), whatever the root *)
Theorem warm_get_map_wf (st : store) (c : bool) : Sound2 st s ->
  map_wf (source s) (fst (Tree.get_map st s c)) = true.
Proof.
  intros Hs. destruct W2 as [_ [B _]]. destruct (B st c Hs) as [Y _].
  unfold Tree.get_map. destruct (stream st s (mkOpts c true)) as [[evs gi] st']. cbn [fst] in *.
  apply (FX_map_wf c s (evs, gi) Hcl Y).
Qed.

(* observer histories *)
Theorem hop_sound2 (st : store) (op : hop) : Sound2 st s -> Sound2 (snd (run_hop st s op)) s.
Proof.
  intros Hs. destruct op as [| | | |c|c f| |]; cbn [run_hop snd]; try exact Hs.
  - pose proof (map_of_sound2 st c Hs) as X. destruct (map_of st s c) as [m st']. exact X.
  - pose proof (stream_sound2 st (mkOpts c f) Hs) as X.
    destruct (stream st s (mkOpts c f)) as [[evs gi] st']. exact X.
Qed.

Theorem hops_sound2 : forall (ops : list hop) (st : store), Sound2 st s -> Sound2 (snd (run_hops st s ops)) s.
Proof.
  induction ops as [|op ops IH]; intros st Hs; [exact Hs|].
  cbn [run_hops]. pose proof (hop_sound2 st op Hs) as H1.
  destruct (run_hop st s op) as [x st1]. cbn [snd] in H1. specialize (IH st1 H1).
  destruct (run_hops st1 s ops) as [as_ st2]. exact IH.
Qed.

(* warm-up histories on inner CachedSource nodes *)
Lemma wop_sound2 (st : store) (node : src) (w : wop) :
  incl (nodes node) (nodes s) -> cls node -> Sound2 st s -> Sound2 (run_wop st node w) s.
Proof.
  intros Hin Hn Hs. destruct (warm2_all s Hd node Hin Hn) as [A [B M]].
  destruct w as [c|c f]; cbn [run_wop].
  - apply (M st c Hs).
  - destruct f; [apply (B st c Hs)|apply (A st c Hs)].
Qed.

Theorem warm_sound2 : forall (ws : list (N * wop)) (st : store), Sound2 st s -> Sound2 (run_warm st s ws) s.
Proof.
  induction ws as [|[id w] ws IH]; intros st Hs; [exact Hs|].
  cbn [run_warm]. destruct (find_cached s id) as [node|] eqn:E; [|apply IH; exact Hs].
  destruct (find_cached_sub s id node E) as [A B]. apply IH. apply wop_sound2; [exact A|apply B; exact Hcl|exact Hs].
Qed.

(* the extracted checker, over any Sound2 store: the observations `api_tree` takes *)
Lemma chk_C11_from (st : store) (o : tree_obs) : Sound2 st s ->
  to_source o = source s ->
  to_streams o = map (fun op => fst (stream st s op)) all_opts ->
  to_maps o = [fst (map_of st s true); fst (map_of st s false)] ->
  (k1_shape s = false -> chk_C11 s o = 0) /\ (chk_C11 s o = 0 \/ chk_C11 s o = 51).
Proof.
  intros Hs E1 E2 E3.
  rewrite (chk_C11_unfold s st cls_treeA (fun op => warm_stream_wf st op (proj1 Hs)) o E1 E2 E3).
  split.
  - intros Hk. rewrite (warm_map_wf st true Hs Hk), (warm_map_wf st false Hs Hk). reflexivity.
  - destruct (k1_shape s) eqn:Hk.
    + destruct (map_wf (source s) (fst (map_of st s true))); cbn [negb]; [|right; reflexivity].
      destruct (map_wf (source s) (fst (map_of st s false))); cbn [negb]; [left|right]; reflexivity.
    + rewrite (warm_map_wf st true Hs Hk), (warm_map_wf st false Hs Hk). left. reflexivity.
Qed.

(* the checker accepts the model's observations after ANY warm-up history, outside K1 *)
Theorem chk_C11_warm (ws : list (N * wop)) : k1_shape s = false -> chk_C11 s (api_tree s ws) = 0.
Proof.
  intros Hk.
  destruct (chk_C11_from (run_warm [] s ws) (api_tree s ws) (warm_sound2 ws [] (sound2_empty s))
              eq_refl eq_refl eq_refl) as [X _].
  apply X. exact Hk.
Qed.

Theorem chk_C11_warm_any (ws : list (N * wop)) :
  chk_C11 s (api_tree s ws) = 0 \/ (k1_shape s = true /\ chk_C11 s (api_tree s ws) = 51).
Proof.
  destruct (chk_C11_from (run_warm [] s ws) (api_tree s ws) (warm_sound2 ws [] (sound2_empty s))
              eq_refl eq_refl eq_refl) as [X Y].
  destruct (k1_shape s) eqn:Hk.
  - destruct Y as [Y|Y]; [left; exact Y|right; split; [reflexivity|exact Y]].
  - left. apply X. reflexivity.
Qed.

End G2.

(* ------------------------------------------------------------------ *)
(* the statements with the hypotheses spelled out                       *)
(* ------------------------------------------------------------------ *)
Theorem C11_warm_streams (s : src) (st : store) (o : opts) :
  ids_distinct s -> k2_shape s = false -> rshape (uncache s) = true -> treeA s = true ->
  tiny (uncache s) = true -> Sound st s ->
  stream_wf (fst (fst (stream st s o))) 0 0 = true.
Proof. intros H1 H2 H3 H4 H5. apply warm_stream_wf; [exact H1|apply tiny_cls; assumption]. Qed.

Theorem C11_warm_map (s : src) (st : store) (c : bool) :
  ids_distinct s -> k2_shape s = false -> rshape (uncache s) = true -> treeA s = true ->
  tiny (uncache s) = true -> k1_shape s = false -> Sound2 st s ->
  map_wf (source s) (fst (map_of st s c)) = true.
Proof. intros H1 H2 H3 H4 H5 Hk Hs. apply warm_map_wf; [exact H1|apply tiny_cls; assumption|exact Hs|exact Hk]. Qed.

Theorem C11_warm_checker (s : src) (ws : list (N * wop)) :
  ids_distinct s -> k2_shape s = false -> rshape (uncache s) = true -> treeA s = true ->
  tiny (uncache s) = true -> k1_shape s = false ->
  chk_C11 s (api_tree s ws) = 0.
Proof. intros H1 H2 H3 H4 H5 Hk. apply chk_C11_warm; [exact H1|apply tiny_cls; assumption|exact Hk]. Qed.

(* ------------------------------------------------------------------ *)
(* tests                                                                *)
(* ------------------------------------------------------------------ *)
(* the bundler-shaped tree and warm-up history of WarmTreeHist.v *)
Example w_tree_C11 (ws : list (N * wop)) : chk_C11 w_tree (api_tree w_tree ws) = 0.
Proof.
  apply C11_warm_checker; try (vm_compute; reflexivity).
  apply ids_distinctb_spec. vm_compute. reflexivity.
Qed.

Example w_tree_C11_recomputed : chk_C11 w_tree (api_tree w_tree w_warm) = 0.
Proof. vm_compute. reflexivity. Qed.

(* why `Wf2` exempts the (c, false) entries of nodes inside K1: map() on a CachedSource over the
   K1 witness of WfAllChk.v stores the given map verbatim, and it is not `map_wf`; the enclosing
   ConcatSource is outside K1 and the checker accepts it after that warm-up *)
Example k1_entry_exempt :
  let node := SCached 1 k1_witness in
  let s := SConcat [node; SRaw false [10; 120]] in
  let st := run_warm [] s [(1, WMap true)] in
  (k1_shape node, k1_shape s) = (true, false) /\
  (match cache_get (store_get st 1) (mkOpts true false) with
   | Some v => map_wf (source node) v | None => true end) = false /\
  chk_C11 s (api_tree s [(1, WMap true)]) = 0.
Proof. vm_compute. repeat split; reflexivity. Qed.

Print Assumptions FX_map_wf.
Print Assumptions TX_map_wf.
Print Assumptions sound2_empty.
Print Assumptions warm2_all.
Print Assumptions warm_stream_wf.
Print Assumptions stream_sound2.
Print Assumptions map_of_sound2.
Print Assumptions warm_strict.
Print Assumptions warm_text_ne.
Print Assumptions warm_map_wf.
Print Assumptions warm_get_map_wf.
Print Assumptions hops_sound2.
Print Assumptions warm_sound2.
Print Assumptions chk_C11_warm.
Print Assumptions chk_C11_warm_any.
Print Assumptions C11_warm_streams.
Print Assumptions C11_warm_map.
Print Assumptions C11_warm_checker.
Print Assumptions w_tree_C11.
Print Assumptions k1_entry_exempt.
