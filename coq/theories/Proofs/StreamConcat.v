(* Stream proofs, part 4: ConcatSource in the text-carrying mode (L6). *)
From RS Require Import Base.Prelude Base.Text Rope.RopeModel Stream.Types Stream.Leaves
  Stream.Concat Stream.Replace Stream.Tree Checkers.ChkTree
  Proofs.StreamText Proofs.StreamLeaves.
Require Import Lia List.

Local Open Scope N_scope.

Ltac peq := unfold text, byte in *; apply (f_equal2 (@pair N N)); lia.

(* ------------------------------------------------------------------ *)
(* shifting positions by the offsets of a ConcatSource child            *)
(* ------------------------------------------------------------------ *)
Definition shift (loff coff : N) (p : N * N) : N * N :=
  (fst p + loff, if fst p =? 1 then snd p + coff else snd p).

Lemma advance_shift loff coff t : forall l c, 1 <= l ->
  advance (l + loff) (if l =? 1 then c + coff else c) t = shift loff coff (advance l c t).
Proof.
  induction t as [|b t IH]; intros l c Hl; [reflexivity|].
  cbn [advance]. destruct (b =? NL).
  - rewrite <- (IH (l + 1) 0) by lia.
    replace (l + 1 =? 1) with false by (symmetry; apply N.eqb_neq; lia).
    f_equal. lia.
  - rewrite <- (IH l (c + 1)) by lia. f_equal. destruct (l =? 1); lia.
Qed.

Lemma adv_shift loff coff p t : 1 <= fst p -> adv (shift loff coff p) t = shift loff coff (adv p t).
Proof. intros H. unfold adv, shift at 1 2. cbn [fst snd]. apply advance_shift. exact H. Qed.

(* chunk lists related by the shift *)
Definition chunk_rel (loff coff : N) (a b : option text * mapping) : Prop :=
  fst b = fst a /\ g_line (snd b) = g_line (snd a) + loff /\
  g_col (snd b) = (if g_line (snd a) =? 1 then g_col (snd a) + coff else g_col (snd a)).

Lemma shift_texts loff coff chs chs' :
  Forall2 (chunk_rel loff coff) chs chs' -> map fst chs' = map fst chs.
Proof.
  induction 1 as [|a b chs chs' [H _] _ IH]; [reflexivity|]. cbn [map]. rewrite H, IH. reflexivity.
Qed.

Lemma shift_wp loff coff chs chs' : Forall2 (chunk_rel loff coff) chs chs' ->
  forall p, 1 <= fst p -> well_positioned chs (fst p) (snd p) = true ->
  well_positioned chs' (fst (shift loff coff p)) (snd (shift loff coff p)) = true.
Proof.
  induction 1 as [|[ta ma] [tb mb] chs chs' [H1 [H2 H3]] _ IH]; intros p Hp Hw; [reflexivity|].
  cbn [fst snd] in H1, H2, H3. subst tb. cbn [well_positioned] in *.
  destruct ta as [t|]; [|discriminate].
  apply andb_true_iff in Hw. destruct Hw as [Hw Hw3]. apply andb_true_iff in Hw.
  destruct Hw as [Hw1 Hw2]. apply N.eqb_eq in Hw1. apply N.eqb_eq in Hw2.
  rewrite H2, H3, Hw1, Hw2. unfold shift at 1 2. cbn [fst snd]. rewrite !N.eqb_refl. cbn [andb].
  pose proof (adv_shift loff coff p t Hp) as Hs. unfold adv in Hs.
  rewrite Hs.
  pose proof (advance_line_ge (fst p) (snd p) t) as Hge.
  destruct (advance (fst p) (snd p) t) as [l' c'] eqn:E. cbn [fst] in Hge.
  specialize (IH (l', c')). cbn [fst snd] in IH.
  destruct (shift loff coff (l', c')) as [l2 c2] eqn:E2. cbn [fst snd] in IH. apply IH; [lia|exact Hw3].
Qed.

(* ------------------------------------------------------------------ *)
(* concat_event / concat_events with final = false, nothing to close     *)
(* ------------------------------------------------------------------ *)
Definition same_offsets (st st' : cstate) : Prop :=
  c_loff st' = c_loff st /\ c_coff st' = c_coff st /\ c_close st' = false.

Lemma concat_event_spec st e : c_close st = false ->
  same_offsets st (fst (concat_event false st e)) /\
  Forall2 (chunk_rel (c_loff st) (c_coff st)) (chunks_of [e]) (chunks_of (snd (concat_event false st e))).
Proof.
  intros Hc. destruct e as [chunk m|i name content|i name]; cbn [concat_event].
  - rewrite Hc. cbn [andb app].
    destruct (m_orig m) as [o|]; [destruct (lm_get (c_src_idx st) (o_src o))|];
      cbn [fst snd chunks_of c_loff c_coff c_close]; (split; [split; [reflexivity|split; reflexivity]|]);
      (constructor; [|constructor]); unfold chunk_rel; cbn [fst snd g_line g_col unmapped];
      (split; [reflexivity|split; reflexivity]).
  - destruct (find_text (c_sources st) name 0); cbn [fst snd chunks_of c_loff c_coff c_close];
      (split; [split; [reflexivity|split; [reflexivity|exact Hc]]|constructor]).
  - destruct (find_text (c_names st) name 0); cbn [fst snd chunks_of c_loff c_coff c_close];
      (split; [split; [reflexivity|split; [reflexivity|exact Hc]]|constructor]).
Qed.

Lemma concat_events_spec evs : forall st, c_close st = false ->
  same_offsets st (fst (concat_events false st evs)) /\
  Forall2 (chunk_rel (c_loff st) (c_coff st)) (chunks_of evs) (chunks_of (snd (concat_events false st evs))).
Proof.
  induction evs as [|e evs IH]; intros st Hc.
  - cbn [concat_events fst snd chunks_of]. split; [split; [reflexivity|split; [reflexivity|exact Hc]]|constructor].
  - cbn [concat_events]. pose proof (concat_event_spec st e Hc) as [[A1 [A2 A3]] A4].
    destruct (concat_event false st e) as [st1 o1]. cbn [fst snd] in *.
    pose proof (IH st1 A3) as [[B1 [B2 B3]] B4].
    destruct (concat_events false st1 evs) as [st2 o2]. cbn [fst snd] in *.
    split; [split; [congruence|split; [congruence|exact B3]]|].
    rewrite A1, A2 in B4. change (e :: evs) with ([e] ++ evs). rewrite !chunks_of_app.
    apply Forall2_app; assumption.
Qed.

(* ------------------------------------------------------------------ *)
(* one child                                                           *)
(* ------------------------------------------------------------------ *)
Definition cpos (st : cstate) : N * N := (c_loff st + 1, c_coff st).

Lemma shift_start st : shift (c_loff st) (c_coff st) (1, 0) = cpos st.
Proof. unfold shift, cpos. cbn [fst snd]. change (1 =? 1) with true. cbn iota. peq. Qed.

Lemma chunk_texts_map evs : chunk_texts evs = map fst (chunks_of evs).
Proof.
  induction evs as [|e evs IH]; [reflexivity|]. destruct e; cbn [chunk_texts chunks_of map fst]; rewrite IH; reflexivity.
Qed.

Lemma concat_child_spec st evs gi t :
  c_close st = false -> Reass evs t -> gi = advance 1 0 t ->
  c_close (fst (concat_child false st evs gi)) = false /\
  Reass (snd (concat_child false st evs gi)) t /\
  cpos (fst (concat_child false st evs gi)) = adv (cpos st) t /\
  (WP evs (1, 0) -> WP (snd (concat_child false st evs gi)) (cpos st)).
Proof.
  intros Hc Hr Hgi. unfold concat_child.
  assert (Hc0 : c_close (concat_child_start st) = false) by exact Hc.
  pose proof (concat_events_spec evs (concat_child_start st) Hc0) as [[A1 [A2 A3]] A4].
  destruct (concat_events false (concat_child_start st) evs) as [st1 o1]. cbn [fst snd] in *.
  change (c_loff (concat_child_start st)) with (c_loff st) in *.
  change (c_coff (concat_child_start st)) with (c_coff st) in *.
  unfold concat_child_end. rewrite A3. cbn [andb orb fst snd c_close app].
  rewrite app_nil_r.
  split; [reflexivity|]. split.
  { destruct Hr as [ts [H1 H2]]. exists ts. split; [|exact H2].
    rewrite chunk_texts_map, (shift_texts _ _ _ _ A4), <- chunk_texts_map. exact H1. }
  split.
  { rewrite <- (shift_start st), adv_shift by (cbn; lia).
    unfold adv. cbn [fst snd]. rewrite <- Hgi. unfold cpos, shift. cbn [c_loff c_coff].
    rewrite A1, A2.
    pose proof (advance_line_ge 1 0 t) as Hge. rewrite <- Hgi in Hge.
    destruct (1 <? fst gi) eqn:E1.
    - apply N.ltb_lt in E1. replace (fst gi =? 1) with false by (symmetry; apply N.eqb_neq; lia). peq.
    - apply N.ltb_ge in E1. replace (fst gi =? 1) with true by (symmetry; apply N.eqb_eq; lia). peq. }
  intros Hw. rewrite <- (shift_start st). unfold WP.
  apply (shift_wp _ _ _ _ A4 (1, 0)); [cbn; lia|exact Hw].
Qed.

(* ------------------------------------------------------------------ *)
(* L6: the fold over children                                          *)
(* ------------------------------------------------------------------ *)
Definition concat_fold (final : bool) (cs : list (list event * (N * N))) (acc : cstate * list event)
  : cstate * list event :=
  fold_left (fun acc c =>
               let '(st, out) := acc in
               let '(st', o) := concat_child final st (fst c) (snd c) in
               (st', out ++ o)) cs acc.

(* invariant of the fold: T is the text emitted so far *)
Definition cinv (acc : cstate * list event) (T : text) : Prop :=
  c_close (fst acc) = false /\ Reass (snd acc) T /\ cpos (fst acc) = adv (1, 0) T.

Lemma cinv_step acc T evs gi t :
  cinv acc T -> Reass evs t -> gi = advance 1 0 t ->
  let acc' := (fst (concat_child false (fst acc) evs gi), snd acc ++ snd (concat_child false (fst acc) evs gi)) in
  cinv acc' (T ++ t) /\ (WP (snd acc) (1, 0) -> WP evs (1, 0) -> WP (snd acc') (1, 0)).
Proof.
  intros [I1 [I2 I3]] Hr Hgi. pose proof (concat_child_spec (fst acc) evs gi t I1 Hr Hgi) as [A1 [A2 [A3 A4]]].
  cbn zeta. unfold cinv. cbn [fst snd]. split.
  - split; [exact A1|]. split; [apply Reass_app; assumption|].
    rewrite A3, I3, adv_app. reflexivity.
  - intros Hw1 Hw2. apply (WP_app (snd acc) _ (1, 0) T I2 Hw1). rewrite <- I3. apply A4. exact Hw2.
Qed.

Lemma cinv_init : cinv (concat_init, []) [].
Proof. split; [reflexivity|]. split; [apply Reass_nil|reflexivity]. Qed.

Definition tr_events (tr : list event * (N * N) * text) : list event := fst (fst tr).
Definition tr_info (tr : list event * (N * N) * text) : N * N := snd (fst tr).
Definition tr_text (tr : list event * (N * N) * text) : text := snd tr.

Lemma concat_fold_inv (trs : list (list event * (N * N) * text)) : forall acc T,
  cinv acc T ->
  Forall (fun tr => Reass (tr_events tr) (tr_text tr) /\ tr_info tr = advance 1 0 (tr_text tr)) trs ->
  cinv (concat_fold false (map fst trs) acc) (T ++ concat (map tr_text trs)) /\
  (WP (snd acc) (1, 0) -> Forall (fun tr => WP (tr_events tr) (1, 0)) trs ->
   WP (snd (concat_fold false (map fst trs) acc)) (1, 0)).
Proof.
  induction trs as [|[[evs gi] t] trs IH]; intros acc T HI HF.
  - cbn [map concat concat_fold fold_left]. rewrite app_nil_r. split; [exact HI|intros H _; exact H].
  - inversion HF as [|? ? [H1 H2] HF']. subst. unfold tr_events, tr_info, tr_text in H1, H2. cbn [fst snd] in H1, H2.
    pose proof (cinv_step acc T evs gi t HI H1 H2) as [A1 A2]. cbn zeta in A1, A2.
    cbn [map concat]. unfold concat_fold. cbn [fold_left fst snd]. fold (concat_fold false (map fst trs)).
    destruct acc as [st out]. cbn [fst snd] in *.
    destruct (concat_child false st evs gi) as [st' o]. cbn [fst snd] in *.
    pose proof (IH (st', out ++ o) (T ++ t) A1 HF') as [B1 B2].
    unfold tr_text at 2. cbn [snd]. rewrite app_assoc. split; [exact B1|].
    intros Hw HFw. inversion HFw as [|? ? Hw1 HFw']. subst. apply B2; [|exact HFw'].
    apply A2; [exact Hw|exact Hw1].
Qed.

(* L6 as stated: triples (events, end info, text) of the children *)
Theorem concat_fold_good (trs : list (list event * (N * N) * text)) :
  Forall (fun tr => reassembles (tr_events tr) (tr_text tr) = true /\
                    well_positioned (chunks_of (tr_events tr)) 1 0 = true /\
                    tr_info tr = advance 1 0 (tr_text tr)) trs ->
  let r := concat_fold false (map fst trs) (concat_init, []) in
  reassembles (snd r) (concat (map tr_text trs)) = true /\
  well_positioned (chunks_of (snd r)) 1 0 = true /\
  concat_result (fst r) = advance 1 0 (concat (map tr_text trs)).
Proof.
  intros HF. cbn zeta.
  assert (HF1 : Forall (fun tr => Reass (tr_events tr) (tr_text tr) /\ tr_info tr = advance 1 0 (tr_text tr)) trs).
  { eapply Forall_impl; [|exact HF]. cbn beta. intros tr [H1 [_ H3]]. split; [apply reassembles_iff; exact H1|exact H3]. }
  assert (HF2 : Forall (fun tr => WP (tr_events tr) (1, 0)) trs).
  { eapply Forall_impl; [|exact HF]. cbn beta. intros tr [_ [H2 _]]. exact H2. }
  pose proof (concat_fold_inv trs (concat_init, []) [] cinv_init HF1) as [[A1 [A2 A3]] A4].
  cbn [app] in *. split; [apply reassembles_iff; exact A2|]. split; [apply A4; [apply WP_nil|exact HF2]|].
  exact A3.
Qed.

(* the reassembly / end-position part does not need the children to be well positioned *)
Theorem concat_fold_reassembles (trs : list (list event * (N * N) * text)) :
  Forall (fun tr => reassembles (tr_events tr) (tr_text tr) = true /\
                    tr_info tr = advance 1 0 (tr_text tr)) trs ->
  let r := concat_fold false (map fst trs) (concat_init, []) in
  reassembles (snd r) (concat (map tr_text trs)) = true /\
  concat_result (fst r) = advance 1 0 (concat (map tr_text trs)).
Proof.
  intros HF. cbn zeta.
  assert (HF1 : Forall (fun tr => Reass (tr_events tr) (tr_text tr) /\ tr_info tr = advance 1 0 (tr_text tr)) trs).
  { eapply Forall_impl; [|exact HF]. cbn beta. intros tr [H1 H3]. split; [apply reassembles_iff; exact H1|exact H3]. }
  pose proof (concat_fold_inv trs (concat_init, []) [] cinv_init HF1) as [[A1 [A2 A3]] A4].
  cbn [app] in *. split; [apply reassembles_iff; exact A2|exact A3].
Qed.

Print Assumptions concat_fold_good.
Print Assumptions concat_fold_reassembles.
