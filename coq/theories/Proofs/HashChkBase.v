(* C20, "the checker accepts the model", part 1 (G1, G3).
   `chk_C20_pair a b (api_pair a opsa b opsb)` never answers 1, 2 or 3, whatever the two trees
   and whatever the two observer histories - no class hypothesis:
     - the recorded hash answers (positions 0 and 7 of po_a / po_b) are the hasher streams of
       the trees: hashing reads no store (EqObsHist.final_hash_0 / final_hash_7);
     - `hevs_eqb` reflects Leibniz equality of hasher streams (hevs_eqb_eq), so the test that
       tells code 56 from code 1 is the test made on the recorded hashes: 1 is impossible and
       56 carries `hash_events a = hash_events b`; the checker gives 56 (K6) only when one of
       the trees is not `delimited` (C20_56_only_outside_delimited) - on two delimited trees
       with coinciding hasher streams it answers 100: by HashInjective.hash_injective the trees
       are then equal up to what the hash ignores, outside the quantifier of the property
       (Proofs/HashChkDelim.v shows what the recorded observations can still differ by);
     - `po_eq` is `src_eqb a b`, and `==` survives the erasure of the SourceMapSource names
       (src_eqb_erase_sms_names), so beyond the first test `==` is false: 2 is impossible;
     - `==` implies equal hasher streams (eq_implies_hash): 3 is impossible.
   `C20_verdict_form` is the exact value of the checker on the model.
   Witnesses (G3) at the end. *)
From RS Require Import Base.Prelude Base.Text Rope.RopeModel Codec.Vlq
  Stream.Types Stream.Leaves Stream.Concat Stream.Replace Stream.Combined Stream.Tree
  Api.ApiTree Sem.Attr Sem.HashEq Api.ApiHist Checkers.ChkTree Checkers.ChkHist
  Proofs.HashEqBasic Proofs.HashInjective Proofs.CacheReplay Proofs.EqObsTree Proofs.EqObsHist
  Proofs.HashObsTree Proofs.HashObsInner.
Require Import Lia List Bool.
Import ListNotations.

Local Open Scope N_scope.

(* ------------------------------------------------------------------ *)
(* the boolean equality of hasher streams reflects Leibniz equality     *)
(* ------------------------------------------------------------------ *)
Lemma hev_eqb_sound : forall h h', hev_eqb h h' = true -> h = h'.
Proof.
  apply (hev_ind' (fun h => forall h', hev_eqb h h' = true -> h = h')).
  - intros t [t'|n|n|n|n|l] H; cbn [hev_eqb] in H; try discriminate.
    apply text_eqb_eq in H. subst. reflexivity.
  - intros n [t'|n'|n'|n'|n'|l] H; cbn [hev_eqb] in H; try discriminate.
    apply N.eqb_eq in H. subst. reflexivity.
  - intros n [t'|n'|n'|n'|n'|l] H; cbn [hev_eqb] in H; try discriminate.
    apply N.eqb_eq in H. subst. reflexivity.
  - intros n [t'|n'|n'|n'|n'|l] H; cbn [hev_eqb] in H; try discriminate.
    apply N.eqb_eq in H. subst. reflexivity.
  - intros n [t'|n'|n'|n'|n'|l] H; cbn [hev_eqb] in H; try discriminate.
    apply N.eqb_eq in H. subst. reflexivity.
  - intros l IH [t'|n'|n'|n'|n'|l'] H; cbn [hev_eqb] in H; try discriminate.
    f_equal. revert l' H. induction IH as [|x l Hx _ IHl]; intros [|y l'] H; try discriminate.
    + reflexivity.
    + apply andb_true_iff in H. destruct H as [H1 H2].
      rewrite (Hx y H1), (IHl l' H2). reflexivity.
Qed.

Theorem hevs_eqb_eq (x y : list hev) : hevs_eqb x y = true <-> x = y.
Proof.
  split.
  - unfold hevs_eqb. revert y. induction x as [|u x IH]; intros [|v y] H; cbn [list_eqb] in H;
      try discriminate; [reflexivity|].
    apply andb_true_iff in H. destruct H as [H1 H2].
    rewrite (hev_eqb_sound u v H1), (IH y H2). reflexivity.
  - intros H. subst. apply hevs_eqb_refl.
Qed.

(* ------------------------------------------------------------------ *)
(* `==` survives the erasure of the SourceMapSource names               *)
(* ------------------------------------------------------------------ *)
Lemma erase_sms_names_erase_ids (s : src) :
  erase_ids (erase_sms_names s) = erase_sms_names (erase_ids s).
Proof.
  induction s as [b v|v|v|v n|v n m o i r|cs IH|inner rs IH|id inner IH]
    using src_nested_ind; try reflexivity.
  - cbn [erase_ids erase_sms_names]. f_equal. rewrite !map_map.
    induction IH as [|x l Hx _ IHl]; [reflexivity|]. cbn [map]. rewrite Hx, IHl. reflexivity.
  - cbn [erase_ids erase_sms_names]. rewrite IH. reflexivity.
  - cbn [erase_ids erase_sms_names]. rewrite IH. reflexivity.
Qed.

Theorem src_eqb_erase_sms_names (a b : src) :
  src_eqb a b = true -> src_eqb (erase_sms_names a) (erase_sms_names b) = true.
Proof.
  intros H. apply src_eqb_spec in H. apply src_eqb_spec.
  rewrite !erase_sms_names_erase_ids, H. reflexivity.
Qed.

(* the hasher stream does not see the erased names *)
Lemma hash_erase_sms_names (s : src) : hash_events (erase_sms_names s) = hash_events s.
Proof.
  induction s as [b v|v|v|v n|v n m o i r|cs IH|inner rs IH|id inner IH]
    using src_nested_ind; try reflexivity.
  - cbn [erase_sms_names hash_events]. rewrite (flat_map_map_ext hash_events erase_sms_names cs IH).
    reflexivity.
  - cbn [erase_sms_names hash_events]. rewrite IH. reflexivity.
  - cbn [erase_sms_names hash_events]. rewrite IH. reflexivity.
Qed.

Corollary erase_sms_names_eq_hash (a b : src) :
  src_eqb (erase_sms_names a) (erase_sms_names b) = true -> hash_events a = hash_events b.
Proof.
  intros H. rewrite <- (hash_erase_sms_names a), <- (hash_erase_sms_names b).
  apply eq_implies_hash. exact H.
Qed.

(* the form used by the checker: trees that differ beyond the excluded name compare unequal *)
Corollary erase_sms_names_unequal (a b : src) :
  src_eqb (erase_sms_names a) (erase_sms_names b) = false -> src_eqb a b = false.
Proof.
  intros H. destruct (src_eqb a b) eqn:E; [|reflexivity].
  rewrite (src_eqb_erase_sms_names a b E) in H. discriminate H.
Qed.

(* ------------------------------------------------------------------ *)
(* what `api_pair` records                                              *)
(* ------------------------------------------------------------------ *)
(* the store each side is in when the final observations are taken *)
Definition store_after (s : src) (ops : list hop) : store := snd (run_hops [] s ops).

Lemma api_pair_po_a a opsa b opsb :
  po_a (api_pair a opsa b opsb) = fst (run_hops (store_after a opsa) a final_ops).
Proof. reflexivity. Qed.

Lemma api_pair_po_b a opsa b opsb :
  po_b (api_pair a opsa b opsb) = fst (run_hops (store_after b opsb) b final_ops).
Proof. reflexivity. Qed.

(* the recorded hash answers, on both sides, before and after the other observers *)
Theorem recorded_hashes (a b : src) (opsa opsb : list hop) :
  let o := api_pair a opsa b opsb in
  nth_ans (po_a o) 0 = AHash (hash_events a) /\ nth_ans (po_a o) 7 = AHash (hash_events a) /\
  nth_ans (po_b o) 0 = AHash (hash_events b) /\ nth_ans (po_b o) 7 = AHash (hash_events b).
Proof.
  cbn zeta. rewrite api_pair_po_a, api_pair_po_b.
  rewrite !final_hash_0, !final_hash_7. repeat split; reflexivity.
Qed.

(* the text views and maps recorded at positions 1-4 *)
Lemma final_answers (s : src) (st : store) :
  let st1 := snd (map_of st s true) in
  nth_ans (fst (run_hops st s final_ops)) 1 = AText (source s) /\
  nth_ans (fst (run_hops st s final_ops)) 2 = AText (buffer s) /\
  nth_ans (fst (run_hops st s final_ops)) 3 = AMap (fst (map_of st s true)) /\
  nth_ans (fst (run_hops st s final_ops)) 4 = AMap (fst (map_of st1 s false)).
Proof.
  cbn zeta. unfold final_ops. cbn [run_hops run_hop].
  destruct (map_of st s true) as [m1 st1]. cbn [fst snd].
  destruct (map_of st1 s false) as [m2 st2].
  destruct (stream st2 s (mkOpts true false)) as [[e1 g1] st3].
  destruct (stream st3 s (mkOpts false false)) as [[e2 g2] st4].
  cbn [fst snd]. repeat split; reflexivity.
Qed.

(* ------------------------------------------------------------------ *)
(* the checker on the model: its exact value                            *)
(* ------------------------------------------------------------------ *)
(* the checker's `differ`, spelled on the model *)
Definition recorded_differ (a b : src) (opsa opsb : list hop) : bool :=
  let o := api_pair a opsa b opsb in
  negb (text_eqb (get_text (nth_ans (po_a o) 1)) (get_text (nth_ans (po_b o) 1)))
  || negb (text_eqb (get_text (nth_ans (po_a o) 2)) (get_text (nth_ans (po_b o) 2)))
  || maps_differ (get_map (nth_ans (po_a o) 3)) (get_map (nth_ans (po_b o) 3))
  || maps_differ (get_map (nth_ans (po_a o) 4)) (get_map (nth_ans (po_b o) 4)).

Theorem C20_verdict_form (a b : src) (opsa opsb : list hop) :
  chk_C20_pair a b (api_pair a opsa b opsb) =
  if negb (tree_wf a && tree_wf b) then 100
  else if src_eqb (erase_sms_names a) (erase_sms_names b) then (if src_eqb a b then 0 else 100)
  else if recorded_differ a b opsa opsb && hevs_eqb (hash_events a) (hash_events b) then
    (if delimited a && delimited b then 100 else 56)
  else 0.
Proof.
  unfold chk_C20_pair, recorded_differ.
  destruct (recorded_hashes a b opsa opsb) as (H0a & H7a & H0b & H7b).
  rewrite H0a, H7a, H0b, H7b. cbn [get_hash].
  replace (po_eq (api_pair a opsa b opsb)) with (src_eqb a b) by reflexivity.
  destruct (negb (tree_wf a && tree_wf b)); [reflexivity|].
  destruct (src_eqb (erase_sms_names a) (erase_sms_names b)) eqn:Ee.
  - destruct (src_eqb a b) eqn:E; [|reflexivity].
    rewrite (eq_implies_hash a b E), !hevs_eqb_refl. reflexivity.
  - rewrite (erase_sms_names_unequal a b Ee).
    match goal with |- (if ?d then _ else _) = _ => destruct d end; [|reflexivity].
    cbn [andb]. destruct (hevs_eqb (hash_events a) (hash_events b)); reflexivity.
Qed.

(* G1: codes 1, 2 and 3 never occur on the model; 56 only with coinciding hasher streams and
   outside the delimited class *)
Theorem C20_checker_accepts_model (a b : src) (opsa opsb : list hop) :
  chk_C20_pair a b (api_pair a opsa b opsb) = 0 \/
  chk_C20_pair a b (api_pair a opsa b opsb) = 100 \/
  (hash_events a = hash_events b /\ (delimited a && delimited b) = false /\
   chk_C20_pair a b (api_pair a opsa b opsb) = 56).
Proof.
  rewrite C20_verdict_form.
  destruct (negb (tree_wf a && tree_wf b)); [right; left; reflexivity|].
  destruct (src_eqb (erase_sms_names a) (erase_sms_names b)).
  - destruct (src_eqb a b); [left; reflexivity|right; left; reflexivity].
  - destruct (recorded_differ a b opsa opsb); cbn [andb]; [|left; reflexivity].
    destruct (hevs_eqb (hash_events a) (hash_events b)) eqn:E; [|left; reflexivity].
    destruct (delimited a && delimited b); [right; left; reflexivity|].
    right. right. split; [apply hevs_eqb_eq; exact E|]. split; reflexivity.
Qed.

Corollary C20_checker_never_1_2_3 (a b : src) (opsa opsb : list hop) :
  let r := chk_C20_pair a b (api_pair a opsa b opsb) in r <> 1 /\ r <> 2 /\ r <> 3.
Proof.
  cbn zeta. destruct (C20_checker_accepts_model a b opsa opsb) as [H|[H|(_ & _ & H)]];
    rewrite H; repeat split; discriminate.
Qed.

(* the K6 verdict is given outside the delimited class only: no hypothesis on the trees, the
   histories or the caches *)
Theorem C20_56_only_outside_delimited (a b : src) (opsa opsb : list hop) :
  chk_C20_pair a b (api_pair a opsa b opsb) = 56 -> delimited a = false \/ delimited b = false.
Proof.
  intros H. destruct (C20_checker_accepts_model a b opsa opsb) as [E|[E|(_ & Hd & _)]];
    [rewrite E in H; discriminate H|rewrite E in H; discriminate H|].
  apply andb_false_iff. exact Hd.
Qed.

(* when exactly each verdict is given *)
Corollary C20_verdict_56_iff (a b : src) (opsa opsb : list hop) :
  chk_C20_pair a b (api_pair a opsa b opsb) = 56 <->
  tree_wf a = true /\ tree_wf b = true /\
  src_eqb (erase_sms_names a) (erase_sms_names b) = false /\
  recorded_differ a b opsa opsb = true /\ hash_events a = hash_events b /\
  (delimited a && delimited b) = false.
Proof.
  rewrite C20_verdict_form. split.
  - destruct (tree_wf a), (tree_wf b); cbn [andb negb]; try discriminate.
    destruct (src_eqb (erase_sms_names a) (erase_sms_names b)).
    + destruct (src_eqb a b); discriminate.
    + destruct (recorded_differ a b opsa opsb); cbn [andb]; [|discriminate].
      destruct (hevs_eqb (hash_events a) (hash_events b)) eqn:E; [|discriminate].
      destruct (delimited a && delimited b); [discriminate|].
      intros _. repeat split. apply hevs_eqb_eq. exact E.
  - intros (Wa & Wb & Ee & Hd & Hh & Hc).
    rewrite Wa, Wb, Ee, Hd, Hh, hevs_eqb_refl, Hc. reflexivity.
Qed.

(* the outside-the-domain verdict: ill-formed trees; trees that differ in nothing but names of
   SourceMapSources (the name is deliberately not hashed); or two delimited trees with the same
   hasher stream - equal up to what the hash ignores - whose recorded observations differ *)
Definition plain_100 (a b : src) : Prop :=
  tree_wf a && tree_wf b = false \/
  (src_eqb (erase_sms_names a) (erase_sms_names b) = true /\ src_eqb a b = false).

Definition delimited_100 (a b : src) (opsa opsb : list hop) : Prop :=
  tree_wf a = true /\ tree_wf b = true /\
  src_eqb (erase_sms_names a) (erase_sms_names b) = false /\
  recorded_differ a b opsa opsb = true /\ hash_events a = hash_events b /\
  delimited a = true /\ delimited b = true.

Corollary C20_verdict_100_iff (a b : src) (opsa opsb : list hop) :
  chk_C20_pair a b (api_pair a opsa b opsb) = 100 <->
  plain_100 a b \/ delimited_100 a b opsa opsb.
Proof.
  unfold plain_100, delimited_100. rewrite C20_verdict_form. split.
  - destruct (tree_wf a), (tree_wf b); cbn [andb negb]; try (intros _; left; left; reflexivity).
    destruct (src_eqb (erase_sms_names a) (erase_sms_names b)).
    + destruct (src_eqb a b); [discriminate|]. intros _. left. right. split; reflexivity.
    + destruct (recorded_differ a b opsa opsb); cbn [andb]; [|discriminate].
      destruct (hevs_eqb (hash_events a) (hash_events b)) eqn:E; [|discriminate].
      destruct (delimited a), (delimited b); cbn [andb]; try discriminate.
      intros _. right. repeat split. apply hevs_eqb_eq. exact E.
  - intros [[H|[H1 H2]]|(Wa & Wb & Ee & Hd & Hh & Da & Db)].
    + rewrite H. reflexivity.
    + rewrite H1, H2. destruct (negb (tree_wf a && tree_wf b)); reflexivity.
    + rewrite Wa, Wb, Ee, Hd, Hh, hevs_eqb_refl, Da, Db. reflexivity.
Qed.

(* the separation clause as the property states it: observably different recorded answers and
   different hasher streams - then the recorded hashes differ and `==` is false, verdict 0 *)
Corollary C20_different_hashes_accepted (a b : src) (opsa opsb : list hop) :
  tree_wf a = true -> tree_wf b = true -> hash_events a <> hash_events b ->
  let o := api_pair a opsa b opsb in
  chk_C20_pair a b o = 0 /\ po_eq o = false /\
  hevs_eqb (get_hash (nth_ans (po_a o) 0)) (get_hash (nth_ans (po_b o) 0)) = false.
Proof.
  intros Wa Wb Hh. cbn zeta.
  assert (E : src_eqb a b = false).
  { destruct (src_eqb a b) eqn:E; [|reflexivity]. exfalso. exact (Hh (eq_implies_hash a b E)). }
  assert (Hb : hevs_eqb (hash_events a) (hash_events b) = false).
  { destruct (hevs_eqb (hash_events a) (hash_events b)) eqn:F; [|reflexivity].
    exfalso. apply Hh. apply hevs_eqb_eq. exact F. }
  split; [|split].
  - rewrite C20_verdict_form, Wa, Wb, E, Hb, andb_false_r. cbn [andb negb].
    destruct (src_eqb (erase_sms_names a) (erase_sms_names b)) eqn:Ee; [|reflexivity].
    exfalso. exact (Hh (erase_sms_names_eq_hash a b Ee)).
  - exact E.
  - destruct (recorded_hashes a b opsa opsb) as (H0a & _ & H0b & _).
    rewrite H0a, H0b. exact Hb.
Qed.

(* ------------------------------------------------------------------ *)
(* G3: witnesses                                                        *)
(* ------------------------------------------------------------------ *)
(* the K6 pair of HashInjective.hash_not_injective / Props.C20.C20_K6_refuted *)
Definition k6_a : src :=
  SConcat [SReplace (SConcat [SRaw false [97]; SRaw false [98]]) [mkRepl 9 9 [120] None 1];
           SRaw false [99]].
Definition k6_b : src :=
  SConcat [SReplace (SConcat [SRaw false [97]; SRaw false [98]; SRaw false [99]])
             [mkRepl 9 9 [120] None 1]].

Example K6_pair_is_the_refutation :
  hash_events k6_a = hash_events k6_b /\ source k6_a <> source k6_b /\
  delimited k6_a = false /\ delimited k6_b = false.
Proof. split; [vm_compute; reflexivity|]. split; [vm_compute; discriminate|]. split; reflexivity. Qed.

Example K6_pair_verdict_56 :
  chk_C20_pair k6_a k6_b (api_pair k6_a [] k6_b []) = 56 /\
  chk_C20_pair k6_a k6_b (api_pair k6_a [OMap true; OStream false false] k6_b [OStream true true]) = 56.
Proof. split; vm_compute; reflexivity. Qed.

(* ... whatever the histories: the trees have no cache *)
Example K6_pair_verdict_56_any (opsa opsb : list hop) :
  chk_C20_pair k6_a k6_b (api_pair k6_a opsa k6_b opsb) = 56.
Proof.
  (* source() does not read the store: the first disjunct of `differ` computes to true *)
  apply C20_verdict_56_iff. repeat split; vm_compute; reflexivity.
Qed.

(* one edit apart (the text of a leaf): verdict 0, the recorded hashes differ *)
Definition edit_a : src := SConcat [SOriginal [97; 10] [102]; SRaw false [98]].
Definition edit_b : src := SConcat [SOriginal [97; 10] [102]; SRaw false [99]].

Example edit_pair_verdict_0 :
  let o := api_pair edit_a [OMap false] edit_b [OStream true false; OSrc] in
  chk_C20_pair edit_a edit_b o = 0 /\
  hevs_eqb (get_hash (nth_ans (po_a o) 0)) (get_hash (nth_ans (po_b o) 0)) = false /\
  get_text (nth_ans (po_a o) 1) <> get_text (nth_ans (po_b o) 1) /\ po_eq o = false.
Proof.
  cbn zeta. split; [vm_compute; reflexivity|]. split; [vm_compute; reflexivity|].
  split; [vm_compute; discriminate|vm_compute; reflexivity].
Qed.

Example edit_pair_verdict_0_any (opsa opsb : list hop) :
  chk_C20_pair edit_a edit_b (api_pair edit_a opsa edit_b opsb) = 0.
Proof.
  apply (C20_different_hashes_accepted edit_a edit_b opsa opsb); try reflexivity.
  vm_compute. discriminate.
Qed.

(* a pair that differs only in the name of a SourceMapSource: outside the domain (the name is
   deliberately not hashed), although map() tells the two apart (HashObsInner.N4_name_observable) *)
Example name_pair_verdict_100 :
  chk_C20_pair n4_a n4_b (api_pair n4_a [] n4_b []) = 100 /\
  hash_events n4_a = hash_events n4_b /\ recorded_differ n4_a n4_b [] [] = true.
Proof. split; [vm_compute; reflexivity|]. split; vm_compute; reflexivity. Qed.

Example name_pair_verdict_100_any (opsa opsb : list hop) :
  chk_C20_pair n4_a n4_b (api_pair n4_a opsa n4_b opsb) = 100.
Proof. apply C20_verdict_100_iff. left. right. split; vm_compute; reflexivity. Qed.

Print Assumptions hevs_eqb_eq.
Print Assumptions src_eqb_erase_sms_names.
Print Assumptions erase_sms_names_unequal.
Print Assumptions recorded_hashes.
Print Assumptions C20_verdict_form.
Print Assumptions C20_checker_accepts_model.
Print Assumptions C20_checker_never_1_2_3.
Print Assumptions C20_56_only_outside_delimited.
Print Assumptions C20_verdict_56_iff.
Print Assumptions C20_verdict_100_iff.
Print Assumptions C20_different_hashes_accepted.
Print Assumptions K6_pair_is_the_refutation.
Print Assumptions K6_pair_verdict_56.
Print Assumptions K6_pair_verdict_56_any.
Print Assumptions edit_pair_verdict_0.
Print Assumptions edit_pair_verdict_0_any.
Print Assumptions name_pair_verdict_100.
Print Assumptions name_pair_verdict_100_any.
