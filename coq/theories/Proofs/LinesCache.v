(* C03 / C10, columns = false, part 4 (L4): a CachedSource over a composite tree
   (ConcatSource / ReplaceSource over raw leaves, OriginalSource, SourceMapSource without
   inner map) is transparent along EVERY history of observer calls, whatever the column
   settings of its map() and stream_chunks calls: `FaithfulCols (fun _ => True)`, from the
   columns = true instance (FinalCache.v) and the columns = false facts of LinesTree.v. *)
From RS Require Import Base.Prelude Base.Text Rope.RopeModel Codec.Vlq Codec.CodecSpec
  Checkers.ChkCodec Stream.Types Stream.Leaves Stream.Concat Stream.Replace Stream.Combined Stream.Tree
  Api.ApiTree Sem.Attr Sem.HashEq Api.ApiHist Checkers.ChkTree Checkers.ChkHist
  Proofs.CodecKept Proofs.CodecMain Proofs.StreamText Proofs.StreamLeaves Proofs.StreamMap
  Proofs.StreamConcat Proofs.StreamTree
  Proofs.RStreamText Proofs.RStreamPos Proofs.RStreamTree
  Proofs.AttrCodec Proofs.AttrSms Proofs.AttrLeaves Proofs.WfFinal Proofs.LawWrappers
  Proofs.CacheStore Proofs.CacheReplay
  Proofs.FinalDense Proofs.FinalReplace Proofs.FinalConcat Proofs.FinalTree Proofs.FinalCache
  Proofs.LinesBase Proofs.LinesSelf Proofs.LinesConcat Proofs.LinesTree.
Require Import Lia List.

Local Open Scope N_scope.

Definition cols_any (c : bool) : Prop := True.

Lemma hop_cols_any (ops : list hop) : Forall (hop_cols cols_any) ops.
Proof.
  induction ops as [|op ops IH]; constructor; [|exact IH].
  destruct op; exact I.
Qed.

Section CompositeFaithfulAll.
Variable a : src.
Hypothesis Hsh : rshape a = true.
Hypothesis Ha : treeA a = true.
Hypothesis Hsm : rsmall a = true.
(* map() of `a` is Tree.get_map (ConcatSource, OriginalSource, ReplaceSource with replacements) *)
Hypothesis Hroot : forall st c, map_of st a c = Tree.get_map st a c.
(* the encoder's domain: all fields of the streamed segments below 2^30 *)
Hypothesis Hsmall : forall c f, forallb mapping_small (chunk_mappings (CacheReplay.evs_of a c f)) = true.

Lemma compL_text_facts :
  Reass (CacheReplay.evs_of a false false) (source a) /\ WP (CacheReplay.evs_of a false false) (1, 0) /\
  NLL (CacheReplay.evs_of a false false) /\ gi_of a false false = advance 1 0 (source a).
Proof.
  pose proof (rgood_all a [] false Hsh Ha Hsm) as [[A1 A2] [A3 [A4 _]]]. cbn zeta in *.
  unfold CacheReplay.evs_of, gi_of. auto.
Qed.

Lemma compL_domain f : enc_domain (chunk_mappings (CacheReplay.evs_of a false f)) = true.
Proof.
  destruct f.
  - apply (final_enc_domain_lines [] a Hsh Ha Hsm (Hsmall false true)).
  - destruct compL_text_facts as [A1 [A2 _]]. destruct (wp_facts _ [] _ A1 A2) as [W1 _].
    unfold enc_domain. rewrite (ssorted_sorted _ W1), (Hsmall false false). reflexivity.
Qed.

Lemma compL_map_fresh : map_fresh a false = map_of_events false (CacheReplay.evs_of a false true).
Proof.
  unfold map_fresh. rewrite Hroot. unfold Tree.get_map, CacheReplay.evs_of.
  destruct (stream [] a (mkOpts false true)) as [[e g] s]. reflexivity.
Qed.

(* the columns = false half *)
Theorem composite_faithful_lines : FaithfulCols (fun c => c = false) a.
Proof.
  destruct (nocache_pure a (rshape_nocache a Hsh)) as [P1 P2].
  destruct compL_text_facts as [A1 [A2 [A3 A4]]].
  pose proof (final_stream_facts_lines [] a Hsh Ha Hsm) as [_ [_ [K3 _]]]. cbn zeta in K3.
  constructor; try assumption.
  - intros c f ->. destruct f; [exact K3|exact A4].
  - intros c ->. apply reassembles_iff. exact A1.
  - intros c f ->. apply attr_codec_dense; [apply dense_tree_any; assumption|apply compL_domain].
  - intros c ->. apply (rshape_self_lines [] a Hsh Ha Hsm).
  - intros c ->. unfold map_fresh. rewrite Hroot.
    apply (get_map_attr_tree_lines [] a Hsh Ha Hsm (Hsmall false true)).
  - intros c f m -> Hm. apply (replayable_events _ false f _ m (compL_domain f)); [|exact Hm].
    intros Hc. discriminate.
  - intros c m -> Hm. rewrite compL_map_fresh in Hm.
    apply (replayable_events _ false false _ m (compL_domain true)); [|exact Hm].
    intros Hc. discriminate.
Qed.

(* both halves *)
Theorem composite_faithful_all : FaithfulCols cols_any a.
Proof.
  pose proof (composite_faithful_cols a Hsh Ha Hsm (fun st => Hroot st true) (Hsmall true true) (Hsmall true false))
    as [T1 T2 T3 T4 T5 T6 T7 T8 T9].
  pose proof composite_faithful_lines as [L1 L2 L3 L4 L5 L6 L7 L8 L9].
  constructor.
  - exact T1.
  - exact T2.
  - intros c f _. destruct c; [apply T3|apply L3]; reflexivity.
  - intros c _. destruct c; [apply T4|apply L4]; reflexivity.
  - intros c f _. destruct c; [apply T5|apply L5]; reflexivity.
  - intros c _. destruct c; [apply T6|apply L6]; reflexivity.
  - intros c _. destruct c; [apply T7|apply L7]; reflexivity.
  - intros c f m _. destruct c; [apply T8|apply L8]; reflexivity.
  - intros c m _. destruct c; [apply T9|apply L9]; reflexivity.
Qed.

(* L4: CachedSource over a composite tree: every answer of every history of observer calls -
   any mix of source/buffer/size/map/stream_chunks/hash/eq calls, any column setting - is
   equivalent to the answer of the fresh wrapped source *)
Theorem cached_composite_transparent_all (id : N) (ops : list hop) :
  answers_equiv (source a) ops (fst (run_hops [] (SCached id a) ops)) (fresh_answers a ops) 0 = 0.
Proof.
  apply (cached_history_transparent_cols id a cols_any composite_faithful_all ops (hop_cols_any ops)).
Qed.

(* and from any store reached by such a history *)
Theorem cached_composite_transparent_all_from (id : N) (ops1 ops2 : list hop) :
  let st := snd (run_hops [] (SCached id a) ops1) in
  answers_equiv (source a) ops2 (fst (run_hops st (SCached id a) ops2)) (fresh_answers a ops2) 0 = 0.
Proof.
  cbn zeta.
  destruct (history_transparent_cols_from id a cols_any composite_faithful_all ops1 [] 0
              (hop_cols_any ops1) (sound_empty id a)) as [_ Hs].
  apply (history_transparent_cols_from id a cols_any composite_faithful_all ops2 _ 0 (hop_cols_any ops2) Hs).
Qed.

End CompositeFaithfulAll.

(* the roots for which map() is Tree.get_map, both column settings *)
Lemma concat_root_any cs st c : map_of st (SConcat cs) c = Tree.get_map st (SConcat cs) c.
Proof. reflexivity. Qed.

Lemma replace_root_any i r rs st c : map_of st (SReplace i (r :: rs)) c = Tree.get_map st (SReplace i (r :: rs)) c.
Proof. reflexivity. Qed.

Corollary cached_concat_transparent_all (id : N) (cs : list src) (ops : list hop) :
  rshape (SConcat cs) = true -> treeA (SConcat cs) = true -> rsmall (SConcat cs) = true ->
  (forall c f, forallb mapping_small (chunk_mappings (CacheReplay.evs_of (SConcat cs) c f)) = true) ->
  answers_equiv (source (SConcat cs)) ops (fst (run_hops [] (SCached id (SConcat cs)) ops))
                (fresh_answers (SConcat cs) ops) 0 = 0.
Proof.
  intros H1 H2 H3 H4.
  apply (cached_composite_transparent_all (SConcat cs) H1 H2 H3 (fun st c => concat_root_any cs st c) H4).
Qed.

Corollary cached_replace_transparent_all (id : N) (i : src) (r : repl) (rs : list repl) (ops : list hop) :
  rshape (SReplace i (r :: rs)) = true -> treeA (SReplace i (r :: rs)) = true -> rsmall (SReplace i (r :: rs)) = true ->
  (forall c f, forallb mapping_small (chunk_mappings (CacheReplay.evs_of (SReplace i (r :: rs)) c f)) = true) ->
  answers_equiv (source (SReplace i (r :: rs))) ops (fst (run_hops [] (SCached id (SReplace i (r :: rs))) ops))
                (fresh_answers (SReplace i (r :: rs)) ops) 0 = 0.
Proof.
  intros H1 H2 H3 H4.
  apply (cached_composite_transparent_all (SReplace i (r :: rs)) H1 H2 H3 (fun st c => replace_root_any i r rs st c) H4).
Qed.

Print Assumptions composite_faithful_lines.
Print Assumptions composite_faithful_all.
Print Assumptions cached_composite_transparent_all.
Print Assumptions cached_concat_transparent_all.
