(* Warm caches over combined-map leaves, part 3: replaying a sound entry.
   The facts of WarmTreeReplay.v about the stream of a replayable map (`mapR`) do not mention the
   class; here they are put together for `good_entry2` / `TG2` / `FG2` (bounds KB2, asrc2, anam2). *)
From RS Require Import Base.Prelude Base.Text Rope.RopeModel Codec.Vlq Codec.CodecSpec
  Checkers.ChkCodec Stream.Types Stream.Leaves Stream.Concat Stream.Replace Stream.Combined Stream.Tree
  Api.ApiTree Sem.Attr Sem.HashEq Api.ApiHist Checkers.ChkTree Checkers.ChkHist
  Proofs.CodecKept Proofs.StreamText Proofs.StreamLeaves Proofs.StreamMap Proofs.StreamConcat Proofs.StreamTree
  Proofs.WfStream Proofs.WfFinal Proofs.RStreamText Proofs.RStreamPos Proofs.RStreamTree
  Proofs.AttrCodec Proofs.AttrSms Proofs.AttrLeaves Proofs.LawConcatAttr Proofs.LawWrappers
  Proofs.CacheStore Proofs.CacheReplay Proofs.FinalDense Proofs.FinalConcat Proofs.FinalTree Proofs.FinalCache
  Proofs.ReplAttrStream Proofs.ReplAttrSms Proofs.LinesBase Proofs.LinesConcat Proofs.LinesTree
  Proofs.ColdCache Proofs.ColdCacheTree Proofs.BoundsPos Proofs.BoundsOrig Proofs.BoundsIdx
  Proofs.CombLeafTree Proofs.WarmTreeDefs Proofs.WarmTreeReplay Proofs.WarmCombBounds Proofs.WarmCombDefs.
Require Import Lia List.

Local Open Scope N_scope.

(* ------------------------------------------------------------------ *)
(* replaying a good entry                                               *)
(* ------------------------------------------------------------------ *)
Theorem replay_TG2 (c : bool) (inner : src) (v : option smap) :
  cls2 inner -> good_entry2 inner c v -> TG2 c inner (replay (source inner) v (mkOpts c false)).
Proof.
  intros Hcl [Hattr Hm]. destruct (cls2_sizes inner Hcl) as [_ [_ [_ Ha]]].
  unfold TG2. destruct v as [m|]; cbn [replay final_source].
  - destruct Hm as [HR [B1 [B2 [B3 B4]]]].
    destruct (replay_text_good _ m Ha HR c) as [G1 [G2 G3]].
    split; [apply replay_dense; exact HR|]. split; [exact G1|]. split; [exact G2|]. split; [exact G3|].
    split.
    { intros ->. unfold sm_stream. cbn [columns final_source]. apply sm_stream_lines_full_ne. }
    split; [apply sm_stream_end|]. split.
    { rewrite (replay_text_attr _ m Ha HR c). exact Hattr. }
    split; [apply sm_stream_b; assumption|].
    destruct (sm_stream_n (source inner) m (mkOpts c false)) as [N1 N2]. split; lia.
  - destruct (raw_text_good (source inner) Ha) as [G1 [G2 G3]].
    split; [apply raw_stream_dense|]. split; [exact G1|]. split; [exact G2|]. split; [exact G3|].
    split; [intros _; apply raw_stream_ne|]. split; [apply raw_stream_end|]. split.
    { rewrite raw_stream_attr. exact Hattr. }
    split; [apply raw_stream_b|]. destruct (raw_stream_n (source inner) false) as [N1 N2]. split; lia.
Qed.

Theorem replay_FG2 (c : bool) (inner : src) (v : option smap) :
  cls2 inner -> good_entry2 inner c v -> FG2 c inner (replay (source inner) v (mkOpts c true)).
Proof.
  intros Hcl [Hattr Hm]. destruct (cls2_sizes inner Hcl) as [_ [_ [_ Ha]]].
  unfold FG2. destruct v as [m|]; cbn [replay final_source].
  - destruct Hm as [HR [B1 [B2 [B3 B4]]]].
    split; [destruct c; [apply (replay_kid_cols _ m HR)|apply (replay_kid_lines _ m HR)]|].
    split; [intros ->; apply (replay_kidL _ m HR)|].
    split; [rewrite (replay_final_attr_m _ m HR c); exact Hattr|].
    split; [apply sm_stream_b; assumption|].
    destruct (sm_stream_n (source inner) m (mkOpts c true)) as [N1 N2]. split; lia.
  - split; [apply raw_kid|]. split; [intros _; apply raw_kidL|].
    split.
    { cbn [attr_of_map] in Hattr. rewrite <- Hattr. unfold attr_of_final_events, raw_stream.
      cbn [fst rsegs_of_events map]. apply attr_by_pos_nil. }
    split; [apply raw_stream_b|]. destruct (raw_stream_n (source inner) true) as [N1 N2]. split; lia.
Qed.

Print Assumptions replay_TG2.
Print Assumptions replay_FG2.
