(* C10 for caches NESTED inside trees, part 1 (W1): definitions.
   `Sound st s`: every entry the store holds for a CachedSource node `SCached id inner` of `s`
   - under any option set - is a `good_entry`: its map attributes the text `source inner`
   exactly as the cache-free tree `uncache inner` does, and it can be replayed (decoded segments
   sorted, on positions of the text, indices inside its tables, fields inside the encoder's
   domain).  `Sound [] s` holds trivially.
   `TG` / `FG`: what the induction of WarmTreeMain.v carries for a text-carrying / text-less
   stream of a tree evaluated over a sound (arbitrarily warm) store. *)
From RS Require Import Base.Prelude Base.Text Rope.RopeModel Codec.Vlq Codec.CodecSpec
  Checkers.ChkCodec Stream.Types Stream.Leaves Stream.Concat Stream.Replace Stream.Combined Stream.Tree
  Api.ApiTree Sem.Attr Sem.HashEq Api.ApiHist Checkers.ChkTree Checkers.ChkHist
  Proofs.CodecKept Proofs.StreamText Proofs.StreamLeaves Proofs.StreamMap Proofs.StreamConcat Proofs.StreamTree
  Proofs.WfStream Proofs.WfFinal Proofs.RStreamText Proofs.RStreamPos Proofs.RStreamTree
  Proofs.AttrCodec Proofs.AttrSms Proofs.LawConcatAttr Proofs.LawWrappers
  Proofs.CacheStore Proofs.CacheReplay Proofs.FinalDense Proofs.FinalConcat Proofs.FinalTree Proofs.FinalCache
  Proofs.ReplAttrStream Proofs.LinesBase Proofs.LinesConcat Proofs.LinesTree
  Proofs.ColdCache Proofs.ColdCacheTree Proofs.BoundsPos Proofs.BoundsOrig Proofs.BoundsIdx.
Require Import Lia List.

Local Open Scope N_scope.

(* ------------------------------------------------------------------ *)
(* the CachedSource nodes of a tree                                     *)
(* ------------------------------------------------------------------ *)
Fixpoint nodes (s : src) : list (N * src) :=
  match s with
  | SConcat cs => flat_map nodes cs
  | SReplace i _ => nodes i
  | SCached k i => (k, i) :: nodes i
  | _ => []
  end.

Lemma nodes_ids : forall s, map fst (nodes s) = ids s.
Proof.
  apply (src_ind' (fun s => map fst (nodes s) = ids s)); cbn [nodes ids map]; try reflexivity.
  - intros cs IH. induction IH as [|c cs Hc _ IHl]; [reflexivity|].
    cbn [flat_map]. rewrite map_app, Hc, IHl. reflexivity.
  - intros i rs IH. exact IH.
  - intros k i IH. cbn [fst]. rewrite IH. reflexivity.
Qed.

Lemma nodes_in_ids id inner s : In (id, inner) (nodes s) -> In id (ids s).
Proof. intros H. rewrite <- nodes_ids. apply in_map_iff. exists (id, inner). split; [reflexivity|exact H]. Qed.

(* with distinct ids, the id determines the node *)
Lemma nodup_fst_inj {A B} (l : list (A * B)) : NoDup (map fst l) ->
  forall a b b', In (a, b) l -> In (a, b') l -> b = b'.
Proof.
  induction l as [|[x y] l IH]; intros Hn a b b' H1 H2; [destruct H1|].
  cbn [map fst] in Hn. inversion Hn as [|? ? Hx Hl]. subst.
  destruct H1 as [H1|H1], H2 as [H2|H2].
  - congruence.
  - inversion H1. subst. exfalso. apply Hx. apply in_map_iff. exists (a, b'). split; [reflexivity|exact H2].
  - inversion H2. subst. exfalso. apply Hx. apply in_map_iff. exists (a, b). split; [reflexivity|exact H1].
  - eapply IH; eassumption.
Qed.

Lemma nodes_inj (U : src) : ids_distinct U ->
  forall id a b, In (id, a) (nodes U) -> In (id, b) (nodes U) -> a = b.
Proof. intros H. apply nodup_fst_inj. rewrite nodes_ids. exact H. Qed.

Lemma nodes_child cs c : In c cs -> incl (nodes c) (nodes (SConcat cs)).
Proof. intros Hc x Hx. cbn [nodes]. apply in_flat_map. exists c. split; assumption. Qed.

(* ------------------------------------------------------------------ *)
(* the reference: the cache-free tree, freshly built                    *)
(* ------------------------------------------------------------------ *)
Definition ref_evs (s : src) (c f : bool) : list event := fst (fst (stream [] (uncache s) (mkOpts c f))).
Definition refA (s : src) (c : bool) : list attr := attr_of_stream (ref_evs s c false) c.

(* ------------------------------------------------------------------ *)
(* W1: what a stored map must satisfy                                   *)
(* ------------------------------------------------------------------ *)
(* replayable: all that stream_chunks of the replaying SourceMapSource needs *)
Definition mapR (t : text) (m : smap) : Prop :=
  sorted_by pos_le (decode_mappings (sm_mappings m)) = true /\
  Forall (seg_pos t) (decode_mappings (sm_mappings m)) /\
  Forall (seg_ok (len (sm_sources m)) (len (sm_names m))) (decode_mappings (sm_mappings m)).

(* inside the bounds that keep every later stream in the encoder's domain *)
Definition mbnd (inner : src) (m : smap) : Prop :=
  Forall (segb KB) (decode_mappings (sm_mappings m)) /\
  (forall c, In c (sm_contents m) -> len c <= KB) /\
  len (sm_sources m) <= asrc inner /\ len (sm_names m) <= anam inner.

Definition good_entry (inner : src) (c : bool) (v : option smap) : Prop :=
  attr_of_map v (source inner) c = refA inner c /\
  match v with Some m => mapR (source inner) m /\ mbnd inner m | None => True end.

(* soundness of the store for the CachedSource nodes of a tree U *)
Definition Sound (st : store) (U : src) : Prop :=
  forall id inner, In (id, inner) (nodes U) ->
  forall c f v, cache_get (store_get st id) (mkOpts c f) = Some v -> good_entry inner c v.

Theorem sound_empty (U : src) : Sound [] U.
Proof. intros id inner _ c f v H. discriminate. Qed.

Lemma sound_put (U : src) st id inner c f v : ids_distinct U -> In (id, inner) (nodes U) ->
  Sound st U -> good_entry inner c v -> Sound (store_put st id (mkOpts c f) v) U.
Proof.
  intros Hd Hin Hs Hv id' inner' Hin' c' f' x H. apply store_put_get_inv in H.
  destruct H as [H|[Ei [Eo [Ex _]]]].
  - apply (Hs id' inner' Hin' c' f' x H).
  - subst id' x. inversion Eo. subst c' f'.
    rewrite (nodes_inj U Hd id inner' inner Hin' Hin). exact Hv.
Qed.

Lemma sound_sub (U s : src) st : incl (nodes s) (nodes U) -> Sound st U -> Sound st s.
Proof. intros Hi Hs id inner Hin. apply Hs. apply Hi. exact Hin. Qed.

(* ------------------------------------------------------------------ *)
(* size bounds of a stream                                              *)
(* ------------------------------------------------------------------ *)
Definition bnd (s : src) (evs : list event) : Prop :=
  Forall (evb KB) evs /\ nS evs <= asrc s /\ nN evs <= anam s.

(* ------------------------------------------------------------------ *)
(* what the induction carries                                           *)
(* ------------------------------------------------------------------ *)
(* a text-carrying stream *)
Definition TG (c : bool) (s : src) (r : list event * (N * N)) : Prop :=
  dense (fst r) 0 0 = true /\ Reass (fst r) (source s) /\ WP (fst r) (1, 0) /\ NLL (fst r) /\
  (c = false -> no_empty_chunks (fst r) = true) /\
  snd r = advance 1 0 (source s) /\
  attr_of_stream (fst r) c = refA s c /\
  bnd s (fst r).

(* a text-less stream *)
Definition FG (c : bool) (s : src) (r : list event * (N * N)) : Prop :=
  kid_ok (r, source s) /\ (c = false -> kidL_ok (r, source s)) /\
  attr_of_final_events (fst r) (source s) c = refA s c /\
  bnd s (fst r).

(* ------------------------------------------------------------------ *)
(* the class of trees                                                   *)
(* ------------------------------------------------------------------ *)
Definition cls (s : src) : Prop :=
  k2_shape s = false /\ rshape (uncache s) = true /\ treeA s = true /\
  rsmall (uncache s) = true /\ tiny (uncache s) = true.

Lemma forallb_map {A B} (f : B -> bool) (g : A -> B) (l : list A) :
  forallb f (map g l) = forallb (fun x => f (g x)) l.
Proof. induction l as [|x l IH]; [reflexivity|]. cbn [map forallb]. rewrite IH. reflexivity. Qed.

Lemma fold_sum_in {A} (f : A -> N) (l : list A) x : In x l -> f x <= fold_right (fun c acc => f c + acc) 0 l.
Proof.
  induction l as [|y l IH]; intros H; [destruct H|]. cbn [fold_right].
  destruct H as [->|H]; [lia|]. specialize (IH H). lia.
Qed.

Lemma fold_sum_map {A} (f : A -> N) (g : A -> A) (l : list A) :
  fold_right (fun c acc => f c + acc) 0 (map g l) = fold_right (fun c acc => f (g c) + acc) 0 l.
Proof. induction l as [|x l IH]; [reflexivity|]. cbn [map fold_right]. rewrite IH. reflexivity. Qed.

Lemma tiny_concat_child cs c : tiny (SConcat cs) = true -> In c cs -> tiny c = true.
Proof.
  intros H Hc. destruct (tiny_parts _ H) as [T1 [T2 [T3 [T4 T5]]]].
  cbn [tsize asrc anam nleaves maps_tiny] in *.
  pose proof (fold_sum_in tsize cs c Hc). pose proof (fold_sum_in asrc cs c Hc).
  pose proof (fold_sum_in anam cs c Hc). pose proof (fold_sum_in nleaves cs c Hc).
  rewrite forallb_forall in T5. unfold tiny.
  rewrite (T5 c Hc), !andb_true_r.
  repeat (apply andb_true_iff; split); apply N.ltb_lt; lia.
Qed.

Lemma tiny_replace_inner i rs : tiny (SReplace i rs) = true -> tiny i = true.
Proof.
  intros H. destruct (tiny_parts _ H) as [T1 [T2 [T3 [T4 T5]]]].
  cbn [tsize asrc anam nleaves maps_tiny] in *. unfold tiny. rewrite T5, !andb_true_r.
  repeat (apply andb_true_iff; split); apply N.ltb_lt; lia.
Qed.

Lemma cls_concat cs c : cls (SConcat cs) -> In c cs -> cls c.
Proof.
  intros [K [Sh [A [Sm T]]]] Hc. cbn [k2_shape uncache rshape rsmall] in *.
  rewrite forallb_map in Sh, Sm. rewrite forallb_forall in Sh, Sm.
  split; [|split; [apply Sh; exact Hc|split; [apply (treeA_concat cs A c Hc)|split; [apply Sm; exact Hc|]]]].
  - destruct (k2_shape c) eqn:E; [|reflexivity].
    assert (X : existsb k2_shape cs = true) by (apply existsb_exists; exists c; split; assumption). congruence.
  - apply (tiny_concat_child (map uncache cs)); [exact T|apply in_map; exact Hc].
Qed.

Lemma treeA_replace_in i rs : treeA (SReplace i rs) = true -> treeA i = true.
Proof.
  unfold treeA. cbn [tree_wf tree_ascii]. intros H. apply andb_true_iff in H. destruct H as [Hw Ha].
  apply andb_true_iff in Hw. destruct Hw as [Hw _]. apply andb_true_iff in Ha. destruct Ha as [Ha _].
  rewrite Hw, Ha. reflexivity.
Qed.

Lemma cls_replace i rs : cls (SReplace i rs) -> cls i /\ (rs <> [] -> has_cached i = false).
Proof.
  intros [K [Sh [A [Sm T]]]]. cbn [k2_shape uncache rshape rsmall] in *.
  apply orb_false_iff in K. destruct K as [K1 K2].
  apply andb_true_iff in Sm. destruct Sm as [Sm _]. split.
  - split; [exact K2|]. split; [exact Sh|]. split; [apply (treeA_replace_in i rs A)|].
    split; [exact Sm|apply (tiny_replace_inner _ rs T)].
  - intros Hrs. destruct rs as [|r rs]; [contradiction|]. cbn [is_nil negb andb] in K1. exact K1.
Qed.

Lemma cls_cached id i : cls (SCached id i) -> cls i.
Proof. intros H. exact H. Qed.

Lemma cls_nocache s : cls s -> has_cached s = false ->
  rshape s = true /\ treeA s = true /\ rsmall s = true /\ tiny s = true.
Proof. intros [_ [Sh [A [Sm T]]]] Hn. rewrite (uncache_id s Hn) in *. auto. Qed.

(* what `tiny` is used for *)
Lemma cls_sizes s : cls s ->
  len (source s) < KB /\ asrc s < KB /\ anam s < KB /\ ascii (source s) = true.
Proof.
  intros [_ [_ [A [_ T]]]]. destruct (tiny_parts _ T) as [T1 [T2 [T3 _]]].
  pose proof (len_source_le (uncache s) (treeA_wf _ (treeA_uncache s A))) as L. rewrite uncache_source in L.
  assert (E : forall s, asrc (uncache s) = asrc s /\ anam (uncache s) = anam s).
  { apply (src_ind' (fun s => asrc (uncache s) = asrc s /\ anam (uncache s) = anam s));
      cbn [uncache asrc anam]; try (intros; split; reflexivity).
    - intros cs IH. rewrite !fold_sum_map. split.
      + induction IH as [|c cs [Hc _] _ IHl]; [reflexivity|]. cbn [fold_right]. rewrite Hc, IHl. reflexivity.
      + induction IH as [|c cs [_ Hc] _ IHl]; [reflexivity|]. cbn [fold_right]. rewrite Hc, IHl. reflexivity.
    - intros i rs [H1 H2]. rewrite H1, H2. split; reflexivity.
    - intros k i IH. exact IH. }
  destruct (E s) as [E1 E2]. rewrite E1 in T2. rewrite E2 in T3.
  split; [lia|]. split; [exact T2|]. split; [exact T3|].
  apply ascii_source_tree. unfold treeA in A. apply andb_true_iff in A. apply A.
Qed.

Print Assumptions sound_empty.
Print Assumptions sound_put.
Print Assumptions cls_concat.
Print Assumptions cls_sizes.
