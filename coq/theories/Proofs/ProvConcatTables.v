(* Property C04 for trees of raw leaves, OriginalSource leaves and ConcatSource nodes (class
   `cshape`): the sources / sourcesContent tables of the map returned by map() (P3), and the
   checker chk_C04 on the model's own observations.
     - `sources` has no duplicate;
     - every file with surviving text is listed, with the content of the OriginalSource of
       that name (names determine contents in the property's domain);
     - no map at all only if no original text survives.
   Route: the announcements of the text-less stream (`contents_of_events`) of a ConcatSource
   are a duplicate-free selection of its children's, covering all their names
   (LawConcatAttr.concat_fold_contents); dense announcements with contents fill the two
   tables of map() in step. *)
From RS Require Import Base.Prelude Base.Text Rope.RopeModel Codec.Vlq Codec.CodecSpec
  Checkers.ChkCodec Stream.Types Stream.Leaves Stream.Concat Stream.Replace Stream.Tree Api.ApiTree
  Sem.Attr Sem.Prov Checkers.ChkTree Checkers.ChkProv
  Proofs.CodecKept Proofs.CodecEnc Proofs.CodecMain
  Proofs.StreamText Proofs.StreamLeaves Proofs.StreamMap Proofs.StreamConcat Proofs.StreamTree
  Proofs.WfStream Proofs.WfFinal Proofs.RStreamText Proofs.RStreamPos Proofs.RStreamTree
  Proofs.AttrCodec Proofs.AttrSms Proofs.AttrLeaves Proofs.ProvTokens Proofs.ProvOriginal
  Proofs.LawConcatAttr Proofs.FinalDense Proofs.FinalConcat Proofs.FinalTree
  Proofs.ProvConcatBytes Proofs.ProvConcatSegs.
Require Import Lia List.

Local Open Scope N_scope.

Notation anns := contents_of_events.
Definition getc (p : text * option text) : text := match snd p with Some c => c | None => [] end.

(* ------------------------------------------------------------------ *)
(* small facts on tables                                                *)
(* ------------------------------------------------------------------ *)
Lemma find_text_none tbl t : forall i, find_text tbl t i = None -> ~ In t tbl.
Proof.
  induction tbl as [|x tbl IH]; intros i H Hin; [exact Hin|]. cbn [find_text] in H.
  destruct (text_eqb x t) eqn:E; [discriminate|]. destruct Hin as [Hin|Hin].
  - subst x. rewrite text_eqb_refl in E. discriminate.
  - exact (IH _ H Hin).
Qed.

Lemma find_text_in tbl t : forall i, In t tbl -> exists g, find_text tbl t i = Some g.
Proof.
  induction tbl as [|x tbl IH]; intros i Hin; [contradiction|]. cbn [find_text].
  destruct (text_eqb x t) eqn:E; [eexists; reflexivity|]. destruct Hin as [Hin|Hin].
  - subst x. rewrite text_eqb_refl in E. discriminate.
  - apply IH. exact Hin.
Qed.

Lemma existsb_text_false x l : ~ In x l -> existsb (text_eqb x) l = false.
Proof.
  intros H. apply not_true_is_false. intros E. apply existsb_exists in E. destruct E as [y [Hy E]].
  apply text_eqb_eq in E. subst y. exact (H Hy).
Qed.

Lemma nodup_snoc l x : nodup_texts l = true -> ~ In x l -> nodup_texts (l ++ [x]) = true.
Proof.
  induction l as [|y l IH]; intros H Hx; [reflexivity|]. cbn [app nodup_texts] in *.
  apply andb_true_iff in H. destruct H as [H1 H2]. apply andb_true_iff. split.
  - apply negb_true_iff in H1. apply negb_true_iff. rewrite existsb_app, H1. cbn [existsb orb].
    rewrite orb_false_r. apply not_true_is_false. intros E. apply text_eqb_eq in E. subst y.
    apply Hx. left. reflexivity.
  - apply IH; [exact H2|]. intros Hin. apply Hx. right. exact Hin.
Qed.

Lemma nth_opt_map {A B} (g : A -> B) (l : list A) i x :
  nth_opt l i = Some x -> nth_opt (map g l) i = Some (g x).
Proof. unfold nth_opt. apply map_nth_error. Qed.

Lemma nth_opt_map_inv {A B} (g : A -> B) (l : list A) i y :
  nth_opt (map g l) i = Some y -> exists x, nth_opt l i = Some x /\ g x = y.
Proof.
  unfold nth_opt. generalize (N.to_nat i) as k. induction l as [|a l IH]; intros k H.
  - destruct k; discriminate.
  - destruct k as [|k]; cbn [map nth_error] in *.
    + inversion H. exists a. split; reflexivity.
    + apply IH. exact H.
Qed.

Lemma names_determine_in l : names_determine_content l = true ->
  forall n v v', In (n, v) l -> In (n, v') l -> v = v'.
Proof.
  induction l as [|[n0 v0] l IH]; intros H n v v' H1 H2; [destruct H1|].
  cbn [names_determine_content] in H. apply andb_true_iff in H. destruct H as [Hf Hr].
  rewrite forallb_forall in Hf.
  assert (K : forall d, In (n0, d) l -> d = v0).
  { intros d Hd. specialize (Hf _ Hd). cbn [fst snd] in Hf. rewrite text_eqb_refl in Hf.
    cbn [negb orb] in Hf. apply text_eqb_eq in Hf. exact Hf. }
  destruct H1 as [H1|H1], H2 as [H2|H2].
  - congruence.
  - inversion H1; subst. symmetry. apply K. exact H2.
  - inversion H2; subst. apply K. exact H1.
  - eapply IH; eassumption.
Qed.

Lemma anns_chunks evs : only_chunks evs = true -> anns evs = [].
Proof.
  induction evs as [|e evs IH]; intros H; [reflexivity|].
  destruct e as [t m|i n c|i n]; try discriminate.
  cbn [only_chunks forallb is_chunk andb] in H. cbn [contents_of_events]. apply IH. exact H.
Qed.

(* ------------------------------------------------------------------ *)
(* map(): dense announcements with contents fill both tables in step     *)
(* ------------------------------------------------------------------ *)
Lemma fold_tables_anns : forall evs T nn,
  dense evs (len (t_sources T)) nn = true -> len (t_contents T) = len (t_sources T) ->
  (forall p, In p (anns evs) -> snd p <> None) ->
  t_sources (fold_left tables_event evs T) = t_sources T ++ map fst (anns evs) /\
  t_contents (fold_left tables_event evs T) = t_contents T ++ map getc (anns evs).
Proof.
  induction evs as [|e evs IH]; intros T nn Hd Hl Hs.
  - cbn [fold_left contents_of_events map]. rewrite !app_nil_r. split; reflexivity.
  - destruct e as [t m|i n c|i n]; cbn [dense fold_left contents_of_events] in *;
      apply andb_true_iff in Hd; destruct Hd as [H1 H2].
    + apply (IH T nn H2 Hl Hs).
    + apply N.eqb_eq in H1. subst i.
      destruct c as [c|]; [|exfalso; apply (Hs (n, None)); [left; reflexivity|reflexivity]].
      assert (E1 : lm_insert [] (t_sources T) (len (t_sources T)) n = t_sources T ++ [n])
        by apply lm_insert_next.
      assert (E2 : lm_insert [] (t_contents T) (len (t_sources T)) c = t_contents T ++ [c])
        by (rewrite <- Hl; apply lm_insert_next).
      cbn [tables_event]. rewrite E1, E2.
      pose proof (IH (mkT (t_sources T ++ [n]) (t_contents T ++ [c]) (t_names T)) nn) as X.
      cbn [t_sources t_contents] in X. rewrite !slen_snoc, Hl in X.
      destruct (X H2 eq_refl (fun p Hp => Hs p (or_intror Hp))) as [X1 X2].
      rewrite X1, X2. cbn [map fst getc snd]. rewrite <- !app_assoc. split; reflexivity.
    + cbn [tables_event].
      apply (IH (mkT (t_sources T) (t_contents T) (lm_insert [] (t_names T) i n)) (nn + 1) H2 Hl Hs).
Qed.

Lemma map_tables evs m : dense evs 0 0 = true -> (forall p, In p (anns evs) -> snd p <> None) ->
  map_of_events true evs = Some m ->
  sm_sources m = map fst (anns evs) /\ sm_contents m = map getc (anns evs).
Proof.
  intros Hd Hs Hm. unfold map_of_events in Hm.
  destruct (is_nil (encode_mappings true (chunk_mappings evs))); [discriminate|]. inversion Hm. subst m.
  cbn [sm_sources sm_contents].
  apply (fold_tables_anns evs (mkT [] [] []) 0 Hd eq_refl Hs).
Qed.

(* ------------------------------------------------------------------ *)
(* ConcatSource: the de-duplication table stays duplicate-free           *)
(* ------------------------------------------------------------------ *)
Lemma concat_event_nodup final st e : nodup_texts (c_sources st) = true ->
  nodup_texts (c_sources (fst (concat_event final st e))) = true.
Proof.
  intros H. pose proof (f_equal fst (concat_event_contents final st e)) as A. cbn [fst] in A. rewrite A.
  destruct e as [t m|i name content|i name]; cbn [fst]; try exact H.
  destruct (find_text (c_sources st) name 0) eqn:E; cbn [fst]; [exact H|].
  apply nodup_snoc; [exact H|apply (find_text_none _ _ 0); exact E].
Qed.

Lemma concat_events_nodup final evs : forall st, nodup_texts (c_sources st) = true ->
  nodup_texts (c_sources (fst (concat_events final st evs))) = true.
Proof.
  induction evs as [|e evs IH]; intros st H; [exact H|]. cbn [concat_events].
  pose proof (concat_event_nodup final st e H) as A.
  destruct (concat_event final st e) as [st1 o1]. cbn [fst] in A. specialize (IH st1 A).
  destruct (concat_events final st1 evs) as [st2 o2]. exact IH.
Qed.

Lemma concat_child_nodup final st evs gi : nodup_texts (c_sources st) = true ->
  nodup_texts (c_sources (fst (concat_child final st evs gi))) = true.
Proof.
  intros H. unfold concat_child.
  pose proof (concat_events_nodup final evs (concat_child_start st) H) as A.
  destruct (concat_events final (concat_child_start st) evs) as [st1 o1]. cbn [fst] in A.
  unfold concat_child_end. cbn [fst c_sources]. exact A.
Qed.

Lemma concat_fold_nodup final kids : forall st out, nodup_texts (c_sources st) = true ->
  nodup_texts (c_sources (fst (concat_fold final kids (st, out)))) = true.
Proof.
  induction kids as [|k kids IH]; intros st out H; [exact H|].
  rewrite concat_fold_cons. cbn [fst snd]. apply IH. apply concat_child_nodup. exact H.
Qed.

(* ------------------------------------------------------------------ *)
(* ConcatSource: every announcement of the composite is one of a child   *)
(* ------------------------------------------------------------------ *)
Lemma concat_event_anns_incl final st e : incl (anns (snd (concat_event final st e))) (anns [e]).
Proof.
  pose proof (f_equal snd (concat_event_contents final st e)) as A. cbn [snd] in A. rewrite A.
  destruct e as [t m|i name content|i name]; cbn [snd contents_of_events]; try (intros x []).
  destruct (find_text (c_sources st) name 0); cbn [snd]; [intros x []|apply incl_refl].
Qed.

Lemma concat_events_anns_incl final evs : forall st,
  incl (anns (snd (concat_events final st evs))) (anns evs).
Proof.
  induction evs as [|e evs IH]; intros st; [apply incl_refl|]. cbn [concat_events].
  pose proof (concat_event_anns_incl final st e) as A.
  destruct (concat_event final st e) as [st1 o1]. specialize (IH st1).
  destruct (concat_events final st1 evs) as [st2 o2]. cbn [snd] in *.
  change (e :: evs) with ([e] ++ evs). rewrite !contents_app.
  apply incl_app; [apply incl_appl; exact A|apply incl_appr; exact IH].
Qed.

Lemma concat_child_anns_incl final st evs gi :
  incl (anns (snd (concat_child final st evs gi))) (anns evs).
Proof.
  unfold concat_child. pose proof (concat_events_anns_incl final evs (concat_child_start st)) as A.
  destruct (concat_events final (concat_child_start st) evs) as [st1 o1]. cbn [snd] in A.
  unfold concat_child_end. cbn [fst snd]. rewrite contents_app.
  replace (contents_of_events (if c_close st1 && negb ((fst gi =? 1) && (snd gi =? 0)) then [closer st1] else []))
    with (@nil (text * option text))
    by (destruct (c_close st1 && negb ((fst gi =? 1) && (snd gi =? 0))); reflexivity).
  rewrite app_nil_r. exact A.
Qed.

Lemma concat_fold_anns_incl final kids : forall st out,
  incl (anns (snd (concat_fold final kids (st, out)))) (anns out ++ flat_map (fun k => anns (fst k)) kids).
Proof.
  induction kids as [|k kids IH]; intros st out.
  - cbn [concat_fold fold_left snd flat_map]. rewrite app_nil_r. apply incl_refl.
  - rewrite concat_fold_cons. cbn [fst snd].
    pose proof (concat_child_anns_incl final st (fst k) (snd k)) as A.
    destruct (concat_child final st (fst k) (snd k)) as [st' o]. cbn [fst snd] in *.
    eapply incl_tran; [apply IH|]. rewrite contents_app. cbn [flat_map]. rewrite <- app_assoc.
    apply incl_app; [apply incl_appl; apply incl_refl|].
    apply incl_app; [apply incl_appr; apply incl_appl; exact A|].
    apply incl_appr. apply incl_appr. apply incl_refl.
Qed.

(* ------------------------------------------------------------------ *)
(* the induction over the tree                                          *)
(* ------------------------------------------------------------------ *)
Record tinv (s : src) (evs : list event) : Prop := mkTinv {
  ti_nodup : nodup_texts (map fst (anns evs)) = true;
  ti_orig : forall n c, In (n, c) (anns evs) -> exists v, c = Some v /\ In (n, v) (originals s);
  ti_files : forall f l c b e, In (POrig f l c b e) (prov s) -> In f (map fst (anns evs)) }.

Definition tbgood (s : src) : Prop :=
  forall st, cshape s = true -> treeA s = true -> tinv s (fst (fst (stream st s oF))).

Lemma raw_tbgood s : is_raw s = true -> tbgood s.
Proof.
  intros Hr st _ _.
  assert (Es : fst (fst (stream st s oF)) = []) by (destruct s; try discriminate; reflexivity).
  assert (Ep : prov s = map (fun _ => PRaw) (source_leaf s)) by (destruct s; try discriminate; reflexivity).
  rewrite Es. constructor; [reflexivity|intros n c []|].
  intros f l c b e Hin. rewrite Ep in Hin. apply in_map_iff in Hin. destruct Hin as [x [Hx _]]. discriminate.
Qed.

Lemma orig_tags_file n t : forall marks l c s f l' c' b e,
  In (POrig f l' c' b e) (orig_tags n t marks l c s) -> f = n.
Proof.
  intros marks l c s f l' c' b e Hin. rewrite <- otg_tags in Hin. apply in_map_iff in Hin.
  destruct Hin as [x [Ex Hx]]. destruct (otg_self _ _ _ _ _ _ _ Hx) as (l2 & c2 & b2 & e2 & ->).
  cbn [snd] in Ex. inversion Ex. reflexivity.
Qed.

Lemma original_tbgood v n : tbgood (SOriginal v n).
Proof.
  intros st _ _. unfold oF. rewrite stream_original, original_stream_cols_fst.
  assert (EA : anns (ESource 0 n (Some v) :: fst (original_tokens (potential_tokens v) true 1 0)) = [(n, Some v)]).
  { cbn [contents_of_events]. rewrite (anns_chunks _ (tokens_only _ true 1 0)). reflexivity. }
  constructor; rewrite EA.
  - reflexivity.
  - intros n0 c [H|[]]. inversion H. subst. exists v. split; [reflexivity|left; reflexivity].
  - intros f l c b e Hin. cbn [prov] in Hin. unfold original_prov in Hin.
    apply orig_tags_file in Hin. subst f. left. reflexivity.
Qed.

Lemma concat_tbgood cs : Forall tbgood cs -> tbgood (SConcat cs).
Proof.
  intros IH st Hc Ha. rewrite Forall_forall in IH.
  pose proof (cshape_concat cs Hc) as Hc'. pose proof (treeA_concat cs Ha) as Ha'.
  destruct (Nat.eq_dec (length cs) 1) as [E|E].
  { destruct cs as [|c [|c2 r]]; try discriminate.
    change (stream st (SConcat [c]) oF) with (stream st c oF).
    destruct (IH c (or_introl eq_refl) st (Hc' c (or_introl eq_refl)) (Ha' c (or_introl eq_refl))) as [I1 I2 I3].
    constructor; [exact I1| |].
    - intros n0 c0 Hin. cbn [originals flat_map]. rewrite app_nil_r. apply I2. exact Hin.
    - intros f l c0 b e Hin. cbn [prov flat_map] in Hin. rewrite app_nil_r in Hin. apply (I3 f l c0 b e Hin). }
  assert (PF : forall c, In c cs -> forall st0, snd (stream st0 c oF) = st0).
  { intros c Hin st0.
    apply (tgood_all c st0 (cshape_rshape c (Hc' c Hin)) (Ha' c Hin) (cshape_rsmall c (Hc' c Hin))). }
  rewrite (stream_concat_fold st cs oF E), (kid_streams_pure oF cs PF st). cbn [fst snd final_source oF].
  set (kids := map (fun c => fst (stream st c oF)) cs).
  pose proof (concat_fold_contents [] true kids concat_init [] eq_refl) as [A _].
  pose proof (concat_fold_anns_incl true kids concat_init []) as B. cbn [contents_of_events app] in B.
  constructor.
  - rewrite A. apply concat_fold_nodup. reflexivity.
  - intros n0 c0 Hin. apply B in Hin. apply in_flat_map in Hin. destruct Hin as [k [Hk Hin]].
    unfold kids in Hk. apply in_map_iff in Hk. destruct Hk as [c [<- Hc0]].
    destruct (IH c Hc0 st (Hc' c Hc0) (Ha' c Hc0)) as [_ I2 _].
    destruct (I2 n0 c0 Hin) as [v [-> Hv]]. exists v. split; [reflexivity|].
    cbn [originals]. apply in_flat_map. exists c. split; assumption.
  - intros f l c0 b e Hin. cbn [prov] in Hin. apply in_flat_map in Hin. destruct Hin as [c [Hc0 Hin]].
    destruct (IH c Hc0 st (Hc' c Hc0) (Ha' c Hc0)) as [_ _ I3].
    pose proof (I3 f l c0 b e Hin) as Hf.
    assert (Hall : In f (map fst (flat_map (fun k => anns (fst k)) kids))).
    { apply in_map_iff in Hf. destruct Hf as [p [Ep Hp]]. apply in_map_iff. exists p. split; [exact Ep|].
      apply in_flat_map. exists (fst (stream st c oF)). split; [|exact Hp].
      unfold kids. apply in_map_iff. exists c. split; [reflexivity|exact Hc0]. }
    destruct (cfind_in f _ Hall) as [c1 E1].
    destruct (concat_fold_contents f true kids concat_init [] eq_refl) as [_ B2].
    cbn [contents_of_events app] in B2. rewrite E1 in B2. destruct (cfind_some _ _ _ B2) as [X _].
    apply in_map_iff. exists (f, c1). split; [reflexivity|exact X].
Qed.

Lemma tbgood_all : forall s, tbgood s.
Proof.
  apply src_ind'.
  - intros b v. apply raw_tbgood. reflexivity.
  - intros v. apply raw_tbgood. reflexivity.
  - intros v. apply raw_tbgood. reflexivity.
  - apply original_tbgood.
  - intros v n m og i r st Hc. discriminate.
  - intros cs IH. apply concat_tbgood. exact IH.
  - intros i rs _ st Hc. discriminate.
  - intros id i _ st Hc. discriminate.
Qed.

(* ------------------------------------------------------------------ *)
(* the tables clause                                                    *)
(* ------------------------------------------------------------------ *)
Lemma c04_domain_treeA s : c04_domain s = true -> treeA s = true.
Proof.
  unfold c04_domain. intros H. apply andb_true_iff in H. destruct H as [H _].
  apply andb_true_iff in H. apply H.
Qed.

Lemma c04_domain_names s : c04_domain s = true -> names_determine_content (originals s) = true.
Proof. unfold c04_domain. intros H. apply andb_true_iff in H. apply H. Qed.

Lemma cshape_kinds : forall s, cshape s = true -> c04_kinds s false = true.
Proof.
  apply (src_ind' (fun s => cshape s = true -> c04_kinds s false = true));
    try (intros; reflexivity); try (intros; discriminate).
  intros cs IH H. cbn [c04_kinds]. apply forallb_forall. intros c Hc.
  rewrite Forall_forall in IH. apply (IH c Hc). apply (cshape_concat cs H c Hc).
Qed.

Lemma cshape_no_replace : forall s, cshape s = true -> has_replace s = false.
Proof.
  apply (src_ind' (fun s => cshape s = true -> has_replace s = false));
    try (intros; reflexivity); try (intros; discriminate).
  intros cs IH H. cbn [has_replace]. apply not_true_is_false. intros E.
  apply existsb_exists in E. destruct E as [c [Hc E]].
  rewrite Forall_forall in IH. rewrite (IH c Hc (cshape_concat cs H c Hc)) in E. discriminate.
Qed.

Lemma file_listed_ok s evs m f :
  names_determine_content (originals s) = true -> tinv s evs ->
  sm_sources m = map fst (anns evs) -> sm_contents m = map getc (anns evs) ->
  In f (map fst (anns evs)) -> file_listed m (originals s) f = true.
Proof.
  intros Hn [I1 I2 I3] Es Ec Hf. unfold file_listed. rewrite Es, Ec.
  destruct (find_text_in _ f 0 Hf) as [i Ei]. rewrite Ei.
  pose proof (find_text_nth0 _ _ _ Ei) as Ni.
  destruct (nth_opt_map_inv _ _ _ _ Ni) as [[f' c] [Np Ef]]. cbn [fst] in Ef. subst f'.
  rewrite (nth_opt_map getc _ _ _ Np).
  destruct (I2 f c (nth_opt_In _ _ _ Np)) as [v [-> Hv]]. cbn [getc snd].
  assert (Hfo : In f (map fst (originals s))).
  { apply in_map_iff. exists (f, v). split; [reflexivity|exact Hv]. }
  destruct (find_text_in _ f 0 Hfo) as [k Ek]. rewrite Ek.
  pose proof (find_text_nth0 _ _ _ Ek) as Nk.
  destruct (nth_opt_map_inv _ _ _ _ Nk) as [[f' v'] [Nq Ef]]. cbn [fst] in Ef. subst f'.
  rewrite (nth_opt_map snd _ _ _ Nq). cbn [snd].
  apply text_eqb_eq. apply (names_determine_in _ Hn f v v' Hv (nth_opt_In _ _ _ Nq)).
Qed.

Lemma surviving_in f tags : In f (surviving_files tags) -> exists l c b, In (POrig f l c b false) tags.
Proof.
  unfold surviving_files. intros H. apply in_flat_map in H. destruct H as [g [Hg Hf]].
  destruct g as [|f' l c b e|]; try contradiction. destruct e; [contradiction|].
  destruct Hf as [->|[]]. exists l, c, b. exact Hg.
Qed.

(* P3, clause 5 of chk_C04 *)
Theorem concat_c04_tables (st : store) (s : src) :
  cshape s = true -> c04_domain s = true -> fields_small st s ->
  match fst (map_of st s true) with
  | Some m => nodup_texts (sm_sources m)
              && forallb (file_listed m (originals s)) (surviving_files (prov s))
  | None => is_nil (surviving_files (prov s))
  end = true.
Proof.
  intros Hc Hdm Hs. pose proof (c04_domain_treeA s Hdm) as Ha.
  destruct (fst (map_of st s true)) as [m|] eqn:Em.
  - destruct (is_raw s) eqn:Er.
    { exfalso. destruct s; try discriminate; cbn [map_of fst] in Em; discriminate. }
    rewrite (map_of_get_map st s true Hc Er) in Em. unfold get_map in Em.
    pose proof (dense_tree_any s st (mkOpts true true) (cshape_rshape s Hc) Ha) as Hd.
    pose proof (tbgood_all s st Hc Ha) as HI. unfold oF in HI.
    destruct (stream st s (mkOpts true true)) as [[evs gi] st']. cbn [fst snd] in *.
    assert (Hsome : forall p, In p (anns evs) -> snd p <> None).
    { intros [n c] Hp. destruct (ti_orig _ _ HI n c Hp) as [v [-> _]]. discriminate. }
    destruct (map_tables evs m Hd Hsome Em) as [Es Ec].
    apply andb_true_iff. split; [rewrite Es; apply (ti_nodup _ _ HI)|].
    apply forallb_forall. intros f Hf. destruct (surviving_in f _ Hf) as (l & c & b & Hin).
    apply (file_listed_ok s evs m f (c04_domain_names s Hdm) HI Es Ec).
    apply (ti_files _ _ HI f l c b false Hin).
  - (* no map: every byte is raw or the line break of an empty line *)
    pose proof (concat_c04_bytes st s Hc Ha Hs) as Hb. cbn zeta in Hb. rewrite Em in Hb.
    rewrite byte_ok_all2, attr_by_pos_nil in Hb.
    rewrite (all2_none_surviving _ _ Hb); [reflexivity|].
    rewrite map_length. symmetry. apply (pgood_all s st Hc Ha).
Qed.

(* ------------------------------------------------------------------ *)
(* the checker on the model's own observations                           *)
(* ------------------------------------------------------------------ *)
(* clauses 9, 1, 2, 5 of chk_C04 are proved here; clause 6 (columns = false, `line_ok`) is the
   remaining hypothesis *)
Theorem concat_chk_C04_partial (s : src) :
  cshape s = true -> c04_domain s = true -> fields_small [] s ->
  (let m0 := fst (map_of [] s false) in
   let tg := tagged (source s) (prov s) 1 0 in
   let segs0 := match m0 with Some m => rsegs_of_map m | None => [] end in
   forallb (line_ok tg segs0) tg = true) ->
  chk_C04 s (api_tree s []) = 0.
Proof.
  intros Hc Hdm Hs H6. pose proof (c04_domain_treeA s Hdm) as Ha. cbn zeta in H6.
  unfold chk_C04. rewrite Hdm. cbn [negb].
  cbn [api_tree to_source to_maps run_warm].
  assert (Hl : len (prov s) = len (source s)).
  { unfold len. f_equal. apply (pgood_all s [] Hc Ha). }
  rewrite Hl, N.eqb_refl. cbn [negb].
  pose proof (concat_c04_segs [] s Hc Ha Hs) as H1. pose proof (concat_c04_bytes [] s Hc Ha Hs) as H2.
  pose proof (concat_c04_tables [] s Hc Hdm Hs) as H5. cbn zeta in H1, H2.
  rewrite H1, H2, H5, H6, (cshape_no_replace s Hc). reflexivity.
Qed.

(* the domain of the checker, unfolded for this class *)
Lemma cshape_domain s : cshape s = true -> treeA s = true ->
  names_determine_content (originals s) = true -> c04_domain s = true.
Proof. intros Hc Ha Hn. unfold c04_domain. rewrite Ha, (cshape_kinds s Hc), Hn. reflexivity. Qed.

Print Assumptions concat_c04_tables.
Print Assumptions concat_chk_C04_partial.
