(* C01, checker level: the executable checker `chk_C01` accepts the model's own observations
   `api_tree s ws` of EVERY tree in its domain (`tree_wf`), after every warming history `ws`
   of its CachedSource nodes.  `chk_C01` has no clause beyond the
   reassembly of the two text-carrying streams (its third clause, a wrong number of streams,
   cannot arise from `api_tree`); the known-finding class `k3_shape` is never reached. *)
From RS Require Import Base.Prelude Base.Text Rope.RopeModel Codec.Vlq Codec.CodecSpec
  Stream.Types Stream.Leaves Stream.Concat Stream.Replace Stream.Combined Stream.Tree
  Api.ApiTree Checkers.ChkTree Proofs.ReassAll Proofs.ReassAllText.
Require Import Lia List.
Import ListNotations.

Local Open Scope N_scope.

(* ------------------------------------------------------------------ *)
(* C01                                                                 *)
(* ------------------------------------------------------------------ *)
(* the verdict on observations taken from an arbitrary store *)
Lemma chk_C01_unfold s st o :
  tree_wf s = true ->
  to_source o = source s ->
  to_streams o = map (fun op => fst (stream st s op)) all_opts ->
  chk_C01 s o = 0.
Proof.
  intros Hw E1 E2. unfold chk_C01. rewrite Hw, E1, E2. cbn [negb map all_opts].
  rewrite (all_stream_reassembles s Hw st true), (all_stream_reassembles s Hw st false).
  reflexivity.
Qed.

(* M1 *)
Theorem chk_C01_model (s : src) (ws : list (N * wop)) :
  tree_wf s = true -> chk_C01 s (api_tree s ws) = 0.
Proof.
  intros Hw. exact (chk_C01_unfold s (run_warm [] s ws) (api_tree s ws) Hw eq_refl eq_refl).
Qed.

(* the same from any store whatsoever (cache entries may hold arbitrary maps) *)
Theorem chk_C01_model_any_store (s : src) (st : store) (o : tree_obs) :
  tree_wf s = true -> to_source o = source s ->
  to_streams o = map (fun op => fst (stream st s op)) all_opts ->
  chk_C01 s o = 0.
Proof. intros. apply (chk_C01_unfold s st o); assumption. Qed.

(* outside the domain the checker says so, whatever was observed *)
Lemma chk_C01_outside s o : tree_wf s = false -> chk_C01 s o = 100.
Proof. intros H. unfold chk_C01. rewrite H. reflexivity. Qed.

Theorem chk_C01_model_total (s : src) (ws : list (N * wop)) :
  chk_C01 s (api_tree s ws) = if tree_wf s then 0 else 100.
Proof.
  destruct (tree_wf s) eqn:Hw; [apply chk_C01_model; exact Hw|apply chk_C01_outside; exact Hw].
Qed.

(* second sentence of C01 ("every chunk carries its text") is implied by the checker's
   `reassembles` (all_some); stated here on the observations for completeness *)
Theorem api_tree_text_chunks (s : src) (ws : list (N * wop)) (cols : bool) t m :
  In (EChunk t m) (fst (nth (if cols then 0 else 1)%nat (to_streams (api_tree s ws)) ([], (0, 0)))) ->
  exists x, t = Some x.
Proof.
  destruct cols; cbn [api_tree to_streams map all_opts nth]; apply all_stream_chunks_carry_text.
Qed.

Print Assumptions chk_C01_model.
Print Assumptions chk_C01_model_any_store.
Print Assumptions chk_C01_model_total.
Print Assumptions api_tree_text_chunks.
