(* C13, boxed nesting, "the checker accepts the model" WITHOUT any hypothesis on the declared
   contents.  The contents clauses of chk_C13 look a referenced file up in the map's tables at its
   FIRST listing.  For a map built by map() from a text-less stream, that lookup is the first
   announcement of the file in the stream (events_lookup); a ConcatSource announces a file with
   the first content its children announce for it (LawConcatAttr.concat_fold_contents), so
   nesting the children differently does not change any lookup.
     law_checker_lookup                the generic step: lookups agree instead of consistency;
     C13_boxed_nesting_checker_any     L1 with hypotheses rshape / treeA / tiny only. *)
From RS Require Import Base.Prelude Base.Text Rope.RopeModel Codec.Vlq Codec.CodecSpec
  Stream.Types Stream.Leaves Stream.Concat Stream.Replace Stream.Combined Stream.Tree
  Api.ApiTree Sem.Attr Sem.HashEq Api.ApiHist Checkers.ChkTree Checkers.ChkHist Checkers.ChkCombined Checkers.ChkComp
  Proofs.StreamText Proofs.StreamConcat Proofs.StreamTree Proofs.AttrCodec Proofs.AttrSms
  Proofs.LawConcatAttr Proofs.LawWrappers
  Proofs.RStreamTree Proofs.FinalTree Proofs.FinalCache Proofs.CacheReplay Proofs.LawMaps
  Proofs.CombAllRun
  Proofs.ColdCache Proofs.BoundsPos Proofs.BoundsAll
  Proofs.WarmTreeDefs Proofs.WarmTreeNodes Proofs.WarmTreeMain Proofs.WarmTreeHist
  Proofs.CompWarmLaws Proofs.CompWarmContBase Proofs.CompWarmContInv Proofs.CompWarmLawsFull
  Proofs.LawChkBase Proofs.LawChkLaws.
Require Import Lia List.
Import ListNotations.

Local Open Scope N_scope.

(* the content of the first announcement of `f` *)
Definition first_content (f : text) (l : list (text * option text)) : option text :=
  match cfind f l with Some p => snd p | None => None end.

(* ------------------------------------------------------------------ *)
(* the lookup of chk_C13 in tables listed in announcement order         *)
(* ------------------------------------------------------------------ *)
Lemma file_index_first m f : forall (l : list (text * option text)) srcs i,
  map (get_source m) srcs = map fst l ->
  match file_index m srcs f i with
  | Some k => exists p, cfind f l = Some p /\ nth_opt l (k - i) = Some p /\ i <= k
  | None => cfind f l = None
  end.
Proof.
  induction l as [|q l IH]; intros srcs i H.
  - destruct srcs; [reflexivity|discriminate].
  - destruct srcs as [|x srcs]; [discriminate|]. cbn [map] in H. inversion H as [[H1 H2]].
    cbn [file_index]. unfold cfind. cbn [find]. rewrite H1.
    destruct (text_eqb (fst q) f) eqn:E.
    + exists q. split; [reflexivity|]. rewrite N.sub_diag. split; [reflexivity|lia].
    + specialize (IH srcs (i + 1) H2). destruct (file_index m srcs f (i + 1)) as [k|].
      * destruct IH as [p [A [B C]]]. exists p. split; [exact A|]. split; [|lia].
        unfold nth_opt in *. replace (N.to_nat (k - i)) with (S (N.to_nat (k - (i + 1)))) by lia.
        cbn [nth_error]. exact B.
      * exact IH.
Qed.

Theorem events_lookup (c : bool) (evs : list event) (m : smap) (f : text) :
  dense evs 0 0 = true -> map_of_events c evs = Some m ->
  ceq (content_of_file (Some m) f) (first_content f (anns evs)).
Proof.
  intros Hd Em. unfold map_of_events in Em.
  destruct (is_nil (encode_mappings c (chunk_mappings evs))); [discriminate|].
  inversion Em as [E]. clear Em.
  destruct (dense_run evs [] [] Hd) as [S' [N' R]].
  assert (C0 : cont_ok (t_contents (mkT [] [] [])) []).
  { split; [cbn; lia|]. intros g p Hg. unfold nth_opt in Hg. destruct (N.to_nat g); discriminate. }
  destruct (run_tables evs [] [] S' N' R (mkT [] [] []) [] eq_refl eq_refl eq_refl C0) as [T1 [_ [_ T3]]].
  cbn [app] in T3. pose proof (run_sources _ _ _ _ _ R) as T2. cbn [app] in T2.
  set (m' := mkSmap None (encode_mappings c (chunk_mappings evs))
                    (t_sources (fold_left tables_event evs (mkT [] [] [])))
                    (t_contents (fold_left tables_event evs (mkT [] [] [])))
                    (t_names (fold_left tables_event evs (mkT [] [] []))) None None).
  unfold content_of_file, first_content.
  assert (Hm : map (get_source m') (sm_sources m') = map fst (anns evs)).
  { unfold m'. cbn [sm_sources]. rewrite T1, T2.
    transitivity (map (fun x : text => x) (map fst (anns evs))); [apply map_ext; intros x; reflexivity|apply map_id]. }
  pose proof (file_index_first m' f (anns evs) (sm_sources m') 0 Hm) as K.
  destruct (file_index m' (sm_sources m') f 0) as [k|].
  - destruct K as [p [A [B _]]]. rewrite A. rewrite N.sub_0_r in B.
    unfold m'. cbn [sm_contents]. apply (T3 k p B).
  - rewrite K. apply ceq_refl.
Qed.

(* ------------------------------------------------------------------ *)
(* the contents clause from equal lookups                                *)
(* ------------------------------------------------------------------ *)
Theorem contents_same_lk (x y : option smap) (t : text) (c : bool) :
  attr_of_map x t c = attr_of_map y t c ->
  (forall f mx my, x = Some mx -> y = Some my -> ceq (content_of_file x f) (content_of_file y f)) ->
  referenced_contents_same x y t c = true.
Proof.
  intros Eq H. unfold referenced_contents_same. apply forallb_forall. intros a Ha.
  destruct a as [l|]; [|reflexivity].
  pose proof Ha as Hb. rewrite Eq in Hb.
  destruct x as [mx|]; [|exfalso; apply (in_none_map t l Ha)].
  destruct y as [my|]; [|exfalso; apply (in_none_map t l Hb)].
  apply content_same_ceq. apply (H (l_file l) mx my eq_refl eq_refl).
Qed.

(* ------------------------------------------------------------------ *)
(* the generic law: lookups instead of consistency                       *)
(* ------------------------------------------------------------------ *)
Section LawLookup.
Variables X Y : src.
Variables opsa opsb : list hop.
Hypothesis HsX : rshape X = true.
Hypothesis HaX : treeA X = true.
Hypothesis HtX : tiny X = true.
Hypothesis HsY : rshape Y = true.
Hypothesis HaY : treeA Y = true.
Hypothesis HtY : tiny Y = true.
Hypothesis Hsrc : source X = source Y.
Hypothesis Hbuf : buffer X = buffer Y.
Hypothesis Hattr : forall c : bool,
  attr_of_stream (LawWrappers.evs_of (stream [] X (mkOpts c false))) c
  = attr_of_stream (LawWrappers.evs_of (stream [] Y (mkOpts c false))) c.
Hypothesis Hlk : forall (c : bool) (f : text) (mx my : smap),
  fst (map_of [] X c) = Some mx -> fst (map_of [] Y c) = Some my ->
  ceq (content_of_file (Some mx) f) (content_of_file (Some my) f).

Theorem law_checker_lookup : chk_C13 X Y false (api_pair X opsa Y opsb) = 0.
Proof.
  destruct (law_pair_facts X Y opsa opsb HsX HaX HtX HsY HaY HtY Hsrc Hbuf Hattr) as [A1 [B1 [A2 [B2 [M3 M4]]]]].
  cbn zeta in *.
  destruct (nocache_pure X (rshape_nocache X HsX)) as [_ PX].
  destruct (nocache_pure Y (rshape_nocache Y HsY)) as [_ PY].
  unfold chk_C13. rewrite HaX, HaY. cbn [andb negb]. unfold obs_equiv_laws.
  unfold api_pair in *. cbn [po_a po_b] in *.
  set (sta := snd (run_hops [] X opsa)) in *. set (stb := snd (run_hops [] Y opsb)) in *.
  rewrite A1, B1, text_eqb_refl. cbn [negb]. rewrite A2, B2, text_eqb_refl. cbn [negb].
  assert (C3 : referenced_contents_same (get_map (nth_ans (fst (run_hops sta X final_ops)) 3))
                                        (get_map (nth_ans (fst (run_hops stb Y final_ops)) 3)) (source X) true = true).
  { apply contents_same_lk; [exact M3|].
    destruct (final_maps X sta) as [-> _]. destruct (final_maps Y stb) as [-> _].
    rewrite (PX sta true), (PY stb true). cbn [fst]. intros f mx my Ex Ey. rewrite Ex, Ey. apply (Hlk true f mx my Ex Ey). }
  assert (C4 : referenced_contents_same (get_map (nth_ans (fst (run_hops sta X final_ops)) 4))
                                        (get_map (nth_ans (fst (run_hops stb Y final_ops)) 4)) (source X) false = true).
  { apply contents_same_lk; [exact M4|].
    destruct (final_maps X sta) as [_ ->]. destruct (final_maps Y stb) as [_ ->].
    rewrite (PX _ false), (PY _ false). cbn [fst]. intros f mx my Ex Ey. rewrite Ex, Ey. apply (Hlk false f mx my Ex Ey). }
  rewrite C3, C4.
  rewrite M3, (list_eqb_attr_refl attr_eqb attr_eqb_refl). cbn [negb].
  rewrite M4, (list_eqb_attr_refl attr_eqb_fl attr_eqb_fl_refl). reflexivity.
Qed.

End LawLookup.

(* ------------------------------------------------------------------ *)
(* the announcements of the text-less stream of a cache-free tree       *)
(* ------------------------------------------------------------------ *)
Definition fanns (s : src) (c : bool) : list (text * option text) :=
  anns (fst (fst (stream [] s (mkOpts c true)))).

(* map() of a ConcatSource looks a file up at its first announcement *)
Lemma concat_map_lookup (cs : list src) (c : bool) (m : smap) (f : text) :
  rshape (SConcat cs) = true -> treeA (SConcat cs) = true -> tiny (SConcat cs) = true ->
  fst (map_of [] (SConcat cs) c) = Some m ->
  ceq (content_of_file (Some m) f) (first_content f (fanns (SConcat cs) c)).
Proof.
  intros H1 H2 H3 Em.
  pose proof (rshape_ids_distinct _ H1) as Hd. pose proof (rshape_cls _ H1 H2 H3) as Hc.
  destruct (sound_stream (SConcat cs) Hd (SConcat cs) [] (mkOpts c true) (incl_refl _) Hc (sound_empty _)) as [D _].
  change (map_of [] (SConcat cs) c) with (Tree.get_map [] (SConcat cs) c) in Em. unfold Tree.get_map in Em.
  unfold fanns. destruct (stream [] (SConcat cs) (mkOpts c true)) as [[evs gi] st']. cbn [fst snd] in *.
  apply (events_lookup c evs m f D Em).
Qed.

(* a ConcatSource (not a single child) announces what its children announce first *)
Lemma concat_fanns (cs : list src) (c : bool) (f : text) :
  length cs <> 1%nat -> rshape (SConcat cs) = true ->
  cfind f (fanns (SConcat cs) c) = cfind f (flat_map (fun k => fanns k c) cs).
Proof.
  intros Hl Hs. unfold fanns at 1.
  assert (PF : forall k, In k cs -> forall st, snd (stream st k (mkOpts c true)) = st).
  { intros k Hk st. pose proof (rshape_concat_inv _ Hs) as Hs'. rewrite Forall_forall in Hs'.
    destruct (nocache_pure k (rshape_nocache k (Hs' k Hk))) as [P _]. rewrite (P st). reflexivity. }
  rewrite (stream_concat_fold [] cs (mkOpts c true) Hl), (kid_streams_pure (mkOpts c true) cs PF []).
  cbn [fst snd final_source].
  destruct (concat_fold_contents f true (map (fun k => fst (stream [] k (mkOpts c true))) cs) concat_init [] eq_refl) as [_ B].
  rewrite B. cbn [contents_of_events app]. f_equal.
  rewrite flat_map_concat_map, map_map, <- flat_map_concat_map. reflexivity.
Qed.

(* ------------------------------------------------------------------ *)
(* L1 without a contents hypothesis                                      *)
(* ------------------------------------------------------------------ *)
Section Nesting.
Variables a b c : src.
Variables opsa opsb : list hop.
Let F := SConcat [a; b; c].
Let R := SConcat [a; SConcat [b; c]].
Let L := SConcat [SConcat [a; b]; c].
Hypothesis Hs : rshape F = true.
Hypothesis Ha : treeA F = true.
Hypothesis Ht : tiny F = true.

Lemma kids_rshape : rshape a = true /\ rshape b = true /\ rshape c = true.
Proof.
  pose proof (rshape_concat_inv _ Hs) as H. inversion H as [|? ? K1 H1]; subst.
  inversion H1 as [|? ? K2 H2]; subst. inversion H2 as [|? ? K3 _]; subst. auto.
Qed.

Lemma nest_first (cl : bool) (f : text) :
  cfind f (fanns R cl) = cfind f (fanns F cl) /\ cfind f (fanns L cl) = cfind f (fanns F cl).
Proof.
  destruct kids_rshape as [Ka [Kb Kc]].
  destruct (nest_rshape a b c Hs) as [R1 L1].
  assert (Sbc : rshape (SConcat [b; c]) = true) by (cbn [RStreamTree.rshape forallb]; rewrite Kb, Kc; reflexivity).
  assert (Sab : rshape (SConcat [a; b]) = true) by (cbn [RStreamTree.rshape forallb]; rewrite Ka, Kb; reflexivity).
  unfold R, L, F.
  rewrite (concat_fanns [a; SConcat [b; c]] cl f), (concat_fanns [SConcat [a; b]; c] cl f),
          (concat_fanns [a; b; c] cl f); try (cbn [length]; lia); try assumption.
  cbn [flat_map]. rewrite !app_nil_r, !cfind_app.
  rewrite (concat_fanns [b; c] cl f), (concat_fanns [a; b] cl f); try (cbn [length]; lia); try assumption.
  cbn [flat_map]. rewrite !app_nil_r, !cfind_app.
  split; destruct (cfind f (fanns a cl)); reflexivity.
Qed.

Lemma nest_lookup (X : src) (cl : bool) (f : text) (mx my : smap) :
  rshape X = true -> treeA X = true -> tiny X = true ->
  (exists cs, X = SConcat cs) -> cfind f (fanns X cl) = cfind f (fanns F cl) ->
  fst (map_of [] X cl) = Some mx -> fst (map_of [] F cl) = Some my ->
  ceq (content_of_file (Some mx) f) (content_of_file (Some my) f).
Proof.
  intros X1 X2 X3 [cs ->] E Ex Ey.
  apply (ceq_trans _ (first_content f (fanns (SConcat cs) cl))); [apply concat_map_lookup; assumption|].
  apply ceq_sym. unfold first_content. rewrite E. apply (concat_map_lookup [a; b; c] cl my f Hs Ha Ht Ey).
Qed.

Theorem C13_boxed_nesting_right_checker_any : chk_C13 R F false (api_pair R opsa F opsb) = 0.
Proof.
  destruct (nest_rshape a b c Hs) as [R1 _]. destruct (nest_treeA a b c Ha) as [R2 _].
  destruct (nest_tiny a b c Ht) as [R3 _].
  apply (law_checker_lookup R F opsa opsb); try assumption.
  - apply (nest_source a b c).
  - rewrite (treeA_buffer R R2), (treeA_buffer F Ha). apply (nest_source a b c).
  - intros cl. apply (concat_nest_any [] a b c cl cl Hs Ha).
  - intros cl f mx my Ex Ey. apply (nest_lookup R cl f mx my R1 R2 R3); try assumption.
    + eexists; reflexivity.
    + apply nest_first.
Qed.

Theorem C13_boxed_nesting_left_checker_any : chk_C13 L F false (api_pair L opsa F opsb) = 0.
Proof.
  destruct (nest_rshape a b c Hs) as [_ L1]. destruct (nest_treeA a b c Ha) as [_ L2].
  destruct (nest_tiny a b c Ht) as [_ L3].
  apply (law_checker_lookup L F opsa opsb); try assumption.
  - apply (nest_source a b c).
  - rewrite (treeA_buffer L L2), (treeA_buffer F Ha). apply (nest_source a b c).
  - intros cl. apply (concat_nest_any [] a b c cl cl Hs Ha).
  - intros cl f mx my Ex Ey. apply (nest_lookup L cl f mx my L1 L2 L3); try assumption.
    + eexists; reflexivity.
    + apply nest_first.
Qed.

End Nesting.

Theorem C13_boxed_nesting_checker_any (a b c : src) (opsa opsb : list hop) :
  rshape (SConcat [a; b; c]) = true -> treeA (SConcat [a; b; c]) = true ->
  tiny (SConcat [a; b; c]) = true ->
  chk_C13 (SConcat [a; SConcat [b; c]]) (SConcat [a; b; c]) false
          (api_pair (SConcat [a; SConcat [b; c]]) opsa (SConcat [a; b; c]) opsb) = 0 /\
  chk_C13 (SConcat [SConcat [a; b]; c]) (SConcat [a; b; c]) false
          (api_pair (SConcat [SConcat [a; b]; c]) opsa (SConcat [a; b; c]) opsb) = 0.
Proof.
  intros H1 H2 H3. split;
    [apply C13_boxed_nesting_right_checker_any|apply C13_boxed_nesting_left_checker_any]; assumption.
Qed.

(* an instance outside the contents hypothesis: one file name, two contents *)
Example nesting_inconsistent_instance (opsa opsb : list hop) :
  let a := SOriginal [97; 98] [102] in
  let b := SOriginal [99; 100] [102] in
  consistentb (decl (SConcat [a; b; a])) = false /\
  chk_C13 (SConcat [a; SConcat [b; a]]) (SConcat [a; b; a]) false
          (api_pair (SConcat [a; SConcat [b; a]]) opsa (SConcat [a; b; a]) opsb) = 0.
Proof.
  cbn zeta. split; [vm_compute; reflexivity|].
  apply C13_boxed_nesting_checker_any; vm_compute; reflexivity.
Qed.

Print Assumptions events_lookup.
Print Assumptions law_checker_lookup.
Print Assumptions C13_boxed_nesting_checker_any.
Print Assumptions nesting_inconsistent_instance.
