(* A1: the codec-and-tables lemma.  The SourceMap that map() builds from an event
   list (encode the chunk mappings, collect the announced sources / names)
   attributes every byte of any text exactly as the event list itself does
   (indices resolved by the announcements made before the chunk).
   Also: generic facts on the attribution semantics (Sem/Attr.v) reused by
   AttrSms.v and AttrLeaves.v. *)
From RS Require Import Base.Prelude Base.Text Rope.RopeModel Codec.Vlq Codec.CodecSpec
  Checkers.ChkCodec Stream.Types Stream.Leaves Stream.Replace Stream.Tree Sem.Attr Checkers.ChkTree
  Proofs.CodecKept Proofs.CodecEnc Proofs.CodecMain Proofs.StreamText Proofs.StreamLeaves
  Proofs.StreamMap.
Require Import Lia List.

Local Open Scope N_scope.

(* ------------------------------------------------------------------ *)
(* the boolean comparisons of attributions                             *)
(* ------------------------------------------------------------------ *)
Lemma opt_text_eqb_refl (a : option text) : opt_eqb text_eqb a a = true.
Proof. destruct a as [x|]; [apply text_eqb_refl|reflexivity]. Qed.

Lemma loc_eqb_refl (a : loc) : loc_eqb a a = true.
Proof.
  unfold loc_eqb. rewrite text_eqb_refl, !N.eqb_refl, opt_text_eqb_refl. reflexivity.
Qed.

Lemma attr_eqb_refl (a : attr) : attr_eqb a a = true.
Proof. destruct a as [x|]; [apply loc_eqb_refl|reflexivity]. Qed.

Lemma attr_eqb_fl_refl (a : attr) : attr_eqb_fl a a = true.
Proof.
  destruct a as [x|]; [|reflexivity]. cbn. unfold loc_eqb_fl.
  rewrite text_eqb_refl, N.eqb_refl. reflexivity.
Qed.

Lemma list_eqb_attr_refl (eqb : attr -> attr -> bool) :
  (forall a, eqb a a = true) -> forall l, list_eqb_attr eqb l l = true.
Proof.
  intros H l. induction l as [|x l IH]; [reflexivity|]. cbn [list_eqb_attr]. rewrite H, IH. reflexivity.
Qed.

Lemma opt_text_eqb_eq (a b : option text) : opt_eqb text_eqb a b = true <-> a = b.
Proof.
  destruct a as [x|], b as [y|]; cbn [opt_eqb]; split; intros H; try discriminate; try reflexivity.
  - apply text_eqb_eq in H. subst y. reflexivity.
  - inversion H. apply text_eqb_refl.
Qed.

Lemma loc_eqb_eq (a b : loc) : loc_eqb a b = true <-> a = b.
Proof.
  split.
  - unfold loc_eqb. intros H. apply andb_true_iff in H. destruct H as [H H4].
    apply andb_true_iff in H. destruct H as [H H3]. apply andb_true_iff in H. destruct H as [H1 H2].
    apply text_eqb_eq in H1. apply N.eqb_eq in H2. apply N.eqb_eq in H3. apply opt_text_eqb_eq in H4.
    destruct a, b. cbn in *. subst. reflexivity.
  - intros ->. apply loc_eqb_refl.
Qed.

Lemma attr_eqb_eq (a b : attr) : attr_eqb a b = true <-> a = b.
Proof.
  destruct a as [x|], b as [y|]; cbn; split; intros H; try discriminate; try reflexivity.
  - apply loc_eqb_eq in H. subst y. reflexivity.
  - inversion H. apply loc_eqb_refl.
Qed.

Lemma list_eqb_attr_eq (a b : list attr) : list_eqb_attr attr_eqb a b = true <-> a = b.
Proof.
  split.
  - revert b. induction a as [|x a IH]; intros [|y b] H; cbn [list_eqb_attr] in H; try discriminate; [reflexivity|].
    apply andb_true_iff in H. destruct H as [H1 H2]. apply attr_eqb_eq in H1. subst y.
    rewrite (IH b H2). reflexivity.
  - intros ->. apply list_eqb_attr_refl. apply attr_eqb_refl.
Qed.

(* Leibniz equality gives both boolean forms *)
Lemma attr_lists_eqb (a b : list attr) : a = b -> list_eqb_attr attr_eqb a b = true.
Proof. intros ->. apply list_eqb_attr_refl. apply attr_eqb_refl. Qed.

Lemma attr_lists_eqb_fl (a b : list attr) : a = b -> list_eqb_attr attr_eqb_fl a b = true.
Proof. intros ->. apply list_eqb_attr_refl. apply attr_eqb_fl_refl. Qed.

(* ------------------------------------------------------------------ *)
(* positions: the order used by the splitters' proofs                   *)
(* ------------------------------------------------------------------ *)
Lemma ple_refl p : ple p p.
Proof. unfold ple. lia. Qed.

Lemma ple_trans a b c : ple a b -> ple b c -> ple a c.
Proof. unfold ple. lia. Qed.

Lemma ple_plt_trans a b c : ple a b -> plt b c -> plt a c.
Proof. unfold ple, plt. lia. Qed.

Lemma plt_ple_trans a b c : plt a b -> ple b c -> plt a c.
Proof. unfold ple, plt. lia. Qed.

Lemma plt_ple a b : plt a b -> ple a b.
Proof. unfold ple, plt. lia. Qed.

Lemma advance_ple t : forall l c, ple (l, c) (advance l c t).
Proof.
  induction t as [|b t IH]; intros l c; [apply ple_refl|]. cbn [advance].
  destruct (b =? NL).
  - eapply ple_trans; [|apply IH]. unfold ple. cbn [fst snd]. lia.
  - eapply ple_trans; [|apply IH]. unfold ple. cbn [fst snd]. lia.
Qed.

Lemma advance_plt b t l c : plt (l, c) (advance l c (b :: t)).
Proof.
  cbn [advance]. destruct (b =? NL).
  - eapply plt_ple_trans; [|apply advance_ple]. unfold plt. cbn [fst snd]. lia.
  - eapply plt_ple_trans; [|apply advance_ple]. unfold plt. cbn [fst snd]. lia.
Qed.

(* ------------------------------------------------------------------ *)
(* attribution of a text by a function of the position                  *)
(* ------------------------------------------------------------------ *)
Fixpoint attr_by_fun (f : N -> N -> attr) (t : text) (l c : N) : list attr :=
  match t with
  | [] => []
  | b :: t' => f l c :: (if b =? NL then attr_by_fun f t' (l + 1) 0 else attr_by_fun f t' l (c + 1))
  end.

Definition seg_fun (segs : list rseg) (cols : bool) : N -> N -> attr :=
  fun l c => if cols then seg_lookup segs l c None else seg_first_mapped segs l.

Lemma attr_by_pos_fun segs cols t : forall l c,
  attr_by_pos segs cols t l c = attr_by_fun (seg_fun segs cols) t l c.
Proof.
  induction t as [|b t IH]; intros l c; [reflexivity|]. cbn [attr_by_pos attr_by_fun].
  rewrite !IH. reflexivity.
Qed.

(* two position functions that agree on the positions of the text give the same attribution *)
Lemma attr_by_fun_ext f g t : forall l c,
  (forall l' c', ple (l, c) (l', c') -> plt (l', c') (advance l c t) -> f l' c' = g l' c') ->
  attr_by_fun f t l c = attr_by_fun g t l c.
Proof.
  induction t as [|b t IH]; intros l c H; [reflexivity|]. cbn [attr_by_fun]. f_equal.
  - apply H; [apply ple_refl|apply advance_plt].
  - cbn [advance] in H. destruct (b =? NL).
    + apply IH. intros l' c' H1 H2. apply H; [|exact H2].
      eapply ple_trans; [|exact H1]. unfold ple. cbn [fst snd]. lia.
    + apply IH. intros l' c' H1 H2. apply H; [|exact H2].
      eapply ple_trans; [|exact H1]. unfold ple. cbn [fst snd]. lia.
Qed.

Lemma attr_by_fun_ext_all f g t l c :
  (forall l' c', f l' c' = g l' c') -> attr_by_fun f t l c = attr_by_fun g t l c.
Proof. intros H. apply attr_by_fun_ext. intros l' c' _ _. apply H. Qed.

Lemma attr_by_fun_none t : forall l c, attr_by_fun (fun _ _ => None) t l c = map (fun _ => None) t.
Proof.
  induction t as [|b t IH]; intros l c; [reflexivity|]. cbn [attr_by_fun map]. f_equal.
  destruct (b =? NL); apply IH.
Qed.

Lemma attr_by_fun_app f a b : forall l c,
  attr_by_fun f (a ++ b) l c = attr_by_fun f a l c ++ attr_by_fun f b (fst (advance l c a)) (snd (advance l c a)).
Proof.
  induction a as [|x a IH]; intros l c; [reflexivity|]. cbn [app attr_by_fun advance].
  destruct (x =? NL); rewrite IH; reflexivity.
Qed.

Lemma attr_by_fun_length f t : forall l c, length (attr_by_fun f t l c) = length t.
Proof.
  induction t as [|b t IH]; intros l c; [reflexivity|]. cbn [attr_by_fun length].
  destruct (b =? NL); rewrite IH; reflexivity.
Qed.

(* ------------------------------------------------------------------ *)
(* segments resolved by a pair of table functions                       *)
(* ------------------------------------------------------------------ *)
Definition oo (b : option mapping) : option orig :=
  match b with Some m => m_orig m | None => None end.

Section Resolve.
Variables fileF nameF : N -> text.

Definition resF (o : orig) : loc :=
  mkLoc (fileF (o_src o)) (o_line o) (o_col o)
        (match o_name o with Some n => Some (nameF n) | None => None end).
Definition optF (o : option orig) : attr :=
  match o with Some o => Some (resF o) | None => None end.
Definition rsF (mp : mapping) : rseg := (g_line mp, g_col mp, optF (m_orig mp)).
Definition fmF (x : option (N * N)) : attr :=
  match x with Some (s, ln) => Some (mkLoc (fileF s) ln 0 None) | None => None end.

Lemma seg_lookup_map : forall ms l c best,
  seg_lookup (map rsF ms) l c (optF (oo best)) = optF (oo (lookup_from ms l c best)).
Proof.
  induction ms as [|m ms IH]; intros l c best; [reflexivity|].
  cbn [map seg_lookup lookup_from rsF].
  destruct ((g_line m =? l) && (g_col m <=? c)).
  - apply (IH l c (Some m)).
  - apply IH.
Qed.

Lemma seg_lookup_map0 ms l c : seg_lookup (map rsF ms) l c None = optF (lookup ms l c).
Proof. apply (seg_lookup_map ms l c None). Qed.

Lemma seg_first_mapped_map : forall ms l,
  seg_first_mapped (map rsF ms) l = fmF (first_mapped ms l).
Proof.
  induction ms as [|m ms IH]; intros l; [reflexivity|].
  cbn [map seg_first_mapped first_mapped rsF].
  destruct (g_line m =? l); [|apply IH].
  destruct (m_orig m) as [o|]; [reflexivity|apply IH].
Qed.

Lemma seg_fun_map ms cols l c :
  seg_fun (map rsF ms) cols l c = if cols then optF (lookup ms l c) else fmF (first_mapped ms l).
Proof. unfold seg_fun. destruct cols; [apply seg_lookup_map0|apply seg_first_mapped_map]. Qed.

End Resolve.

Lemma resF_ext f f' n n' o :
  (forall i, f i = f' i) -> (forall i, n i = n' i) -> resF f n o = resF f' n' o.
Proof. intros Hf Hn. unfold resF. rewrite Hf. destruct (o_name o); [rewrite Hn|]; reflexivity. Qed.

Lemma rsF_ext f f' n n' m :
  (forall i, f i = f' i) -> (forall i, n i = n' i) -> rsF f n m = rsF f' n' m.
Proof.
  intros Hf Hn. unfold rsF, optF. destruct (m_orig m); [rewrite (resF_ext f f' n n') by assumption|]; reflexivity.
Qed.

(* table lookups *)
Definition fileT (srcs : list text) (i : N) : text :=
  match nth_opt srcs i with Some s => s | None => BAD end.
(* the file of source index i of a SourceMap, sourceRoot applied *)
Definition fileM (m : smap) (i : N) : text :=
  match nth_opt (sm_sources m) i with Some s => get_source m s | None => BAD end.

Lemma rsegs_of_map_F (m : smap) :
  rsegs_of_map m = map (rsF (fileM m) (fileT (sm_names m))) (decode_mappings (sm_mappings m)).
Proof.
  unfold rsegs_of_map. apply map_ext. intros mp. unfold rsF, optF.
  destruct (m_orig mp) as [o|]; reflexivity.
Qed.

Lemma fileM_noroot m i : sm_root m = None -> fileM m i = fileT (sm_sources m) i.
Proof.
  intros H. unfold fileM, fileT, get_source. rewrite H. reflexivity.
Qed.

(* attribution by a SourceMap, as a function of the decoded segments *)
Lemma attr_of_map_some (m : smap) (t : text) (cols : bool) :
  attr_of_map (Some m) t cols =
  attr_by_fun (fun l c => if cols
                 then optF (fileM m) (fileT (sm_names m)) (lookup (decode_mappings (sm_mappings m)) l c)
                 else fmF (fileM m) (first_mapped (decode_mappings (sm_mappings m)) l)) t 1 0.
Proof.
  cbn [attr_of_map]. rewrite attr_by_pos_fun, rsegs_of_map_F.
  apply attr_by_fun_ext_all. intros l c. apply seg_fun_map.
Qed.

(* ------------------------------------------------------------------ *)
(* LinearMap insertions that stay dense                                 *)
(* ------------------------------------------------------------------ *)
Lemma lm_set_len {A} (d : A) (l : list A) (v : A) : lm_set d l (length l) v = l ++ [v].
Proof. induction l as [|x l IH]; [reflexivity|]. cbn [length lm_set app]. rewrite IH. reflexivity. Qed.

Lemma lm_set_same {A} (d : A) : forall (l : list A) (k : nat) (v : A),
  nth_error l k = Some v -> lm_set d l k v = l.
Proof.
  induction l as [|x l IH]; intros k v H.
  - destruct k; discriminate.
  - destruct k as [|k]; cbn [nth_error] in H.
    + inversion H. reflexivity.
    + cbn [lm_set]. rewrite (IH k v H). reflexivity.
Qed.

(* the announced index is the next free one, or repeats the string already there *)
Definition slot_ok (tbl : list text) (i : N) (n : text) : bool :=
  (i =? len tbl) || match nth_opt tbl i with Some x => text_eqb x n | None => false end.

Lemma lm_insert_ok (d : text) tbl i n : slot_ok tbl i n = true ->
  lm_insert d tbl i n = if i =? len tbl then tbl ++ [n] else tbl.
Proof.
  unfold slot_ok, lm_insert. destruct (i =? len tbl) eqn:E.
  - intros _. apply N.eqb_eq in E. subst i. unfold len. rewrite Nat2N.id. apply lm_set_len.
  - cbn [orb]. destruct (nth_opt tbl i) as [x|] eqn:En; [|discriminate].
    intros H. apply text_eqb_eq in H. subst x. apply lm_set_same. exact En.
Qed.

Lemma lm_insert_ext (d : text) tbl i n : slot_ok tbl i n = true ->
  exists e, lm_insert d tbl i n = tbl ++ e.
Proof.
  intros H. rewrite (lm_insert_ok d tbl i n H). destruct (i =? len tbl).
  - exists [n]. reflexivity.
  - exists []. rewrite app_nil_r. reflexivity.
Qed.

Lemma snth_app_l {A} (a b : list A) (i : N) : i < len a -> nth_opt (a ++ b) i = nth_opt a i.
Proof. unfold nth_opt, len. intros H. apply nth_error_app1. lia. Qed.

Lemma fileT_app a b i : i < len a -> fileT (a ++ b) i = fileT a i.
Proof. intros H. unfold fileT. rewrite snth_app_l by exact H. reflexivity. Qed.

(* ------------------------------------------------------------------ *)
(* announcements: dense and write-once                                  *)
(* ------------------------------------------------------------------ *)
(* the side condition of A1: every announcement takes the next free index or repeats the
   string already announced for its index; every chunk uses indices announced before it *)
Fixpoint ann_ok (evs : list event) (srcs names : list text) : bool :=
  match evs with
  | [] => true
  | ESource i n _ :: evs' => slot_ok srcs i n && ann_ok evs' (lm_insert BAD srcs i n) names
  | EName i n :: evs' => slot_ok names i n && ann_ok evs' srcs (lm_insert BAD names i n)
  | EChunk _ m :: evs' =>
    match m_orig m with
    | Some o => (o_src o <? len srcs) && match o_name o with Some n => n <? len names | None => true end
    | None => true
    end && ann_ok evs' srcs names
  end.

(* `stream_wf` with `<=` strengthened to `=`: what leaves and composites do *)
Fixpoint dense (evs : list event) (nsrc nname : N) : bool :=
  match evs with
  | [] => true
  | ESource i _ _ :: evs' => (i =? nsrc) && dense evs' (nsrc + 1) nname
  | EName i _ :: evs' => (i =? nname) && dense evs' nsrc (nname + 1)
  | EChunk _ m :: evs' =>
    match m_orig m with
    | Some o => (o_src o <? nsrc) && match o_name o with Some n => n <? nname | None => true end
    | None => true
    end && dense evs' nsrc nname
  end.

Lemma dense_stream_wf : forall evs a b, dense evs a b = true -> stream_wf evs a b = true.
Proof.
  induction evs as [|e evs IH]; intros a b H; [reflexivity|].
  destruct e as [t m|i n c|i n]; cbn [dense stream_wf] in *.
  - apply andb_true_iff in H. destruct H as [H1 H2]. rewrite H1. apply IH. exact H2.
  - apply andb_true_iff in H. destruct H as [H1 H2]. rewrite H1. apply N.eqb_eq in H1. subst i.
    rewrite N.leb_refl. apply IH. exact H2.
  - apply andb_true_iff in H. destruct H as [H1 H2]. rewrite H1. apply N.eqb_eq in H1. subst i.
    rewrite N.leb_refl. apply IH. exact H2.
Qed.

Lemma dense_ann_ok : forall evs srcs names,
  dense evs (len srcs) (len names) = true -> ann_ok evs srcs names = true.
Proof.
  induction evs as [|e evs IH]; intros srcs names H; [reflexivity|].
  destruct e as [t m|i n c|i n]; cbn [dense ann_ok] in *.
  - apply andb_true_iff in H. destruct H as [H1 H2]. rewrite H1. apply IH. exact H2.
  - apply andb_true_iff in H. destruct H as [H1 H2].
    assert (Hs : slot_ok srcs i n = true) by (unfold slot_ok; rewrite H1; reflexivity).
    rewrite Hs. cbn [andb]. apply IH. rewrite (lm_insert_ok BAD srcs i n Hs), H1, slen_app.
    change (len [n]) with 1. exact H2.
  - apply andb_true_iff in H. destruct H as [H1 H2].
    assert (Hs : slot_ok names i n = true) by (unfold slot_ok; rewrite H1; reflexivity).
    rewrite Hs. cbn [andb]. apply IH. rewrite (lm_insert_ok BAD names i n Hs), H1, slen_app.
    change (len [n]) with 1. exact H2.
Qed.

Lemma slot_ok_le tbl i n : slot_ok tbl i n = true -> i <= len tbl.
Proof.
  unfold slot_ok. destruct (i =? len tbl) eqn:E; [apply N.eqb_eq in E; lia|]. cbn [orb].
  destruct (nth_opt tbl i) as [x|] eqn:En; [|discriminate]. intros _.
  pose proof (snth_some_lt _ _ _ En). lia.
Qed.

Lemma ann_ok_stream_wf : forall evs srcs names,
  ann_ok evs srcs names = true -> stream_wf evs (len srcs) (len names) = true.
Proof.
  induction evs as [|e evs IH]; intros srcs names H; [reflexivity|].
  destruct e as [t m|i n c|i n]; cbn [ann_ok stream_wf] in *.
  - apply andb_true_iff in H. destruct H as [H1 H2]. rewrite H1. apply IH. exact H2.
  - apply andb_true_iff in H. destruct H as [H1 H2].
    pose proof (slot_ok_le _ _ _ H1) as Hle. apply N.leb_le in Hle. rewrite Hle. cbn [andb].
    specialize (IH _ _ H2). rewrite (lm_insert_ok BAD srcs i n H1) in IH.
    destruct (i =? len srcs); [rewrite slen_app in IH; exact IH|exact IH].
  - apply andb_true_iff in H. destruct H as [H1 H2].
    pose proof (slot_ok_le _ _ _ H1) as Hle. apply N.leb_le in Hle. rewrite Hle. cbn [andb].
    specialize (IH _ _ H2). rewrite (lm_insert_ok BAD names i n H1) in IH.
    destruct (i =? len names); [rewrite slen_app in IH; exact IH|exact IH].
Qed.

(* the tables after all announcements *)
Fixpoint tabs (evs : list event) (srcs names : list text) : list text * list text :=
  match evs with
  | [] => (srcs, names)
  | ESource i n _ :: evs' => tabs evs' (lm_insert BAD srcs i n) names
  | EName i n :: evs' => tabs evs' srcs (lm_insert BAD names i n)
  | EChunk _ _ :: evs' => tabs evs' srcs names
  end.

Lemma tabs_ext : forall evs srcs names, ann_ok evs srcs names = true ->
  exists es en, tabs evs srcs names = (srcs ++ es, names ++ en).
Proof.
  induction evs as [|e evs IH]; intros srcs names H.
  - exists [], []. cbn [tabs]. rewrite !app_nil_r. reflexivity.
  - destruct e as [t m|i n c|i n]; cbn [ann_ok tabs] in *; apply andb_true_iff in H; destruct H as [H1 H2].
    + apply IH. exact H2.
    + destruct (lm_insert_ext BAD srcs i n H1) as [e He]. rewrite He in *.
      destruct (IH _ _ H2) as [es [en E]]. exists (e ++ es), en. rewrite E, <- app_assoc. reflexivity.
    + destruct (lm_insert_ext BAD names i n H1) as [e He]. rewrite He in *.
      destruct (IH _ _ H2) as [es [en E]]. exists es, (e ++ en). rewrite E, <- app_assoc. reflexivity.
Qed.

(* resolving through the announcements made so far = resolving through the final tables *)
Lemma rsegs_resolved : forall evs srcs names, ann_ok evs srcs names = true ->
  map snd (rsegs_of_events evs srcs names) =
  map (rsF (fileT (fst (tabs evs srcs names))) (fileT (snd (tabs evs srcs names)))) (chunk_mappings evs).
Proof.
  induction evs as [|e evs IH]; intros srcs names H; [reflexivity|].
  destruct e as [t m|i n c|i n]; cbn [ann_ok rsegs_of_events tabs chunk_mappings] in *;
    apply andb_true_iff in H; destruct H as [H1 H2].
  - cbn [map snd]. rewrite (IH _ _ H2). f_equal.
    destruct (tabs_ext _ _ _ H2) as [es [en E]]. rewrite E. cbn [fst snd].
    unfold rsF, optF. destruct (m_orig m) as [o|]; [|reflexivity].
    apply andb_true_iff in H1. destruct H1 as [Hs Hn]. apply N.ltb_lt in Hs.
    unfold resF. rewrite (fileT_app srcs es) by exact Hs.
    destruct (o_name o) as [k|]; [|reflexivity].
    apply N.ltb_lt in Hn. rewrite (fileT_app names en) by exact Hn. reflexivity.
  - apply IH. exact H2.
  - apply IH. exact H2.
Qed.

(* get_map's tables are the same tables *)
Lemma fold_tables : forall evs T, ann_ok evs (t_sources T) (t_names T) = true ->
  t_sources (fold_left tables_event evs T) = fst (tabs evs (t_sources T) (t_names T)) /\
  t_names (fold_left tables_event evs T) = snd (tabs evs (t_sources T) (t_names T)).
Proof.
  induction evs as [|e evs IH]; intros T H; [split; reflexivity|].
  destruct e as [t m|i n c|i n]; cbn [ann_ok fold_left tabs] in *;
    apply andb_true_iff in H; destruct H as [H1 H2].
  - apply IH. exact H2.
  - assert (E : t_sources (tables_event T (ESource i n c)) = lm_insert BAD (t_sources T) i n).
    { cbn [tables_event t_sources].
      etransitivity; [exact (lm_insert_ok [] _ _ _ H1)|symmetry; exact (lm_insert_ok BAD _ _ _ H1)]. }
    assert (E' : t_names (tables_event T (ESource i n c)) = t_names T) by reflexivity.
    rewrite <- E, <- E' in H2. specialize (IH _ H2). rewrite E, E' in IH. exact IH.
  - assert (E : t_names (tables_event T (EName i n)) = lm_insert BAD (t_names T) i n).
    { cbn [tables_event t_names].
      etransitivity; [exact (lm_insert_ok [] _ _ _ H1)|symmetry; exact (lm_insert_ok BAD _ _ _ H1)]. }
    assert (E' : t_sources (tables_event T (EName i n)) = t_sources T) by reflexivity.
    rewrite <- E, <- E' in H2. specialize (IH _ H2). rewrite E, E' in IH. exact IH.
Qed.

(* attribution by an event list, as a function of its chunk mappings *)
Lemma attr_of_final_events_F evs t cols : ann_ok evs [] [] = true ->
  attr_of_final_events evs t cols =
  attr_by_fun (fun l c => if cols
                 then optF (fileT (fst (tabs evs [] []))) (fileT (snd (tabs evs [] []))) (lookup (chunk_mappings evs) l c)
                 else fmF (fileT (fst (tabs evs [] []))) (first_mapped (chunk_mappings evs) l)) t 1 0.
Proof.
  intros H. unfold attr_of_final_events. rewrite attr_by_pos_fun, (rsegs_resolved evs [] [] H).
  apply attr_by_fun_ext_all. intros l c. apply seg_fun_map.
Qed.

(* ------------------------------------------------------------------ *)
(* lines-only: the first mapped segment of a line survives `line_firsts`  *)
(* ------------------------------------------------------------------ *)
Lemma first_mapped_line_firsts : forall ms last l, last <> l ->
  first_mapped (line_firsts_from last ms) l = first_mapped ms l.
Proof.
  induction ms as [|m ms IH]; intros last l H; [reflexivity|].
  cbn [line_firsts_from first_mapped]. destruct (m_orig m) as [o|].
  - destruct (last =? g_line m) eqn:E.
    + apply N.eqb_eq in E. replace (g_line m =? l) with false by (symmetry; apply N.eqb_neq; lia).
      apply IH. exact H.
    + cbn [first_mapped g_line m_orig o_src o_line]. destruct (g_line m =? l) eqn:E2; [reflexivity|].
      apply N.eqb_neq in E2. apply IH. exact E2.
  - destruct (g_line m =? l); apply IH; exact H.
Qed.

Lemma decode_nil : decode_mappings [] = [].
Proof. reflexivity. Qed.

(* ------------------------------------------------------------------ *)
(* A1                                                                   *)
(* ------------------------------------------------------------------ *)
Lemma enc_domain_sorted ms : enc_domain ms = true -> sorted_by pos_le ms = true.
Proof. unfold enc_domain. intros H. apply andb_true_iff in H. apply H. Qed.

Theorem attr_codec_cols (evs : list event) (t : text) :
  ann_ok evs [] [] = true -> enc_domain (chunk_mappings evs) = true ->
  attr_of_map (map_of_events true evs) t true = attr_of_final_events evs t true.
Proof.
  intros Ha Hd. rewrite (attr_of_final_events_F evs t true Ha).
  pose proof (decode_encode _ Hd) as Hdec. pose proof (enc_domain_sorted _ Hd) as Hs.
  unfold map_of_events. cbn [encode_mappings].
  destruct (is_nil (encode_full (chunk_mappings evs))) eqn:En.
  - apply is_nil_true in En. rewrite En, decode_nil in Hdec.
    cbn [attr_of_map]. rewrite <- (attr_by_fun_none t 1 0).
    apply attr_by_fun_ext_all. intros l c.
    rewrite <- (kept_attr _ l c Hs), <- Hdec. reflexivity.
  - rewrite attr_of_map_some. cbn [sm_mappings sm_names].
    destruct (fold_tables evs (mkT [] [] []) Ha) as [E1 E2]. cbn [t_sources t_names] in E1, E2.
    apply attr_by_fun_ext_all. intros l c.
    rewrite Hdec, (kept_attr _ l c Hs), E2.
    destruct (lookup (chunk_mappings evs) l c) as [o|]; [|reflexivity].
    cbn [optF]. f_equal. apply resF_ext; [|reflexivity].
    intros i. rewrite fileM_noroot by reflexivity. cbn [sm_sources]. rewrite E1. reflexivity.
Qed.

Theorem attr_codec_lines (evs : list event) (t : text) :
  ann_ok evs [] [] = true -> enc_domain (chunk_mappings evs) = true ->
  attr_of_map (map_of_events false evs) t false = attr_of_final_events evs t false.
Proof.
  intros Ha Hd. rewrite (attr_of_final_events_F evs t false Ha).
  pose proof (lines_only_decode _ Hd) as Hdec.
  unfold map_of_events. cbn [encode_mappings].
  destruct (is_nil (encode_lines (chunk_mappings evs))) eqn:En.
  - apply is_nil_true in En. rewrite En, decode_nil in Hdec.
    cbn [attr_of_map]. rewrite <- (attr_by_fun_none t 1 0).
    apply attr_by_fun_ext. intros l c H1 _.
    assert (Hl : 0 <> l) by (unfold ple in H1; cbn [fst snd] in H1; lia).
    rewrite <- (first_mapped_line_firsts _ 0 l Hl). fold (line_firsts (chunk_mappings evs)).
    rewrite <- Hdec. reflexivity.
  - rewrite attr_of_map_some. cbn [sm_mappings sm_names].
    destruct (fold_tables evs (mkT [] [] []) Ha) as [E1 _]. cbn [t_sources t_names] in E1.
    apply attr_by_fun_ext. intros l c H1 _.
    assert (Hl : 0 <> l) by (unfold ple in H1; cbn [fst snd] in H1; lia).
    rewrite Hdec. unfold line_firsts. rewrite (first_mapped_line_firsts _ 0 l Hl).
    destruct (first_mapped (chunk_mappings evs) l) as [[s ln]|]; [|reflexivity].
    cbn [fmF]. rewrite fileM_noroot by reflexivity. cbn [sm_sources]. rewrite E1. reflexivity.
Qed.

(* the boolean forms used by the checkers *)
Corollary attr_codec_cols_eqb evs t :
  ann_ok evs [] [] = true -> enc_domain (chunk_mappings evs) = true ->
  list_eqb_attr attr_eqb (attr_of_map (map_of_events true evs) t true) (attr_of_final_events evs t true) = true.
Proof. intros Ha Hd. apply attr_lists_eqb. apply attr_codec_cols; assumption. Qed.

Corollary attr_codec_lines_eqb_fl evs t :
  ann_ok evs [] [] = true -> enc_domain (chunk_mappings evs) = true ->
  list_eqb_attr attr_eqb_fl (attr_of_map (map_of_events false evs) t false) (attr_of_final_events evs t false) = true.
Proof. intros Ha Hd. apply attr_lists_eqb_fl. apply attr_codec_lines; assumption. Qed.

(* A1 in the form asked for: dense announcements *)
Corollary attr_codec_dense (evs : list event) (t : text) (cols : bool) :
  dense evs 0 0 = true -> enc_domain (chunk_mappings evs) = true ->
  attr_of_map (map_of_events cols evs) t cols = attr_of_final_events evs t cols.
Proof.
  intros Hd He. pose proof (dense_ann_ok evs [] [] Hd) as Ha.
  destruct cols; [apply attr_codec_cols|apply attr_codec_lines]; assumption.
Qed.

(* ------------------------------------------------------------------ *)
(* map() returns None exactly when no chunk is mapped                   *)
(* ------------------------------------------------------------------ *)
Definition is_mapped (m : mapping) : bool := match m_orig m with Some _ => true | None => false end.

Lemma enc_run_unmapped : forall ms e, e_active e = false -> existsb is_mapped ms = false ->
  enc_run e ms = (e, []).
Proof.
  induction ms as [|m ms IH]; intros e He H; [reflexivity|].
  cbn [existsb] in H. apply orb_false_iff in H. destruct H as [H1 H2].
  assert (Es : enc_step e m = (e, [])).
  { unfold enc_step. replace (enc_skip e m) with true; [reflexivity|].
    unfold enc_skip. rewrite He. cbn [andb]. unfold is_mapped in H1. destruct (m_orig m); [discriminate|reflexivity]. }
  cbn [enc_run]. rewrite Es, (IH e He H2). reflexivity.
Qed.

Lemma lenc_run_unmapped : forall ms e, existsb is_mapped ms = false -> lenc_run e ms = (e, []).
Proof.
  induction ms as [|m ms IH]; intros e H; [reflexivity|].
  cbn [existsb] in H. apply orb_false_iff in H. destruct H as [H1 H2].
  assert (Es : lenc_step e m = (e, [])).
  { unfold lenc_step. unfold is_mapped in H1. destruct (m_orig m); [discriminate|reflexivity]. }
  cbn [lenc_run]. rewrite Es, (IH e H2). reflexivity.
Qed.

Lemma kept_mapped_nonempty : forall ms, existsb is_mapped ms = true -> kept_from None ms <> [].
Proof.
  induction ms as [|m ms IH]; intros H; [discriminate|].
  cbn [kept_from redundant]. unfold is_mapped in H. cbn [existsb] in H.
  destruct (m_orig m) as [o|]; [discriminate|]. cbn [orb] in H. apply IH. exact H.
Qed.

Lemma line_firsts_mapped_nonempty : forall ms, Forall (fun m => 1 <= g_line m) ms ->
  existsb is_mapped ms = true -> line_firsts_from 0 ms <> [].
Proof.
  induction ms as [|m ms IH]; intros Hl H; [discriminate|].
  inversion Hl as [|? ? Hm Hms]; subst.
  cbn [line_firsts_from]. unfold is_mapped in H. cbn [existsb] in H.
  destruct (m_orig m) as [o|].
  - replace (0 =? g_line m) with false by (symmetry; apply N.eqb_neq; lia). discriminate.
  - cbn [orb] in H. apply IH; assumption.
Qed.

Lemma mapped_chunk_exists_eq evs : mapped_chunk_exists evs = existsb is_mapped (chunk_mappings evs).
Proof. reflexivity. Qed.

Theorem map_of_events_none (cols : bool) (evs : list event) :
  enc_domain (chunk_mappings evs) = true ->
  is_none (map_of_events cols evs) = negb (mapped_chunk_exists evs).
Proof.
  intros Hd. rewrite mapped_chunk_exists_eq. unfold map_of_events.
  destruct (existsb is_mapped (chunk_mappings evs)) eqn:Ex.
  - (* some chunk is mapped: the encoding is not empty *)
    cbn [negb]. destruct (is_nil (encode_mappings cols (chunk_mappings evs))) eqn:En; [|reflexivity].
    exfalso. apply is_nil_true in En. destruct cols; cbn [encode_mappings] in En.
    + pose proof (decode_encode _ Hd) as Hdec. rewrite En, decode_nil in Hdec.
      apply (kept_mapped_nonempty _ Ex). symmetry. exact Hdec.
    + pose proof (lines_only_decode _ Hd) as Hdec. rewrite En, decode_nil in Hdec.
      apply enc_domain_unpack in Hd. destruct Hd as [_ Hm].
      apply (line_firsts_mapped_nonempty (chunk_mappings evs)); [|exact Ex|symmetry; exact Hdec].
      eapply Forall_impl; [|exact Hm]. intros m (_ & _ & H & _). exact H.
  - cbn [negb]. replace (encode_mappings cols (chunk_mappings evs)) with (@nil N); [reflexivity|].
    destruct cols; cbn [encode_mappings].
    + unfold encode_full. rewrite enc_run_unmapped by (reflexivity || exact Ex). reflexivity.
    + unfold encode_lines. rewrite lenc_run_unmapped by exact Ex. reflexivity.
Qed.

(* Why `stream_wf` alone is not enough (the statement
     stream_wf evs 0 0 = true -> enc_domain (chunk_mappings evs) = true ->
     attr_of_map (map_of_events true evs) t true = attr_of_final_events evs t true
   is FALSE): index 0 is announced as "a", used by a chunk, then re-announced as "b";
   the map's table says "b", the stream said "a".  No leaf or composite of the model does
   this (they announce densely, `dense`), so it is a remark on the side condition only. *)
Example attr_codec_wf_counterexample :
  let evs := [ESource 0 [97] None; EChunk None (mkMapping 1 0 (Some (mkOrig 0 1 0 None))); ESource 0 [98] None] in
  let t := [120] in
  (stream_wf evs 0 0, enc_domain (chunk_mappings evs), ann_ok evs [] [],
   attr_of_map (map_of_events true evs) t true, attr_of_final_events evs t true)
  = (true, true, false, [Some (mkLoc [98] 1 0 None)], [Some (mkLoc [97] 1 0 None)]).
Proof. vm_compute. reflexivity. Qed.

Print Assumptions attr_codec_cols.
Print Assumptions attr_codec_lines.
Print Assumptions attr_codec_dense.
Print Assumptions map_of_events_none.
