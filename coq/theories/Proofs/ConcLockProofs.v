(* C18, CachedSource fill path with its critical section visible: proofs about
   the lock LTS of `Sem/ConcLock.v`.

   T1  `locked_write_once`: with the lock, the recorded history is write-once
       and every snapshot is extended by the final cache.
   T2  `locked_served_in_force`: every thread finishes (the fuel
       `4 * S (total_ops progs)` of `lfinish_thread` suffices) and every
       operation was served from the entry in force.
   T3  `locked_no_deadlock_state`: in every reachable state a blocked thread
       waits for a lock holder which is another, unfinished thread, and granting
       the holder makes progress.
   T4  `unlocked_fill_refuted`: without the lock (store replaces) write-once
       fails on a concrete two-thread schedule.
   T5  `locked_linearisable`: every outcome of the lock LTS is an outcome of
       the atomic LTS `cached_run true`. *)
From RS Require Import Base.Prelude Sem.Conc Sem.ConcLock Proofs.ConcCached.
From Coq Require Import Lia List.
Import ListNotations.

Local Open Scope nat_scope.

(* ================= list helpers ================= *)

Lemma lk_nth_update_same {A} (l : list A) : forall n x,
  n < length l -> nth_error (update_nth l n x) n = Some x.
Proof.
  induction l as [|y l IH]; intros [|n] x H; cbn in *; try lia; auto.
  apply IH. lia.
Qed.

Lemma lk_nth_update_other {A} (l : list A) : forall n m x,
  m <> n -> nth_error (update_nth l n x) m = nth_error l m.
Proof.
  induction l as [|y l IH]; intros [|n] [|m] x H; cbn in *; try congruence; auto.
Qed.

Lemma lk_update_length {A} (l : list A) : forall n x, length (update_nth l n x) = length l.
Proof. induction l as [|y l IH]; intros [|n] x; cbn; auto. Qed.

Lemma lk_nth_error_lt {A} (l : list A) n x : nth_error l n = Some x -> n < length l.
Proof. intros H. apply nth_error_Some. congruence. Qed.

(* ================= the thread invariant ================= *)

Definition LInvT (c : list (N * N)) (prog : list cop) (t : lthread) : Prop :=
  (exists done, prog = done ++ lt_ops t /\ Forall2 (ServedBy c) done (lt_served t)) /\
  (lt_pc t = LDone <-> lt_ops t = []).

Lemma LInvT_stable c c' prog t : Ext c c' -> LInvT c prog t -> LInvT c' prog t.
Proof.
  intros He [(done & Hp & Hs) Hd]. split; auto. exists done. split; auto.
  eapply cc_Forall2_impl; [|exact Hs]. intros o id H. apply He. exact H.
Qed.

Lemma lstart_not_done o : lstart o <> LDone.
Proof. destruct o; discriminate. Qed.

Lemma lstart_not_insert o : lstart o <> LStreamInsert.
Proof. destruct o; discriminate. Qed.

Lemma LInvT_init c prog : LInvT c prog (lthread_init prog).
Proof.
  split; cbn.
  - exists []. split; auto.
  - destruct prog as [|o ?]; split; auto; try discriminate.
    intros H; exfalso; exact (lstart_not_done _ H).
Qed.

Lemma LInvT_lnext_op c prog t o rest id site fill :
  lt_ops t = o :: rest -> LInvT c prog t -> cget c (ckey o) = Some id ->
  LInvT c prog (lnext_op t id site fill).
Proof.
  intros Eo [(done & Hp & Hs) Hd] Hg. unfold lnext_op. rewrite Eo.
  assert (Forall2 (ServedBy c) (done ++ [o]) (lt_served t ++ [id])).
  { apply Forall2_app; auto. }
  assert (prog = (done ++ [o]) ++ rest).
  { rewrite Hp, Eo, <- app_assoc. reflexivity. }
  destruct rest as [|o' rest]; split; cbn; eauto; try tauto.
  split; [intros E; exfalso; exact (lstart_not_done _ E) | discriminate].
Qed.

Lemma LInvT_lat c prog t pc site :
  lt_ops t <> [] -> pc <> LDone -> LInvT c prog t -> LInvT c prog (lat t pc site).
Proof.
  intros Hn Hpc [(done & Hp & Hs) Hd]. split; cbn.
  - exists done; auto.
  - split; intros; congruence.
Qed.

Lemma lnext_op_not_insert t id site fill : lt_pc (lnext_op t id site fill) <> LStreamInsert.
Proof.
  unfold lnext_op. destruct (lt_ops t) as [|o [|o' rest]]; cbn; try discriminate.
  apply lstart_not_insert.
Qed.

(* progress measure of a thread: the number of accesses it may still make *)
Definition lm (t : lthread) : nat :=
  match lt_pc t with
  | LDone => 0
  | LMapGet | LStreamEntry => 2 * length (lt_ops t)
  | LMapInsert | LStreamInsert => 2 * length (lt_ops t) - 1
  end.

Lemma lm_lstart o n : match lstart o with
                      | LDone => 0
                      | LMapGet | LStreamEntry => 2 * n
                      | LMapInsert | LStreamInsert => 2 * n - 1 end = 2 * n.
Proof. destruct o; reflexivity. Qed.

Lemma lnext_op_lm t o rest id site fill :
  lt_ops t = o :: rest -> lm (lnext_op t id site fill) <= 2 * length rest.
Proof.
  intros Eo. unfold lnext_op, lm. rewrite Eo.
  destruct rest as [|o' rest]; cbn [lt_pc lt_ops]; [cbn; lia|].
  rewrite lm_lstart. lia.
Qed.

(* one access of a thread that is not finished; at LStreamInsert the key has no entry *)
Lemma lraw_step c tid t prog c' l t' :
  LInvT (cs_cache c) prog t -> lt_pc t <> LDone ->
  (lt_pc t = LStreamInsert -> forall o rest, lt_ops t = o :: rest -> cget (cs_cache c) (ckey o) = None) ->
  lraw true c tid t = (c', l, t') ->
  Ext (cs_cache c) (cs_cache c') /\ LInvT (cs_cache c') prog t' /\ lm t' < lm t /\
  (lt_pc t = LStreamInsert -> l = Some false /\ lt_pc t' <> LStreamInsert) /\
  (lt_pc t <> LStreamInsert ->
     (l = None /\ lt_pc t' <> LStreamInsert) \/
     (l = Some true /\ c' = c /\ lt_pc t' = LStreamInsert /\
      exists o rest, lt_ops t' = o :: rest /\ cget (cs_cache c) (ckey o) = None)).
Proof.
  intros W Hpc Hins E. unfold lraw in E.
  destruct (lt_ops t) as [|o rest] eqn:Eo.
  { exfalso. apply Hpc. apply (proj2 W). exact Eo. }
  assert (Hne : lt_ops t <> []) by congruence.
  assert (Hlen : length (lt_ops t) = S (length rest)) by (rewrite Eo; reflexivity).
  destruct (lt_pc t) eqn:Epc; try congruence.
  - (* LMapGet *)
    destruct (cget (cs_cache c) (ckey o)) as [id|] eqn:G; inversion E; subst; clear E.
    + split; [apply Ext_refl|]. split; [eapply LInvT_lnext_op; eauto|].
      split; [pose proof (lnext_op_lm t o rest id 0%N false Eo); unfold lm at 2; rewrite Epc; lia|].
      split; [discriminate|]. intros _. left. split; auto. apply lnext_op_not_insert.
    + split; [apply Ext_refl|]. split; [apply LInvT_lat; auto; discriminate|].
      split; [unfold lm; cbn [lat lt_pc lt_ops]; rewrite Epc; lia|].
      split; [discriminate|]. intros _. left. split; auto. cbn. discriminate.
  - (* LMapInsert *)
    destruct (cget (cs_cache c) (ckey o)) as [id|] eqn:G; inversion E; subst; clear E.
    + split; [apply Ext_refl|]. split; [eapply LInvT_lnext_op; eauto|].
      split; [pose proof (lnext_op_lm t o rest id 1%N false Eo); unfold lm at 2; rewrite Epc; lia|].
      split; [discriminate|]. intros _. left. split; auto. apply lnext_op_not_insert.
    + assert (He : Ext (cs_cache c) (cs_cache (store c (ckey o) false))).
      { cbn [store cs_cache]. apply Ext_cons_fresh; auto. }
      split; [exact He|].
      split; [eapply LInvT_lnext_op; eauto; [eapply LInvT_stable; eauto | apply cget_cons_same]|].
      split; [pose proof (lnext_op_lm t o rest (cs_next c) 1%N true Eo); unfold lm at 2; rewrite Epc; lia|].
      split; [discriminate|]. intros _. left. split; auto. apply lnext_op_not_insert.
  - (* LStreamEntry *)
    destruct (cget (cs_cache c) (ckey o)) as [id|] eqn:G; inversion E; subst; clear E.
    + split; [apply Ext_refl|]. split; [eapply LInvT_lnext_op; eauto|].
      split; [pose proof (lnext_op_lm t o rest id 2%N false Eo); unfold lm at 2; rewrite Epc; lia|].
      split; [discriminate|]. intros _. left. split; auto. apply lnext_op_not_insert.
    + split; [apply Ext_refl|]. split; [apply LInvT_lat; auto; discriminate|].
      split; [unfold lm; cbn [lat lt_pc lt_ops]; rewrite Epc; lia|].
      split; [discriminate|]. intros _. right. split; auto. split; auto. split; [reflexivity|].
      exists o, rest. split; auto.
  - (* LStreamInsert *)
    inversion E; subst; clear E.
    pose proof (Hins eq_refl o rest eq_refl) as G.
    assert (He : Ext (cs_cache c) (cs_cache (store c (ckey o) true))).
    { cbn [store cs_cache]. apply Ext_cons_fresh; auto. }
    split; [exact He|].
    split; [eapply LInvT_lnext_op; eauto; [eapply LInvT_stable; eauto | apply cget_cons_same]|].
    split; [pose proof (lnext_op_lm t o rest (cs_next c) 3%N true Eo); unfold lm at 2; rewrite Epc; lia|].
    split; [|congruence]. intros _. split; auto. apply lnext_op_not_insert.
Qed.

(* ================= the global invariant ================= *)

Definition msum (ts : list lthread) : nat := fold_right (fun t n => lm t + n) 0 ts.

Lemma msum_update ts : forall n t t',
  nth_error ts n = Some t -> msum (update_nth ts n t') + lm t = msum ts + lm t'.
Proof.
  unfold msum.
  induction ts as [|y ts IH]; intros [|n] t t' H; cbn [nth_error update_nth fold_right] in *; try discriminate.
  - inversion H; subst. lia.
  - specialize (IH n t t' H). lia.
Qed.

(* the threads agree with their programs; a thread is inside the critical
   section iff it holds the lock; the key the holder is about to store has no entry *)
Definition LCore (progs : list (list cop)) (c : cshared) (lock : option nat) (ts : list lthread) : Prop :=
  Forall2 (LInvT (cs_cache c)) progs ts /\
  (forall i t, nth_error ts i = Some t -> lt_pc t = LStreamInsert -> lock = Some i) /\
  (forall h, lock = Some h ->
     exists t o rest, nth_error ts h = Some t /\ lt_pc t = LStreamInsert /\
                      lt_ops t = o :: rest /\ cget (cs_cache c) (ckey o) = None).

Lemma lpc_insert_dec pc : pc = LStreamInsert \/ pc <> LStreamInsert.
Proof. destruct pc; auto; right; discriminate. Qed.

Lemma lapply_inv progs sh ts tid t sh' ts' :
  LCore progs (ls_c sh) (ls_lock sh) ts ->
  nth_error ts tid = Some t -> lt_pc t <> LDone ->
  (ls_lock sh = None \/ ls_lock sh = Some tid) ->
  lapply true sh ts tid t = (sh', ts') ->
  LCore progs (ls_c sh') (ls_lock sh') ts' /\
  Ext (cs_cache (ls_c sh)) (cs_cache (ls_c sh')) /\
  ls_blocked sh' = ls_blocked sh /\
  msum ts' < msum ts /\
  (ls_lock sh = Some tid -> ls_lock sh' = None) /\
  (ls_lock sh' = None \/ ls_lock sh' = Some tid) /\
  (exists t', ts' = update_nth ts tid t').
Proof.
  intros (WF & Hcs & Hlk) En Hpc Hfree E. unfold lapply in E.
  destruct (lraw true (ls_c sh) tid t) as [[c l] t1] eqn:Er.
  inversion E; subst sh' ts'; clear E. cbn [ls_c ls_lock ls_blocked].
  destruct (cc_Forall2_nth_error_r _ _ _ _ _ WF En) as (prog & Ep & Wt).
  assert (Hins : lt_pc t = LStreamInsert -> forall o rest, lt_ops t = o :: rest ->
                 cget (cs_cache (ls_c sh)) (ckey o) = None).
  { intros Hi o rest Eo. pose proof (Hcs _ _ En Hi) as Hl.
    destruct (Hlk _ Hl) as (t2 & o2 & rest2 & En2 & _ & Eo2 & G).
    rewrite En in En2. inversion En2; subst t2. rewrite Eo in Eo2. inversion Eo2; subst. exact G. }
  destruct (lraw_step _ _ _ _ _ _ _ Wt Hpc Hins Er) as (He & Wt1 & Hm & HI & HN).
  pose proof (lk_nth_error_lt _ _ _ En) as Hlt.
  assert (WF' : Forall2 (LInvT (cs_cache c)) progs (update_nth ts tid t1)).
  { eapply cc_Forall2_update_nth_r; eauto.
    eapply cc_Forall2_impl; [|exact WF]. intros p u. apply LInvT_stable; auto. }
  assert (Hsum : msum (update_nth ts tid t1) < msum ts).
  { pose proof (msum_update ts tid t t1 En). lia. }
  assert (Hoth : forall i u, i <> tid -> nth_error (update_nth ts tid t1) i = Some u ->
                 lt_pc u = LStreamInsert -> ls_lock sh = Some i).
  { intros i u Hi Eu Hu. rewrite lk_nth_update_other in Eu by auto. eauto. }
  split; [|split; [exact He|split; [reflexivity|split; [exact Hsum|]]]].
  2: { destruct (lpc_insert_dec (lt_pc t)) as [Hi|Hi].
       - destruct (HI Hi) as [-> _]. split; auto. split; auto. eauto.
       - destruct (HN Hi) as [[-> _]|[-> _]].
         + split; [|split; eauto]. intros Hl. pose proof (Hlk _ Hl) as (t2 & o2 & r2 & En2 & Hp2 & _).
           rewrite En in En2. inversion En2; subst. contradiction.
         + split; [|split; eauto]. intros Hl. pose proof (Hlk _ Hl) as (t2 & o2 & r2 & En2 & Hp2 & _).
           rewrite En in En2. inversion En2; subst. contradiction. }
  split; [exact WF'|].
  destruct (lpc_insert_dec (lt_pc t)) as [Hi|Hi].
  - (* the holder stores and releases *)
    destruct (HI Hi) as [-> Hn1]. pose proof (Hcs _ _ En Hi) as Hl. split.
    + intros i u Eu Hu. exfalso. destruct (Nat.eq_dec i tid) as [->|Hne].
      * rewrite lk_nth_update_same in Eu by auto. inversion Eu; subst. contradiction.
      * pose proof (Hoth i u Hne Eu Hu). congruence.
    + intros h Hh. discriminate.
  - destruct Hfree as [Hl|Hl].
    2: { exfalso. destruct (Hlk _ Hl) as (t2 & o2 & r2 & En2 & Hp2 & _).
         rewrite En in En2. inversion En2; subst. contradiction. }
    destruct (HN Hi) as [[-> Hn1]|(-> & -> & Hp1 & o & rest & Eo1 & G)].
    + rewrite Hl. split.
      * intros i u Eu Hu. exfalso. destruct (Nat.eq_dec i tid) as [->|Hne].
        -- rewrite lk_nth_update_same in Eu by auto. inversion Eu; subst. contradiction.
        -- pose proof (Hoth i u Hne Eu Hu). congruence.
      * intros h Hh. discriminate.
    + split.
      * intros i u Eu Hu. destruct (Nat.eq_dec i tid) as [->|Hne]; auto.
        pose proof (Hoth i u Hne Eu Hu). congruence.
      * intros h Hh. inversion Hh; subst h. exists t1, o, rest.
        rewrite lk_nth_update_same by auto. auto.
Qed.

(* a blocked thread waits for a holder which is another thread; it is not finished *)
Definition LInv (progs : list (list cop)) (sh : lshared) (ts : list lthread) : Prop :=
  LCore progs (ls_c sh) (ls_lock sh) ts /\
  (forall b, ls_blocked sh = Some b ->
     exists h tb, ls_lock sh = Some h /\ h <> b /\ nth_error ts b = Some tb /\ lt_pc tb <> LDone).

(* potential: every grant of `lfinish_thread` decreases it *)
Definition phi (sh : lshared) (ts : list lthread) : nat :=
  2 * msum ts + match ls_blocked sh with Some _ => 0 | None => 1 end.

Definition lpc_is_done (pc : lpc) : bool := match pc with LDone => true | _ => false end.

Definition lgrant_body (sh : lshared) (ts : list lthread) (tid : nat) (t : lthread) : lshared * list lthread :=
  match ls_lock sh with
  | Some h =>
    if Nat.eqb h tid then
      let '(sh1, ts1) := lapply true sh ts tid t in
      match ls_blocked sh1, ls_lock sh1 with
      | Some b, None =>
        match nth_error ts1 b with
        | Some tb => lapply true (mkLS (ls_c sh1) None None) ts1 b tb
        | None => (mkLS (ls_c sh1) None None, ts1)
        end
      | _, _ => (sh1, ts1)
      end
    else
      match ls_blocked sh with
      | Some _ => (sh, ts)
      | None => (mkLS (ls_c sh) (ls_lock sh) (Some tid), ts)
      end
  | None => lapply true sh ts tid t
  end.

Lemma lgrant_unfold sh ts tid :
  lgrant true sh ts tid =
  match nth_error ts tid with
  | None => (sh, ts)
  | Some t => if lpc_is_done (lt_pc t) then (sh, ts) else lgrant_body sh ts tid t
  end.
Proof.
  unfold lgrant, lgrant_body. destruct (nth_error ts tid) as [t|]; [|reflexivity].
  destruct (lt_pc t); reflexivity.
Qed.

Lemma lpc_is_done_false pc : lpc_is_done pc = false <-> pc <> LDone.
Proof. destruct pc; cbn; split; congruence. Qed.

Lemma lpc_is_done_true pc : lpc_is_done pc = true <-> pc = LDone.
Proof. destruct pc; cbn; split; congruence. Qed.

Lemma ldone_unfold ts tid :
  ldone ts tid = match nth_error ts tid with Some t => lpc_is_done (lt_pc t) | None => true end.
Proof. unfold ldone. destruct (nth_error ts tid) as [t|]; auto. Qed.

Lemma ldone_update ts tid t t' j :
  nth_error ts tid = Some t -> lt_pc t <> LDone -> ldone ts j = true ->
  ldone (update_nth ts tid t') j = true.
Proof.
  intros En Hpc Hd. rewrite ldone_unfold in *. destruct (Nat.eq_dec j tid) as [->|Hne].
  - rewrite En in Hd. apply lpc_is_done_true in Hd. contradiction.
  - rewrite lk_nth_update_other by auto. exact Hd.
Qed.

Definition GrantPost (progs : list (list cop)) (sh : lshared) (ts : list lthread) (tid : nat)
           (sh' : lshared) (ts' : list lthread) : Prop :=
  LInv progs sh' ts' /\
  Ext (cs_cache (ls_c sh)) (cs_cache (ls_c sh')) /\
  phi sh' ts' <= phi sh ts /\
  (ldone ts tid = false -> ls_blocked sh = None \/ ls_lock sh = Some tid -> phi sh' ts' < phi sh ts) /\
  (ls_lock sh = Some tid -> msum ts' < msum ts) /\
  (forall j, ldone ts j = true -> ldone ts' j = true).

Lemma lgrant_inv progs sh ts tid sh' ts' :
  LInv progs sh ts -> lgrant true sh ts tid = (sh', ts') -> GrantPost progs sh ts tid sh' ts'.
Proof.
  intros HI E. pose proof HI as [HC HB]. rewrite lgrant_unfold in E.
  assert (Hheld : ls_lock sh = Some tid -> exists t, nth_error ts tid = Some t /\ lt_pc t <> LDone).
  { intros Hl. destruct HC as (_ & _ & Hlk). destruct (Hlk _ Hl) as (t & o & r & En & Hp & _).
    exists t. split; auto. congruence. }
  assert (Hnoop : ldone ts tid = true -> GrantPost progs sh ts tid sh ts).
  { intros Hd. split; [exact HI|]. split; [apply Ext_refl|]. split; [lia|].
    split; [congruence|]. split; auto.
    intros Hl. exfalso. destruct (Hheld Hl) as (t & En & Hp).
    rewrite ldone_unfold, En in Hd. apply lpc_is_done_true in Hd. contradiction. }
  destruct (nth_error ts tid) as [t|] eqn:En.
  2: { inversion E; subst. apply Hnoop. rewrite ldone_unfold, En. reflexivity. }
  destruct (lpc_is_done (lt_pc t)) eqn:Ed.
  { inversion E; subst. apply Hnoop. rewrite ldone_unfold, En. exact Ed. }
  apply lpc_is_done_false in Ed. unfold lgrant_body in E.
  destruct (ls_lock sh) as [h|] eqn:El.
  - destruct (Nat.eqb_spec h tid) as [->|Hne].
    + (* the holder *)
      destruct (lapply true sh ts tid t) as [sh1 ts1] eqn:E1.
      assert (HC0 : LCore progs (ls_c sh) (ls_lock sh) ts) by (rewrite El; exact HC).
      destruct (lapply_inv progs sh ts tid t sh1 ts1 HC0 En Ed (or_intror El) E1)
        as (HC1 & He1 & Hb1 & Hm1 & Hrel & _ & (t1 & Ets1)).
      specialize (Hrel El). rewrite Hb1, Hrel in E.
      destruct (ls_blocked sh) as [b|] eqn:Eb.
      * destruct (HB b eq_refl) as (h' & tb & Eh' & Hhb & Enb & Hpb).
        inversion Eh'; subst h'.
        assert (Enb1 : nth_error ts1 b = Some tb).
        { rewrite Ets1, lk_nth_update_other by auto. exact Enb. }
        rewrite Enb1 in E. rewrite Hrel in HC1.
        destruct (lapply_inv progs (mkLS (ls_c sh1) None None) ts1 b tb sh' ts' HC1 Enb1 Hpb
                             (or_introl eq_refl) E)
          as (HC2 & He2 & Hb2 & Hm2 & _ & _ & (t2 & Ets2)).
        cbn [ls_c ls_lock ls_blocked] in *.
        split; [split; auto; intros b' Hb'; congruence|].
        split; [eapply Ext_trans; eauto|].
        unfold phi. rewrite Hb2, Eb.
        split; [lia|]. split; [intros; lia|]. split; [intros; lia|].
        intros j Hj. rewrite Ets2. eapply ldone_update; eauto.
        rewrite Ets1. eapply ldone_update; eauto.
      * inversion E; subst sh' ts'.
        split; [split; auto; intros b' Hb'; congruence|].
        split; [exact He1|].
        unfold phi. rewrite Hb1, Eb.
        split; [lia|]. split; [intros; lia|]. split; [intros; lia|].
        intros j Hj. rewrite Ets1. eapply ldone_update; eauto.
    + destruct (ls_blocked sh) as [b|] eqn:Eb.
      * inversion E; subst sh' ts'.
        split; [exact HI|]. split; [apply Ext_refl|]. split; [lia|].
        split; [intros _ [?|?]; congruence|]. split; [congruence|auto].
      * inversion E; subst sh' ts'. cbn [ls_c ls_lock ls_blocked].
        split; [split|].
        -- cbn [ls_c ls_lock]. first [exact HC | rewrite El; exact HC].
        -- cbn [ls_blocked ls_lock]. intros b' Hb'. inversion Hb'; subst b'.
           exists h, t. auto.
        -- split; [apply Ext_refl|]. unfold phi. cbn [ls_blocked]. rewrite Eb.
           split; [lia|]. split; [intros; lia|]. split; [congruence|auto].
  - (* the lock is free *)
    assert (Eb : ls_blocked sh = None).
    { destruct (ls_blocked sh) as [b|] eqn:Eb; auto.
      destruct (HB b eq_refl) as (h' & _ & Eh' & _). discriminate. }
    assert (HC0 : LCore progs (ls_c sh) (ls_lock sh) ts) by (rewrite El; exact HC).
    destruct (lapply_inv progs sh ts tid t sh' ts' HC0 En Ed (or_introl El) E)
      as (HC1 & He1 & Hb1 & Hm1 & _ & _ & (t1 & Ets1)).
    split; [split; auto; intros b' Hb'; congruence|].
    split; [exact He1|].
    unfold phi. rewrite Hb1, Eb.
    split; [lia|]. split; [intros; lia|]. split; [intros; lia|].
    intros j Hj. rewrite Ets1. eapply ldone_update; eauto.
Qed.

(* ================= the runs ================= *)

Lemma lrun_schedule_inv progs sched : forall sh ts acc sh' ts' acc',
  LInv progs sh ts -> RChain (cs_cache (ls_c sh)) acc ->
  lrun_schedule true sh ts sched acc = (sh', ts', acc') ->
  LInv progs sh' ts' /\ RChain (cs_cache (ls_c sh')) acc' /\ phi sh' ts' <= phi sh ts.
Proof.
  induction sched as [|tid sched IH]; intros sh ts acc sh' ts' acc' HI R E; cbn [lrun_schedule] in E.
  - inversion E; subst. auto.
  - destruct (lgrant true sh ts (N.to_nat tid)) as [sh1 ts1] eqn:Eg.
    destruct (lgrant_inv _ _ _ _ _ _ HI Eg) as (HI1 & He & Hphi & _).
    destruct (IH _ _ _ _ _ _ HI1 (RChain_push _ _ _ He R) E) as (A & B & C).
    split; auto. split; auto. lia.
Qed.

Lemma lfinish_thread_inv progs fuel : forall sh ts tid acc sh' ts' acc',
  LInv progs sh ts -> RChain (cs_cache (ls_c sh)) acc ->
  lfinish_thread fuel true sh ts tid acc = (sh', ts', acc') ->
  LInv progs sh' ts' /\ RChain (cs_cache (ls_c sh')) acc' /\ phi sh' ts' <= phi sh ts /\
  (forall j, ldone ts j = true -> ldone ts' j = true) /\
  (phi sh ts < fuel -> ldone ts' tid = true).
Proof.
  induction fuel as [|fuel IH]; intros sh ts tid acc sh' ts' acc' HI R E; cbn [lfinish_thread] in E.
  - inversion E; subst. split; [auto|]. split; [auto|]. split; [lia|]. split; [auto|]. intros; lia.
  - destruct (ldone ts tid) eqn:Ed.
    + inversion E; subst. split; [auto|]. split; [auto|]. split; [lia|]. split; auto.
    + set (who := match ls_blocked sh, ls_lock sh with Some _, Some h => h | _, _ => tid end) in E.
      destruct (lgrant true sh ts who) as [sh1 ts1] eqn:Eg.
      destruct (lgrant_inv _ _ _ _ _ _ HI Eg) as (HI1 & He & Hphi & Hprog & _ & Hst).
      assert (Hlt : phi sh1 ts1 < phi sh ts).
      { destruct HI as [(_ & _ & Hlk) HB]. subst who.
        destruct (ls_blocked sh) as [b|] eqn:Eb.
        - destruct (HB b eq_refl) as (h & tb & El & _). rewrite El in *.
          apply Hprog; auto.
          destruct (Hlk h eq_refl) as (t & o & r & En & Hp & _).
          rewrite ldone_unfold, En, Hp. reflexivity.
        - apply Hprog; auto. }
      destruct (IH _ _ _ _ _ _ _ HI1 (RChain_push _ _ _ He R) E) as (A & B & C & D & F).
      split; auto. split; auto. split; [lia|]. split; [auto|]. intros Hf. apply F. lia.
Qed.

Lemma lfinish_inv progs fuel tids : forall sh ts acc sh' ts' acc',
  LInv progs sh ts -> RChain (cs_cache (ls_c sh)) acc -> phi sh ts < fuel ->
  lfinish true sh ts tids acc fuel = (sh', ts', acc') ->
  LInv progs sh' ts' /\ RChain (cs_cache (ls_c sh')) acc' /\
  (forall j, ldone ts j = true -> ldone ts' j = true) /\
  (forall j, In j tids -> ldone ts' j = true).
Proof.
  induction tids as [|tid tids IH]; intros sh ts acc sh' ts' acc' HI R Hf E; cbn [lfinish] in E.
  - inversion E; subst. split; [auto|]. split; [auto|]. split; [auto|]. intros j [].
  - destruct (lfinish_thread fuel true sh ts tid acc) as [[sh1 ts1] acc1] eqn:E1.
    destruct (lfinish_thread_inv _ _ _ _ _ _ _ _ _ HI R E1) as (HI1 & R1 & Hphi & Hst & Hd).
    assert (Hf1 : phi sh1 ts1 < fuel) by lia.
    destruct (IH _ _ _ _ _ _ HI1 R1 Hf1 E) as (A & B & C & D).
    split; auto. split; auto. split; [auto|].
    intros j [<-|Hj]; auto.
Qed.

Lemma lm_init p : lm (lthread_init p) <= 2 * length p.
Proof.
  unfold lm, lthread_init. destruct p as [|o p]; cbn [lt_pc lt_ops]; [lia|].
  rewrite lm_lstart. lia.
Qed.

Lemma msum_init progs : msum (map lthread_init progs) <= 2 * total_ops progs.
Proof.
  unfold msum, total_ops. induction progs as [|p progs IH]; cbn [map fold_right]; [lia|].
  pose proof (lm_init p). lia.
Qed.

Definition linit_shared : lshared := mkLS (mkCS [] 0%N []) None None.

Lemma LInv_init progs : LInv progs linit_shared (map lthread_init progs).
Proof.
  split; [split; [|split]|]; cbn [linit_shared ls_c ls_lock ls_blocked].
  - induction progs; cbn; constructor; auto. apply LInvT_init.
  - intros i t En Hp. exfalso. apply nth_error_In, in_map_iff in En.
    destruct En as (p & <- & _). unfold lthread_init in Hp. cbn in Hp.
    destruct p as [|o p]; [discriminate|]. exact (lstart_not_insert _ Hp).
  - discriminate.
  - discriminate.
Qed.

Lemma phi_init progs : phi linit_shared (map lthread_init progs) < 4 * S (total_ops progs).
Proof. unfold phi. cbn [linit_shared ls_blocked]. pose proof (msum_init progs). lia. Qed.

Lemma locked_run_inv progs sched sh ts hist :
  locked_run true progs sched = (sh, ts, hist) ->
  exists acc, hist = rev acc /\ RChain (cs_cache (ls_c sh)) acc /\ LInv progs sh ts /\
              forall j, ldone ts j = true.
Proof.
  unfold locked_run. fold linit_shared. intros E.
  destruct (lrun_schedule true linit_shared (map lthread_init progs) sched []) as [[sh1 ts1] h1] eqn:E1.
  assert (R0 : RChain (cs_cache (ls_c linit_shared)) []) by exact I.
  destruct (lrun_schedule_inv progs sched _ _ _ _ _ _ (LInv_init progs) R0 E1) as (HI1 & R1 & Hphi).
  destruct (lfinish true sh1 ts1 (seq 0 (length progs)) h1 (4 * S (total_ops progs)))
    as [[sh2 ts2] h2] eqn:E2.
  inversion E; subst sh ts hist; clear E.
  pose proof (phi_init progs) as Hf.
  assert (Hf1 : phi sh1 ts1 < 4 * S (total_ops progs)) by lia.
  destruct (lfinish_inv _ _ _ _ _ _ _ _ _ HI1 R1 Hf1 E2) as (HI2 & R2 & _ & Hd).
  exists h2. split; auto. split; auto. split; auto.
  intros j. destruct (Nat.lt_ge_cases j (length progs)) as [Hlt|Hge].
  - apply Hd. apply in_seq. lia.
  - rewrite ldone_unfold.
    destruct HI2 as [(WF & _) _]. apply cc_Forall2_length in WF.
    assert (En : nth_error ts2 j = None) by (apply nth_error_None; lia).
    rewrite En. reflexivity.
Qed.

(* ================= T1: write-once ================= *)

Lemma RChain_In acc : forall cur, RChain cur acc -> forall c, In c acc -> Ext c cur.
Proof.
  induction acc as [|c0 acc IH]; intros cur R c Hin; [destruct Hin|].
  destruct R as [He R]. destruct Hin as [<-|Hin]; [exact He|].
  eapply Ext_trans; [|exact He]. apply IH; auto.
Qed.

Theorem locked_write_once : forall progs sched,
  let '(sh, ts, hist) := locked_run true progs sched in
  write_once_from [] hist = true /\
  (forall c, In c hist -> forall k id, cget c k = Some id -> cget (cs_cache (ls_c sh)) k = Some id).
Proof.
  intros progs sched.
  destruct (locked_run true progs sched) as [[sh ts] hist] eqn:E.
  destruct (locked_run_inv _ _ _ _ _ E) as (acc & -> & R & _).
  split; [eapply RChain_write_once; eauto|].
  intros c Hin. apply in_rev in Hin. exact (RChain_In acc _ R c Hin).
Qed.

(* ================= T2: served from the entry in force; termination ================= *)

Lemma LInvT_all_done c progs ts :
  Forall2 (LInvT c) progs ts -> (forall j, ldone ts j = true) ->
  Forall2 (fun ops t => lt_pc t = LDone /\ lt_ops t = [] /\ length (lt_served t) = length ops /\
                        Forall2 (fun o id => cget c (ckey o) = Some id) ops (lt_served t)) progs ts.
Proof.
  induction 1 as [|prog t progs ts Wt W IH]; intros Hd; constructor.
  - pose proof (Hd 0) as H0. rewrite ldone_unfold in H0. cbn [nth_error] in H0.
    apply lpc_is_done_true in H0.
    destruct Wt as [(done & Hp & Hs) Hdn]. pose proof (proj1 Hdn H0) as Eo.
    rewrite Eo, app_nil_r in Hp. subst done.
    repeat split; auto. symmetry. eapply cc_Forall2_length; eauto.
  - apply IH. intros j. specialize (Hd (S j)). rewrite ldone_unfold in *. exact Hd.
Qed.

Theorem locked_served_in_force : forall progs sched,
  let '(sh, ts, hist) := locked_run true progs sched in
  Forall2 (fun ops t =>
             lt_pc t = LDone /\ lt_ops t = [] /\ length (lt_served t) = length ops /\
             Forall2 (fun o id => cget (cs_cache (ls_c sh)) (ckey o) = Some id) ops (lt_served t))
          progs ts.
Proof.
  intros progs sched.
  destruct (locked_run true progs sched) as [[sh ts] hist] eqn:E.
  destruct (locked_run_inv _ _ _ _ _ E) as (acc & _ & _ & [(WF & _) _] & Hd).
  apply LInvT_all_done; auto.
Qed.

(* ================= T3: no deadlock ================= *)

(* the states of `lrun_schedule` / `lfinish_thread` / `lfinish`: the initial state and
   everything a grant leads to *)
Inductive lreach (progs : list (list cop)) : lshared -> list lthread -> Prop :=
| lreach_init : lreach progs linit_shared (map lthread_init progs)
| lreach_grant sh ts tid sh' ts' :
    lreach progs sh ts -> lgrant true sh ts tid = (sh', ts') -> lreach progs sh' ts'.

Lemma lreach_inv progs sh ts : lreach progs sh ts -> LInv progs sh ts.
Proof.
  induction 1 as [|sh ts tid sh' ts' _ IH Eg]; [apply LInv_init|].
  exact (proj1 (lgrant_inv _ _ _ _ _ _ IH Eg)).
Qed.

Lemma lrun_schedule_reach progs sched : forall sh ts acc sh' ts' acc',
  lreach progs sh ts -> lrun_schedule true sh ts sched acc = (sh', ts', acc') -> lreach progs sh' ts'.
Proof.
  induction sched as [|tid sched IH]; intros sh ts acc sh' ts' acc' H E; cbn [lrun_schedule] in E.
  - inversion E; subst. exact H.
  - destruct (lgrant true sh ts (N.to_nat tid)) as [sh1 ts1] eqn:Eg.
    eapply IH; [|exact E]. eapply lreach_grant; eauto.
Qed.

Lemma lfinish_thread_reach progs fuel : forall sh ts tid acc sh' ts' acc',
  lreach progs sh ts -> lfinish_thread fuel true sh ts tid acc = (sh', ts', acc') -> lreach progs sh' ts'.
Proof.
  induction fuel as [|fuel IH]; intros sh ts tid acc sh' ts' acc' H E; cbn [lfinish_thread] in E.
  - inversion E; subst. exact H.
  - destruct (ldone ts tid); [inversion E; subst; exact H|].
    set (who := match ls_blocked sh, ls_lock sh with Some _, Some h => h | _, _ => tid end) in E.
    destruct (lgrant true sh ts who) as [sh1 ts1] eqn:Eg.
    eapply IH; [|exact E]. eapply lreach_grant; eauto.
Qed.

Lemma lfinish_reach progs fuel tids : forall sh ts acc sh' ts' acc',
  lreach progs sh ts -> lfinish true sh ts tids acc fuel = (sh', ts', acc') -> lreach progs sh' ts'.
Proof.
  induction tids as [|tid tids IH]; intros sh ts acc sh' ts' acc' H E; cbn [lfinish] in E.
  - inversion E; subst. exact H.
  - destruct (lfinish_thread fuel true sh ts tid acc) as [[sh1 ts1] acc1] eqn:E1.
    eapply IH; [|exact E]. eapply lfinish_thread_reach; eauto.
Qed.

(* a blocked thread waits for a lock held by another thread; the holder is not
   finished and granting it a step makes progress (the total number of
   remaining accesses strictly decreases), after which nobody is blocked *)
Theorem locked_no_deadlock_state progs sh ts :
  lreach progs sh ts ->
  forall b, ls_blocked sh = Some b ->
  exists h th, ls_lock sh = Some h /\ h <> b /\ nth_error ts h = Some th /\ lt_pc th <> LDone /\
               ldone ts b = false /\
               let '(sh', ts') := lgrant true sh ts h in
               msum ts' < msum ts /\ ls_blocked sh' = None.
Proof.
  intros H b Eb. pose proof (lreach_inv _ _ _ H) as HI.
  pose proof HI as [(_ & _ & Hlk) HB].
  destruct (HB b Eb) as (h & tb & El & Hne & Enb & Hpb).
  destruct (Hlk h El) as (th & o & r & En & Hp & _).
  exists h, th. repeat split; auto; try congruence.
  - rewrite ldone_unfold, Enb. apply lpc_is_done_false. exact Hpb.
  - destruct (lgrant true sh ts h) as [sh' ts'] eqn:Eg.
    destruct (lgrant_inv _ _ _ _ _ _ HI Eg) as ([_ HB'] & _ & Hphi & Hprog & Hm & _).
    split; [auto|].
    assert (Hd : ldone ts h = false) by (rewrite ldone_unfold, En, Hp; reflexivity).
    specialize (Hprog Hd (or_intror El)). specialize (Hm El).
    unfold phi in Hprog. rewrite Eb in Hprog.
    destruct (ls_blocked sh') as [b'|] eqn:Eb'; auto.
    (* the released access ran, so the blocked mark is cleared *)
    exfalso. clear Hprog Hphi.
    rewrite lgrant_unfold, En in Eg.
    replace (lpc_is_done (lt_pc th)) with false in Eg by (rewrite Hp; reflexivity).
    unfold lgrant_body in Eg. rewrite El, Nat.eqb_refl in Eg.
    destruct (lapply true sh ts h th) as [sh1 ts1] eqn:E1.
    destruct HI as [HC _].
    destruct (lapply_inv progs sh ts h th sh1 ts1 HC En ltac:(congruence) (or_intror El) E1)
      as (HC1 & _ & Hb1 & _ & Hrel & _ & (t1 & Ets1)).
    specialize (Hrel El). rewrite Hb1, Hrel, Eb in Eg.
    assert (Enb1 : nth_error ts1 b = Some tb).
    { rewrite Ets1, lk_nth_update_other by auto. exact Enb. }
    rewrite Enb1 in Eg. rewrite Hrel in HC1.
    destruct (lapply_inv progs (mkLS (ls_c sh1) None None) ts1 b tb sh' ts' HC1 Enb1 Hpb
                         (or_introl eq_refl) Eg) as (_ & _ & Hb2 & _).
    cbn [ls_blocked] in Hb2. congruence.
Qed.

(* the final state of a run is reachable, hence so is every state the run went
   through (a prefix of the schedule / less fuel ends in it) *)
Lemma locked_run_reach progs sched sh ts hist :
  locked_run true progs sched = (sh, ts, hist) -> lreach progs sh ts.
Proof.
  unfold locked_run. fold linit_shared. intros E.
  destruct (lrun_schedule true linit_shared (map lthread_init progs) sched []) as [[sh1 ts1] h1] eqn:E1.
  destruct (lfinish true sh1 ts1 (seq 0 (length progs)) h1 (4 * S (total_ops progs)))
    as [[sh2 ts2] h2] eqn:E2.
  inversion E; subst. eapply lfinish_reach; [|exact E2].
  eapply lrun_schedule_reach; [|exact E1]. constructor.
Qed.

(* ================= T4: without the lock ================= *)

Local Open Scope N_scope.

Definition t4_progs : list (list cop) := [[CopStream 0]; [CopMap 0]].
Definition t4_sched : list N := [0; 1; 1; 0].

(* the stream misses; the map misses and stores id 0; the stream's store replaces it with id 1 *)
Example t4_witness :
  locked_run false t4_progs t4_sched =
  (mkLS (mkCS [(0, 1); (0, 0)] 2 [1]) None None,
   [mkLT [] LDone [1] [2; 3] [true]; mkLT [] LDone [0] [0; 1] [true]],
   [[]; []; [(0, 0)]; [(0, 1); (0, 0)]]).
Proof. vm_compute. reflexivity. Qed.

(* the same schedule with the lock: the map is blocked, then served from the stream's entry *)
Example t4_locked_ok :
  locked_run true t4_progs t4_sched =
  (mkLS (mkCS [(0, 0)] 1 [0]) None None,
   [mkLT [] LDone [0] [2; 3] [true]; mkLT [] LDone [0] [0] [false]],
   [[]; []; []; [(0, 0)]]).
Proof. vm_compute. reflexivity. Qed.

Theorem unlocked_fill_refuted :
  exists progs sched,
    let '(sh, ts, hist) := locked_run false progs sched in write_once_from [] hist = false.
Proof. exists t4_progs, t4_sched. rewrite t4_witness. vm_compute. reflexivity. Qed.

Local Close Scope N_scope.

(* ================= T5: linearisation ================= *)

(* the atomic LTS without the history *)
Fixpoint crun (sh : cshared) (ts : list cthread) (sched : list N) : cshared * list cthread :=
  match sched with
  | [] => (sh, ts)
  | tid :: sched' =>
    match nth_error ts (N.to_nat tid) with
    | Some t => let '(sh', t') := cstep1 true sh t in crun sh' (update_nth ts (N.to_nat tid) t') sched'
    | None => crun sh ts sched'
    end
  end.

Lemma crun_app s1 : forall sh ts s2,
  crun sh ts (s1 ++ s2) = let '(sh1, ts1) := crun sh ts s1 in crun sh1 ts1 s2.
Proof.
  induction s1 as [|tid s1 IH]; intros sh ts s2; cbn [app crun]; [reflexivity|].
  destruct (nth_error ts (N.to_nat tid)) as [t|]; [|apply IH].
  destruct (cstep1 true sh t) as [sh1 t1]. apply IH.
Qed.

Lemma crun_schedule_crun sched : forall sh ts hist,
  exists h, crun_schedule true sh ts sched hist = (fst (crun sh ts sched), snd (crun sh ts sched), h).
Proof.
  induction sched as [|tid sched IH]; intros sh ts hist; cbn [crun_schedule crun].
  - eexists; reflexivity.
  - destruct (nth_error ts (N.to_nat tid)) as [t|]; [|apply IH].
    destruct (cstep1 true sh t) as [sh1 t1]. apply IH.
Qed.

Lemma cfinish_thread_done fuel sh t hist :
  ct_pc t = CDone -> cfinish_thread fuel true sh t hist = (sh, t, hist).
Proof. intros H. destruct fuel; cbn [cfinish_thread]; [|rewrite H]; reflexivity. Qed.

Lemma cfinish_done : forall ts sh done hist,
  Forall (fun t => ct_pc t = CDone) ts -> cfinish true sh ts done hist = (sh, rev done ++ ts, rev hist).
Proof.
  induction ts as [|t ts IH]; intros sh done hist H; cbn [cfinish].
  - rewrite app_nil_r. reflexivity.
  - inversion H; subst. rewrite cfinish_thread_done by auto. rewrite IH by auto.
    cbn [rev]. rewrite <- app_assoc. reflexivity.
Qed.

(* a thread of the lock LTS and the thread of the atomic LTS it stands for: inside
   the critical section the atomic thread is still before its (atomic) fill *)
Definition pcmap (pc : lpc) : cpc :=
  match pc with
  | LMapGet => CMapGet | LMapInsert => CMapInsert
  | LStreamEntry => CStreamEntry | LStreamInsert => CStreamEntry | LDone => CDone
  end.

Definition Sim (t : lthread) (ct : cthread) : Prop :=
  lt_ops t = ct_ops ct /\ lt_served t = ct_served ct /\ lt_fill t = ct_fill ct /\
  pcmap (lt_pc t) = ct_pc ct.

Lemma pcmap_lstart o : pcmap (lstart o) = cstart o.
Proof. destruct o; reflexivity. Qed.

Lemma Sim_init p : Sim (lthread_init p) (cthread_init p).
Proof.
  unfold Sim, lthread_init, cthread_init; cbn. repeat split; auto.
  destruct p as [|o p]; [reflexivity|apply pcmap_lstart].
Qed.

Lemma Sim_next t ct id s1 s2 fill : Sim t ct -> Sim (lnext_op t id s1 fill) (cnext_op ct id s2 fill).
Proof.
  intros (Eo & Es & Ef & Ep). unfold lnext_op, cnext_op, Sim. rewrite <- Eo.
  destruct (lt_ops t) as [|o [|o' rest]]; cbn; repeat split; try congruence.
  apply pcmap_lstart.
Qed.

Lemma lraw_sim c tid t ct c' l t' :
  Sim t ct ->
  (lt_pc t = LStreamInsert -> forall o rest, lt_ops t = o :: rest -> cget (cs_cache c) (ckey o) = None) ->
  lraw true c tid t = (c', l, t') ->
  (c' = c /\ Sim t' ct) \/ (exists ct', cstep1 true c ct = (c', ct') /\ Sim t' ct').
Proof.
  intros S Hins E. pose proof S as (Eo & Es & Ef & Ep). unfold lraw in E. unfold cstep1.
  rewrite <- Eo, <- Ep.
  destruct (lt_ops t) as [|o rest] eqn:Eops.
  { inversion E; subst. right. eexists; split; [reflexivity|exact S]. }
  destruct (lt_pc t) eqn:Epc; cbn [pcmap].
  - destruct (cget (cs_cache c) (ckey o)) as [id|] eqn:G; inversion E; subst; clear E; right;
      eexists; (split; [reflexivity|]).
    + apply Sim_next; auto.
    + unfold Sim, lat; cbn. repeat split; congruence.
  - destruct (cget (cs_cache c) (ckey o)) as [id|] eqn:G; inversion E; subst; clear E; right;
      eexists; (split; [reflexivity|]); apply Sim_next; auto.
  - destruct (cget (cs_cache c) (ckey o)) as [id|] eqn:G; inversion E; subst; clear E.
    + right. eexists; (split; [reflexivity|]); apply Sim_next; auto.
    + left. split; auto. cbn [pcmap] in Ep. unfold Sim, lat; cbn. repeat split; congruence.
  - rewrite (Hins eq_refl o rest eq_refl). inversion E; subst; clear E. right.
    eexists; (split; [reflexivity|]); apply Sim_next; auto.
  - inversion E; subst. right. eexists; split; [reflexivity|exact S].
Qed.

Lemma lk_update_nth_id {A} (l : list A) : forall n x, nth_error l n = Some x -> update_nth l n x = l.
Proof.
  induction l as [|y l IH]; intros [|n] x H; cbn in *; try discriminate.
  - inversion H; reflexivity.
  - f_equal. apply IH. exact H.
Qed.

Lemma lk_Forall2_update_both {A B} (P : A -> B -> Prop) la lb n a b :
  Forall2 P la lb -> P a b -> Forall2 P (update_nth la n a) (update_nth lb n b).
Proof.
  intros H; revert n; induction H; intros [|n] Hp; cbn; constructor; auto.
Qed.

Lemma lk_Forall2_nth_error_l {A B} (P : A -> B -> Prop) la lb n a :
  Forall2 P la lb -> nth_error la n = Some a -> exists b, nth_error lb n = Some b /\ P a b.
Proof.
  intros H; revert n; induction H; intros [|n] E; cbn in *; try discriminate.
  - inversion E; subst; eauto.
  - eauto.
Qed.

Lemma LCore_insert_none progs c lock ts tid t :
  LCore progs c lock ts -> nth_error ts tid = Some t ->
  lt_pc t = LStreamInsert -> forall o rest, lt_ops t = o :: rest -> cget (cs_cache c) (ckey o) = None.
Proof.
  intros (_ & Hcs & Hlk) En Hi o rest Eo. pose proof (Hcs _ _ En Hi) as Hl.
  destruct (Hlk _ Hl) as (t2 & o2 & rest2 & En2 & _ & Eo2 & G).
  rewrite En in En2. inversion En2; subst t2. rewrite Eo in Eo2. inversion Eo2; subst. exact G.
Qed.

Lemma lapply_sim progs sh ts tid t sh' ts' cts :
  LCore progs (ls_c sh) (ls_lock sh) ts -> nth_error ts tid = Some t ->
  Forall2 Sim ts cts ->
  lapply true sh ts tid t = (sh', ts') ->
  exists l cts', crun (ls_c sh) cts l = (ls_c sh', cts') /\ Forall2 Sim ts' cts'.
Proof.
  intros HC En HS E. unfold lapply in E.
  destruct (lraw true (ls_c sh) tid t) as [[c l] t1] eqn:Er.
  inversion E; subst sh' ts'; clear E. cbn [ls_c].
  destruct (lk_Forall2_nth_error_l _ _ _ _ _ HS En) as (ct & Ecn & St).
  destruct (lraw_sim _ _ _ _ _ _ _ St (LCore_insert_none _ _ _ _ _ _ HC En) Er)
    as [[-> St1]|(ct1 & Ec & St1)].
  - exists [], cts. split; [reflexivity|].
    rewrite <- (lk_update_nth_id cts tid ct Ecn). apply lk_Forall2_update_both; auto.
  - exists [N.of_nat tid], (update_nth cts tid ct1). split.
    + cbn [crun]. rewrite Nat2N.id, Ecn, Ec. reflexivity.
    + apply lk_Forall2_update_both; auto.
Qed.

Lemma lgrant_sim progs sh ts tid sh' ts' cts :
  LInv progs sh ts -> Forall2 Sim ts cts -> lgrant true sh ts tid = (sh', ts') ->
  exists l cts', crun (ls_c sh) cts l = (ls_c sh', cts') /\ Forall2 Sim ts' cts'.
Proof.
  intros [HC HB] HS E. rewrite lgrant_unfold in E.
  assert (Hnoop : exists l cts', crun (ls_c sh) cts l = (ls_c sh, cts') /\ Forall2 Sim ts cts').
  { exists [], cts. split; [reflexivity|exact HS]. }
  destruct (nth_error ts tid) as [t|] eqn:En; [|inversion E; subst; exact Hnoop].
  destruct (lpc_is_done (lt_pc t)) eqn:Ed; [inversion E; subst; exact Hnoop|].
  apply lpc_is_done_false in Ed. unfold lgrant_body in E.
  destruct (ls_lock sh) as [h|] eqn:El.
  - destruct (Nat.eqb_spec h tid) as [->|Hne].
    + destruct (lapply true sh ts tid t) as [sh1 ts1] eqn:E1.
      assert (HC0 : LCore progs (ls_c sh) (ls_lock sh) ts) by (rewrite El; exact HC).
      destruct (lapply_inv progs sh ts tid t sh1 ts1 HC0 En Ed (or_intror El) E1)
        as (HC1 & _ & Hb1 & _ & Hrel & _ & (t1 & Ets1)).
      destruct (lapply_sim progs sh ts tid t sh1 ts1 cts HC0 En HS E1) as (l1 & cts1 & Hr1 & HS1).
      specialize (Hrel El). rewrite Hb1, Hrel in E.
      destruct (ls_blocked sh) as [b|] eqn:Eb.
      * destruct (HB b eq_refl) as (h' & tb & Eh' & Hhb & Enb & Hpb).
        inversion Eh'; subst h'.
        assert (Enb1 : nth_error ts1 b = Some tb).
        { rewrite Ets1, lk_nth_update_other by auto. exact Enb. }
        rewrite Enb1 in E. rewrite Hrel in HC1.
        destruct (lapply_sim progs (mkLS (ls_c sh1) None None) ts1 b tb sh' ts' cts1 HC1 Enb1 HS1 E)
          as (l2 & cts2 & Hr2 & HS2).
        cbn [ls_c] in Hr2.
        exists (l1 ++ l2), cts2. split; auto. rewrite crun_app, Hr1. exact Hr2.
      * inversion E; subst sh' ts'. eauto.
    + destruct (ls_blocked sh) as [b|] eqn:Eb; inversion E; subst sh' ts'; exact Hnoop.
  - assert (HC0 : LCore progs (ls_c sh) (ls_lock sh) ts) by (rewrite El; exact HC).
    exact (lapply_sim progs sh ts tid t sh' ts' cts HC0 En HS E).
Qed.

Definition cinit_shared : cshared := mkCS [] 0%N [].

Lemma lreach_sim progs sh ts :
  lreach progs sh ts ->
  exists l cts, crun cinit_shared (map cthread_init progs) l = (ls_c sh, cts) /\ Forall2 Sim ts cts.
Proof.
  induction 1 as [|sh ts tid sh' ts' Hr IH Eg].
  - exists [], (map cthread_init progs). split; [reflexivity|].
    induction progs; cbn; constructor; auto. apply Sim_init.
  - destruct IH as (l & cts & Hrun & HS).
    destruct (lgrant_sim progs sh ts tid sh' ts' cts (lreach_inv _ _ _ Hr) HS Eg)
      as (l2 & cts2 & Hr2 & HS2).
    exists (l ++ l2), cts2. split; auto. rewrite crun_app, Hrun. exact Hr2.
Qed.

Lemma Sim_all_done ts cts :
  Forall2 Sim ts cts -> (forall j, ldone ts j = true) -> Forall (fun t => ct_pc t = CDone) cts.
Proof.
  induction 1 as [|t ct ts cts St HS IH]; intros Hd; constructor.
  - pose proof (Hd 0) as H0. rewrite ldone_unfold in H0. cbn [nth_error] in H0.
    apply lpc_is_done_true in H0. destruct St as (_ & _ & _ & Ep). rewrite H0 in Ep. auto.
  - apply IH. intros j. specialize (Hd (S j)). rewrite ldone_unfold in *. exact Hd.
Qed.

Lemma Sim_maps ts cts :
  Forall2 Sim ts cts -> map lt_served ts = map ct_served cts /\ map lt_fill ts = map ct_fill cts.
Proof.
  induction 1 as [|t ct ts cts (_ & Es & Ef & _) HS [IH1 IH2]]; cbn; [auto|].
  split; f_equal; auto.
Qed.

(* every outcome of the lock LTS is the outcome of the atomic LTS under some schedule:
   the accesses in the order in which they complete, each acquire moved to its release *)
Theorem locked_linearisable : forall progs sched,
  exists sched',
    let '(sh, ts, _) := locked_run true progs sched in
    let '(sh', ts', _) := cached_run true progs sched' in
    cs_cache (ls_c sh) = cs_cache sh' /\
    map lt_served ts = map ct_served ts' /\ map lt_fill ts = map ct_fill ts'.
Proof.
  intros progs sched.
  destruct (locked_run true progs sched) as [[sh ts] hist] eqn:E.
  pose proof (locked_run_reach _ _ _ _ _ E) as Hr.
  destruct (locked_run_inv _ _ _ _ _ E) as (_ & _ & _ & _ & Hd).
  destruct (lreach_sim _ _ _ Hr) as (l & cts & Hrun & HS).
  exists l. unfold cached_run. fold cinit_shared.
  destruct (crun_schedule_crun l cinit_shared (map cthread_init progs) []) as (h & Eh).
  rewrite Eh, Hrun. cbn [fst snd].
  rewrite cfinish_done by (eapply Sim_all_done; eauto). cbn [rev app].
  split; [reflexivity|]. apply Sim_maps; auto.
Qed.

(* the stronger form: the whole shared cache state (entries, next id, stream ids) agrees *)
Theorem locked_linearisable_state : forall progs sched,
  exists sched',
    let '(sh, ts, _) := locked_run true progs sched in
    let '(sh', ts', _) := cached_run true progs sched' in
    ls_c sh = sh' /\ Forall2 Sim ts ts'.
Proof.
  intros progs sched.
  destruct (locked_run true progs sched) as [[sh ts] hist] eqn:E.
  pose proof (locked_run_reach _ _ _ _ _ E) as Hr.
  destruct (locked_run_inv _ _ _ _ _ E) as (_ & _ & _ & _ & Hd).
  destruct (lreach_sim _ _ _ Hr) as (l & cts & Hrun & HS).
  exists l. unfold cached_run. fold cinit_shared.
  destruct (crun_schedule_crun l cinit_shared (map cthread_init progs) []) as (h & Eh).
  rewrite Eh, Hrun. cbn [fst snd].
  rewrite cfinish_done by (eapply Sim_all_done; eauto). cbn [rev app].
  split; [reflexivity|exact HS].
Qed.

Print Assumptions locked_write_once.
Print Assumptions locked_served_in_force.
Print Assumptions locked_no_deadlock_state.
Print Assumptions locked_run_reach.
Print Assumptions unlocked_fill_refuted.
Print Assumptions locked_linearisable.
Print Assumptions locked_linearisable_state.
