(* A5: property C03 for the leaves.  The map of an OriginalSource / of a raw source
   attributes every byte of the source text as the text-carrying stream does, and
   map() is None exactly when no text-mode chunk is mapped. *)
From RS Require Import Base.Prelude Base.Text Rope.RopeModel Codec.Vlq Codec.CodecSpec
  Checkers.ChkCodec Stream.Types Stream.Leaves Stream.Replace Stream.Tree Sem.Attr Checkers.ChkTree
  Proofs.CodecKept Proofs.CodecEnc Proofs.StreamText Proofs.StreamLeaves Proofs.StreamMap
  Proofs.AttrCodec Proofs.AttrSms.
Require Import Lia List.

Local Open Scope N_scope.

(* ------------------------------------------------------------------ *)
(* unfolding the leaf streams                                           *)
(* ------------------------------------------------------------------ *)
Definition lone (tk : text) : bool := ends_with_nl tk && (len tk =? 1).
Definition nxt_line (tk : text) (line : N) : N := if ends_with_nl tk then line + 1 else line.
Definition nxt_col (tk : text) (col : N) : N := if ends_with_nl tk then 0 else col + len tk.

Lemma original_tokens_cons tk toks final line col :
  fst (original_tokens (tk :: toks) final line col) =
  (if lone tk then (if final then [] else [EChunk (Some tk) (unmapped line col)])
   else [EChunk (if final then None else Some tk) (orig_at line col)])
  ++ fst (original_tokens toks final (nxt_line tk line) (nxt_col tk col)).
Proof.
  cbn [original_tokens]. unfold lone, nxt_line, nxt_col. destruct (ends_with_nl tk).
  - destruct (original_tokens toks final (line + 1) 0). reflexivity.
  - destruct (original_tokens toks final line (col + len tk)). reflexivity.
Qed.

Lemma lone_eq tk : lone tk = true -> tk = [10].
Proof.
  unfold lone. intros H. apply andb_true_iff in H. destruct H as [H1 H2]. apply N.eqb_eq in H2.
  destruct tk as [|c [|d tk]]; try (rewrite ?slen_cons, ?slen_nil in H2; lia).
  unfold ends_with_nl, last_byte in H1. cbn in H1. apply N.eqb_eq in H1. subst c. reflexivity.
Qed.

Lemma nxt_advance tk line col : piece_shape tk -> advance line col tk = (nxt_line tk line, nxt_col tk col).
Proof. intros H. rewrite (piece_advance line col tk H). unfold nxt_line, nxt_col. destruct (ends_with_nl tk); reflexivity. Qed.

Lemma nxt_ple tk line col : piece_shape tk -> ple (line, col) (nxt_line tk line, nxt_col tk col).
Proof. intros H. rewrite <- (nxt_advance tk line col H). apply advance_ple. Qed.

Lemma original_stream_cols_fst v name fin :
  fst (original_stream v name (mkOpts true fin)) =
  ESource 0 name (Some v) :: fst (original_tokens (potential_tokens v) fin 1 0).
Proof.
  unfold original_stream. cbn [columns final_source].
  destruct (original_tokens (potential_tokens v) fin 1 0). reflexivity.
Qed.

Definition marks_count (v : text) : N :=
  let '(gl, gc) := gen_info v in if gc =? 0 then gl - 1 else gl.

Lemma original_stream_lines_final_fst v name :
  fst (original_stream v name (mkOpts false true)) =
  ESource 0 name (Some v) :: original_line_marks (N.to_nat (marks_count v)) 1.
Proof.
  unfold original_stream, marks_count. cbn [columns final_source]. destruct (gen_info v). reflexivity.
Qed.

Lemma original_stream_lines_text_fst v name :
  fst (original_stream v name (mkOpts false false)) =
  ESource 0 name (Some v) :: original_line_chunks (split_lines v) 1.
Proof. reflexivity. Qed.

Lemma map_of_original st v name cols :
  fst (map_of st (SOriginal v name) cols) = map_of_events cols (fst (original_stream v name (mkOpts cols true))).
Proof.
  cbn [map_of]. unfold get_map. cbn [stream]. destruct (original_stream v name (mkOpts cols true)). reflexivity.
Qed.

Lemma stream_original st v name o : fst (fst (stream st (SOriginal v name) o)) = fst (original_stream v name o).
Proof. reflexivity. Qed.

(* ------------------------------------------------------------------ *)
(* a lone line-feed token only occurs at the start of a line            *)
(* ------------------------------------------------------------------ *)
Fixpoint tok_ok (start : bool) (toks : list text) : Prop :=
  match toks with
  | [] => True
  | tk :: r => (tk = [10] -> start = true) /\ tok_ok (ends_with_nl tk) r
  end.

Lemma tok_ok_weaken b toks : tok_ok false toks -> tok_ok b toks.
Proof.
  destruct toks as [|tk r]; [intros _; exact I|]. cbn [tok_ok]. intros [H1 H2]. split; [|exact H2].
  intros E. specialize (H1 E). discriminate.
Qed.

Lemma no_nl_rev_not_lone cur : no_nl cur -> rev cur <> [10].
Proof.
  intros H E. apply (no_nl_not_in _ H). apply in_rev. rewrite E. left. reflexivity.
Qed.

Lemma tokens_aux_ok t : forall ph cur, no_nl cur -> tok_ok (is_nil cur) (tokens_aux t ph cur).
Proof.
  induction t as [|c t IH]; intros ph cur Hc.
  - cbn [tokens_aux]. destruct (is_nil cur); [exact I|]. cbn [tok_ok]. split; [|exact I].
    intros E. exfalso. apply (no_nl_rev_not_lone cur Hc E).
  - cbn [tokens_aux]. destruct (c =? NL) eqn:E.
    + cbn [tok_ok]. split.
      * cbn [rev]. intros E1. change [10] with ([] ++ [10]) in E1. apply app_inj_tail in E1. destruct E1 as [E1 _].
        destruct cur as [|x cur]; [reflexivity|]. exfalso. apply (rev_nonempty (x :: cur)); [discriminate|exact E1].
      * cbn [rev]. rewrite ends_with_nl_snoc, E. apply (IH false []). constructor.
    + apply N.eqb_neq in E. assert (Hcc : no_nl (c :: cur)) by (apply no_nl_cons; assumption).
      destruct ph.
      * destruct (is_sep c).
        -- apply tok_ok_weaken. apply (IH true (c :: cur) Hcc).
        -- cbn [tok_ok]. split; [intros E1; exfalso; apply (no_nl_rev_not_lone cur Hc E1)|].
           apply tok_ok_weaken. apply (IH false [c]). apply no_nl_cons; [exact E|constructor].
      * destruct (is_brace c); apply tok_ok_weaken; [apply (IH true (c :: cur) Hcc)|apply (IH false (c :: cur) Hcc)].
Qed.

Lemma potential_tokens_ok v : tok_ok true (potential_tokens v).
Proof. apply (tokens_aux_ok v false []). constructor. Qed.

(* ------------------------------------------------------------------ *)
(* OriginalSource, columns = true                                       *)
(* ------------------------------------------------------------------ *)
Lemma tokens_only toks : forall fin line col, only_chunks (fst (original_tokens toks fin line col)) = true.
Proof.
  induction toks as [|tk toks IH]; intros fin line col; [reflexivity|].
  rewrite original_tokens_cons, only_chunks_app, IH. destruct (lone tk), fin; reflexivity.
Qed.

Lemma tokens_positions toks : Forall piece_shape toks -> forall fin line col,
  Forall (fun x => ple (line, col) (mpos x)) (chunk_mappings (fst (original_tokens toks fin line col))).
Proof.
  induction 1 as [|tk toks Htk _ IH]; intros fin line col; [constructor|].
  rewrite original_tokens_cons. pose proof (nxt_ple tk line col Htk) as Hn.
  assert (Hrest : Forall (fun x => ple (line, col) (mpos x))
                         (chunk_mappings (fst (original_tokens toks fin (nxt_line tk line) (nxt_col tk col))))).
  { eapply Forall_impl; [|apply IH]. cbn beta. intros x Hx. eapply ple_trans; eassumption. }
  destruct (lone tk), fin; cbn [app chunk_mappings]; try exact Hrest; (constructor; [apply ple_refl|exact Hrest]).
Qed.

Lemma tokens_good_attr ms : forall toks line col pre,
  Forall piece_shape toks -> tok_ok (col =? 0) toks ->
  Forall (fun x => g_line x < line \/ (g_line x = line /\ 0 < col)) pre ->
  ms = pre ++ chunk_mappings (fst (original_tokens toks true line col)) ->
  Forall (chunk_good ms) (fst (original_tokens toks false line col)).
Proof.
  induction toks as [|tk toks IH]; intros line col pre Hp Hok Hpre Hms; [constructor|].
  inversion Hp as [|x0 l0 Htk Hp']; subst x0 l0. destruct Hok as [Hlone Hok'].
  rewrite (original_tokens_cons tk toks true) in Hms. rewrite (original_tokens_cons tk toks false).
  pose proof (tokens_positions toks Hp' true (nxt_line tk line) (nxt_col tk col)) as Hpos.
  set (rest := chunk_mappings (fst (original_tokens toks true (nxt_line tk line) (nxt_col tk col)))) in *.
  pose proof (piece_nonempty tk Htk) as Hne.
  assert (Hlen : 1 <= len tk).
  { destruct tk; [contradiction|]. rewrite slen_cons. lia. }
  destruct (lone tk) eqn:El.
  - (* the lone line feed of an empty line *)
    pose proof (lone_eq tk El) as Etk. specialize (Hlone Etk). apply N.eqb_eq in Hlone. subst col tk.
    change (nxt_line [10] line) with (line + 1) in *. change (nxt_col [10] 0) with 0 in *.
    cbn [app chunk_mappings] in *. fold rest in Hms. constructor.
    + cbn [chunk_good unmapped g_line g_col m_orig]. split; [cbn; split; [reflexivity|exact I]|].
      intros k Hk. rewrite Hms, lookup_before.
      * unfold lookup. rewrite lookup_from_none; [reflexivity|].
        eapply Forall_impl; [|exact Hpre]. cbn beta. intros x Hx. unfold qual.
        replace (g_line x =? line) with false; [reflexivity|]. symmetry. apply N.eqb_neq. lia.
      * eapply Forall_impl; [|exact Hpos]. cbn beta. intros x Hx. eapply plt_ple_trans; [|exact Hx].
        unfold plt. cbn [fst snd]. lia.
    + apply (IH (line + 1) 0 pre Hp'); [exact Hok'| |exact Hms].
      eapply Forall_impl; [|exact Hpre]. cbn beta. intros x Hx. lia.
  - cbn [app chunk_mappings] in *. fold rest in Hms.
    assert (Hnext : forall k, k < len tk -> plt (line, col + k) (nxt_line tk line, nxt_col tk col)).
    { intros k Hk. unfold plt, nxt_line, nxt_col. cbn [fst snd]. destruct (ends_with_nl tk); lia. }
    constructor.
    + cbn [chunk_good orig_at g_line g_col m_orig]. split; [apply nl_last_piece; exact Htk|].
      intros k Hk. rewrite Hms. change (orig_at line col :: rest) with ([orig_at line col] ++ rest).
      rewrite app_assoc, lookup_before.
      * rewrite lookup_snoc. unfold qual. cbn [orig_at g_line g_col m_orig].
        rewrite N.eqb_refl. replace (col <=? col + k) with true by (symmetry; apply N.leb_le; lia). reflexivity.
      * eapply Forall_impl; [|exact Hpos]. cbn beta. intros x Hx. eapply plt_ple_trans; [|exact Hx].
        apply Hnext. exact Hk.
    + apply (IH (nxt_line tk line) (nxt_col tk col) (pre ++ [orig_at line col]) Hp').
      * unfold nxt_col. destruct (ends_with_nl tk); [exact Hok'|].
        replace (col + len tk =? 0) with false by (symmetry; apply N.eqb_neq; lia). exact Hok'.
      * apply Forall_app. split.
        -- eapply Forall_impl; [|exact Hpre]. cbn beta. intros x Hx. unfold nxt_line, nxt_col.
           destruct (ends_with_nl tk); lia.
        -- constructor; [|constructor]. cbn [orig_at g_line]. unfold nxt_line, nxt_col.
           destruct (ends_with_nl tk); lia.
      * rewrite <- app_assoc. exact Hms.
Qed.

(* the encoder's domain: sorted, fields below 2^30 *)
Lemma sorted_cons a ms : Forall (fun b => pos_le a b = true) ms -> sorted_by pos_le ms = true ->
  sorted_by pos_le (a :: ms) = true.
Proof.
  intros H Hs. destruct ms as [|b ms]; [reflexivity|]. inversion H as [|? ? Hb _]; subst.
  change (pos_le a b && sorted_by pos_le (b :: ms) = true). rewrite Hb, Hs. reflexivity.
Qed.

Lemma ple_pos_le a b : ple (mpos a) (mpos b) -> pos_le a b = true.
Proof. intros H. apply pos_le_iff. unfold ple, mpos in H. cbn [fst snd] in H. exact H. Qed.

Lemma small_orig_at l c : 1 <= l -> l < 1073741824 -> c < 1073741824 -> mapping_small (orig_at l c) = true.
Proof.
  intros H1 H2 H3. unfold mapping_small, orig_at, small. cbn [g_line g_col m_orig o_src o_line o_col o_name].
  apply N.ltb_lt in H2. apply N.ltb_lt in H3. apply N.leb_le in H1. rewrite H1, H2, H3. reflexivity.
Qed.

Lemma tokens_domain B toks : Forall piece_shape toks -> forall line col,
  1 <= line -> line + len (concat toks) <= B -> col + len (concat toks) <= B -> B < 1073741824 ->
  sorted_by pos_le (chunk_mappings (fst (original_tokens toks true line col))) = true /\
  forallb mapping_small (chunk_mappings (fst (original_tokens toks true line col))) = true.
Proof.
  induction 1 as [|tk toks Htk Hp IH]; intros line col H1 HL HC HB; [split; reflexivity|].
  rewrite original_tokens_cons. cbn [concat] in HL, HC. rewrite slen_app in HL, HC.
  pose proof (piece_nonempty tk Htk) as Hne.
  assert (Hlen : 1 <= len tk) by (destruct tk; [contradiction|]; rewrite slen_cons; lia).
  assert (Hrec : sorted_by pos_le (chunk_mappings (fst (original_tokens toks true (nxt_line tk line) (nxt_col tk col)))) = true /\
                 forallb mapping_small (chunk_mappings (fst (original_tokens toks true (nxt_line tk line) (nxt_col tk col)))) = true).
  { apply IH; unfold nxt_line, nxt_col; destruct (ends_with_nl tk); lia. }
  destruct Hrec as [R1 R2].
  destruct (lone tk); cbn [app chunk_mappings]; [split; assumption|]. split.
  - apply sorted_cons; [|exact R1].
    pose proof (tokens_positions toks Hp true (nxt_line tk line) (nxt_col tk col)) as Hpos.
    eapply Forall_impl; [|exact Hpos]. cbn beta. intros x Hx. apply ple_pos_le.
    eapply ple_trans; [|exact Hx]. apply (nxt_ple tk line col Htk).
  - cbn [forallb]. rewrite R2, small_orig_at by lia. reflexivity.
Qed.

Lemma tokens_dense toks : forall fin line col, dense (fst (original_tokens toks fin line col)) 1 0 = true.
Proof.
  induction toks as [|tk toks IH]; intros fin line col; [reflexivity|].
  rewrite original_tokens_cons. destruct (lone tk), fin; cbn [app dense orig_at unmapped m_orig o_src o_name]; apply IH.
Qed.

Lemma tokens_mapped toks : forall line col,
  existsb is_mapped (chunk_mappings (fst (original_tokens toks true line col))) =
  existsb is_mapped (chunk_mappings (fst (original_tokens toks false line col))).
Proof.
  induction toks as [|tk toks IH]; intros line col; [reflexivity|].
  rewrite !original_tokens_cons. destruct (lone tk); cbn [app chunk_mappings existsb is_mapped unmapped orig_at m_orig orb];
    try rewrite IH; reflexivity.
Qed.

Lemma rsegs_source0 name c rest :
  rsegs_of_events (ESource 0 name c :: rest) [] [] = rsegs_of_events rest [name] [].
Proof. reflexivity. Qed.

Section Original.
Variables (v name : text).
Hypothesis Hlen : len v < 1073741823.

Lemma original_cols_domain :
  dense (fst (original_stream v name (mkOpts true true))) 0 0 = true /\
  enc_domain (chunk_mappings (fst (original_stream v name (mkOpts true true)))) = true.
Proof.
  rewrite original_stream_cols_fst. split.
  - cbn [dense]. rewrite N.eqb_refl. apply tokens_dense.
  - cbn [chunk_mappings]. unfold enc_domain.
    destruct (tokens_domain (len v + 1) (potential_tokens v) (potential_tokens_pieces v) 1 0) as [H1 H2];
      try rewrite concat_potential_tokens; try lia.
    rewrite H1, H2. reflexivity.
Qed.

Theorem original_attr_cols (st : store) :
  attr_of_map (fst (map_of st (SOriginal v name) true)) (source (SOriginal v name)) true =
  attr_of_stream (fst (fst (stream st (SOriginal v name) (mkOpts true false)))) true.
Proof.
  rewrite map_of_original, stream_original. cbn [source].
  destruct original_cols_domain as [Hd He].
  rewrite (attr_codec_dense _ v true Hd He).
  rewrite !original_stream_cols_fst.
  pose proof (original_tokens_good _ (potential_tokens_pieces v) 1 0) as [Hr Hw].
  rewrite concat_potential_tokens in Hr.
  assert (Hg : Forall (chunk_good (chunk_mappings (fst (original_tokens (potential_tokens v) true 1 0))))
                      (fst (original_tokens (potential_tokens v) false 1 0))).
  { apply (tokens_good_attr _ (potential_tokens v) 1 0 []).
    - apply potential_tokens_pieces.
    - apply potential_tokens_ok.
    - constructor.
    - reflexivity. }
  unfold attr_of_final_events, attr_of_stream. rewrite !rsegs_source0.
  rewrite (rsegs_chunks _ _ _ (tokens_only _ false 1 0)).
  rewrite (cover_by_pos _ _ _ _ (1, 0) v Hr Hw Hg).
  rewrite (rsegs_chunks_snd _ _ _ (tokens_only _ true 1 0)), attr_by_pos_fun.
  apply attr_by_fun_ext_all. intros l c. rewrite seg_fun_map. reflexivity.
Qed.

Theorem original_none_cols (st : store) :
  is_none (fst (map_of st (SOriginal v name) true)) =
  negb (mapped_chunk_exists (fst (fst (stream st (SOriginal v name) (mkOpts true false))))).
Proof.
  rewrite map_of_original, stream_original. destruct original_cols_domain as [_ He].
  rewrite (map_of_events_none true _ He). f_equal.
  rewrite !mapped_chunk_exists_eq, !original_stream_cols_fst. cbn [chunk_mappings]. apply tokens_mapped.
Qed.

(* ------------------------------------------------------------------ *)
(* OriginalSource, columns = false                                      *)
(* ------------------------------------------------------------------ *)
Lemma marks_count_lines : marks_count v = len (split_lines v).
Proof.
  unfold marks_count, gen_info. destruct (ends_with_nl v).
  - cbn [N.eqb]. lia.
  - destruct (rev (split_lines v)) as [|l r] eqn:E.
    + assert (El : split_lines v = []) by (rewrite <- (rev_involutive (split_lines v)), E; reflexivity).
      rewrite El. reflexivity.
    + assert (Hin : In l (split_lines v)) by (apply in_rev; rewrite E; left; reflexivity).
      pose proof (split_lines_nonempty v l Hin) as Hne.
      assert (H1 : 1 <= len l) by (destruct l; [contradiction|]; rewrite slen_cons; lia).
      assert (H2 : 1 <= len (split_lines v)).
      { rewrite <- slen_rev, E, slen_cons. lia. }
      replace (len l =? 0) with false by (symmetry; apply N.eqb_neq; lia). lia.
Qed.

Lemma marks_only : forall n i, only_chunks (original_line_marks n i) = true.
Proof. induction n as [|n IH]; intros i; [reflexivity|]. cbn. apply IH. Qed.

Lemma marks_dense : forall n i, dense (original_line_marks n i) 1 0 = true.
Proof. induction n as [|n IH]; intros i; [reflexivity|]. cbn [original_line_marks dense orig_at m_orig o_src o_name]. apply IH. Qed.

Lemma marks_positions : forall n i j, j <= i ->
  Forall (fun x => ple (j, 0) (mpos x)) (chunk_mappings (original_line_marks n i)).
Proof.
  induction n as [|n IH]; intros i j H; [constructor|]. cbn [original_line_marks chunk_mappings].
  constructor; [unfold ple, mpos; cbn; lia|]. apply IH. lia.
Qed.

Lemma marks_domain : forall n i, 1 <= i -> i + N.of_nat n < 1073741824 ->
  sorted_by pos_le (chunk_mappings (original_line_marks n i)) = true /\
  forallb mapping_small (chunk_mappings (original_line_marks n i)) = true.
Proof.
  induction n as [|n IH]; intros i H1 H2; [split; reflexivity|]. cbn [original_line_marks chunk_mappings].
  destruct (IH (i + 1)) as [R1 R2]; [lia|lia|]. split.
  - apply sorted_cons; [|exact R1]. eapply Forall_impl; [|apply (marks_positions n (i + 1) i); lia].
    cbn beta. intros x Hx. apply ple_pos_le. exact Hx.
  - cbn [forallb]. rewrite R2, small_orig_at by lia. reflexivity.
Qed.

Lemma marks_first : forall n i l,
  first_mapped (chunk_mappings (original_line_marks n i)) l =
  if (i <=? l) && (l <? i + N.of_nat n) then Some (0, l) else None.
Proof.
  induction n as [|n IH]; intros i l.
  - cbn [original_line_marks chunk_mappings first_mapped].
    replace (l <? i + N.of_nat 0) with (l <? i) by (f_equal; lia).
    destruct (i <=? l) eqn:E1; [|reflexivity]. apply N.leb_le in E1.
    replace (l <? i) with false by (symmetry; apply N.ltb_ge; lia). reflexivity.
  - cbn [original_line_marks chunk_mappings first_mapped orig_at g_line m_orig o_src o_line].
    destruct (i =? l) eqn:E.
    + apply N.eqb_eq in E. subst l. rewrite N.leb_refl.
      replace (i <? i + N.of_nat (S n)) with true by (symmetry; apply N.ltb_lt; lia). reflexivity.
    + apply N.eqb_neq in E. rewrite IH.
      replace (l <? i + 1 + N.of_nat n) with (l <? i + N.of_nat (S n)) by (f_equal; lia).
      destruct (l <? i + N.of_nat (S n)); [|rewrite !andb_false_r; reflexivity]. rewrite !andb_true_r.
      destruct (i <=? l) eqn:E1, (i + 1 <=? l) eqn:E2; try reflexivity;
        [apply N.leb_le in E1; apply N.leb_gt in E2|apply N.leb_gt in E1; apply N.leb_le in E2]; lia.
Qed.

Lemma line_chunks_chunks ls ms : forall suf i, 1 <= i -> suf = drop (i - 1) ls ->
  (forall j, i <= j -> j <= len ls -> first_mapped ms j = Some (0, j)) ->
  Forall (line_chunk ls ms 0) (original_line_chunks suf i).
Proof.
  induction suf as [|l suf IH]; intros i H1 Hsuf Hm; [constructor|].
  symmetry in Hsuf. apply drop_cons_nth in Hsuf. destruct Hsuf as [Hnth Hdrop].
  assert (Hl : line_at ls i = Some l).
  { unfold line_at. replace (i =? 0) with false by (symmetry; apply N.eqb_neq; lia). exact Hnth. }
  pose proof (line_at_some _ _ _ Hl) as [_ [HL _]].
  cbn [original_line_chunks]. constructor.
  - cbn [line_chunk orig_at g_line g_col m_orig pair_of o_src o_line].
    split; [exact Hl|]. split; [reflexivity|]. split; [lia|]. symmetry. apply Hm; lia.
  - apply IH; [lia| |].
    + rewrite <- Hdrop. f_equal. lia.
    + intros j Hj1 Hj2. apply Hm; lia.
Qed.

Lemma line_chunks_mapped : forall ls i,
  existsb is_mapped (chunk_mappings (original_line_chunks ls i)) = negb (is_nil ls).
Proof. intros [|l ls] i; reflexivity. Qed.

Lemma marks_mapped : forall n i,
  existsb is_mapped (chunk_mappings (original_line_marks n i)) = negb (Nat.eqb n 0).
Proof. intros [|n] i; reflexivity. Qed.

Lemma original_lines_domain :
  dense (fst (original_stream v name (mkOpts false true))) 0 0 = true /\
  enc_domain (chunk_mappings (fst (original_stream v name (mkOpts false true)))) = true.
Proof.
  rewrite original_stream_lines_final_fst. split.
  - cbn [dense]. rewrite N.eqb_refl. apply marks_dense.
  - cbn [chunk_mappings]. unfold enc_domain.
    assert (Hn : marks_count v <= len v).
    { rewrite marks_count_lines. rewrite <- (concat_split_lines v) at 2.
      pose proof (split_lines_nonempty v) as Hne. induction (split_lines v) as [|l ls IHl]; [cbn; lia|].
      cbn [concat]. rewrite slen_cons, slen_app.
      assert (1 <= len l).
      { destruct l; [exfalso; apply (Hne []); [left; reflexivity|reflexivity]|]. rewrite slen_cons. lia. }
      assert (len ls <= len (concat ls)) by (apply IHl; intros x Hx; apply Hne; right; exact Hx). lia. }
    destruct (marks_domain (N.to_nat (marks_count v)) 1) as [H1 H2]; [lia|lia|].
    rewrite H1, H2. reflexivity.
Qed.

Theorem original_attr_lines (st : store) :
  attr_of_map (fst (map_of st (SOriginal v name) false)) (source (SOriginal v name)) false =
  attr_of_stream (fst (fst (stream st (SOriginal v name) (mkOpts false false)))) false.
Proof.
  rewrite map_of_original, stream_original. cbn [source].
  destruct original_lines_domain as [Hd He].
  rewrite (attr_codec_dense _ v false Hd He).
  rewrite original_stream_lines_final_fst, original_stream_lines_text_fst.
  pose proof (original_line_chunks_good _ (split_lines_shape v) 1) as [Hr Hw].
  rewrite concat_split_lines in Hr.
  set (ms := chunk_mappings (original_line_marks (N.to_nat (marks_count v)) 1)).
  assert (Hg : Forall (line_chunk (split_lines v) ms 0) (original_line_chunks (split_lines v) 1)).
  { apply line_chunks_chunks; [lia|rewrite sdrop_0; reflexivity|].
    intros j Hj1 Hj2. unfold ms. rewrite marks_first, N2Nat.id, marks_count_lines.
    replace (1 <=? j) with true by (symmetry; apply N.leb_le; lia).
    replace (j <? 1 + len (split_lines v)) with true by (symmetry; apply N.ltb_lt; lia). reflexivity. }
  unfold attr_of_final_events, attr_of_stream. rewrite !rsegs_source0.
  rewrite (rsegs_chunks _ _ _ (line_chunk_only _ _ _ _ Hg)).
  rewrite (lines_cover _ _ _ _ (split_lines_shape v) _ 1 v [] Hr Hw Hg). cbn [rev app].
  rewrite (rsegs_chunks_snd _ _ _ (marks_only _ 1)), attr_by_pos_fun.
  apply attr_by_fun_ext_all. intros l c. rewrite seg_fun_map. reflexivity.
Qed.

Theorem original_none_lines (st : store) :
  is_none (fst (map_of st (SOriginal v name) false)) =
  negb (mapped_chunk_exists (fst (fst (stream st (SOriginal v name) (mkOpts false false))))).
Proof.
  rewrite map_of_original, stream_original. destruct original_lines_domain as [_ He].
  rewrite (map_of_events_none false _ He). f_equal.
  rewrite !mapped_chunk_exists_eq, original_stream_lines_final_fst, original_stream_lines_text_fst.
  cbn [chunk_mappings]. rewrite line_chunks_mapped, marks_mapped, marks_count_lines.
  unfold len. rewrite Nat2N.id. destruct (split_lines v); reflexivity.
Qed.

End Original.

(* ------------------------------------------------------------------ *)
(* raw leaves                                                           *)
(* ------------------------------------------------------------------ *)
Lemma raw_chunks_only : forall ls i, only_chunks (raw_chunks ls i) = true.
Proof. induction ls as [|l ls IH]; intros i; [reflexivity|]. cbn. apply IH. Qed.

Lemma raw_chunks_unmapped : forall ls i, existsb is_mapped (chunk_mappings (raw_chunks ls i)) = false.
Proof. induction ls as [|l ls IH]; intros i; [reflexivity|]. cbn. apply IH. Qed.

Lemma raw_cover : forall ls i S Nn,
  attr_cover (rsegs_of_events (raw_chunks ls i) S Nn) = map (fun _ => None) (concat ls).
Proof.
  induction ls as [|l ls IH]; intros i S Nn; [reflexivity|].
  cbn [raw_chunks rsegs_of_events unmapped m_orig attr_cover concat]. rewrite map_app, IH. reflexivity.
Qed.

Lemma repeat_app' {A} (a : A) n k : repeat a n ++ repeat a k = repeat a (n + k).
Proof. induction n as [|n IH]; [reflexivity|]. cbn [repeat app plus]. rewrite IH. reflexivity. Qed.

Lemma raw_lines_cover : forall ls i S Nn acc n,
  line_firsts_cover (rsegs_of_events (raw_chunks ls i) S Nn) None acc n =
  rev acc ++ repeat None (n + length (concat ls)).
Proof.
  induction ls as [|l ls IH]; intros i S Nn acc n.
  - cbn [raw_chunks rsegs_of_events line_firsts_cover concat length]. rewrite rev_app_distr, rev_repeat', Nat.add_0_r. reflexivity.
  - cbn [raw_chunks rsegs_of_events unmapped m_orig line_firsts_cover concat]. rewrite app_length.
    destruct (ends_with_nl l).
    + rewrite IH, rev_app_distr, rev_repeat', <- app_assoc, repeat_app'. cbn [plus]. f_equal. f_equal. lia.
    + rewrite IH. f_equal. f_equal. lia.
Qed.

Theorem raw_stream_attr (t : text) (cols : bool) :
  attr_of_stream (fst (raw_stream t false)) cols = map (fun _ => None) t.
Proof.
  unfold raw_stream, attr_of_stream. cbn [fst]. destruct cols.
  - rewrite raw_cover, concat_split_lines. reflexivity.
  - rewrite raw_lines_cover, concat_split_lines. cbn [rev app plus]. symmetry. apply map_const_repeat.
Qed.

Definition is_raw (s : src) : bool :=
  match s with SRaw _ _ | SRawString _ | SRawBuffer _ => true | _ => false end.

Theorem raw_attr (st : store) (s : src) (cols : bool) : is_raw s = true ->
  attr_of_map (fst (map_of st s cols)) (source s) cols =
  attr_of_stream (fst (fst (stream st s (mkOpts cols false)))) cols.
Proof.
  intros H. destruct s; try discriminate; cbn [map_of stream fst final_source attr_of_map];
    rewrite raw_stream_attr; reflexivity.
Qed.

Theorem raw_none (st : store) (s : src) (cols : bool) : is_raw s = true ->
  is_none (fst (map_of st s cols)) =
  negb (mapped_chunk_exists (fst (fst (stream st s (mkOpts cols false))))).
Proof.
  intros H. destruct s; try discriminate; cbn [map_of stream fst final_source is_none];
    unfold raw_stream; cbn [fst]; rewrite mapped_chunk_exists_eq, raw_chunks_unmapped; reflexivity.
Qed.

(* ------------------------------------------------------------------ *)
(* A5 in the checker's form (clauses 1-4 of chk_C03) for leaves          *)
(* ------------------------------------------------------------------ *)
Definition leaf_ok (s : src) : Prop :=
  match s with
  | SRaw _ _ | SRawString _ | SRawBuffer _ => True
  | SOriginal v _ => len v < 1073741823
  | _ => False
  end.

Theorem leaf_attr (st : store) (s : src) (cols : bool) : leaf_ok s ->
  attr_of_map (fst (map_of st s cols)) (source s) cols =
  attr_of_stream (fst (fst (stream st s (mkOpts cols false)))) cols.
Proof.
  intros H. destruct s; try contradiction; try (apply raw_attr; reflexivity).
  destruct cols; [apply original_attr_cols|apply original_attr_lines]; exact H.
Qed.

Theorem leaf_none (st : store) (s : src) (cols : bool) : leaf_ok s ->
  is_none (fst (map_of st s cols)) =
  negb (mapped_chunk_exists (fst (fst (stream st s (mkOpts cols false))))).
Proof.
  intros H. destruct s; try contradiction; try (apply raw_none; reflexivity).
  destruct cols; [apply original_none_cols|apply original_none_lines]; exact H.
Qed.

Corollary leaf_attr_eqb (st : store) (s : src) : leaf_ok s ->
  list_eqb_attr attr_eqb (attr_of_map (fst (map_of st s true)) (source s) true)
                (attr_of_stream (fst (fst (stream st s (mkOpts true false)))) true) = true /\
  list_eqb_attr attr_eqb_fl (attr_of_map (fst (map_of st s false)) (source s) false)
                (attr_of_stream (fst (fst (stream st s (mkOpts false false)))) false) = true.
Proof.
  intros H. split; [apply attr_lists_eqb|apply attr_lists_eqb_fl]; apply leaf_attr; exact H.
Qed.

Print Assumptions leaf_attr.
Print Assumptions leaf_none.
Print Assumptions leaf_attr_eqb.
