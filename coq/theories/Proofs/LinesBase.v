(* C03, columns = false, part 0: per-line summaries.
   With columns = false an attribution list is determined by one value per OUTPUT LINE: the
   first mapped piece of the line.  Both attributions are expressed through such a summary
     (completed lines, open last line) : list attr * attr
   - `tfl` computes it from the (text, attribution) list of a text-carrying stream,
   - `ffl` / `F (last line)` from a position function (looking segments up by line),
   and `expand` turns a summary and a text back into the attribution list.  Summaries compose
   over concatenation (`tfl_app`, `ffl_app`, `ffl_adj`), which the flat lists do not: the open
   last line of one part continues in the first line of the next. *)
From RS Require Import Base.Prelude Base.Text Rope.RopeModel Codec.Vlq Codec.CodecSpec
  Stream.Types Stream.Leaves Stream.Concat Sem.Attr Checkers.ChkTree
  Proofs.StreamText Proofs.StreamLeaves Proofs.WfFinal Proofs.AttrCodec Proofs.AttrSms Proofs.AttrLeaves
  Proofs.LawConcatAttr Proofs.RStreamPos.
Require Import Lia List.

Local Open Scope N_scope.

(* ------------------------------------------------------------------ *)
(* first-wins on attributions                                           *)
(* ------------------------------------------------------------------ *)
Definition orA (a b : attr) : attr := match a with Some _ => a | None => b end.

Lemma orA_none_r a : orA a None = a.
Proof. destruct a; reflexivity. Qed.

Lemma orA_assoc a b c : orA a (orA b c) = orA (orA a b) c.
Proof. destruct a; reflexivity. Qed.

Definition hdo (i : list attr) (o : attr) : attr := match i with x :: _ => x | [] => o end.

(* a value already seen on the first line of a summary *)
Definition adj (cur : attr) (s : list attr * attr) : list attr * attr :=
  match fst s with
  | [] => ([], orA cur (snd s))
  | x :: i => (orA cur x :: i, snd s)
  end.

Lemma adj_none s : adj None s = s.
Proof. destruct s as [[|x i] o]; reflexivity. Qed.

(* ------------------------------------------------------------------ *)
(* line feeds of a text                                                 *)
(* ------------------------------------------------------------------ *)
Fixpoint nlc (t : text) : N :=
  match t with [] => 0 | b :: t' => if b =? NL then nlc t' + 1 else nlc t' end.

Lemma nlc_app a b : nlc (a ++ b) = nlc a + nlc b.
Proof. induction a as [|x a IH]; [reflexivity|]. cbn [app nlc]. rewrite IH. destruct (x =? NL); lia. Qed.

Lemma advance_fst t : forall l c, fst (advance l c t) = l + nlc t.
Proof.
  induction t as [|b t IH]; intros l c; cbn [advance nlc]; [cbn [fst]; lia|].
  destruct (b =? NL); rewrite IH; lia.
Qed.

Lemma ends_nl_snd t : forall l c, ends_with_nl t = true -> snd (advance l c t) = 0.
Proof.
  induction t as [|b t IH]; intros l c H; [discriminate|].
  destruct t as [|b2 t].
  - unfold ends_with_nl in H. cbn in H. cbn [advance]. change (b =? 10) with (b =? NL) in H. rewrite H. reflexivity.
  - rewrite ends_with_nl_cons in H by discriminate. cbn [advance]. fold (advance (l + 1) 0 (b2 :: t)).
    fold (advance l (c + 1) (b2 :: t)). destruct (b =? NL); apply IH; exact H.
Qed.

(* chunks with a line feed at most as last byte (the structural version, AttrSms.nl_last) *)
Lemma nl_last_cons_ends b x : AttrSms.nl_last (b :: x) -> b <> 10 -> ends_with_nl (b :: x) = ends_with_nl x.
Proof.
  intros _ Hb. destruct x as [|c x]; [|apply ends_with_nl_cons; discriminate].
  unfold ends_with_nl. cbn. apply N.eqb_neq. exact Hb.
Qed.

Lemma nl_last_nlc x : AttrSms.nl_last x -> nlc x = if ends_with_nl x then 1 else 0.
Proof.
  induction x as [|b x IH]; intros H; [reflexivity|]. destruct H as [H1 H2]. cbn [nlc].
  destruct (b =? NL) eqn:E.
  - apply N.eqb_eq in E. rewrite (H1 E). subst b. reflexivity.
  - apply N.eqb_neq in E. rewrite (nl_last_cons_ends b x (conj H1 H2) E). apply IH. exact H2.
Qed.

(* ------------------------------------------------------------------ *)
(* from a summary to the attribution list                               *)
(* ------------------------------------------------------------------ *)
Fixpoint expand (i : list attr) (o : attr) (t : text) : list attr :=
  match t with
  | [] => []
  | b :: t' => hdo i o :: expand (if b =? NL then tl i else i) o t'
  end.

Lemma expand_chunk i o x rest : AttrSms.nl_last x ->
  expand i o (x ++ rest) = repeat (hdo i o) (length x) ++ expand (if ends_with_nl x then tl i else i) o rest.
Proof.
  induction x as [|b x IH]; intros H; [reflexivity|]. destruct H as [H1 H2].
  cbn [app expand length repeat]. f_equal. destruct (b =? NL) eqn:E.
  - apply N.eqb_eq in E. rewrite (H1 E). subst b. reflexivity.
  - apply N.eqb_neq in E. rewrite (nl_last_cons_ends b x (conj H1 H2) E). apply IH. exact H2.
Qed.

Lemma expand_length i o t : length (expand i o t) = length t.
Proof. revert i. induction t as [|b t IH]; intros i; [reflexivity|]. cbn [expand length]. rewrite IH. reflexivity. Qed.

(* the last line of the text has no byte *)
Definition open_empty (t : text) : bool := is_nil t || ends_with_nl t.

Lemma open_empty_snd t : open_empty t = true -> snd (advance 1 0 t) = 0.
Proof.
  unfold open_empty. intros H. apply orb_true_iff in H. destruct H as [H|H].
  - apply is_nil_true in H. subst t. reflexivity.
  - apply ends_nl_snd. exact H.
Qed.


(* a summary is determined by the list it expands to - up to the open line if that has no byte *)
Lemma expand_inj t : forall i1 i2 o1 o2,
  len i1 = nlc t -> len i2 = nlc t -> (open_empty t = true -> o1 = o2) ->
  expand i1 o1 t = expand i2 o2 t -> i1 = i2 /\ o1 = o2.
Proof.
  induction t as [|b t IH]; intros i1 i2 o1 o2 L1 L2 Ho H.
  - cbn [nlc] in L1, L2. apply slen_0 in L1. apply slen_0 in L2. subst. split; [reflexivity|apply Ho; reflexivity].
  - cbn [expand nlc] in *. inversion H as [[Hh Ht]]. clear H. destruct (b =? NL) eqn:E.
    + destruct i1 as [|x1 i1]; [rewrite slen_nil in L1; lia|]. destruct i2 as [|x2 i2]; [rewrite slen_nil in L2; lia|].
      rewrite slen_cons in L1, L2. cbn [hdo tl] in *.
      destruct (IH i1 i2 o1 o2) as [A B]; [lia|lia| |exact Ht|subst; split; reflexivity].
      intros Ht'. apply Ho. unfold open_empty in *. cbn [is_nil orb].
      destruct t as [|c t]; [|rewrite ends_with_nl_cons by discriminate; exact Ht'].
      unfold ends_with_nl. cbn. exact E.
    + destruct (IH i1 i2 o1 o2 L1 L2) as [A B]; [|exact Ht|split; assumption].
      intros Ht'. unfold open_empty in *. cbn [is_nil orb] in Ho.
      destruct t as [|c t].
      * cbn [nlc] in L1, L2. apply slen_0 in L1. apply slen_0 in L2. subst. exact Hh.
      * apply Ho. rewrite ends_with_nl_cons by discriminate. exact Ht'.
Qed.

(* ------------------------------------------------------------------ *)
(* summary of a position function that only looks at the line           *)
(* ------------------------------------------------------------------ *)
Fixpoint ffl (F : N -> attr) (t : text) (l : N) : list attr :=
  match t with
  | [] => []
  | b :: t' => if b =? NL then F l :: ffl F t' (l + 1) else ffl F t' l
  end.

Definition fsum (F : N -> attr) (t : text) (l : N) : list attr * attr := (ffl F t l, F (l + nlc t)).

Lemma ffl_length F t : forall l, len (ffl F t l) = nlc t.
Proof.
  induction t as [|b t IH]; intros l; [reflexivity|]. cbn [ffl nlc].
  destruct (b =? NL); [rewrite slen_cons|]; rewrite IH; reflexivity.
Qed.

Lemma ffl_hdo F t : forall l, hdo (ffl F t l) (F (l + nlc t)) = F l.
Proof.
  induction t as [|b t IH]; intros l; cbn [ffl nlc hdo]; [f_equal; lia|].
  destruct (b =? NL); [reflexivity|apply IH].
Qed.

Lemma abf_expand F t : forall l c,
  attr_by_fun (fun l' _ => F l') t l c = expand (ffl F t l) (F (l + nlc t)) t.
Proof.
  induction t as [|b t IH]; intros l c; [reflexivity|]. cbn [attr_by_fun expand ffl nlc].
  destruct (b =? NL) eqn:E.
  - cbn [hdo tl]. f_equal. rewrite IH. f_equal. f_equal. lia.
  - rewrite ffl_hdo. f_equal. apply IH.
Qed.

Lemma ffl_app F a b : forall l, ffl F (a ++ b) l = ffl F a l ++ ffl F b (l + nlc a).
Proof.
  induction a as [|x a IH]; intros l; cbn [app ffl nlc]; [f_equal; lia|].
  destruct (x =? NL); rewrite IH; [cbn [app]; do 3 f_equal; lia|reflexivity].
Qed.

Lemma ffl_ext F G t : forall l l', (forall k, k < nlc t -> F (l + k) = G (l' + k)) -> ffl F t l = ffl G t l'.
Proof.
  induction t as [|b t IH]; intros l l' H; [reflexivity|]. cbn [ffl nlc] in *. destruct (b =? NL).
  - f_equal.
    + specialize (H 0). rewrite !N.add_0_r in H. apply H. lia.
    + apply IH. intros k Hk. specialize (H (k + 1)). replace (l + 1 + k) with (l + (k + 1)) by lia.
      replace (l' + 1 + k) with (l' + (k + 1)) by lia. apply H. lia.
  - apply IH. exact H.
Qed.

(* a function that differs from F' by a value seen earlier on line l *)
Lemma fsum_adj F F' cur t l :
  F l = orA cur (F' l) -> (forall L, l < L -> F L = F' L) -> fsum F t l = adj cur (fsum F' t l).
Proof.
  intros H0 H. unfold fsum. revert H0. induction t as [|b t IH]; intros H0.
  - cbn [ffl nlc adj fst snd]. rewrite N.add_0_r, H0. reflexivity.
  - cbn [ffl nlc]. destruct (b =? NL).
    + unfold adj. cbn [fst snd]. rewrite H0. f_equal.
      * f_equal. apply ffl_ext. intros k _. apply H. lia.
      * apply H. lia.
    + apply IH. exact H0.
Qed.

(* ------------------------------------------------------------------ *)
(* summary of a (text, attribution) list                                *)
(* ------------------------------------------------------------------ *)
Fixpoint ttext (l : list tattr) : text :=
  match l with
  | [] => []
  | (Some t, _) :: l' => t ++ ttext l'
  | (None, _) :: l' => ttext l'
  end.

Definition piece_attr (t : text) (a : attr) : attr := if is_nil t then None else norm a.

Fixpoint tfl (l : list tattr) (cur : attr) : list attr * attr :=
  match l with
  | [] => ([], cur)
  | (None, _) :: l' => tfl l' cur
  | (Some t, a) :: l' =>
    let cur' := orA cur (piece_attr t a) in
    if ends_with_nl t then (cur' :: fst (tfl l' None), snd (tfl l' None)) else tfl l' cur'
  end.

Definition tnl (l : list tattr) : Prop :=
  Forall (fun x : tattr => match fst x with Some t => AttrSms.nl_last t | None => True end) l.

Lemma lfc_cur cur a t :
  match cur, a with
  | None, Some x => if is_nil t then None else Some (mkLoc (l_file x) (l_line x) 0 None)
  | _, _ => cur end = orA cur (piece_attr t a).
Proof. unfold piece_attr. destruct cur, a; cbn [orA norm]; destruct (is_nil t); reflexivity. Qed.

Lemma ttext_app a b : ttext (a ++ b) = ttext a ++ ttext b.
Proof.
  induction a as [|[[t|] x] a IH]; [reflexivity| |]; cbn [app ttext]; rewrite IH; [apply app_assoc|reflexivity].
Qed.

(* the accumulator form of the definition, through the summary *)
Lemma lfc_expand l : tnl l -> forall cur acc n,
  lfc l cur acc n =
  rev acc ++ repeat (hdo (fst (tfl l cur)) (snd (tfl l cur))) n
          ++ expand (fst (tfl l cur)) (snd (tfl l cur)) (ttext l).
Proof.
  induction 1 as [|[[t|] a] l Ht _ IH]; intros cur acc n.
  - cbn [lfc tfl ttext fst snd hdo expand]. rewrite app_nil_r, rev_app_distr, rev_repeat'. reflexivity.
  - cbn [fst] in Ht. cbn [lfc tfl ttext]. rewrite lfc_cur. set (cur' := orA cur (piece_attr t a)).
    destruct (ends_with_nl t) eqn:E.
    + rewrite IH. cbn [fst snd hdo repeat app]. rewrite (expand_chunk _ _ t (ttext l) Ht), E. cbn [hdo tl].
      rewrite rev_app_distr, rev_repeat', <- app_assoc, <- repeat_app', <- app_assoc. reflexivity.
    + rewrite IH. rewrite (expand_chunk _ _ t (ttext l) Ht), E.
      rewrite <- repeat_app', <- app_assoc. reflexivity.
  - cbn [lfc tfl ttext]. apply IH.
Qed.

Corollary lfc_summary l : tnl l ->
  lfc l None [] 0 = expand (fst (tfl l None)) (snd (tfl l None)) (ttext l).
Proof. intros H. rewrite (lfc_expand l H). reflexivity. Qed.

Lemma tfl_adj l : forall cur, tfl l cur = adj cur (tfl l None).
Proof.
  induction l as [|[[t|] a] l IH]; intros cur.
  - unfold adj. cbn [tfl fst snd]. rewrite orA_none_r. reflexivity.
  - cbn [tfl]. cbn [orA]. destruct (ends_with_nl t).
    + reflexivity.
    + rewrite (IH (orA cur (piece_attr t a))), (IH (piece_attr t a)).
      destruct (tfl l None) as [[|x i] o]; unfold adj; cbn [fst snd]; rewrite orA_assoc; reflexivity.
  - cbn [tfl]. apply IH.
Qed.

Lemma tfl_app a b : forall cur,
  tfl (a ++ b) cur = (fst (tfl a cur) ++ fst (tfl b (snd (tfl a cur))), snd (tfl b (snd (tfl a cur)))).
Proof.
  induction a as [|[[t|] x] a IH]; intros cur.
  - cbn [app tfl fst snd]. destruct (tfl b cur); reflexivity.
  - cbn [app tfl]. destruct (ends_with_nl t).
    + rewrite IH. reflexivity.
    + apply IH.
  - cbn [app tfl]. apply IH.
Qed.

Lemma tfl_length l : tnl l -> forall cur, len (fst (tfl l cur)) = nlc (ttext l).
Proof.
  induction 1 as [|[[t|] a] l Ht _ IH]; intros cur; [reflexivity| |].
  - cbn [fst] in Ht. cbn [tfl ttext]. rewrite nlc_app, (nl_last_nlc t Ht).
    destruct (ends_with_nl t); cbn [fst]; [rewrite slen_cons|]; rewrite IH; lia.
  - cbn [tfl ttext]. apply IH.
Qed.

(* nothing is open on a last line without bytes *)
Lemma tfl_open l : forall cur,
  (ttext l = [] -> snd (tfl l cur) = cur) /\ (ends_with_nl (ttext l) = true -> snd (tfl l cur) = None).
Proof.
  induction l as [|[[t|] a] l IH]; intros cur.
  - split; [reflexivity|discriminate].
  - cbn [tfl ttext]. destruct t as [|b t].
    + change (ends_with_nl []) with false. cbn iota. cbn [app]. unfold piece_attr. cbn [is_nil].
      rewrite orA_none_r. apply IH.
    + split; [discriminate|]. intros H.
      assert (Hl : ttext l = [] /\ ends_with_nl (b :: t) = true \/ ends_with_nl (ttext l) = true).
      { destruct (ttext l) as [|c r] eqn:El; [left; rewrite app_nil_r in H; split; [reflexivity|exact H]|right].
        unfold ends_with_nl in *. rewrite last_byte_app in H. destruct (last_byte (c :: r)) eqn:Eb; [exact H|].
        apply last_byte_none in Eb. discriminate. }
      destruct (ends_with_nl (b :: t)) eqn:E; cbn [snd].
      * destruct Hl as [[Hl _]|Hl]; [apply (proj1 (IH None)); exact Hl|apply (proj2 (IH None)); exact Hl].
      * destruct Hl as [[_ Hl]|Hl]; [discriminate|apply (proj2 (IH _)); exact Hl].
  - cbn [tfl ttext]. apply IH.
Qed.

Lemma tfl_open_empty l : open_empty (ttext l) = true -> snd (tfl l None) = None.
Proof.
  unfold open_empty. intros H. apply orb_true_iff in H. destruct H as [H|H].
  - apply is_nil_true in H. apply (proj1 (tfl_open l None)). exact H.
  - apply (proj2 (tfl_open l None)). exact H.
Qed.

(* ------------------------------------------------------------------ *)
(* event lists                                                         *)
(* ------------------------------------------------------------------ *)
Definition tal (evs : list event) : list tattr := ta (rsegs_of_events evs [] []).

Lemma ttext_concat l : forall ts, all_some (map fst l) = Some ts -> ttext l = concat ts.
Proof.
  induction l as [|[[t|] a] l IH]; intros ts H; cbn [map fst all_some] in H.
  - inversion H. reflexivity.
  - destruct (all_some (map fst l)) as [r|] eqn:E; [|discriminate]. inversion H. subst ts.
    cbn [ttext concat]. rewrite (IH r eq_refl). reflexivity.
  - discriminate.
Qed.

Lemma tal_text evs t : Reass evs t -> ttext (tal evs) = t.
Proof.
  intros [ts [H1 H2]]. rewrite <- H2. apply ttext_concat. unfold tal. rewrite ta_texts. exact H1.
Qed.

Lemma nl_last_bridge' t : RStreamPos.nl_last t -> AttrSms.nl_last t.
Proof.
  intros [body [Hb [->| ->]]]; [apply AttrSms.nl_last_no_nl|apply AttrSms.nl_last_snoc]; exact Hb.
Qed.

Lemma tal_tnl evs : NLL evs -> tnl (tal evs).
Proof.
  unfold NLL, tnl, tal. rewrite <- (ta_texts evs [] []). intros H. rewrite Forall_map in H.
  eapply Forall_impl; [|exact H]. cbn beta. intros x Hx. destruct (fst x); [apply nl_last_bridge'; exact Hx|exact I].
Qed.

(* the text-carrying attribution, columns = false, through the summary *)
Lemma stream_lines_summary evs t : Reass evs t -> NLL evs ->
  attr_of_stream evs false = expand (fst (tfl (tal evs) None)) (snd (tfl (tal evs) None)) t.
Proof.
  intros Hr Hn. rewrite attr_of_stream_ta. fold (tal evs).
  rewrite (lfc_summary _ (tal_tnl evs Hn)), (tal_text evs t Hr). reflexivity.
Qed.

(* ------------------------------------------------------------------ *)
(* the first mapped segment of a line                                   *)
(* ------------------------------------------------------------------ *)
Notation sfm := seg_first_mapped.

Lemma sfm_cons s segs l :
  sfm (s :: segs) l = if fst (fst s) =? l then orA (norm (snd s)) (sfm segs l) else sfm segs l.
Proof. destruct s as [[sl sc] [x|]]; cbn [seg_first_mapped fst snd norm orA]; reflexivity. Qed.

Lemma sfm_app a b l : sfm (a ++ b) l = orA (sfm a l) (sfm b l).
Proof.
  induction a as [|s a IH]; [reflexivity|]. cbn [app]. rewrite !sfm_cons, IH.
  destruct (fst (fst s) =? l); [apply orA_assoc|reflexivity].
Qed.

Definition amap (a : attr) : bool := match a with Some _ => true | None => false end.

Lemma sfm_none segs l :
  Forall (fun s : rseg => amap (snd s) = true -> fst (fst s) <> l) segs -> sfm segs l = None.
Proof.
  induction 1 as [|s segs Hs _ IH]; [reflexivity|]. rewrite sfm_cons, IH.
  destruct (fst (fst s) =? l) eqn:E; [|reflexivity]. apply N.eqb_eq in E.
  destruct (snd s) as [x|]; [exfalso; apply (Hs eq_refl E)|reflexivity].
Qed.

(* the final-source attribution, columns = false, through the summary *)
Lemma final_lines_summary evs t :
  attr_of_final_events evs t false =
  expand (ffl (sfm (map snd (rsegs_of_events evs [] []))) t 1)
         (sfm (map snd (rsegs_of_events evs [] [])) (1 + nlc t)) t.
Proof.
  unfold attr_of_final_events. rewrite attr_by_pos_fun. unfold seg_fun. apply abf_expand.
Qed.

Print Assumptions expand_inj.
Print Assumptions stream_lines_summary.
Print Assumptions final_lines_summary.
