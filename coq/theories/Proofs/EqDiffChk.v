(* C14 after DIFFERENT histories on the two sides, part 2: the extracted checker on the model.
   a == b, every cache id once in each tree, class `cls` (caches nested anywhere, outside the K2
   shape), ARBITRARY and UNRELATED observer histories opsa, opsb.

   Proved:
     D1_partial             the symmetry / hash / equality clauses and the clauses 1-4 of
                            `obs_equiv` (text, buffer, attribution of both maps) never fire:
                            the verdict is 0, or 57 inside the class k7c_shape of the checker,
                            or 15 / 16 (the strict content clauses 5 / 6) outside it - the last
                            case is excluded in EqDiffStrict.v (D1_final, D2_final);
     D_absent_is_empty      with "a file name determines its content" (consistentb (decl a))
                            the comparison of chk_C13 - `obs_equiv_laws`: an absent
                            sourcesContent entry and an empty one are the same - accepts, all
                            six clauses, inside and outside the K7 class;
     D2_nonempty            if moreover every declared content is present and non-empty, the
                            strict checker answers 0 (no k7 hypothesis needed); superseded by
                            EqDiffPresent.D2_present (present, possibly empty).
   The checker's class was k7_shape before; "verdict 0 outside k7_shape" is false
   (EqDiffRefute.v: old_class_too_narrow), which is why the checker now tests k7c_shape. *)
From RS Require Import Base.Prelude Base.Text Rope.RopeModel Codec.Vlq Codec.CodecSpec
  Stream.Types Stream.Leaves Stream.Concat Stream.Replace Stream.Combined Stream.Tree
  Api.ApiTree Sem.Attr Sem.HashEq Api.ApiHist Checkers.ChkTree Checkers.ChkHist Checkers.ChkCombined
  Proofs.HashEqBasic Proofs.AttrCodec Proofs.CacheReplay Proofs.BoundsPos
  Proofs.EqObsTree Proofs.EqObsHist Proofs.ColdCache
  Proofs.WarmTreeDefs Proofs.WarmTreeNodes Proofs.WarmTreeMain Proofs.WarmTreeHist
  Proofs.CompWarmLaws Proofs.CompWarmContBase Proofs.CompWarmContInv Proofs.CompWarmLawsFull
  Proofs.EqDiffBase.
Require Import Lia List.
Import ListNotations.

Local Open Scope N_scope.

(* ------------------------------------------------------------------ *)
(* strict agreement of the contents                                     *)
(* ------------------------------------------------------------------ *)
(* every declared content is present and non-empty *)
Definition nonempty_contents (D : list (text * option text)) : Prop :=
  forall n c, In (n, c) D -> exists x l, c = Some (x :: l).

Definition nonempty_contentsb (D : list (text * option text)) : bool :=
  forallb (fun p => match snd p with Some (_ :: _) => true | _ => false end) D.

Lemma nonempty_contentsb_spec D : nonempty_contentsb D = true -> nonempty_contents D.
Proof.
  unfold nonempty_contentsb. rewrite forallb_forall. intros H n c Hin. specialize (H (n, c) Hin).
  cbn [snd] in H. destruct c as [[|x l]|]; try discriminate. exists x, l. reflexivity.
Qed.

Lemma ceq_nonempty (y : option text) x l : ceq y (Some (x :: l)) -> y = Some (x :: l).
Proof.
  intros H. apply ceq_iff in H. cbn [nrm] in H. destruct y as [[|z r]|]; cbn [nrm] in H; try discriminate.
  exact H.
Qed.

Theorem contents_agree D (x y : option smap) (t : text) (c : bool) :
  consistent D -> nonempty_contents D -> attr_of_map x t c = attr_of_map y t c ->
  tab_ok D x -> tab_ok D y -> segs_in x -> segs_in y ->
  referenced_contents_agree x y t c = true.
Proof.
  intros HD HN Eq Tx Ty Sx Sy. unfold referenced_contents_agree. apply forallb_forall. intros a Ha.
  destruct a as [l|]; [|reflexivity].
  pose proof Ha as Hb. rewrite Eq in Hb.
  destruct x as [mx|]; [|exfalso; apply (in_none_map t l Ha)].
  destruct y as [my|]; [|exfalso; apply (in_none_map t l Hb)].
  cbn [tab_ok segs_in] in *.
  destruct (content_of_file_ok D mx (l_file l) Tx (attr_of_map_file mx t c l Sx Ha)) as [cx [Dx Ex]].
  destruct (content_of_file_ok D my (l_file l) Ty (attr_of_map_file my t c l Sy Hb)) as [cy [Dy Ey]].
  destruct (HN _ _ Dx) as [x1 [l1 E1]]. destruct (HN _ _ Dy) as [x2 [l2 E2]]. subst cx cy.
  pose proof (HD _ _ _ Dx Dy) as K. apply ceq_nonempty in K. apply ceq_nonempty in Ex. apply ceq_nonempty in Ey.
  rewrite Ex, Ey, K. cbn [opt_eqb]. apply text_eqb_refl.
Qed.

(* ------------------------------------------------------------------ *)
(* both sides                                                           *)
(* ------------------------------------------------------------------ *)
Section Pair.
Variables a b : src.
Variables opsa opsb : list hop.
Hypothesis He : src_eqb a b = true.
Hypothesis Hda : ColdCache.ids_distinct a.
Hypothesis Hdb : ColdCache.ids_distinct b.
Hypothesis Hca : cls a.

Let o := api_pair a opsa b opsb.

Lemma Hcb : cls b.
Proof. exact (eq_cls a b He Hca). Qed.

Lemma eq_pair_facts :
  get_text (nth_ans (po_a o) 1) = source a /\ get_text (nth_ans (po_b o) 1) = source a /\
  get_text (nth_ans (po_a o) 2) = buffer a /\ get_text (nth_ans (po_b o) 2) = buffer a /\
  (forall c : bool, attr_of_map (get_map (nth_ans (po_a o) (if c then 3 else 4))) (source a) c
                    = attr_of_map (get_map (nth_ans (po_b o) (if c then 3 else 4))) (source a) c).
Proof.
  unfold o, api_pair. cbn [po_a po_b].
  destruct (final_answers a Hda Hca _ (hops_sound a Hda Hca opsa)) as [A1 [A2 [A3 A4]]].
  destruct (final_answers b Hdb Hcb _ (hops_sound b Hdb Hcb opsb)) as [B1 [B2 [B3 B4]]].
  cbn zeta in *. destruct (eq_source a b He) as [Es Eb]. rewrite <- Es in B1, B3, B4. rewrite <- Eb in B2.
  split; [exact A1|]. split; [exact B1|]. split; [exact A2|]. split; [exact B2|].
  intros [|].
  - rewrite A3, B3. apply eq_refA. exact He.
  - rewrite A4, B4. apply eq_refA. exact He.
Qed.

(* the tables of the four final maps list declared contents only *)
Lemma eq_pair_tables :
  let m3a := get_map (nth_ans (po_a o) 3) in let m4a := get_map (nth_ans (po_a o) 4) in
  let m3b := get_map (nth_ans (po_b o) 3) in let m4b := get_map (nth_ans (po_b o) 4) in
  (tab_ok (decl a) m3a /\ segs_in m3a /\ tab_ok (decl a) m4a /\ segs_in m4a) /\
  (tab_ok (decl a) m3b /\ segs_in m3b /\ tab_ok (decl a) m4b /\ segs_in m4b).
Proof.
  cbn zeta. unfold o, api_pair. cbn [po_a po_b]. rewrite (eq_decl a b He). split.
  - rewrite <- (eq_decl a b He).
    exact (final_maps_ok a Hda Hca _ (hops_invc a Hda Hca opsa [] (invc_empty a))).
  - exact (final_maps_ok b Hdb Hcb _ (hops_invc b Hdb Hcb opsb [] (invc_empty b))).
Qed.

(* the checker's clauses in front of obs_equiv never fire *)
Lemma verdict_form :
  chk_C14_pair a b o =
  match obs_equiv (po_a o) (po_b o) with
  | 0 => 0
  | k => if ((k =? 5) || (k =? 6)) && (k7c_shape a || k7c_shape b) then 57 else 10 + k
  end.
Proof.
  pose proof Hcb as Hb'. destruct Hca as [Ka [_ [Ta _]]]. destruct Hb' as [Kb [_ [Tb _]]].
  unfold chk_C14_pair, o, api_pair. cbn [po_eq po_eq0 po_eqr po_a po_b].
  rewrite !final_hash_0, !final_hash_7. cbn [get_hash].
  rewrite !hevs_eqb_refl. rewrite (src_eqb_sym b a), Bool.eqb_reflx, He. cbn [negb andb].
  rewrite (treeA_wf a Ta), (treeA_wf b Tb), Ta, Tb, Ka, Kb. cbn [negb andb orb].
  rewrite (eq_implies_hash a b He), hevs_eqb_refl. cbn [negb]. reflexivity.
Qed.

Lemma obs_equiv_form :
  obs_equiv (po_a o) (po_b o) =
  if negb (referenced_contents_agree (get_map (nth_ans (po_a o) 3)) (get_map (nth_ans (po_b o) 3)) (source a) true) then 5
  else if negb (referenced_contents_agree (get_map (nth_ans (po_a o) 4)) (get_map (nth_ans (po_b o) 4)) (source a) false) then 6
  else 0.
Proof.
  destruct eq_pair_facts as [A1 [B1 [A2 [B2 M]]]]. pose proof (M true) as M3. pose proof (M false) as M4. cbn iota in M3, M4.
  unfold obs_equiv. rewrite A1, B1, text_eqb_refl. cbn [negb]. rewrite A2, B2, text_eqb_refl. cbn [negb].
  rewrite M3, (list_eqb_attr_refl attr_eqb attr_eqb_refl). cbn [negb].
  rewrite M4, (list_eqb_attr_refl attr_eqb_fl attr_eqb_fl_refl). cbn [negb]. reflexivity.
Qed.

(* D1, partial: everything but the strict content clauses *)
Theorem D1_partial_sec :
  let v := chk_C14_pair a b o in
  v = 0 \/ (k7c_shape a = true /\ v = 57) \/ (k7c_shape a = false /\ (v = 15 \/ v = 16)).
Proof.
  cbn zeta. rewrite verdict_form, obs_equiv_form. rewrite <- (eq_k7c a b He Hda Hdb), orb_diag.
  destruct (referenced_contents_agree _ _ _ true); cbn [negb].
  - destruct (referenced_contents_agree _ _ _ false); cbn [negb]; [left; reflexivity|].
    right. destruct (k7c_shape a); [left|right]; (split; [reflexivity|]); [reflexivity|right; reflexivity].
  - right. destruct (k7c_shape a); [left|right]; (split; [reflexivity|]); [reflexivity|left; reflexivity].
Qed.

(* the absent = empty comparison of chk_C13 accepts when names determine contents *)
Theorem D_absent_is_empty_sec : consistent (decl a) -> obs_equiv_laws (po_a o) (po_b o) = 0.
Proof.
  intros Hc.
  destruct eq_pair_facts as [A1 [B1 [A2 [B2 M]]]]. pose proof (M true) as M3. pose proof (M false) as M4. cbn iota in M3, M4.
  destruct eq_pair_tables as [[TA3 [SA3 [TA4 SA4]]] [TB3 [SB3 [TB4 SB4]]]].
  unfold obs_equiv_laws. rewrite A1, B1, text_eqb_refl. cbn [negb]. rewrite A2, B2, text_eqb_refl. cbn [negb].
  rewrite (contents_same (decl a) _ _ (source a) true Hc M3 TA3 TB3 SA3 SB3).
  rewrite (contents_same (decl a) _ _ (source a) false Hc M4 TA4 TB4 SA4 SB4).
  rewrite M3, (list_eqb_attr_refl attr_eqb attr_eqb_refl). cbn [negb].
  rewrite M4, (list_eqb_attr_refl attr_eqb_fl attr_eqb_fl_refl). reflexivity.
Qed.

(* the strict checker accepts when every declared content is present and non-empty *)
Theorem D2_nonempty_sec : consistent (decl a) -> nonempty_contents (decl a) -> chk_C14_pair a b o = 0.
Proof.
  intros Hc Hn.
  destruct eq_pair_facts as [_ [_ [_ [_ M]]]]. pose proof (M true) as M3. pose proof (M false) as M4. cbn iota in M3, M4.
  destruct eq_pair_tables as [[TA3 [SA3 [TA4 SA4]]] [TB3 [SB3 [TB4 SB4]]]].
  rewrite verdict_form, obs_equiv_form.
  rewrite (contents_agree (decl a) _ _ (source a) true Hc Hn M3 TA3 TB3 SA3 SB3).
  rewrite (contents_agree (decl a) _ _ (source a) false Hc Hn M4 TA4 TB4 SA4 SB4).
  reflexivity.
Qed.

End Pair.

(* ------------------------------------------------------------------ *)
(* the statements with the hypotheses spelled out                       *)
(* ------------------------------------------------------------------ *)
(* D1 (as far as it is true): clauses 1-4 of obs_equiv and the symmetry / hash / equality
   clauses never fire, whatever the two histories; the strict content clauses 5 / 6 fail with
   57 inside the class k7c_shape; 15 / 16 outside it is excluded by EqDiffStrict.D2_final *)
Theorem D1_partial (a b : src) (opsa opsb : list hop) :
  src_eqb a b = true -> ColdCache.ids_distinct a -> ColdCache.ids_distinct b -> cls a -> cls b ->
  let v := chk_C14_pair a b (api_pair a opsa b opsb) in
  v = 0 \/ (k7c_shape a = true /\ v = 57) \/ (k7c_shape a = false /\ (v = 15 \/ v = 16)).
Proof. intros He Hda Hdb Hca _. apply D1_partial_sec; assumption. Qed.

(* outside the class only the clauses 5 / 6 could fire (they do not: EqDiffStrict.D2_final) *)
Theorem D2_partial (a b : src) (opsa opsb : list hop) :
  src_eqb a b = true -> ColdCache.ids_distinct a -> ColdCache.ids_distinct b -> cls a -> cls b ->
  k7c_shape a = false ->
  let v := chk_C14_pair a b (api_pair a opsa b opsb) in
  k7c_shape b = false /\ (v = 0 \/ v = 15 \/ v = 16).
Proof.
  intros He Hda Hdb Hca _ K. cbn zeta. split; [rewrite <- (eq_k7c a b He Hda Hdb); exact K|].
  destruct (D1_partial_sec a b opsa opsb He Hda Hdb Hca) as [H|[[H _]|[_ [H|H]]]].
  - left. exact H.
  - rewrite K in H. discriminate.
  - right. left. exact H.
  - right. right. exact H.
Qed.

(* all six clauses, contents compared as chk_C13 compares them (absent = empty) *)
Theorem D_absent_is_empty (a b : src) (opsa opsb : list hop) :
  src_eqb a b = true -> ColdCache.ids_distinct a -> ColdCache.ids_distinct b -> cls a -> cls b ->
  consistentb (decl a) = true ->
  obs_equiv_laws (po_a (api_pair a opsa b opsb)) (po_b (api_pair a opsa b opsb)) = 0.
Proof.
  intros He Hda Hdb Hca _ Hc. apply D_absent_is_empty_sec; try assumption. apply consistentb_spec. exact Hc.
Qed.

(* the strict checker, all clauses, under a condition on the contents instead of one on the shape *)
Theorem D2_nonempty (a b : src) (opsa opsb : list hop) :
  src_eqb a b = true -> ColdCache.ids_distinct a -> ColdCache.ids_distinct b -> cls a -> cls b ->
  consistentb (decl a) = true -> nonempty_contentsb (decl a) = true ->
  chk_C14_pair a b (api_pair a opsa b opsb) = 0.
Proof.
  intros He Hda Hdb Hca _ Hc Hn. apply D2_nonempty_sec; try assumption.
  - apply consistentb_spec. exact Hc.
  - apply nonempty_contentsb_spec. exact Hn.
Qed.

(* the same with the spelling of "every cache id once" used by E4 (EqObsTree.ids_distinct) *)
Corollary D1_partial_E (a b : src) (opsa opsb : list hop) :
  src_eqb a b = true -> EqObsTree.ids_distinct a -> EqObsTree.ids_distinct b -> cls a -> cls b ->
  let v := chk_C14_pair a b (api_pair a opsa b opsb) in
  v = 0 \/ (k7c_shape a = true /\ v = 57) \/ (k7c_shape a = false /\ (v = 15 \/ v = 16)).
Proof.
  intros He Hda Hdb. apply D1_partial; [exact He|apply ids_distinct_same; exact Hda|apply ids_distinct_same; exact Hdb].
Qed.

Print Assumptions contents_agree.
Print Assumptions D1_partial.
Print Assumptions D2_partial.
Print Assumptions D_absent_is_empty.
Print Assumptions D2_nonempty.
Print Assumptions D1_partial_E.
