(* C14, observational consequences of `==` (E1-E3).
   E1  `==` is "equal after erasing the ids of CachedSource nodes" (nothing else is ignored:
       the RawSource string/bytes flag, every field of a SourceMap, the replacements in
       insertion order all take part);
   E2  on trees without CachedSource nodes `==` is Leibniz equality, hence stream_chunks and
       map() answer identically in every store;
   E3  with CachedSource nodes: when the caches of corresponding nodes are in the same state
       (`store_rel`), equal trees stream and map identically and leave the caches of
       corresponding nodes in the same state again.  "Corresponding" = k-th cache node of `a`
       with the k-th cache node of `b`; the only hypothesis on the ids is that the two trees
       share caches in the same pattern (`same_sharing`), which holds in particular when the
       ids of each tree are pairwise distinct.  From the empty store (all caches cold) equal
       trees therefore give identical answers. *)
From RS Require Import Base.Prelude Base.Text Rope.RopeModel Codec.Vlq
  Stream.Types Stream.Leaves Stream.Concat Stream.Replace Stream.Combined Stream.Tree
  Sem.HashEq Checkers.ChkHist
  Proofs.HashEqBasic Proofs.StreamTree Proofs.CacheStore.
Require Import Lia List.

Local Open Scope N_scope.

(* ------------------------------------------------------------------ *)
(* E1: what `==` ignores                                                *)
(* ------------------------------------------------------------------ *)
Definition erase : src -> src := erase_ids.

Theorem E1_src_eqb_erase (a b : src) : src_eqb a b = true <-> erase a = erase b.
Proof. apply src_eqb_spec. Qed.

(* the erasure changes cache ids only: it is the identity on trees without CachedSource *)
Lemma erase_no_cached (s : src) : has_cached s = false -> erase s = s.
Proof.
  unfold erase. induction s as [b v|v|v|v n|v n m o i r|cs IH|inner rs IH|id inner IH]
    using src_nested_ind; intros H; try reflexivity.
  - cbn [erase_ids]. f_equal. cbn [has_cached] in H.
    induction IH as [|x l Hx HF IHl]; [reflexivity|].
    cbn [existsb] in H. apply orb_false_iff in H. destruct H as [H1 H2].
    cbn [map]. rewrite (Hx H1), (IHl H2). reflexivity.
  - cbn [erase_ids]. cbn [has_cached] in H. rewrite (IH H). reflexivity.
  - discriminate.
Qed.

(* it is idempotent, and `==` to the tree it came from *)
Lemma erase_idem (s : src) : erase (erase s) = erase s.
Proof.
  unfold erase. induction s as [b v|v|v|v n|v n m o i r|cs IH|inner rs IH|id inner IH]
    using src_nested_ind; try reflexivity.
  - cbn [erase_ids]. f_equal. induction IH as [|x l Hx HF IHl]; [reflexivity|].
    cbn [map]. rewrite Hx, IHl. reflexivity.
  - cbn [erase_ids]. rewrite IH. reflexivity.
  - cbn [erase_ids]. rewrite IH. reflexivity.
Qed.

Corollary erase_eq (s : src) : src_eqb s (erase s) = true.
Proof. apply E1_src_eqb_erase. symmetry. apply erase_idem. Qed.

(* nothing but the ids is ignored: two trees with the same ids at the same places are `==`
   exactly when they are the same tree *)
Fixpoint ids (s : src) : list N :=
  match s with
  | SConcat cs => flat_map ids cs
  | SReplace inner _ => ids inner
  | SCached id inner => id :: ids inner
  | _ => []
  end.

Lemma erase_ids_inj (a : src) : forall b, erase a = erase b -> ids a = ids b -> a = b.
Proof.
  unfold erase. induction a as [ba va|va|va|va na|va na ma oa ia ra|ca IH|ia ra IH|ida ia IH]
    using src_nested_ind;
    intros [bb vb|vb|vb|vb nb|vb nb mb ob ib rb|cb|ib rb|idb ib] He Hi;
    cbn [erase_ids] in He; try discriminate; try exact He.
  - injection He as He. f_equal. cbn [ids] in Hi. revert cb He Hi.
    induction IH as [|x l Hx HF IHl]; intros [|y cb] He Hi; try discriminate; [reflexivity|].
    cbn [map] in He. injection He as He1 He2. cbn [flat_map] in Hi.
    assert (Hl : length (ids x) = length (ids y)).
    { clear - He1. revert y He1.
      induction x as [b v|v|v|v n|v n m o i r|cs IH|inner rs IH|id inner IH]
        using src_nested_ind;
        intros [bb vb|vb|vb|vb nb|vb nb mb ob ib rb|cb|ib rb|idb ib] He;
        cbn [erase_ids] in He; try discriminate; try reflexivity.
      - injection He as He. cbn [ids]. revert cb He.
        induction IH as [|x l Hx HF IHl]; intros [|y cb] He; try discriminate; [reflexivity|].
        cbn [map] in He. injection He as He1 He2. cbn [flat_map]. rewrite !app_length.
        rewrite (Hx y He1), (IHl cb He2). reflexivity.
      - injection He as He1 He2. cbn [ids]. apply IH. exact He1.
      - injection He as He. cbn [ids length]. f_equal. apply IH. exact He. }
    assert (H1 : ids x = ids y /\ flat_map ids l = flat_map ids cb).
    { clear - Hi Hl. revert Hi Hl. generalize (ids x) (ids y) (flat_map ids l) (flat_map ids cb).
      intros p. induction p as [|u p IHp]; intros [|v q] r s Hi Hl; try discriminate.
      - split; [reflexivity|exact Hi].
      - cbn [app] in Hi. injection Hi as Hu Hi. cbn [length] in Hl. injection Hl as Hl.
        destruct (IHp q r s Hi Hl) as [A B]. subst. split; reflexivity. }
    destruct H1 as [H1 H2]. rewrite (Hx y He1 H1), (IHl cb He2 H2). reflexivity.
  - injection He as He1 He2. cbn [ids] in Hi. rewrite (IH ib He1 Hi), He2. reflexivity.
  - injection He as He. cbn [ids] in Hi. injection Hi as Hi1 Hi2.
    rewrite Hi1, (IH ib He Hi2). reflexivity.
Qed.

Theorem E1_eq_same_ids_leibniz (a b : src) : src_eqb a b = true -> ids a = ids b -> a = b.
Proof. intros H. apply erase_ids_inj. apply E1_src_eqb_erase. exact H. Qed.

(* ------------------------------------------------------------------ *)
(* E2: cache-free trees                                                 *)
(* ------------------------------------------------------------------ *)
Theorem eq_no_cached_leibniz (a b : src) :
  has_cached a = false -> has_cached b = false -> src_eqb a b = true -> a = b.
Proof.
  intros Ha Hb H. apply E1_src_eqb_erase in H.
  rewrite (erase_no_cached a Ha), (erase_no_cached b Hb) in H. exact H.
Qed.

Theorem E2_eq_no_cached_answers (a b : src) :
  has_cached a = false -> has_cached b = false -> src_eqb a b = true ->
  forall st o c, fst (stream st a o) = fst (stream st b o) /\
                 fst (map_of st a c) = fst (map_of st b c).
Proof.
  intros Ha Hb H st o c. rewrite (eq_no_cached_leibniz a b Ha Hb H). split; reflexivity.
Qed.

(* ------------------------------------------------------------------ *)
(* E3: trees with CachedSource nodes                                    *)
(* ------------------------------------------------------------------ *)
(* every cache id occurs once *)
Definition ids_distinct (s : src) : Prop := NoDup (ids s).

(* a list of pairs (cache id in `a`, cache id in `b`) that is a partial bijection *)
Definition biinj (P : list (N * N)) : Prop :=
  forall x y x' y', In (x, y) P -> In (x', y') P -> (x = x' <-> y = y').

(* the caches of corresponding nodes are in the same state *)
Definition store_rel (P : list (N * N)) (sta stb : store) : Prop :=
  forall x y, In (x, y) P -> store_get sta x = store_get stb y.

(* k-th cache node of `a` with k-th cache node of `b` *)
Definition corr (a b : src) : list (N * N) := combine (ids a) (ids b).

(* the two trees share caches between their nodes in the same pattern *)
Definition same_sharing (a b : src) : Prop := biinj (corr a b).

Lemma store_rel_nil P : store_rel P [] [].
Proof. intros x y _. reflexivity. Qed.

Lemma biinj_combine (l : list N) : forall r, NoDup l -> NoDup r -> biinj (combine l r).
Proof.
  induction l as [|a l IH]; intros [|b r] Hl Hr x y x' y' H1 H2; try (destruct H1; fail).
  inversion Hl as [|? ? Ha Hl']. inversion Hr as [|? ? Hb Hr']. subst.
  cbn [combine In] in H1, H2. destruct H1 as [H1|H1], H2 as [H2|H2].
  - inversion H1. inversion H2. subst. split; reflexivity.
  - inversion H1. subst. split; intros E; subst; exfalso.
    + apply Ha. eapply in_combine_l. exact H2.
    + apply Hb. eapply in_combine_r. exact H2.
  - inversion H2. subst. split; intros E; subst; exfalso.
    + apply Ha. eapply in_combine_l. exact H1.
    + apply Hb. eapply in_combine_r. exact H1.
  - exact (IH r Hl' Hr' x y x' y' H1 H2).
Qed.

Lemma ids_distinct_same_sharing (a b : src) :
  ids_distinct a -> ids_distinct b -> same_sharing a b.
Proof. intros Ha Hb. apply biinj_combine; assumption. Qed.

(* a put at corresponding nodes keeps the relation *)
Lemma store_rel_put P sta stb x y o v :
  biinj P -> In (x, y) P -> store_rel P sta stb ->
  store_rel P (store_put sta x o v) (store_put stb y o v).
Proof.
  intros HP Hin HR x' y' Hin'. destruct (N.eq_dec x' x) as [E|E].
  - subst x'. assert (y' = y) by (apply (HP x y' x y Hin' Hin); reflexivity). subst y'.
    rewrite !store_get_put. rewrite (HR x y Hin). reflexivity.
  - assert (y' <> y) by (intros F; apply E; apply (HP x' y' x y Hin' Hin); exact F).
    rewrite !store_get_put_ne by assumption. apply HR. exact Hin'.
Qed.

(* ---- length of the id list is fixed by the erasure ---- *)
Lemma ids_length_erase (a : src) : forall b, erase a = erase b -> length (ids a) = length (ids b).
Proof.
  unfold erase. induction a as [b v|v|v|v n|v n m o i r|cs IH|inner rs IH|id inner IH]
    using src_nested_ind;
    intros [bb vb|vb|vb|vb nb|vb nb mb ob ib rb|cb|ib rb|idb ib] He;
    cbn [erase_ids] in He; try discriminate; try reflexivity.
  - injection He as He. cbn [ids]. revert cb He.
    induction IH as [|x l Hx HF IHl]; intros [|y cb] He; try discriminate; [reflexivity|].
    cbn [map] in He. injection He as He1 He2. cbn [flat_map]. rewrite !app_length.
    rewrite (Hx y He1), (IHl cb He2). reflexivity.
  - injection He as He1 He2. cbn [ids]. apply IH. exact He1.
  - injection He as He. cbn [ids length]. f_equal. apply IH. exact He.
Qed.

Lemma combine_app {A B} (l1 : list A) : forall (r1 : list B) l2 r2, length l1 = length r1 ->
  combine (l1 ++ l2) (r1 ++ r2) = combine l1 r1 ++ combine l2 r2.
Proof.
  induction l1 as [|a l1 IH]; intros [|b r1] l2 r2 H; try discriminate; [reflexivity|].
  cbn [app combine]. cbn [length] in H. injection H as H. rewrite (IH r1 l2 r2 H). reflexivity.
Qed.

(* ---- the simulation ---- *)
Definition sim_stream (P : list (N * N)) (a b : src) : Prop :=
  forall sta stb o, store_rel P sta stb ->
    fst (stream sta a o) = fst (stream stb b o) /\
    store_rel P (snd (stream sta a o)) (snd (stream stb b o)).

Definition sim_map (P : list (N * N)) (a b : src) : Prop :=
  forall sta stb c, store_rel P sta stb ->
    fst (map_of sta a c) = fst (map_of stb b c) /\
    store_rel P (snd (map_of sta a c)) (snd (map_of stb b c)).

Definition sim (P : list (N * N)) (a b : src) : Prop := sim_stream P a b /\ sim_map P a b.

Lemma sim_get_map P a b : sim_stream P a b ->
  forall sta stb c, store_rel P sta stb ->
    fst (Tree.get_map sta a c) = fst (Tree.get_map stb b c) /\
    store_rel P (snd (Tree.get_map sta a c)) (snd (Tree.get_map stb b c)).
Proof.
  intros H sta stb c HR. unfold Tree.get_map. destruct (H sta stb (mkOpts c true) HR) as [A B].
  destruct (stream sta a (mkOpts c true)) as [[ea ga] sa].
  destruct (stream stb b (mkOpts c true)) as [[eb gb] sb]. cbn [fst snd] in *.
  inversion A. subst. split; [reflexivity|exact B].
Qed.

Lemma sim_cfold P o ca cb : Forall2 (sim P) ca cb ->
  forall cst evs sta stb, store_rel P sta stb ->
    fst (fold_left (cfold_step o) ca (cst, evs, sta)) = fst (fold_left (cfold_step o) cb (cst, evs, stb)) /\
    store_rel P (snd (fold_left (cfold_step o) ca (cst, evs, sta)))
                (snd (fold_left (cfold_step o) cb (cst, evs, stb))).
Proof.
  induction 1 as [|x y ca cb Hxy _ IH]; intros cst evs sta stb HR.
  - cbn [fold_left fst snd]. split; [reflexivity|exact HR].
  - cbn [fold_left]. rewrite !cfold_step_eq. destruct Hxy as [Hs _].
    destruct (Hs sta stb o HR) as [A B].
    destruct (stream sta x o) as [[ea ga] sa]. destruct (stream stb y o) as [[eb gb] sb].
    cbn [fst snd] in A, B. inversion A. subst.
    destruct (concat_child (final_source o) cst eb gb) as [cst' out].
    apply IH. exact B.
Qed.

(* leaves: the store is neither read nor written *)
Lemma sim_leaf P (s : src) :
  (forall st o, stream st s o = (fst (stream [] s o), st)) ->
  (forall st c, map_of st s c = (fst (map_of [] s c), st)) ->
  sim P s s.
Proof.
  intros Hs Hm. split.
  - intros sta stb o HR. rewrite (Hs sta), (Hs stb). split; [reflexivity|exact HR].
  - intros sta stb c HR. rewrite (Hm sta), (Hm stb). split; [reflexivity|exact HR].
Qed.

Lemma leaf_get_map (s : src) :
  (forall st o, stream st s o = (fst (stream [] s o), st)) ->
  forall st c, Tree.get_map st s c = (fst (Tree.get_map [] s c), st).
Proof.
  intros Hs st c. unfold Tree.get_map. rewrite (Hs st), (Hs []).
  destruct (fst (stream [] s (mkOpts c true))) as [evs gi]. reflexivity.
Qed.

Theorem sim_erase (P : list (N * N)) : biinj P ->
  forall a b, erase a = erase b -> incl (corr a b) P -> sim P a b.
Proof.
  intros HP. unfold erase, corr.
  induction a as [ba va|va|va|va na|va na ma oa ia ra|ca IH|ia ra IH|ida ia IH] using src_ind';
    intros [bb vb|vb|vb|vb nb|vb nb mb ob ib rb|cb|ib rb|idb ib] He Hi;
    cbn [erase_ids] in He; try discriminate.
  - (* SRaw *) inversion He. subst. apply sim_leaf; intros; reflexivity.
  - inversion He. subst. apply sim_leaf; intros; reflexivity.
  - inversion He. subst. apply sim_leaf; intros; reflexivity.
  - (* SOriginal *) inversion He. subst.
    assert (S : forall st o, stream st (SOriginal vb nb) o = (fst (stream [] (SOriginal vb nb) o), st))
      by (intros; reflexivity).
    apply sim_leaf; [exact S|]. intros st c. exact (leaf_get_map _ S st c).
  - (* SMapped *) inversion He. subst.
    assert (S : forall st o, stream st (SMapped vb nb mb ob ib rb) o =
                             (fst (stream [] (SMapped vb nb mb ob ib rb) o), st))
      by (intros st o; cbn [stream]; destruct ib; reflexivity).
    apply sim_leaf; [exact S|]. intros st c. destruct ib as [im|].
    + exact (leaf_get_map _ S st c).
    + reflexivity.
  - (* SConcat *) injection He as He. cbn [ids] in Hi.
    assert (F : Forall2 (sim P) ca cb).
    { revert cb He Hi. induction IH as [|x l Hx HF IHl]; intros [|y cb] He Hi; try discriminate.
      - constructor.
      - cbn [map] in He. injection He as He1 He2. cbn [flat_map] in Hi.
        rewrite (combine_app _ _ _ _ (ids_length_erase x y He1)) in Hi.
        constructor.
        + apply Hx; [exact He1|]. intros p Hp. apply Hi. apply in_or_app. left. exact Hp.
        + apply IHl; [exact He2|]. intros p Hp. apply Hi. apply in_or_app. right. exact Hp. }
    assert (S : sim_stream P (SConcat ca) (SConcat cb)).
    { intros sta stb o HR. rewrite !stream_concat_eq.
      destruct F as [|x y ca cb Hxy F].
      - cbn [fold_left fst snd]. split; [reflexivity|exact HR].
      - destruct F as [|x2 y2 ca cb Hxy2 F].
        + destruct Hxy as [Hs _]. exact (Hs sta stb o HR).
        + pose proof (sim_cfold P o (x :: x2 :: ca) (y :: y2 :: cb)
                        (Forall2_cons _ _ Hxy (Forall2_cons _ _ Hxy2 F)) concat_init [] sta stb HR) as [A B].
          destruct (fold_left (cfold_step o) (x :: x2 :: ca) (concat_init, [], sta)) as [[ca1 ea] sa].
          destruct (fold_left (cfold_step o) (y :: y2 :: cb) (concat_init, [], stb)) as [[cb1 eb] sb].
          cbn [fst snd] in *. inversion A. subst. split; [reflexivity|exact B]. }
    split; [exact S|]. intros sta stb c HR. exact (sim_get_map P _ _ S sta stb c HR).
  - (* SReplace *) injection He as He1 He2. subst rb. cbn [ids] in Hi.
    destruct (IH ib He1 Hi) as [A B].
    assert (S : sim_stream P (SReplace ia ra) (SReplace ib ra)).
    { intros sta stb o HR. cbn [stream].
      destruct (A sta stb (mkOpts (columns o) false) HR) as [A1 A2].
      destruct (stream sta ia (mkOpts (columns o) false)) as [[ea ga] sa].
      destruct (stream stb ib (mkOpts (columns o) false)) as [[eb gb] sb].
      cbn [fst snd] in *. inversion A1. subst. split; [reflexivity|exact A2]. }
    split; [exact S|]. intros sta stb c HR. cbn [map_of]. destruct (is_nil ra).
    + exact (B sta stb c HR).
    + exact (sim_get_map P _ _ S sta stb c HR).
  - (* SCached *) injection He as He. cbn [ids combine] in Hi.
    assert (Hin : In (ida, idb) P) by (apply Hi; left; reflexivity).
    assert (Hi' : incl (combine (ids ia) (ids ib)) P) by (intros p Hp; apply Hi; right; exact Hp).
    destruct (IH ib He Hi') as [A B].
    assert (Hsrc : source ia = source ib).
    { rewrite <- (proj1 (views_erase_ids ia)), <- (proj1 (views_erase_ids ib)), He. reflexivity. }
    split.
    + intros sta stb o HR. cbn [stream]. rewrite (HR ida idb Hin), Hsrc.
      destruct (cache_get (store_get stb idb) o) as [[m|]|].
      * split; [reflexivity|exact HR].
      * split; [reflexivity|exact HR].
      * destruct (A sta stb o HR) as [A1 A2].
        destruct (stream sta ia o) as [[ea ga] sa]. destruct (stream stb ib o) as [[eb gb] sb].
        cbn [fst snd] in *. inversion A1. subst. split; [reflexivity|].
        apply store_rel_put; assumption.
    + intros sta stb c HR. cbn [map_of]. rewrite (HR ida idb Hin).
      destruct (cache_get (store_get stb idb) (mkOpts c false)) as [m|].
      * split; [reflexivity|exact HR].
      * destruct (B sta stb c HR) as [B1 B2].
        destruct (map_of sta ia c) as [ma sa]. destruct (map_of stb ib c) as [mb sb].
        cbn [fst snd] in *. subst mb.
        pose proof (store_rel_put P sa sb ida idb (mkOpts c false) ma HP Hin B2) as R.
        split; [|exact R]. rewrite (R ida idb Hin). reflexivity.
Qed.

(* E3, general form: equal trees that share caches in the same pattern, started in stores that
   agree on corresponding caches, answer identically and stay so *)
Theorem E3_eq_related_stores (a b : src) :
  src_eqb a b = true -> same_sharing a b ->
  forall sta stb, store_rel (corr a b) sta stb ->
    (forall o, fst (stream sta a o) = fst (stream stb b o) /\
               store_rel (corr a b) (snd (stream sta a o)) (snd (stream stb b o))) /\
    (forall c, fst (map_of sta a c) = fst (map_of stb b c) /\
               store_rel (corr a b) (snd (map_of sta a c)) (snd (map_of stb b c))).
Proof.
  intros H HS sta stb HR. apply E1_src_eqb_erase in H.
  destruct (sim_erase (corr a b) HS a b H (incl_refl _)) as [A B].
  split; [intros o; exact (A sta stb o HR)|intros c; exact (B sta stb c HR)].
Qed.

(* E3 as asked: cold caches, ids pairwise distinct in each tree (they may differ between the
   trees, or coincide: nothing is assumed across the two) *)
Theorem E3_eq_cold_answers (a b : src) :
  src_eqb a b = true -> ids_distinct a -> ids_distinct b ->
  forall o c,
    fst (fst (stream [] a o)) = fst (fst (stream [] b o)) /\
    snd (fst (stream [] a o)) = snd (fst (stream [] b o)) /\
    fst (map_of [] a c) = fst (map_of [] b c).
Proof.
  intros H Ha Hb o c.
  destruct (E3_eq_related_stores a b H (ids_distinct_same_sharing a b Ha Hb) [] []
              (store_rel_nil _)) as [A B].
  destruct (A o) as [A1 _]. destruct (B c) as [B1 _]. rewrite A1, B1.
  split; [reflexivity|]. split; reflexivity.
Qed.

(* the hypothesis on the ids cannot be dropped: a tree that holds the same CachedSource twice
   (a clone: shared caches) replays the cached map for the second occurrence, a tree that holds
   two separate CachedSources of equal content streams the content twice; beneath a
   ReplaceSource with a replacement the coarser replayed chunks attribute differently (this is
   the known finding K2 met inside one tree).  Equal trees, cold caches, different streams. *)
Definition w_inner : src := SConcat [SOriginal [123] [97]; SOriginal [123;123;59] [98]].
Definition w_pair (i j : N) : src :=
  SConcat [SCached i w_inner; SReplace (SCached j w_inner) [mkRepl 2 4 [10;123] None 1]].
Definition w_shared : src := w_pair 1 1.
Definition w_separate : src := w_pair 1 2.

Example sharing_needed :
  src_eqb w_shared w_separate = true /\
  ids_distinct w_separate /\ ~ ids_distinct w_shared /\
  fst (stream [] w_shared (mkOpts false false)) <> fst (stream [] w_separate (mkOpts false false)).
Proof.
  split; [vm_compute; reflexivity|]. split.
  - unfold ids_distinct. cbn. constructor; [intros [F|[]]; discriminate|].
    constructor; [intros []|constructor].
  - split.
    + unfold ids_distinct. cbn. intros F. inversion F as [|? ? Hn _]. apply Hn. left. reflexivity.
    + vm_compute. discriminate.
Qed.

Print Assumptions E1_src_eqb_erase.
Print Assumptions E1_eq_same_ids_leibniz.
Print Assumptions E2_eq_no_cached_answers.
Print Assumptions sim_erase.
Print Assumptions E3_eq_related_stores.
Print Assumptions E3_eq_cold_answers.
Print Assumptions sharing_needed.
