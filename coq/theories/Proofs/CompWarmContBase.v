(* C13 over warm caches, contents (J3), part 1: event-level facts on announced contents.
   `ceq` : two contents are the same up to "absent = empty" (Checkers.ChkCombined.content_eqv;
           it is the relation `content_same` of chk_C13).
   `anns_ok D l` : every announcement (name, content) of `l` is declared in `D` up to `ceq`.
     events_tab_ok     the tables map() builds from a dense stream (CombAllRun.run_tables);
     sm_anns           a SourceMapSource / a replayed cache announces entries of its own tables;
     original_anns, raw_anns   the leaves;
     content_of_file_ok  the lookup `content_of_file` of chk_C13 in such tables;
     attr_of_map_file  every file the attribution of a map refers to is resolved from a segment;
                       with indices inside the tables it is listed in `sources`. *)
From RS Require Import Base.Prelude Base.Text Rope.RopeModel Codec.Vlq Codec.CodecSpec
  Stream.Types Stream.Leaves Stream.Concat Stream.Replace Stream.Combined Stream.Tree
  Api.ApiTree Sem.Attr Sem.HashEq Api.ApiHist Checkers.ChkTree Checkers.ChkHist Checkers.ChkCombined
  Proofs.StreamText Proofs.StreamLeaves Proofs.StreamMap Proofs.WfStream Proofs.AttrCodec Proofs.AttrSms Proofs.AttrLeaves
  Proofs.CombSearch Proofs.CombPass Proofs.CombAllRun Proofs.BoundsIdx.
Require Import Lia List.
Import ListNotations.

Local Open Scope N_scope.

Notation anns := contents_of_events.

(* ------------------------------------------------------------------ *)
(* contents up to "absent = empty"                                      *)
(* ------------------------------------------------------------------ *)
Definition nrm (x : option text) : option text := match x with Some [] => None | y => y end.
Definition ceq (a b : option text) : Prop := content_eqv a b = true.

Lemma ceq_iff a b : ceq a b <-> nrm a = nrm b.
Proof. unfold ceq, content_eqv. fold (nrm a). fold (nrm b). apply opt_text_eqb_eq. Qed.

Lemma ceq_refl a : ceq a a.
Proof. apply ceq_iff. reflexivity. Qed.

Lemma ceq_sym a b : ceq a b -> ceq b a.
Proof. rewrite !ceq_iff. intros H. symmetry. exact H. Qed.

Lemma ceq_trans a b c : ceq a b -> ceq b c -> ceq a c.
Proof. rewrite !ceq_iff. intros H1 H2. rewrite H1. exact H2. Qed.

Lemma content_same_eqv a b : content_same a b = content_eqv a b.
Proof.
  unfold content_same, content_eqv.
  destruct a as [[|x a]|], b as [[|y b]|]; reflexivity.
Qed.

Lemma content_same_ceq a b : content_same a b = true <-> ceq a b.
Proof. rewrite content_same_eqv. unfold ceq. reflexivity. Qed.

(* ------------------------------------------------------------------ *)
(* announcements declared in D                                          *)
(* ------------------------------------------------------------------ *)
Definition anns_ok (D l : list (text * option text)) : Prop :=
  forall n c, In (n, c) l -> exists c0, In (n, c0) D /\ ceq c c0.

Lemma anns_ok_nil D : anns_ok D [].
Proof. intros n c []. Qed.

Lemma anns_ok_self D : anns_ok D D.
Proof. intros n c H. exists c. split; [exact H|apply ceq_refl]. Qed.

Lemma anns_ok_incl D l l' : incl l' l -> anns_ok D l -> anns_ok D l'.
Proof. intros Hi H n c Hin. apply H. apply Hi. exact Hin. Qed.

Lemma anns_ok_mono D D' l : incl D D' -> anns_ok D l -> anns_ok D' l.
Proof. intros Hi H n c Hin. destruct (H n c Hin) as [c0 [A B]]. exists c0. split; [apply Hi; exact A|exact B]. Qed.

Lemma anns_ok_app D a b : anns_ok D a -> anns_ok D b -> anns_ok D (a ++ b).
Proof. intros Ha Hb n c Hin. apply in_app_or in Hin. destruct Hin as [H|H]; [apply Ha|apply Hb]; exact H. Qed.

Definition tab_ok (D : list (text * option text)) (v : option smap) : Prop :=
  match v with Some m => anns_ok D (exp_sources m) | None => True end.

(* ------------------------------------------------------------------ *)
(* the entries of exp_sources                                           *)
(* ------------------------------------------------------------------ *)
Lemma in_exp_sources m n c : In (n, c) (exp_sources m) <->
  exists j, (j < length (sm_sources m))%nat /\ n = get_source m (nth j (sm_sources m) []) /\
            c = nth_opt (sm_contents m) (N.of_nat j).
Proof.
  unfold exp_sources. rewrite map_map, in_map_iff. split.
  - intros [j [E Hj]]. apply in_seq in Hj. rewrite Nat2N.id in E. inversion E. exists j.
    split; [lia|]. split; reflexivity.
  - intros [j [Hj [-> ->]]]. exists j. rewrite Nat2N.id. split; [reflexivity|]. apply in_seq. lia.
Qed.

(* ------------------------------------------------------------------ *)
(* dense streams are runs                                               *)
(* ------------------------------------------------------------------ *)
Lemma dense_run : forall evs S Nn, dense evs (len S) (len Nn) = true -> exists S' N', run evs S Nn S' N'.
Proof.
  induction evs as [|e evs IH]; intros S Nn H.
  - exists S, Nn. apply R_nil.
  - destruct e as [t mp|i s c|i n]; cbn [dense] in H; apply andb_true_iff in H; destruct H as [H1 H2].
    + destruct (IH S Nn H2) as [S' [N' R]]. exists S', N'. apply R_chunk; [|exact R].
      unfold orig_ok. destruct (m_orig mp) as [o|]; [|exact I]. apply andb_true_iff in H1. destruct H1 as [A B].
      split; [apply N.ltb_lt; exact A|]. destruct (o_name o) as [k|]; [apply N.ltb_lt; exact B|exact I].
    + apply N.eqb_eq in H1. subst i.
      assert (E : len S + 1 = len (S ++ [s])) by (rewrite slen_app; reflexivity). rewrite E in H2.
      destruct (IH (S ++ [s]) Nn H2) as [S' [N' R]]. exists S', N'. apply R_src. exact R.
    + apply N.eqb_eq in H1. subst i.
      assert (E : len Nn + 1 = len (Nn ++ [n])) by (rewrite slen_app; reflexivity). rewrite E in H2.
      destruct (IH S (Nn ++ [n]) H2) as [S' [N' R]]. exists S', N'. apply R_name. exact R.
Qed.

(* ------------------------------------------------------------------ *)
(* the tables of a map built from a dense stream                        *)
(* ------------------------------------------------------------------ *)
Lemma nth_nth_opt {A} (d : A) (l : list A) j x : nth_opt l (N.of_nat j) = Some x -> nth j l d = x.
Proof. unfold nth_opt. rewrite Nat2N.id. intros H. apply (nth_error_nth _ _ d H). Qed.

Theorem events_tab_ok D c evs : dense evs 0 0 = true -> anns_ok D (anns evs) -> tab_ok D (map_of_events c evs).
Proof.
  intros Hd Ha. unfold tab_ok. destruct (map_of_events c evs) as [m|] eqn:Em; [|exact I].
  unfold map_of_events in Em. destruct (is_nil (encode_mappings c (chunk_mappings evs))); [discriminate|].
  inversion Em as [E]. clear Em.
  destruct (dense_run evs [] [] Hd) as [S' [N' R]].
  assert (C0 : cont_ok (t_contents (mkT [] [] [])) []).
  { split; [cbn; lia|]. intros g p Hg. unfold nth_opt in Hg. destruct (N.to_nat g); discriminate. }
  destruct (run_tables evs [] [] S' N' R (mkT [] [] []) [] eq_refl eq_refl eq_refl C0) as [T1 [_ [_ T3]]].
  cbn [app] in T3. pose proof (run_sources _ _ _ _ _ R) as T2. cbn [app] in T2.
  intros n x Hin. apply in_exp_sources in Hin. destruct Hin as [j [Hj [-> ->]]].
  cbn [sm_sources sm_contents] in *. unfold get_source. cbn [sm_root].
  rewrite T1, T2 in Hj |- *. rewrite map_length in Hj.
  destruct (nth_error (anns evs) j) as [p|] eqn:Ep; [|apply nth_error_None in Ep; lia].
  assert (Ep' : nth_opt (anns evs) (N.of_nat j) = Some p) by (unfold nth_opt; rewrite Nat2N.id; exact Ep).
  pose proof (T3 (N.of_nat j) p Ep') as Q. destruct p as [pn pc]. cbn [snd] in Q.
  assert (En : nth j (map fst (anns evs)) [] = pn).
  { apply (nth_error_nth _ _ []). rewrite nth_error_map, Ep. reflexivity. }
  rewrite En. destruct (Ha pn pc (nth_error_In _ _ Ep)) as [c0 [A B]].
  exists c0. split; [exact A|]. apply (ceq_trans _ pc); [exact Q|exact B].
Qed.

(* ------------------------------------------------------------------ *)
(* the leaves                                                           *)
(* ------------------------------------------------------------------ *)
Lemma raw_anns t f : anns (fst (raw_stream t f)) = [].
Proof. unfold raw_stream. destruct f; [reflexivity|]. cbn [fst]. apply only_chunks_contents. apply raw_chunks_only. Qed.

Lemma original_anns v n o : anns (fst (original_stream v n o)) = [(n, Some v)].
Proof.
  unfold original_stream. destruct (columns o).
  - pose proof (tokens_only (potential_tokens v) (final_source o) 1 0) as K.
    destruct (original_tokens (potential_tokens v) (final_source o) 1 0) as [evs gi]. cbn [fst] in *.
    cbn [contents_of_events]. rewrite (only_chunks_contents _ K). reflexivity.
  - destruct (final_source o).
    + destruct (gen_info v) as [gl gc]. cbn [fst contents_of_events].
      rewrite (only_chunks_contents _ (marks_only _ _)). reflexivity.
    + cbn [fst contents_of_events]. rewrite (only_chunks_contents _ (line_chunks_only _ _)). reflexivity.
Qed.

(* a SourceMapSource (and a cache replaying a stored map) announces entries of its tables *)
Theorem sm_anns t m o : incl (anns (fst (sm_stream t m o))) (exp_sources m).
Proof.
  unfold sm_stream. destruct (columns o), (final_source o).
  - unfold sm_stream_final. destruct (gen_info t) as [rl rc].
    destruct ((rl =? 1) && (rc =? 0)); [intros x []|]. cbn [fst].
    rewrite !contents_app, announce_sources_exp, announce_names_contents.
    rewrite (only_chunks_contents _ (final_loop_chunks rl rc _ 0)), !app_nil_r. apply incl_refl.
  - unfold sm_stream_full. destruct (is_nil (split_lines t)); [intros x []|].
    destruct (lines_end_info (split_lines t)) as [fl fc].
    pose proof (loop_only (split_lines t) fl fc (decode_mappings (sm_mappings m)) (mkF 1 0 false None)) as O1.
    destruct (sm_full_loop (split_lines t) fl fc (mkF 1 0 false None) (decode_mappings (sm_mappings m))) as [st evs].
    pose proof (step_only (split_lines t) fl fc st (unmapped fl fc)) as O2.
    destruct (sm_full_step (split_lines t) fl fc st (unmapped fl fc)) as [st' evs']. cbn [fst snd] in *.
    rewrite !contents_app, announce_sources_exp, announce_names_contents.
    rewrite (only_chunks_contents _ O1), (only_chunks_contents _ O2), !app_nil_r. apply incl_refl.
  - unfold sm_stream_lines_final. destruct (gen_info t) as [rl rc].
    destruct ((rl =? 1) && (rc =? 0)); [intros x []|]. cbn [fst].
    rewrite !contents_app, announce_sources_exp.
    rewrite (only_chunks_contents _ (lines_final_loop_chunks _ _ _)), !app_nil_r. apply incl_refl.
  - unfold sm_stream_lines_full. destruct (is_nil (split_lines t)); [intros x []|].
    pose proof (lines_full_loop_only (split_lines t) (decode_mappings (sm_mappings m)) 1) as O1.
    destruct (sm_lines_full_loop (split_lines t) (decode_mappings (sm_mappings m)) 1) as [cur evs]. cbn [fst snd] in *.
    rewrite !contents_app, announce_sources_exp.
    rewrite (only_chunks_contents _ O1), (only_chunks_contents _ (whole_lines_only _ _ _ _)), !app_nil_r.
    apply incl_refl.
Qed.

(* ------------------------------------------------------------------ *)
(* the lookup of chk_C13                                                *)
(* ------------------------------------------------------------------ *)
Lemma file_index_some m f : forall srcs i k, file_index m srcs f i = Some k ->
  exists j, k = i + N.of_nat j /\ (j < length srcs)%nat /\ get_source m (nth j srcs []) = f.
Proof.
  induction srcs as [|x srcs IH]; intros i k H; [discriminate|]. cbn [file_index] in H.
  destruct (text_eqb (get_source m x) f) eqn:E.
  - inversion H. subst k. exists 0%nat. split; [cbn; lia|]. split; [cbn; lia|]. apply text_eqb_eq. exact E.
  - destruct (IH (i + 1) k H) as [j [A [B C]]]. exists (S j). split; [lia|]. split; [cbn [length]; lia|exact C].
Qed.

Lemma file_index_found m f : forall srcs i j, (j < length srcs)%nat -> get_source m (nth j srcs []) = f ->
  exists k, file_index m srcs f i = Some k.
Proof.
  induction srcs as [|x srcs IH]; intros i j Hj E; [cbn in Hj; lia|]. cbn [file_index].
  destruct (text_eqb (get_source m x) f) eqn:T; [exists i; reflexivity|].
  destruct j as [|j].
  - cbn [nth] in E. rewrite E, text_eqb_refl in T. discriminate.
  - apply (IH (i + 1) j); [cbn [length] in Hj; lia|exact E].
Qed.

Theorem content_of_file_ok D m f : anns_ok D (exp_sources m) ->
  (exists j, (j < length (sm_sources m))%nat /\ get_source m (nth j (sm_sources m) []) = f) ->
  exists c0, In (f, c0) D /\ ceq (content_of_file (Some m) f) c0.
Proof.
  intros Ha [j [Hj Ej]]. unfold content_of_file.
  destruct (file_index_found m f (sm_sources m) 0 j Hj Ej) as [k Ek]. rewrite Ek.
  destruct (file_index_some m f (sm_sources m) 0 k Ek) as [j' [A [B C]]]. cbn in A. subst k.
  apply (Ha f (nth_opt (sm_contents m) (N.of_nat j'))). apply in_exp_sources.
  exists j'. split; [exact B|]. split; [symmetry; exact C|reflexivity].
Qed.

(* ------------------------------------------------------------------ *)
(* the files an attribution refers to                                   *)
(* ------------------------------------------------------------------ *)
Lemma seg_lookup_in : forall segs l c best a, seg_lookup segs l c best = Some a ->
  best = Some a \/ exists sl sc, In (sl, sc, Some a) segs.
Proof.
  induction segs as [|[[sl sc] x] segs IH]; intros l c best a H; [left; exact H|]. cbn [seg_lookup] in H.
  destruct ((sl =? l) && (sc <=? c)).
  - destruct (IH l c x a H) as [E|[sl' [sc' E]]].
    + right. exists sl, sc. left. rewrite E. reflexivity.
    + right. exists sl', sc'. right. exact E.
  - destruct (IH l c best a H) as [E|[sl' [sc' E]]]; [left; exact E|]. right. exists sl', sc'. right. exact E.
Qed.

Lemma seg_first_mapped_in : forall segs l a, seg_first_mapped segs l = Some a ->
  exists sl sc x, In (sl, sc, Some x) segs /\ l_file a = l_file x.
Proof.
  induction segs as [|[[sl sc] x] segs IH]; intros l a H; [discriminate|]. cbn [seg_first_mapped] in H.
  destruct (sl =? l).
  - destruct x as [x|].
    + inversion H. exists sl, sc, x. split; [left; reflexivity|reflexivity].
    + destruct (IH l a H) as [sl' [sc' [x' [A B]]]]. exists sl', sc', x'. split; [right; exact A|exact B].
  - destruct (IH l a H) as [sl' [sc' [x' [A B]]]]. exists sl', sc', x'. split; [right; exact A|exact B].
Qed.

Lemma attr_by_pos_in segs cols : forall t l c a, In (Some a) (attr_by_pos segs cols t l c) ->
  exists sl sc x, In (sl, sc, Some x) segs /\ l_file a = l_file x.
Proof.
  induction t as [|b t IH]; intros l c a H; [destruct H|]. cbn [attr_by_pos] in H. destruct H as [H|H].
  - destruct cols.
    + destruct (seg_lookup_in segs l c None a H) as [E|[sl [sc E]]]; [discriminate|].
      exists sl, sc, a. split; [exact E|reflexivity].
    + apply (seg_first_mapped_in segs l a H).
  - destruct (b =? NL); apply (IH _ _ a H).
Qed.

(* with indices inside the tables, a referenced file is listed *)
Theorem attr_of_map_file m t cols a :
  Forall (seg_ok (len (sm_sources m)) (len (sm_names m))) (decode_mappings (sm_mappings m)) ->
  In (Some a) (attr_of_map (Some m) t cols) ->
  exists j, (j < length (sm_sources m))%nat /\ get_source m (nth j (sm_sources m) []) = l_file a.
Proof.
  intros Hok Hin. cbn [attr_of_map] in Hin.
  destruct (attr_by_pos_in _ _ _ _ _ _ Hin) as [sl [sc [x [Hx Ef]]]].
  unfold rsegs_of_map in Hx. apply in_map_iff in Hx. destruct Hx as [mp [E Hmp]].
  rewrite Forall_forall in Hok. specialize (Hok mp Hmp). unfold seg_ok, orig_ok in Hok.
  destruct (m_orig mp) as [o|]; [|inversion E]. destruct Hok as [Hs _].
  inversion E as [[E1 E2 E3]]. rewrite Ef, <- E3. unfold resolve_map. cbn [l_file].
  destruct (cs_nth_opt_some (sm_sources m) (o_src o) Hs) as [s Es]. rewrite Es.
  exists (N.to_nat (o_src o)). split; [unfold len in Hs; lia|].
  unfold nth_opt in Es. f_equal. apply nth_error_nth. exact Es.
Qed.

Print Assumptions events_tab_ok.
Print Assumptions sm_anns.
Print Assumptions original_anns.
Print Assumptions content_of_file_ok.
Print Assumptions attr_of_map_file.
