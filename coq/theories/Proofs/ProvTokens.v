(* Z1: the tokenizer of OriginalSource (Stream/Leaves.v, `potential_tokens`) and the
   independent reading of the documented regex in Sem/Prov.v (`stmt_starts`) agree:
   a byte begins a token that is not a lone line feed exactly when it begins a statement. *)
From RS Require Import Base.Prelude Base.Text Rope.RopeModel Stream.Types Stream.Leaves Sem.Prov
  Proofs.StreamText.
Require Import Lia List.

Local Open Scope N_scope.

(* ------------------------------------------------------------------ *)
(* token starts                                                         *)
(* ------------------------------------------------------------------ *)
(* marks of one token: `true` on its first byte unless the token is the lone line feed [10] *)
Definition tok_marks (tk : text) : list bool :=
  match tk with
  | [] => []
  | c :: r => negb ((c =? NL) && is_nil r) :: map (fun _ => false) r
  end.

(* for the concatenation of the tokens: `true` at the first byte of every token that is not
   a lone line feed, `false` elsewhere *)
Definition token_starts (toks : list text) : list bool := flat_map tok_marks toks.

Lemma tok_marks_length tk : length (tok_marks tk) = length tk.
Proof. destruct tk as [|c r]; [reflexivity|]. cbn [tok_marks length]. rewrite map_length. reflexivity. Qed.

Lemma token_starts_length toks : length (token_starts toks) = length (concat toks).
Proof.
  induction toks as [|tk toks IH]; [reflexivity|].
  unfold token_starts in *. cbn [flat_map concat]. rewrite !app_length, tok_marks_length, IH. reflexivity.
Qed.

Lemma token_starts_cons tk toks : token_starts (tk :: toks) = tok_marks tk ++ token_starts toks.
Proof. reflexivity. Qed.

Lemma tok_marks_lone : tok_marks [10] = [false].
Proof. reflexivity. Qed.

Lemma tok_marks_not_lone c r : (c =? NL) && is_nil r = false ->
  tok_marks (c :: r) = true :: map (fun _ => false) r.
Proof. intros H. cbn [tok_marks]. rewrite H. reflexivity. Qed.

(* ------------------------------------------------------------------ *)
(* marks of the partial token held (reversed) by the scanner            *)
(* ------------------------------------------------------------------ *)
Definition pm (cur : text) : list bool :=
  match rev cur with
  | [] => []
  | _ :: r => true :: map (fun _ => false) r
  end.

Lemma pm_nil : pm [] = [].
Proof. reflexivity. Qed.

Lemma pm_cons c cur : pm (c :: cur) = pm cur ++ [is_nil cur].
Proof.
  unfold pm. cbn [rev]. destruct cur as [|x cur]; [reflexivity|].
  destruct (rev (x :: cur)) as [|y r] eqn:E.
  - exfalso. apply (rev_nonempty (x :: cur)); [discriminate|exact E].
  - cbn [app is_nil]. rewrite map_app. reflexivity.
Qed.

Lemma no_nl_hd_rev cur y r : no_nl cur -> rev cur = y :: r -> y <> 10.
Proof.
  intros H E Hy. subst y. apply (no_nl_not_in cur H). apply in_rev. rewrite E. left. reflexivity.
Qed.

(* a finished token without line feed *)
Lemma tok_marks_rev cur : no_nl cur -> tok_marks (rev cur) = pm cur.
Proof.
  intros H. unfold pm. destruct (rev cur) as [|y r] eqn:E; [reflexivity|].
  apply tok_marks_not_lone. pose proof (no_nl_hd_rev cur y r H E) as Hy.
  apply N.eqb_neq in Hy. unfold NL. rewrite Hy. reflexivity.
Qed.

(* a token finished by a line feed: lone exactly when nothing precedes the line feed *)
Lemma tok_marks_rev_nl cur : no_nl cur -> tok_marks (rev (10 :: cur)) = pm cur ++ [false].
Proof.
  intros H. cbn [rev]. unfold pm. destruct (rev cur) as [|y r] eqn:E; [reflexivity|].
  cbn [app]. rewrite tok_marks_not_lone.
  - rewrite map_app. reflexivity.
  - pose proof (no_nl_hd_rev cur y r H E) as Hy. apply N.eqb_neq in Hy. unfold NL. rewrite Hy. reflexivity.
Qed.

(* ------------------------------------------------------------------ *)
(* the scanner invariant                                                *)
(* ------------------------------------------------------------------ *)
Lemma is_brace_sep c : is_brace c = true -> is_sep c = true.
Proof. unfold is_sep. intros ->. reflexivity. Qed.

Lemma not_sep_brace c : is_sep c = false -> is_brace c = false.
Proof. intros H. destruct (is_brace c) eqn:E; [|reflexivity]. rewrite (is_brace_sep c E) in H. discriminate. Qed.

(* ph = true  iff  the partial token ends in a separator run that contains a brace
               iff  in_run && run_has_brace;
   at_line_start = true  iff  the partial token is empty *)
Lemma tokens_aux_starts t : forall ph cur ir rb,
  no_nl cur -> ph = ir && rb ->
  token_starts (tokens_aux t ph cur) = pm cur ++ stmt_starts t (is_nil cur) ir rb.
Proof.
  induction t as [|c t IH]; intros ph cur ir rb Hc Hph.
  - cbn [tokens_aux stmt_starts]. rewrite app_nil_r. destruct cur as [|x cur]; [reflexivity|].
    cbn [is_nil]. rewrite token_starts_cons. cbn [token_starts flat_map]. rewrite app_nil_r.
    apply tok_marks_rev. exact Hc.
  - cbn [tokens_aux stmt_starts]. destruct (c =? NL) eqn:E.
    + apply N.eqb_eq in E. subst c. rewrite token_starts_cons.
      rewrite (IH false [] false false no_nl_nil eq_refl). rewrite pm_nil. cbn [app is_nil].
      unfold NL. rewrite (tok_marks_rev_nl cur Hc), <- app_assoc. reflexivity.
    + assert (Hne : c <> 10) by (apply N.eqb_neq; exact E).
      assert (Hcc : no_nl (c :: cur)) by (apply no_nl_cons; assumption).
      destruct ph.
      * (* trailing separator run with a brace *)
        symmetry in Hph. apply andb_true_iff in Hph. destruct Hph as [-> ->].
        destruct (is_sep c) eqn:Es.
        -- rewrite (IH true (c :: cur) true (true && true || is_brace c) Hcc) by reflexivity.
           rewrite pm_cons, <- app_assoc. cbn [app is_nil negb andb orb]. rewrite orb_false_r. reflexivity.
        -- rewrite token_starts_cons, (tok_marks_rev cur Hc).
           rewrite (IH false [c] false false (no_nl_cons c [] Hne no_nl_nil) eq_refl).
           cbn [negb andb is_nil]. rewrite orb_true_r. reflexivity.
      * (* body of a token *)
        assert (Hhere : is_nil cur || negb (is_sep c) && ir && rb = is_nil cur).
        { rewrite <- andb_assoc, <- Hph, andb_false_r, orb_false_r. reflexivity. }
        rewrite Hhere. destruct (is_brace c) eqn:Eb.
        -- rewrite (is_brace_sep c Eb).
           rewrite (IH true (c :: cur) true (rb && ir || true) Hcc) by (rewrite orb_true_r; reflexivity).
           rewrite pm_cons, <- app_assoc. reflexivity.
        -- destruct (is_sep c) eqn:Es.
           ++ rewrite (IH false (c :: cur) true (rb && ir || false) Hcc)
                by (cbn [andb]; rewrite orb_false_r, (andb_comm rb ir); exact Hph).
              rewrite pm_cons, <- app_assoc. reflexivity.
           ++ rewrite (IH false (c :: cur) false false Hcc) by reflexivity.
              rewrite pm_cons, <- app_assoc. reflexivity.
Qed.

(* Z1 *)
Theorem token_starts_stmt_starts (v : text) :
  token_starts (potential_tokens v) = stmt_starts v true false false.
Proof.
  unfold potential_tokens. rewrite (tokens_aux_starts v false [] false false no_nl_nil eq_refl).
  reflexivity.
Qed.

(* the generalisation over the scanner state, in the form asked for *)
Theorem tokens_aux_stmt_starts (t : text) (ph : bool) (cur : text) (in_run run_has_brace : bool) :
  no_nl cur -> ph = in_run && run_has_brace ->
  token_starts (tokens_aux t ph cur) = pm cur ++ stmt_starts t (is_nil cur) in_run run_has_brace.
Proof. apply tokens_aux_starts. Qed.

(* ------------------------------------------------------------------ *)
(* exhaustive test (done before proving): all strings of length <= 6     *)
(* over {a, space, ';', '{', line feed, tab}: 55987 strings, no mismatch *)
(* ------------------------------------------------------------------ *)
Fixpoint lb_eqb (a b : list bool) : bool :=
  match a, b with
  | [], [] => true
  | x :: a', y :: b' => Bool.eqb x y && lb_eqb a' b'
  | _, _ => false
  end.
Definition z1_mismatch (v : text) : list text :=
  if lb_eqb (token_starts (potential_tokens v)) (stmt_starts v true false false) then [] else [v].
Fixpoint z1_check (alpha : list N) (n : nat) (s : text) : list text * N :=
  match n with
  | O => (z1_mismatch s, 1)
  | S n' => fold_left (fun acc c => let r := z1_check alpha n' (c :: s) in (fst acc ++ fst r, snd acc + snd r))
                      alpha (z1_mismatch s, 1)
  end.
Example z1_exhaustive : z1_check [97; 32; 59; 123; 10; 9] 6 [] = ([], 55987).
Proof. vm_compute. reflexivity. Qed.

Print Assumptions token_starts_stmt_starts.
Print Assumptions tokens_aux_stmt_starts.
