(* Trees with combined-map leaves, part 4: the hypotheses of the theorems of CombLeafTree*.v are
   satisfiable on trees that mix the combined leaf of CombAllTop.v (`ok_outer` / `ok_inner`) with
   raw and OriginalSource leaves under ConcatSource and ReplaceSource nodes, for both values of
   remove_original_source; and an instance where remove_original_source = true really unmaps the
   first mapped segment of a line (the case in which `seg_first_mapped` does not commute with
   `resolve_combined`, see CombLeafLines.v). *)
From RS Require Import Base.Prelude Base.Text Rope.RopeModel Codec.Vlq Codec.CodecSpec
  Checkers.ChkCodec Stream.Types Stream.Leaves Stream.Combined Stream.Tree Sem.Attr
  Checkers.ChkTree Checkers.ChkCombined
  Proofs.AttrCodec Proofs.RStreamTree Proofs.FinalTree Proofs.LinesTree
  Proofs.CombAllSpec Proofs.CombAllT12 Proofs.CombAllTop
  Proofs.CombLeafBase Proofs.CombLeafCols Proofs.CombLeafLines
  Proofs.CombLeafTree Proofs.CombLeafTreeCols Proofs.CombLeafTreeLines.
Require Import Lia List.

Local Open Scope N_scope.

Definition ex_leaf (r : bool) : src := SMapped ok_text [105] ok_outer None (Some ok_inner) r.
(* Concat [Raw "x"; <combined leaf>; Original "y\nz"] *)
Definition ex_concat (r : bool) : src := SConcat [SRaw false [120]; ex_leaf r; SOriginal [121; 10; 122] [111; 111]].
(* a ReplaceSource over it: one replacement with a name and a line feed, one insertion *)
Definition ex_replace (r : bool) : src :=
  SReplace (ex_concat r) [mkRepl 2 4 [65; 10; 66] (Some [110]) 1; mkRepl 0 1 [] None 1].
(* nested again *)
Definition ex_nested (r : bool) : src := SConcat [ex_replace r; ex_leaf r; SRaw false [10; 10]].

Definition small_final (s : src) (c : bool) : bool :=
  forallb mapping_small (chunk_mappings (fst (fst (stream [] s (mkOpts c true))))).

Definition hyps (s : src) : bool * bool * bool * bool * bool * bool :=
  (rshape s, rshape2 s, treeA s, rsmall s, small_final s true, small_final s false).

Example hypotheses_satisfiable_trees :
  map (fun r => map (fun s => hyps s) [ex_leaf r; ex_concat r; ex_replace r; ex_nested r]) [false; true] =
  [[(false, true, true, true, true, true); (false, true, true, true, true, true);
    (false, true, true, true, true, true); (false, true, true, true, true, true)];
   [(false, true, true, true, true, true); (false, true, true, true, true, true);
    (false, true, true, true, true, true); (false, true, true, true, true, true)]].
Proof. vm_compute. reflexivity. Qed.

(* the theorems, instantiated *)
Example ex_nested_C03_cols (r : bool) :
  attr_of_map (fst (get_map [] (ex_nested r) true)) (source (ex_nested r)) true =
  attr_of_stream (fst (fst (stream [] (ex_nested r) (mkOpts true false)))) true /\
  is_none (fst (get_map [] (ex_nested r) true)) =
  negb (mapped_chunk_exists (fst (fst (stream [] (ex_nested r) (mkOpts true false))))).
Proof. destruct r; apply C03_tree_cols2; vm_compute; reflexivity. Qed.

Example ex_nested_C03_lines (r : bool) :
  attr_of_map (fst (get_map [] (ex_nested r) false)) (source (ex_nested r)) false =
  attr_of_stream (fst (fst (stream [] (ex_nested r) (mkOpts false false)))) false /\
  is_none (fst (get_map [] (ex_nested r) false)) =
  negb (mapped_chunk_exists (fst (fst (stream [] (ex_nested r) (mkOpts false false))))).
Proof. destruct r; apply C03_tree_lines2; vm_compute; reflexivity. Qed.

(* ---- remove_original_source = true unmaps the first mapped segment of line 1 ---- *)
(* outer: (1,0) -> inner source (2,0), a line on which the inner map has only an unmapped
   segment; (1,2) -> inner source (1,1); (2,0) -> another source.  text "abcd\nef\n" *)
Definition um_inner := cex_map [cex_seg 1 0 0 1 0 None; mkMapping 2 0 None] [[111]] [[113; 10; 113; 10]] [].
Definition um_outer := cex_map
  [cex_seg 1 0 1 2 0 None; cex_seg 1 2 1 1 1 None; cex_seg 2 0 0 1 0 None]
  [[97]; [105]]
  [[65]; [120;121;122;32;117;118;119;10;102;111;111;32;98;97;114;10]] [].
Definition um_text : text := [97;98;99;100;10;101;102;10].
Definition um_leaf (r : bool) : src := SMapped um_text [105] um_outer None (Some um_inner) r.
Definition um_tree (r : bool) : src := SConcat [SRaw false [120]; um_leaf r; SOriginal [121] [111; 111]].

Example um_hypotheses :
  (hyps (um_leaf true), hyps (um_tree true), hyps (um_tree false)) =
  ((false, true, true, true, true, true), (false, true, true, true, true, true),
   (false, true, true, true, true, true)).
Proof. vm_compute. reflexivity. Qed.

(* columns = true: the bytes "ab" of line 1 lose their mapping, "cd\n" keep theirs;
   columns = false: the whole of line 1 is unmapped - the line splitter of the outer map hands
   only the line's first mapped segment to the combining step, which removes it - while with
   remove_original_source = false the line falls back to the inner source itself *)
Example um_attributions :
  let f a := match a with Some l => Some (l_file l, l_line l) | None => None end in
  (map f (attr_of_stream (fst (fst (stream [] (um_leaf true) (mkOpts true false)))) true),
   map f (attr_of_stream (fst (fst (stream [] (um_leaf true) (mkOpts false false)))) false),
   map f (attr_of_stream (fst (fst (stream [] (um_leaf false) (mkOpts false false)))) false)) =
  ([None; None; Some ([111], 1); Some ([111], 1); Some ([111], 1); Some ([97], 1); Some ([97], 1); Some ([97], 1)],
   [None; None; None; None; None; Some ([97], 1); Some ([97], 1); Some ([97], 1)],
   [Some ([105], 2); Some ([105], 2); Some ([105], 2); Some ([105], 2); Some ([105], 2);
    Some ([97], 1); Some ([97], 1); Some ([97], 1)]).
Proof. vm_compute. reflexivity. Qed.

Example um_tree_C03_lines (r : bool) :
  attr_of_map (fst (get_map [] (um_tree r) false)) (source (um_tree r)) false =
  attr_of_stream (fst (fst (stream [] (um_tree r) (mkOpts false false)))) false.
Proof. destruct r; apply C03_tree_lines2; vm_compute; reflexivity. Qed.

Print Assumptions ex_nested_C03_cols.
Print Assumptions ex_nested_C03_lines.
Print Assumptions um_tree_C03_lines.
