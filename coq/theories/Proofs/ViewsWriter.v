(* C07, V7: to_writer against a writer that runs out after `cap` bytes.
   The call fails exactly when the capacity is smaller than the total payload;
   what was written is always a prefix of the payload, the whole payload on
   success, and exactly the first `cap` bytes for a short-writing writer. *)
From Coq Require Import List NArith Bool Lia.
From RS Require Import Base.Prelude Base.Text Rope.RopeModel Stream.Types Stream.Tree
  Sem.Writer Checkers.ChkTree.
From RS Require Import Proofs.RopeBasic Proofs.RopeWf Proofs.RopeOps Proofs.ViewsTree.
Import ListNotations.

(* ---------- enough capacity: everything is written ---------- *)
Lemma run_writer_fits (short : bool) (calls : list text) :
  forall c p, len (concat calls) <= c ->
  run_writer short (mkW c p) calls = (mkW (c - len (concat calls)) (p ++ concat calls), true).
Proof.
  induction calls as [|x calls IH]; intros c p H.
  - cbn [run_writer concat]. rewrite len_nil, N.sub_0_r, app_nil_r. reflexivity.
  - cbn [concat] in *. rewrite len_app in H. cbn [run_writer]. unfold write_all.
    destruct (is_nil x) eqn:Ex.
    + apply is_nil_true in Ex. subst x. rewrite len_nil in H. cbn [app].
      rewrite IH by lia. reflexivity.
    + cbn [w_cap w_written].
      replace (len x <=? c) with true by (symmetry; apply N.leb_le; lia).
      rewrite IH by lia. rewrite len_app, <- app_assoc. f_equal. f_equal. lia.
Qed.

(* ---------- not enough capacity: error, a prefix was written ---------- *)
Lemma run_writer_short (short : bool) (calls : list text) :
  forall c p, c < len (concat calls) ->
  exists w q, run_writer short (mkW c p) calls = (w, false) /\
              w_written w = p ++ q /\
              is_prefix q (concat calls) = true /\
              (short = true -> q = take c (concat calls)).
Proof.
  induction calls as [|x calls IH]; intros c p H.
  - cbn [concat] in H. rewrite len_nil in H. lia.
  - cbn [concat] in *. rewrite len_app in H. cbn [run_writer]. unfold write_all.
    destruct (is_nil x) eqn:Ex.
    + apply is_nil_true in Ex. subst x. rewrite len_nil in H. cbn [app].
      apply IH. lia.
    + cbn [w_cap w_written]. destruct (len x <=? c) eqn:Ec.
      * apply N.leb_le in Ec.
        destruct (IH (c - len x) (p ++ x) ltac:(lia)) as (w & q & E & Hw & Hq & Hs).
        exists w, (x ++ q). split; [exact E|]. split; [|split].
        -- rewrite Hw, app_assoc. reflexivity.
        -- rewrite is_prefix_app_same. exact Hq.
        -- intros Hsh. rewrite take_app_r by exact Ec. rewrite (Hs Hsh). reflexivity.
      * apply N.leb_gt in Ec. destruct short.
        -- exists (mkW 0 (p ++ take c x)), (take c x). split; [reflexivity|].
           split; [reflexivity|]. split.
           ++ rewrite <- (take_drop c x) at 2. rewrite <- app_assoc. apply is_prefix_refl_app.
           ++ intros _. rewrite take_app_l by lia. reflexivity.
        -- exists (mkW c p), []. split; [reflexivity|].
           split; [cbn [w_written]; rewrite app_nil_r; reflexivity|].
           split; [reflexivity|discriminate].
Qed.

(* ---------- V7 ---------- *)
Theorem run_writer_spec_gen (short : bool) (c : N) (p : text) (calls : list text) :
  let '(w, ok) := run_writer short (mkW c p) calls in
  (ok = true <-> len (concat calls) <= c) /\
  exists q, w_written w = p ++ q /\
            is_prefix q (concat calls) = true /\
            (ok = true -> q = concat calls /\ w_cap w = c - len (concat calls)) /\
            (short = true -> ok = false -> q = take c (concat calls)).
Proof.
  destruct (N.le_gt_cases (len (concat calls)) c) as [Hle|Hgt].
  - rewrite (run_writer_fits short calls c p Hle). split; [tauto|].
    exists (concat calls). split; [reflexivity|]. split; [|split].
    + rewrite <- (app_nil_r (concat calls)) at 2. apply is_prefix_refl_app.
    + intros _. split; reflexivity.
    + intros _ Hf. discriminate.
  - destruct (run_writer_short short calls c p Hgt) as (w & q & E & Hw & Hq & Hs).
    rewrite E. split; [split; [discriminate|lia]|].
    exists q. split; [exact Hw|]. split; [exact Hq|]. split; [discriminate|].
    intros Hsh _. exact (Hs Hsh).
Qed.

Theorem run_writer_spec (short : bool) (cap : N) (calls : list text) :
  let '(w, ok) := run_writer short (mkW cap []) calls in
  (ok = true <-> len (concat calls) <= cap) /\
  is_prefix (w_written w) (concat calls) = true /\
  (ok = true -> w_written w = concat calls) /\
  (short = true -> ok = false -> w_written w = take cap (concat calls)).
Proof.
  pose proof (run_writer_spec_gen short cap [] calls) as H.
  destruct (run_writer short (mkW cap []) calls) as [w ok].
  destruct H as (Hok & q & Hw & Hq & Hall & Hs). cbn [app] in Hw. rewrite Hw.
  split; [exact Hok|]. split; [exact Hq|]. split.
  - intros H. exact (proj1 (Hall H)).
  - exact Hs.
Qed.

(* to_writer: error exactly when the writer runs out; only a prefix of buffer() is
   written, all of it on success, the first `cap` bytes with short writes *)
Theorem to_writer_failing_spec (s : src) (cap : N) (short : bool) :
  let '(written, ok) := to_writer_failing s cap short in
  (ok = true <-> len (buffer s) <= cap) /\
  (ok = false <-> cap < len (buffer s)) /\
  is_prefix written (buffer s) = true /\
  (ok = true -> written = buffer s) /\
  (short = true -> ok = false -> written = take cap (buffer s)).
Proof.
  unfold to_writer_failing.
  pose proof (run_writer_spec short cap (writer_calls s)) as H.
  destruct (run_writer short (mkW cap []) (writer_calls s)) as [w ok].
  rewrite writer_calls_buffer in H. destruct H as (Hok & Hp & Hall & Hs).
  split; [exact Hok|]. split; [|split; [exact Hp|split; [exact Hall|exact Hs]]].
  destruct ok; split; intros H; try discriminate; try reflexivity.
  - exfalso. pose proof (proj1 Hok eq_refl). lia.
  - apply N.lt_nge. intros Hle. apply Hok in Hle. discriminate.
Qed.

(* the checker accepts what the model writes *)
Theorem chk_C07_writer_model (s : src) (cap : N) (short : bool) :
  tree_wf s = true ->
  let '(written, ok) := to_writer_failing s cap short in
  chk_C07_writer s cap short (buffer s) written ok = 0.
Proof.
  intros Hwf. pose proof (to_writer_failing_spec s cap short) as H.
  destruct (to_writer_failing s cap short) as [written ok].
  destruct H as (Hok & _ & Hp & Hall & Hs).
  unfold chk_C07_writer. rewrite Hwf, Hp. cbn [negb].
  assert (E1 : Bool.eqb ok (len (buffer s) <=? cap) = true).
  { destruct ok.
    - rewrite (proj2 (N.leb_le _ _) (proj1 Hok eq_refl)). reflexivity.
    - destruct (len (buffer s) <=? cap) eqn:E; [|reflexivity].
      apply N.leb_le in E. apply Hok in E. discriminate. }
  rewrite E1. cbn [negb].
  destruct ok.
  - rewrite (Hall eq_refl), text_eqb_refl. cbn [andb negb]. rewrite andb_false_r. reflexivity.
  - cbn [andb negb]. destruct short; [|reflexivity].
    rewrite (Hs eq_refl eq_refl), text_eqb_refl. reflexivity.
Qed.

Print Assumptions run_writer_spec_gen.
Print Assumptions run_writer_spec.
Print Assumptions to_writer_failing_spec.
Print Assumptions chk_C07_writer_model.
