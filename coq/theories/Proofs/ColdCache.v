(* Cold caches, part 1 (K1): the FIRST observation of a freshly built tree.
   A tree with CachedSource nodes whose caches are all cold (no entry for any of its ids in
   the store; in particular the empty store) answers stream_chunks / map() exactly as the same
   tree with every CachedSource wrapper removed (`uncache`), provided every cache id occurs at
   most once in the tree (`ids_distinct`).  The text views never look at the store and agree
   unconditionally. *)
From RS Require Import Base.Prelude Base.Text Rope.RopeModel Codec.Vlq Codec.CodecSpec
  Stream.Types Stream.Leaves Stream.Concat Stream.Replace Stream.Combined Stream.Tree
  Api.ApiTree Sem.HashEq Api.ApiHist Checkers.ChkTree Checkers.ChkHist
  Proofs.StreamText Proofs.StreamTree Proofs.LawWrappers Proofs.CacheStore Proofs.CacheReplay.
Require Import Lia List.

Local Open Scope N_scope.

(* ------------------------------------------------------------------ *)
(* definitions                                                          *)
(* ------------------------------------------------------------------ *)
(* remove every CachedSource wrapper *)
Fixpoint uncache (s : src) : src :=
  match s with
  | SConcat cs => SConcat (map uncache cs)
  | SReplace i rs => SReplace (uncache i) rs
  | SCached _ i => uncache i
  | _ => s
  end.

(* the cache ids of a tree, with multiplicity, in preorder *)
Fixpoint ids (s : src) : list N :=
  match s with
  | SConcat cs => flat_map ids cs
  | SReplace i _ => ids i
  | SCached k i => k :: ids i
  | _ => []
  end.

(* every cache id occurs at most once (so: siblings have disjoint ids, and no id occurs in
   the subtree of a node carrying the same id) *)
Definition ids_distinct (s : src) : Prop := NoDup (ids s).

(* a decidable version, for computations *)
Fixpoint nodupb (l : list N) : bool :=
  match l with
  | [] => true
  | x :: r => negb (existsb (N.eqb x) r) && nodupb r
  end.
Definition ids_distinctb (s : src) : bool := nodupb (ids s).

(* no entry for any id of `s`, under any option set *)
Definition cold (st : store) (s : src) : Prop :=
  forall id, has_id id s = true -> forall o, cache_get (store_get st id) o = None.

(* ------------------------------------------------------------------ *)
(* list facts                                                           *)
(* ------------------------------------------------------------------ *)
Lemma nodupb_spec (l : list N) : nodupb l = true <-> NoDup l.
Proof.
  induction l as [|x r IH]; cbn [nodupb].
  - split; [intros _; constructor|reflexivity].
  - rewrite andb_true_iff, negb_true_iff, IH. split.
    + intros [H1 H2]. constructor; [|exact H2]. intros Hin.
      assert (X : existsb (N.eqb x) r = true)
        by (apply existsb_exists; exists x; split; [exact Hin|apply N.eqb_refl]).
      congruence.
    + intros H. inversion H as [|? ? Hn Hr]. subst. split; [|exact Hr].
      destruct (existsb (N.eqb x) r) eqn:E; [|reflexivity]. exfalso.
      apply existsb_exists in E. destruct E as [y [Hy Ey]]. apply N.eqb_eq in Ey. subst y.
      exact (Hn Hy).
Qed.

Theorem ids_distinctb_spec (s : src) : ids_distinctb s = true <-> ids_distinct s.
Proof. apply nodupb_spec. Qed.

Lemma nodup_app_inv {A} (a b : list A) : NoDup (a ++ b) ->
  NoDup a /\ NoDup b /\ (forall x, In x a -> ~ In x b).
Proof.
  induction a as [|x a IH]; cbn [app]; intros H.
  - split; [constructor|]. split; [exact H|]. intros x [].
  - inversion H as [|? ? Hn Hr]. subst. destruct (IH Hr) as [Ha [Hb Hd]].
    split; [|split; [exact Hb|]].
    + constructor; [|exact Ha]. intros F. apply Hn. apply in_or_app. left. exact F.
    + intros y [E|Hy] Hb'.
      * subst y. apply Hn. apply in_or_app. right. exact Hb'.
      * exact (Hd y Hy Hb').
Qed.

(* ------------------------------------------------------------------ *)
(* ids, has_id, has_cached                                              *)
(* ------------------------------------------------------------------ *)
Lemma has_id_ids (id : N) : forall s, has_id id s = true <-> In id (ids s).
Proof.
  apply (src_ind' (fun s => has_id id s = true <-> In id (ids s))); cbn [has_id ids].
  - intros b v. split; [discriminate|intros []].
  - intros v. split; [discriminate|intros []].
  - intros v. split; [discriminate|intros []].
  - intros v n. split; [discriminate|intros []].
  - intros v n m o i r. split; [discriminate|intros []].
  - intros cs IH. rewrite existsb_exists, in_flat_map. rewrite Forall_forall in IH. split.
    + intros [c [Hc H]]. exists c. split; [exact Hc|]. apply (IH c Hc). exact H.
    + intros [c [Hc H]]. exists c. split; [exact Hc|]. apply (IH c Hc). exact H.
  - intros i rs IH. exact IH.
  - intros k i IH. rewrite orb_true_iff, N.eqb_eq, IH. cbn [In]. reflexivity.
Qed.

Lemma has_id_false (id : N) (s : src) : ~ In id (ids s) -> has_id id s = false.
Proof.
  intros H. destruct (has_id id s) eqn:E; [|reflexivity]. exfalso. apply H. apply has_id_ids. exact E.
Qed.

Lemma uncache_nocache : forall s, has_cached (uncache s) = false.
Proof.
  apply (src_ind' (fun s => has_cached (uncache s) = false)); cbn [uncache has_cached]; try reflexivity.
  - intros cs IH. induction IH as [|c cs Hc _ IHl]; [reflexivity|].
    cbn [map existsb]. rewrite Hc. exact IHl.
  - intros i rs IH. exact IH.
  - intros k i IH. exact IH.
Qed.

Lemma uncache_pure (s : src) : pure (uncache s).
Proof. apply nocache_pure. apply uncache_nocache. Qed.

Lemma uncache_id : forall s, has_cached s = false -> uncache s = s.
Proof.
  apply (src_ind' (fun s => has_cached s = false -> uncache s = s)); cbn [uncache has_cached]; try reflexivity.
  - intros cs IH H. f_equal. induction IH as [|c cs Hc _ IHl]; [reflexivity|].
    cbn [existsb] in H. apply orb_false_iff in H. destruct H as [H1 H2].
    cbn [map]. rewrite (Hc H1), (IHl H2). reflexivity.
  - intros i rs IH H. rewrite (IH H). reflexivity.
  - intros k i _ H. discriminate.
Qed.

Lemma uncache_idem (s : src) : uncache (uncache s) = uncache s.
Proof. apply uncache_id. apply uncache_nocache. Qed.

(* ------------------------------------------------------------------ *)
(* the text views never look at the store                               *)
(* ------------------------------------------------------------------ *)
Theorem uncache_source : forall s, source (uncache s) = source s.
Proof.
  apply (src_ind' (fun s => source (uncache s) = source s)); cbn [uncache source]; try reflexivity.
  - intros cs IH. f_equal. induction IH as [|c cs Hc _ IHl]; [reflexivity|].
    cbn [map]. rewrite Hc, IHl. reflexivity.
  - intros i rs IH. rewrite IH. reflexivity.
  - intros k i IH. exact IH.
Qed.

Theorem uncache_buffer : forall s, buffer (uncache s) = buffer s.
Proof.
  apply (src_ind' (fun s => buffer (uncache s) = buffer s)); cbn [uncache buffer]; try reflexivity.
  - intros cs IH. f_equal. induction IH as [|c cs Hc _ IHl]; [reflexivity|].
    cbn [map]. rewrite Hc, IHl. reflexivity.
  - intros i rs _. rewrite uncache_source. reflexivity.
  - intros k i IH. exact IH.
Qed.

Theorem uncache_size : forall s, size (uncache s) = size s.
Proof.
  apply (src_ind' (fun s => size (uncache s) = size s)); cbn [uncache size]; try reflexivity.
  - intros cs IH. induction IH as [|c cs Hc _ IHl]; [reflexivity|].
    cbn [map fold_right]. rewrite Hc, IHl. reflexivity.
  - intros i rs _. rewrite uncache_source. reflexivity.
  - intros k i IH. exact IH.
Qed.

Theorem uncache_writer : forall s, writer_calls (uncache s) = writer_calls s.
Proof.
  apply (src_ind' (fun s => writer_calls (uncache s) = writer_calls s));
    cbn [uncache writer_calls buffer]; try reflexivity.
  - intros cs IH. induction IH as [|c cs Hc _ IHl]; [reflexivity|].
    cbn [map flat_map]. rewrite Hc, IHl. reflexivity.
  - intros i rs _. rewrite uncache_source. reflexivity.
  - intros k i IH. exact IH.
Qed.

Theorem uncache_rope : forall s, rope_of (uncache s) = rope_of s.
Proof.
  apply (src_ind' (fun s => rope_of (uncache s) = rope_of s)); cbn [uncache]; try reflexivity.
  - intros cs IH.
    assert (F : forall acc, fold_left (fun acc c => match acc, rope_of c with
                                                      | Some a, Some r => Some (rope_append a r)
                                                      | _, _ => None end) (map uncache cs) acc =
                            fold_left (fun acc c => match acc, rope_of c with
                                                      | Some a, Some r => Some (rope_append a r)
                                                      | _, _ => None end) cs acc).
    { induction IH as [|c cs Hc _ IHl]; intros acc; [reflexivity|].
      cbn [map fold_left]. rewrite Hc. apply IHl. }
    destruct cs as [|c [|c2 r]].
    + reflexivity.
    + inversion IH as [|? ? Hc _]. subst. cbn [map rope_of]. exact Hc.
    + cbn [rope_of]. cbn [map] in *. apply F.
  - intros i rs IH. cbn [rope_of]. rewrite IH. reflexivity.
  - intros k i IH. cbn [rope_of]. exact IH.
Qed.

(* ------------------------------------------------------------------ *)
(* cold stores                                                          *)
(* ------------------------------------------------------------------ *)
Lemma cold_empty (s : src) : cold [] s.
Proof. intros id _ o. reflexivity. Qed.

Lemma cold_child st cs c : cold st (SConcat cs) -> In c cs -> cold st c.
Proof.
  intros H Hin id Hid. apply H. cbn [has_id]. apply existsb_exists. exists c. split; assumption.
Qed.

Lemma cold_replace st i rs : cold st (SReplace i rs) -> cold st i.
Proof. intros H id Hid. apply H. exact Hid. Qed.

Lemma cold_cached_inner st k i : cold st (SCached k i) -> cold st i.
Proof. intros H id Hid. apply H. cbn [has_id]. rewrite Hid. apply orb_true_r. Qed.

Lemma cold_cached_self st k i : cold st (SCached k i) -> forall o, cache_get (store_get st k) o = None.
Proof. intros H. apply H. cbn [has_id]. rewrite N.eqb_refl. reflexivity. Qed.

(* evaluating a tree only touches the caches of its own ids *)
Lemma cold_after_stream st a o b :
  (forall id, In id (ids b) -> ~ In id (ids a)) -> cold st b -> cold (snd (stream st a o)) b.
Proof.
  intros Hd H id Hid k. apply has_id_ids in Hid as Hin.
  destruct (no_id_keeps id a (has_id_false id a (Hd id Hin))) as [A _]. rewrite A. apply H. exact Hid.
Qed.

Lemma cold_after_map st a c b :
  (forall id, In id (ids b) -> ~ In id (ids a)) -> cold st b -> cold (snd (map_of st a c)) b.
Proof.
  intros Hd H id Hid k. apply has_id_ids in Hid as Hin.
  destruct (no_id_keeps id a (has_id_false id a (Hd id Hin))) as [_ B]. rewrite B. apply H. exact Hid.
Qed.

(* ------------------------------------------------------------------ *)
(* the induction                                                        *)
(* ------------------------------------------------------------------ *)
Definition cold_ok (s : src) : Prop :=
  ids_distinct s ->
  (forall st o, cold st s -> fst (stream st s o) = fst (stream [] (uncache s) o)) /\
  (forall st c, cold st s -> fst (map_of st s c) = fst (map_of [] (uncache s) c)).

Lemma cold_get_map s :
  (forall st o, cold st s -> fst (stream st s o) = fst (stream [] (uncache s) o)) ->
  forall st c, cold st s -> fst (Tree.get_map st s c) = fst (Tree.get_map [] (uncache s) c).
Proof.
  intros H st c Hc. unfold Tree.get_map. specialize (H st (mkOpts c true) Hc).
  destruct (stream st s (mkOpts c true)) as [[e g] s1].
  destruct (stream [] (uncache s) (mkOpts c true)) as [[e' g'] s1']. cbn [fst] in *.
  inversion H. reflexivity.
Qed.

Lemma cfold_cold o cs : Forall cold_ok cs -> NoDup (flat_map ids cs) ->
  forall cst evs st, (forall c, In c cs -> cold st c) ->
  fst (fold_left (cfold_step o) cs (cst, evs, st)) =
  fst (fold_left (cfold_step o) (map uncache cs) (cst, evs, ([] : store))).
Proof.
  induction 1 as [|c cs Hc _ IH]; intros Hnd cst evs st Hcold; [reflexivity|].
  cbn [flat_map] in Hnd. destruct (nodup_app_inv _ _ Hnd) as [N1 [N2 Hdis]].
  cbn [map fold_left]. rewrite !cfold_step_eq.
  destruct (Hc N1) as [A _]. specialize (A st o (Hcold c (or_introl eq_refl))).
  destruct (uncache_pure c) as [P _]. rewrite (P []) in *.
  assert (Hrest : forall c', In c' cs -> cold (snd (stream st c o)) c').
  { intros c' Hin. apply cold_after_stream; [|apply Hcold; right; exact Hin].
    intros id Hid F. apply (Hdis id F). apply in_flat_map. exists c'. split; assumption. }
  destruct (stream st c o) as [[cevs gi] st1]. cbn [fst snd] in *.
  destruct (fst (stream [] (uncache c) o)) as [cevs' gi']. inversion A. subst cevs' gi'.
  destruct (concat_child (final_source o) cst cevs gi) as [cst' out].
  apply IH; assumption.
Qed.

Lemma leaf_cold (s : src) : has_cached s = false ->
  (forall st o, cold st s -> fst (stream st s o) = fst (stream [] (uncache s) o)) /\
  (forall st c, cold st s -> fst (map_of st s c) = fst (map_of [] (uncache s) c)).
Proof.
  intros H. rewrite (uncache_id s H). destruct (nocache_pure s H) as [A B]. split.
  - intros st o _. rewrite (A st). reflexivity.
  - intros st c _. rewrite (B st). reflexivity.
Qed.

Theorem cold_ok_all : forall s, cold_ok s.
Proof.
  apply (src_ind' cold_ok); unfold cold_ok.
  - intros b v _. apply leaf_cold; reflexivity.
  - intros v _. apply leaf_cold; reflexivity.
  - intros v _. apply leaf_cold; reflexivity.
  - intros v n _. apply leaf_cold; reflexivity.
  - intros v n m og i r _. apply leaf_cold; reflexivity.
  - (* SConcat *)
    intros cs IH Hnd. unfold ids_distinct in Hnd. cbn [ids] in Hnd.
    assert (S : forall st o, cold st (SConcat cs) ->
                fst (stream st (SConcat cs) o) = fst (stream [] (uncache (SConcat cs)) o)).
    { intros st o Hc. cbn [uncache]. rewrite !stream_concat_eq. destruct cs as [|c [|c2 r]].
      - reflexivity.
      - cbn [map]. inversion IH as [|? ? Hc1 _]. subst.
        cbn [flat_map] in Hnd. rewrite app_nil_r in Hnd. destruct (Hc1 Hnd) as [A _].
        apply A. apply (cold_child st [c]); [exact Hc|left; reflexivity].
      - pose proof (cfold_cold o (c :: c2 :: r) IH Hnd concat_init [] st
                      (fun c' Hin => cold_child st _ c' Hc Hin)) as F.
        cbn [map] in *.
        destruct (fold_left (cfold_step o) (c :: c2 :: r) (concat_init, [], st)) as [[cst evs] st'].
        match type of F with _ = fst ?R => destruct R as [[cst2 evs2] st2] end.
        cbn [fst] in *. inversion F. reflexivity. }
    split; [exact S|]. intros st c Hc. apply (cold_get_map _ S). exact Hc.
  - (* SReplace *)
    intros i rs IH Hnd. unfold ids_distinct in Hnd. cbn [ids] in Hnd. destruct (IH Hnd) as [A B].
    assert (S : forall st o, cold st (SReplace i rs) ->
                fst (stream st (SReplace i rs) o) = fst (stream [] (uncache (SReplace i rs)) o)).
    { intros st o Hc. cbn [uncache stream]. specialize (A st (mkOpts (columns o) false) (cold_replace _ _ _ Hc)).
      destruct (stream st i (mkOpts (columns o) false)) as [[ievs gi] st'].
      destruct (stream [] (uncache i) (mkOpts (columns o) false)) as [[ievs2 gi2] st2].
      cbn [fst] in *. inversion A. reflexivity. }
    split; [exact S|]. intros st c Hc. cbn [uncache].
    change (map_of st (SReplace i rs) c) with
      (if is_nil rs then map_of st i c else Tree.get_map st (SReplace i rs) c).
    change (map_of [] (SReplace (uncache i) rs) c) with
      (if is_nil rs then map_of [] (uncache i) c else Tree.get_map [] (SReplace (uncache i) rs) c).
    destruct (is_nil rs).
    + apply B. exact (cold_replace _ _ _ Hc).
    + apply (cold_get_map _ S). exact Hc.
  - (* SCached *)
    intros k i IH Hnd. unfold ids_distinct in Hnd. cbn [ids] in Hnd.
    inversion Hnd as [|? ? Hk Hi]. subst. destruct (IH Hi) as [A B].
    pose proof (has_id_false k i Hk) as Hno. split.
    + intros st o Hc. cbn [uncache]. rewrite cached_cold_stream by (apply (cold_cached_self _ _ _ Hc)).
      apply A. exact (cold_cached_inner _ _ _ Hc).
    + intros st c Hc. cbn [uncache]. rewrite cached_cold_map_tree;
        [|exact Hno|apply (cold_cached_self _ _ _ Hc)].
      apply B. exact (cold_cached_inner _ _ _ Hc).
Qed.

(* ------------------------------------------------------------------ *)
(* K1: the statements                                                   *)
(* ------------------------------------------------------------------ *)
(* any store that is cold for the tree *)
Theorem cold_stream_uncache (st : store) (s : src) (o : opts) :
  ids_distinct s -> cold st s -> fst (stream st s o) = fst (stream [] (uncache s) o).
Proof. intros Hd Hc. apply (proj1 (cold_ok_all s Hd)). exact Hc. Qed.

Theorem cold_map_uncache (st : store) (s : src) (c : bool) :
  ids_distinct s -> cold st s -> fst (map_of st s c) = fst (map_of [] (uncache s) c).
Proof. intros Hd Hc. apply (proj2 (cold_ok_all s Hd)). exact Hc. Qed.

Theorem cold_get_map_uncache (st : store) (s : src) (c : bool) :
  ids_distinct s -> cold st s -> fst (Tree.get_map st s c) = fst (Tree.get_map [] (uncache s) c).
Proof. intros Hd Hc. apply cold_get_map; [|exact Hc]. intros st' o. apply cold_stream_uncache. exact Hd. Qed.

(* the first observation of a freshly built tree *)
Theorem fresh_stream_uncache (s : src) (o : opts) :
  ids_distinct s -> fst (stream [] s o) = fst (stream [] (uncache s) o).
Proof. intros Hd. apply cold_stream_uncache; [exact Hd|apply cold_empty]. Qed.

Theorem fresh_map_uncache (s : src) (c : bool) :
  ids_distinct s -> fst (map_of [] s c) = fst (map_of [] (uncache s) c).
Proof. intros Hd. apply cold_map_uncache; [exact Hd|apply cold_empty]. Qed.

Theorem fresh_get_map_uncache (s : src) (c : bool) :
  ids_distinct s -> fst (Tree.get_map [] s c) = fst (Tree.get_map [] (uncache s) c).
Proof. intros Hd. apply cold_get_map_uncache; [exact Hd|apply cold_empty]. Qed.

(* the uncached tree answers the same from any store (it never looks at it) *)
Corollary cold_stream_uncache_any (st st' : store) (s : src) (o : opts) :
  ids_distinct s -> cold st s -> fst (stream st s o) = fst (stream st' (uncache s) o).
Proof.
  intros Hd Hc. rewrite (proj1 (uncache_pure s) st'). cbn [fst]. apply cold_stream_uncache; assumption.
Qed.

Corollary cold_map_uncache_any (st st' : store) (s : src) (c : bool) :
  ids_distinct s -> cold st s -> fst (map_of st s c) = fst (map_of st' (uncache s) c).
Proof.
  intros Hd Hc. rewrite (proj2 (uncache_pure s) st'). cbn [fst]. apply cold_map_uncache; assumption.
Qed.

(* the first observer call of any history, on the API level.  (The hash of a CachedSource
   is, by design, not the hash of the wrapped source: `HU64 (hash_events inner)`.) *)
Theorem fresh_hop_uncache (s : src) (op : hop) :
  ids_distinct s -> op <> OHash -> fst (run_hop [] s op) = fst (run_hop [] (uncache s) op).
Proof.
  intros Hd Hop. destruct op; cbn [run_hop fst]; [| | | | | |congruence|reflexivity].
  - rewrite uncache_source. reflexivity.
  - rewrite uncache_buffer. reflexivity.
  - rewrite uncache_size. reflexivity.
  - rewrite uncache_rope. reflexivity.
  - pose proof (fresh_map_uncache s cols Hd) as H.
    destruct (map_of [] s cols) as [m st1]. destruct (map_of [] (uncache s) cols) as [m2 st2].
    cbn [fst] in *. subst. reflexivity.
  - pose proof (fresh_stream_uncache s (mkOpts cols final) Hd) as H.
    destruct (stream [] s (mkOpts cols final)) as [[e g] st1].
    destruct (stream [] (uncache s) (mkOpts cols final)) as [[e2 g2] st2].
    cbn [fst] in *. inversion H. reflexivity.
Qed.

(* ------------------------------------------------------------------ *)
(* tests, and why `ids_distinct` is needed                              *)
(* ------------------------------------------------------------------ *)
Definition t_orig := SOriginal [97; 98; 10; 99] [102].
Definition t_repl := SReplace (SOriginal [100; 101; 10; 102; 103] [103]) [mkRepl 1 3 [120] None 0].
Definition t_two := SConcat [SCached 1 t_orig; SCached 2 t_repl].
Definition t_nest := SCached 1 (SCached 2 (SConcat [t_orig; SCached 3 t_repl])).

Example t_two_distinct : ids_distinctb t_two = true. Proof. reflexivity. Qed.
Example t_nest_distinct : ids_distinctb t_nest = true. Proof. reflexivity. Qed.
Example t_two_ok : fst (stream [] t_two (mkOpts true false)) = fst (stream [] (uncache t_two) (mkOpts true false))
  /\ fst (map_of [] t_nest false) = fst (map_of [] (uncache t_nest) false).
Proof. vm_compute. split; reflexivity. Qed.

(* NEGATIVE: a repeated id below a ReplaceSource with a replacement (the tree of
   LawWrappers.cached_cold_map_counterexample): the inner node fills the entry (cols, false)
   with ITS map, `or_insert` of the outer node keeps and returns that one. *)
Example repeated_id_counterexample :
  let x := SOriginal [97] [102] in
  let s := SCached 7 (SReplace (SCached 7 x) [mkRepl 0 0 [10] None 1]) in
  ids_distinctb s = false /\
  fst (map_of [] s true) <> fst (map_of [] (uncache s) true).
Proof. split; [reflexivity|]. vm_compute. discriminate. Qed.

(* NEGATIVE: repeated id among siblings, streaming: the second child replays the map stored
   by the first (a different source text) *)
Example repeated_sibling_counterexample :
  let s := SConcat [SCached 1 (SOriginal [97; 10] [102]); SCached 1 (SOriginal [98; 98; 98] [103])] in
  ids_distinctb s = false /\
  fst (stream [] s (mkOpts true false)) <> fst (stream [] (uncache s) (mkOpts true false)).
Proof. split; [reflexivity|]. vm_compute. discriminate. Qed.

Print Assumptions uncache_source.
Print Assumptions uncache_buffer.
Print Assumptions uncache_size.
Print Assumptions uncache_rope.
Print Assumptions uncache_writer.
Print Assumptions cold_stream_uncache.
Print Assumptions cold_map_uncache.
Print Assumptions fresh_stream_uncache.
Print Assumptions fresh_map_uncache.
Print Assumptions fresh_get_map_uncache.
Print Assumptions fresh_hop_uncache.
