(* C14 after DIFFERENT histories on the two sides, part 1: what `==` preserves.
   `a == b` (src_eqb) identifies trees up to the ids of their CachedSource nodes, so everything
   that is a function of the cache-free tree is shared:
     eq_uncache       uncache a = uncache b (Leibniz)
     eq_refA          the reference attribution of WarmTreeDefs.v
     eq_decl          the declared contents of CompWarmContInv.v
     eq_k2, eq_treeA, eq_cls   the class `cls` of WarmTreeDefs.v is closed under `==`
     eq_k7, eq_k7c    k7_shape a = k7_shape b, k7c_shape a = k7c_shape b when both trees carry
                      every cache id once (the classes look at cold streams of the wrapped
                      source: E3)
   and the two spellings of "every cache id once" (EqObsTree.v / ColdCache.v) coincide. *)
From RS Require Import Base.Prelude Base.Text Rope.RopeModel Codec.Vlq Codec.CodecSpec
  Stream.Types Stream.Leaves Stream.Concat Stream.Replace Stream.Combined Stream.Tree
  Api.ApiTree Sem.Attr Sem.HashEq Api.ApiHist Checkers.ChkTree Checkers.ChkHist
  Proofs.HashEqBasic Proofs.StreamTree Proofs.RStreamTree Proofs.BoundsPos
  Proofs.EqObsTree Proofs.ColdCache Proofs.WarmTreeDefs Proofs.CompWarmContInv.
Require Import Lia List.
Import ListNotations.

Local Open Scope N_scope.

(* ------------------------------------------------------------------ *)
(* the two definitions of the id list are the same function             *)
(* ------------------------------------------------------------------ *)
Lemma ids_same (s : src) : EqObsTree.ids s = ColdCache.ids s.
Proof. reflexivity. Qed.

Lemma ids_distinct_same (s : src) : EqObsTree.ids_distinct s <-> ColdCache.ids_distinct s.
Proof. unfold EqObsTree.ids_distinct, ColdCache.ids_distinct. rewrite ids_same. reflexivity. Qed.

(* ------------------------------------------------------------------ *)
(* functions of the cache-free tree                                     *)
(* ------------------------------------------------------------------ *)
Lemma map_ext_Forall {A B} (f g : A -> B) (l : list A) :
  Forall (fun x => f x = g x) l -> map f l = map g l.
Proof. induction 1 as [|x l Hx _ IH]; [reflexivity|]. cbn [map]. rewrite Hx, IH. reflexivity. Qed.

Lemma uncache_erase : forall s, uncache (erase_ids s) = uncache s.
Proof.
  apply (src_ind' (fun s => uncache (erase_ids s) = uncache s)); try reflexivity.
  - intros cs IH. cbn [erase_ids uncache]. f_equal. rewrite map_map.
    apply map_ext_Forall. exact IH.
  - intros i rs IH. cbn [erase_ids uncache]. rewrite IH. reflexivity.
  - intros id i IH. cbn [erase_ids uncache]. exact IH.
Qed.

Theorem eq_uncache (a b : src) : src_eqb a b = true -> uncache a = uncache b.
Proof.
  intros H. apply src_eqb_spec in H.
  rewrite <- (uncache_erase a), <- (uncache_erase b), H. reflexivity.
Qed.

Theorem eq_refA (a b : src) (c : bool) : src_eqb a b = true -> refA a c = refA b c.
Proof. intros H. unfold refA, ref_evs. rewrite (eq_uncache a b H). reflexivity. Qed.

Theorem eq_source (a b : src) : src_eqb a b = true -> source a = source b /\ buffer a = buffer b.
Proof.
  intros H. rewrite <- (uncache_source a), <- (uncache_source b), <- (uncache_buffer a), <- (uncache_buffer b).
  rewrite (eq_uncache a b H). split; reflexivity.
Qed.

Lemma decl_uncache : forall s, decl (uncache s) = decl s.
Proof.
  apply (src_ind' (fun s => decl (uncache s) = decl s)); try reflexivity.
  - intros cs IH. cbn [uncache decl].
    induction IH as [|c cs Hc _ IHl]; [reflexivity|]. cbn [map flat_map]. rewrite Hc, IHl. reflexivity.
  - intros i rs IH. exact IH.
  - intros id i IH. exact IH.
Qed.

Theorem eq_decl (a b : src) : src_eqb a b = true -> decl a = decl b.
Proof. intros H. rewrite <- (decl_uncache a), <- (decl_uncache b), (eq_uncache a b H). reflexivity. Qed.

(* ------------------------------------------------------------------ *)
(* the class is closed under `==`                                       *)
(* ------------------------------------------------------------------ *)
Lemma existsb_ext_Forall {A} (f g : A -> bool) (l : list A) :
  Forall (fun x => f x = g x) l -> existsb f l = existsb g l.
Proof. induction 1 as [|x l Hx _ IH]; [reflexivity|]. cbn [existsb]. rewrite Hx, IH. reflexivity. Qed.

Lemma forallb_ext_Forall {A} (f g : A -> bool) (l : list A) :
  Forall (fun x => f x = g x) l -> forallb f l = forallb g l.
Proof. induction 1 as [|x l Hx _ IH]; [reflexivity|]. cbn [forallb]. rewrite Hx, IH. reflexivity. Qed.

Lemma existsb_map {A B} (f : B -> bool) (g : A -> B) (l : list A) :
  existsb f (map g l) = existsb (fun x => f (g x)) l.
Proof. induction l as [|x l IH]; [reflexivity|]. cbn [map existsb]. rewrite IH. reflexivity. Qed.

Lemma has_cached_erase : forall s, has_cached (erase_ids s) = has_cached s.
Proof.
  apply (src_ind' (fun s => has_cached (erase_ids s) = has_cached s)); try reflexivity.
  - intros cs IH. cbn [erase_ids has_cached]. rewrite existsb_map. apply existsb_ext_Forall. exact IH.
  - intros i rs IH. exact IH.
Qed.

Lemma k2_erase : forall s, k2_shape (erase_ids s) = k2_shape s.
Proof.
  apply (src_ind' (fun s => k2_shape (erase_ids s) = k2_shape s)); try reflexivity.
  - intros cs IH. cbn [erase_ids k2_shape]. rewrite existsb_map. apply existsb_ext_Forall. exact IH.
  - intros i rs IH. cbn [erase_ids k2_shape]. rewrite IH, has_cached_erase. reflexivity.
  - intros id i IH. exact IH.
Qed.

Theorem eq_k2 (a b : src) : src_eqb a b = true -> k2_shape a = k2_shape b.
Proof.
  intros H. apply src_eqb_spec in H. rewrite <- (k2_erase a), <- (k2_erase b), H. reflexivity.
Qed.

Lemma source_erase (s : src) : source (erase_ids s) = source s.
Proof. exact (proj1 (views_erase_ids s)). Qed.

Lemma tree_wf_erase : forall s, tree_wf (erase_ids s) = tree_wf s.
Proof.
  apply (src_ind' (fun s => tree_wf (erase_ids s) = tree_wf s)); try reflexivity.
  - intros cs IH. cbn [erase_ids tree_wf]. rewrite forallb_map. apply forallb_ext_Forall. exact IH.
  - intros i rs IH. cbn [erase_ids tree_wf]. rewrite IH, source_erase. reflexivity.
  - intros id i IH. exact IH.
Qed.

Lemma tree_ascii_erase : forall s, tree_ascii (erase_ids s) = tree_ascii s.
Proof.
  apply (src_ind' (fun s => tree_ascii (erase_ids s) = tree_ascii s)); try reflexivity.
  - intros cs IH. cbn [erase_ids tree_ascii]. rewrite forallb_map. apply forallb_ext_Forall. exact IH.
  - intros i rs IH. cbn [erase_ids tree_ascii]. rewrite IH. reflexivity.
  - intros id i IH. exact IH.
Qed.

Theorem eq_treeA (a b : src) : src_eqb a b = true -> treeA a = treeA b.
Proof.
  intros H. apply src_eqb_spec in H. unfold treeA.
  rewrite <- (tree_wf_erase a), <- (tree_wf_erase b), <- (tree_ascii_erase a), <- (tree_ascii_erase b), H.
  reflexivity.
Qed.

Theorem eq_cls (a b : src) : src_eqb a b = true -> cls a -> cls b.
Proof.
  intros H [K [Sh [A [Sm T]]]]. unfold cls.
  rewrite <- (eq_uncache a b H), <- (eq_k2 a b H), <- (eq_treeA a b H). repeat split; assumption.
Qed.

(* ------------------------------------------------------------------ *)
(* k7_shape                                                             *)
(* ------------------------------------------------------------------ *)
Lemma NoDup_app_l {A} (l r : list A) : NoDup (l ++ r) -> NoDup l.
Proof.
  induction l as [|x l IH]; intros H; [constructor|]. cbn [app] in H. inversion H as [|? ? Hx Hl]. subst.
  constructor; [|apply IH; exact Hl]. intros Hin. apply Hx. apply in_or_app. left. exact Hin.
Qed.

Lemma NoDup_app_r {A} (l r : list A) : NoDup (l ++ r) -> NoDup r.
Proof. induction l as [|x l IH]; intros H; [exact H|]. cbn [app] in H. inversion H. apply IH. assumption. Qed.

Lemma distinct_concat_head c cs : ColdCache.ids_distinct (SConcat (c :: cs)) ->
  ColdCache.ids_distinct c /\ ColdCache.ids_distinct (SConcat cs).
Proof.
  unfold ColdCache.ids_distinct. cbn [ColdCache.ids flat_map]. intros H.
  split; [apply (NoDup_app_l _ _ H)|apply (NoDup_app_r _ _ H)].
Qed.

Lemma distinct_cached id i : ColdCache.ids_distinct (SCached id i) -> ColdCache.ids_distinct i.
Proof. unfold ColdCache.ids_distinct. cbn [ColdCache.ids]. intros H. inversion H. assumption. Qed.

Lemma announces_unmapped_eq (a b : src) :
  src_eqb a b = true -> ColdCache.ids_distinct a -> ColdCache.ids_distinct b ->
  announces_unmapped a = announces_unmapped b.
Proof.
  intros H Ha Hb. unfold announces_unmapped.
  destruct (E3_eq_cold_answers a b H (proj2 (ids_distinct_same a) Ha) (proj2 (ids_distinct_same b) Hb)
              (mkOpts true false) true) as [E _].
  rewrite E. reflexivity.
Qed.

Theorem eq_k7 : forall a b, src_eqb a b = true -> ColdCache.ids_distinct a -> ColdCache.ids_distinct b ->
  k7_shape a = k7_shape b.
Proof.
  induction a as [ba va|va|va|va na|va na ma oa ia ra|ca IH|ia ra IH|ida ia IH] using src_ind';
    intros [bb vb|vb|vb|vb nb|vb nb mb ob ib rb|cb|ib rb|idb ib] H Ha Hb;
    try discriminate H; try reflexivity.
  - (* Concat *)
    rewrite src_eqb_concat in H. cbn [k7_shape]. revert cb H Hb.
    induction IH as [|c ca Hc _ IHl]; intros [|d cb] H Hb; try discriminate H; [reflexivity|].
    rewrite concat_eqb_cons in H. apply andb_true_iff in H. destruct H as [H1 H2].
    destruct (distinct_concat_head _ _ Ha) as [Ha1 Ha2]. destruct (distinct_concat_head _ _ Hb) as [Hb1 Hb2].
    cbn [existsb]. rewrite (Hc d H1 Ha1 Hb1), (IHl Ha2 cb H2 Hb2). reflexivity.
  - (* Replace *)
    cbn [src_eqb] in H. apply andb_true_iff in H. destruct H as [H _]. cbn [k7_shape]. apply (IH ib H Ha Hb).
  - (* Cached *)
    cbn [src_eqb] in H. cbn [k7_shape].
    rewrite (announces_unmapped_eq ia ib H (distinct_cached _ _ Ha) (distinct_cached _ _ Hb)).
    rewrite (IH ib H (distinct_cached _ _ Ha) (distinct_cached _ _ Hb)). reflexivity.
Qed.

(* the same for the class the checker uses (k7c_shape: cold streams with and without columns) *)
Lemma cold_events_eq (a b : src) (c : bool) :
  src_eqb a b = true -> ColdCache.ids_distinct a -> ColdCache.ids_distinct b ->
  cold_events a c = cold_events b c.
Proof.
  intros H Ha Hb. unfold cold_events.
  exact (proj1 (E3_eq_cold_answers a b H (proj2 (ids_distinct_same a) Ha) (proj2 (ids_distinct_same b) Hb)
                  (mkOpts c false) true)).
Qed.

Lemma history_dependent_eq (a b : src) :
  src_eqb a b = true -> ColdCache.ids_distinct a -> ColdCache.ids_distinct b ->
  announces_history_dependent a = announces_history_dependent b.
Proof.
  intros H Ha Hb. unfold announces_history_dependent.
  rewrite (cold_events_eq a b true H Ha Hb), (cold_events_eq a b false H Ha Hb). reflexivity.
Qed.

Theorem eq_k7c : forall a b, src_eqb a b = true -> ColdCache.ids_distinct a -> ColdCache.ids_distinct b ->
  k7c_shape a = k7c_shape b.
Proof.
  induction a as [ba va|va|va|va na|va na ma oa ia ra|ca IH|ia ra IH|ida ia IH] using src_ind';
    intros [bb vb|vb|vb|vb nb|vb nb mb ob ib rb|cb|ib rb|idb ib] H Ha Hb;
    try discriminate H; try reflexivity.
  - rewrite src_eqb_concat in H. cbn [k7c_shape]. revert cb H Hb.
    induction IH as [|c ca Hc _ IHl]; intros [|d cb] H Hb; try discriminate H; [reflexivity|].
    rewrite concat_eqb_cons in H. apply andb_true_iff in H. destruct H as [H1 H2].
    destruct (distinct_concat_head _ _ Ha) as [Ha1 Ha2]. destruct (distinct_concat_head _ _ Hb) as [Hb1 Hb2].
    cbn [existsb]. rewrite (Hc d H1 Ha1 Hb1), (IHl Ha2 cb H2 Hb2). reflexivity.
  - cbn [src_eqb] in H. apply andb_true_iff in H. destruct H as [H _]. cbn [k7c_shape]. apply (IH ib H Ha Hb).
  - cbn [src_eqb] in H. cbn [k7c_shape].
    rewrite (history_dependent_eq ia ib H (distinct_cached _ _ Ha) (distinct_cached _ _ Hb)).
    rewrite (IH ib H (distinct_cached _ _ Ha) (distinct_cached _ _ Hb)). reflexivity.
Qed.

Print Assumptions ids_distinct_same.
Print Assumptions eq_uncache.
Print Assumptions eq_refA.
Print Assumptions eq_decl.
Print Assumptions eq_cls.
Print Assumptions eq_k7.
Print Assumptions eq_k7c.
