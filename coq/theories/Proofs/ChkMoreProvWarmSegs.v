(* C04, checker level, for trees with CachedSource nodes in ANY warm state, part 2: clause 1
   (`seg_ok`): every mapped SEGMENT of the map returned by map() (columns = true) sits on a byte
   that is replacement content or a byte of an OriginalSource whose true origin is exactly the
   segment's file, line and column.
   This reads the segments of the warm maps, not only their attribution.  The store invariant
   `Sound` is extended by `Sg4`: every entry a cache holds under a key (true, f) has its mapped
   segments `seg_on` the tags of the wrapped source.  It is preserved by every call because
     - a cold cache stores the encoder's output, whose segments are segments of the stream
       (ProvConcatSegs.map_segs_in_fsegs);
     - a warm cache replays a stored map: the mapped chunks of both splitters (text-less:
       `final_loop_mapped`; text-carrying: `full_stream_mapped`) carry segments of that map;
     - a ConcatSource shifts the segments of its children, in both modes (text-less:
       ProvReplaceSegs.fold_seg_on; text-carrying: `fold_seg_on_text`);
     - a cache-free subtree: ProvReplaceSegs (text-less) / ProvReplaceExact.pshape_chunks_s +
       `chunks_seg_on` (text-carrying). *)
From RS Require Import Base.Prelude Base.Text Rope.RopeModel Codec.Vlq Codec.CodecSpec
  Checkers.ChkCodec Stream.Types Stream.Leaves Stream.Concat Stream.Replace Stream.Combined Stream.Tree
  Api.ApiTree Sem.Attr Sem.Prov Sem.HashEq Api.ApiHist Checkers.ChkTree Checkers.ChkHist Checkers.ChkProv
  Proofs.CodecKept Proofs.CodecEnc Proofs.CodecMain Proofs.StreamText Proofs.StreamLeaves Proofs.StreamMap Proofs.StreamConcat Proofs.StreamTree
  Proofs.WfStream Proofs.WfFinal Proofs.WfMap Proofs.RStreamText Proofs.RStreamPos Proofs.RStreamTree
  Proofs.AttrCodec Proofs.AttrSms Proofs.AttrLeaves Proofs.LawConcatAttr Proofs.LawWrappers
  Proofs.CacheStore Proofs.CacheReplay Proofs.FinalDense Proofs.FinalReplace Proofs.FinalConcat Proofs.FinalTree Proofs.FinalCache
  Proofs.ReplAttrStream Proofs.ReplAttrTree Proofs.ProvOriginal
  Proofs.ProvConcatBytes Proofs.ProvConcatSegs Proofs.ProvConcatTables Proofs.ProvConcatLines
  Proofs.ProvReplaceBytes Proofs.ProvReplaceSegs Proofs.ProvReplaceTables
  Proofs.ColdCache Proofs.ColdCacheTree Proofs.BoundsPos Proofs.BoundsOrig Proofs.BoundsIdx Proofs.BoundsAll
  Proofs.WarmTreeDefs Proofs.WarmTreeReplay Proofs.WarmTreeCodec Proofs.WarmTreeNodes Proofs.WarmTreeMain Proofs.WarmTreeHist
  Proofs.StreamMapAny Proofs.ReplAttrOrigin Proofs.ProvReplaceExact Proofs.WfAllStrict Proofs.WfAllMap Proofs.WfAllChk Proofs.WfMoreComb Proofs.WfMoreWarm
  Proofs.ChkMoreProvCold Proofs.ChkMoreProvWarm.
Require Import Lia List.
Import ListNotations.

Local Open Scope N_scope.


(* ================================================================== *)
(* the mapped chunks of a replayed map are segments of the map          *)
(* ================================================================== *)
Lemma final_loop_mapped rl rc : forall ms al mp,
  In mp (chunk_mappings (sm_final_loop ms rl rc al)) -> is_mapped mp = true -> In mp ms.
Proof.
  induction ms as [|m ms IH]; intros al mp Hin Hm; [destruct Hin|]. cbn [sm_final_loop] in Hin.
  destruct ((rl <=? g_line m) && ((rc <=? g_col m) || (rl <? g_line m))); [right; apply (IH al); assumption|].
  destruct (m_orig m) as [o|] eqn:Eo.
  - cbn [chunk_mappings] in Hin. destruct Hin as [<-|Hin]; [left; reflexivity|right; apply (IH _ mp Hin Hm)].
  - destruct (al =? g_line m).
    + cbn [chunk_mappings] in Hin. destruct Hin as [<-|Hin]; [discriminate|right; apply (IH _ mp Hin Hm)].
    + right. apply (IH _ mp Hin Hm).
Qed.

Definition cur (st : fstate) : mapping := mkMapping (f_line st) (f_col st) (f_orig st).

Lemma whole_lines_unmapped : forall ls i c tg mp, In mp (chunk_mappings (whole_lines ls i c tg)) -> is_mapped mp = false.
Proof.
  induction ls as [|l ls IH]; intros i c tg mp H; [destruct H|]. cbn [whole_lines] in H.
  destruct ((c <=? i) && (i <? tg)); [|apply (IH _ _ _ _ H)].
  cbn [chunk_mappings] in H. destruct H as [<-|H]; [reflexivity|apply (IH _ _ _ _ H)].
Qed.

Lemma ph1_mapped ls st m mp : In mp (chunk_mappings (snd (ph1 ls st m))) -> f_active st = true /\ mp = cur st.
Proof.
  unfold ph1. destruct (f_active st) eqn:Ea; [|intros []]. cbn [andb].
  destruct (f_line st <=? len ls); [|intros []].
  destruct (line_at ls (f_line st)) as [line|]; [|intros []].
  destruct (negb (g_line m =? f_line st)); cbn [snd].
  - destruct (is_nil (substring line (f_col st) None)); [intros []|].
    cbn [chunk_mappings]. intros [<-|[]]. split; reflexivity.
  - destruct (is_nil (substring line (f_col st) (Some (g_col m)))); [intros []|].
    cbn [chunk_mappings]. intros [<-|[]]. split; reflexivity.
Qed.

Lemma ph2_unmapped ls st m mp : In mp (chunk_mappings (snd (ph2 ls st m))) -> is_mapped mp = false.
Proof.
  unfold ph2. destruct ((f_line st <? g_line m) && (0 <? f_col st)); [|intros []]. cbn [snd].
  destruct (f_line st <=? len ls); [|intros []]. destruct (line_at ls (f_line st)) as [line|]; [|intros []].
  destruct (is_nil (substring line (f_col st) None)); [intros []|]. cbn [chunk_mappings]. intros [<-|[]]. reflexivity.
Qed.

Lemma ph3_unmapped ls st m mp : In mp (chunk_mappings (snd (ph3 ls st m))) -> is_mapped mp = false.
Proof.
  unfold ph3. destruct (f_line st <? g_line m); [|intros []]. cbn [snd]. apply whole_lines_unmapped.
Qed.

Lemma ph4_unmapped ls st m mp : In mp (chunk_mappings (snd (ph4 ls st m))) -> is_mapped mp = false.
Proof.
  unfold ph4. destruct (f_col st <? g_col m); [|intros []]. cbn [snd].
  destruct (f_line st <=? len ls); [|intros []]. destruct (line_at ls (f_line st)) as [line|]; [|intros []].
  destruct (is_nil (substring line (f_col st) (Some (g_col m)))); [intros []|]. cbn [chunk_mappings]. intros [<-|[]]. reflexivity.
Qed.

Section FullMapped.
Variable ls : list text.
Hypothesis SOK : Forall starts_ok ls.
Variables fl fc : N.
Hypothesis Hend : fl <= len ls + 1 /\ (fl = len ls + 1 -> fc = 0).

Let V := fun (_ _ : N) => True.

(* one step: a mapped chunk carries the active mapping; the new active mapping is the segment *)
Lemma step_mapped st m : Inv fl fc st ->
  (forall mp, In mp (chunk_mappings (snd (sm_full_step ls fl fc st m))) -> is_mapped mp = true ->
     f_active st = true /\ mp = cur st) /\
  (f_active (fst (sm_full_step ls fl fc st m)) = true ->
     (f_active st = true /\ cur (fst (sm_full_step ls fl fc st m)) = cur st) \/
     cur (fst (sm_full_step ls fl fc st m)) = m).
Proof.
  intros HI. destruct (step_guard st m) eqn:G.
  - rewrite sm_full_step_skip by exact G. cbn [fst snd chunk_mappings].
    split; [intros mp []|]. intros Ha. left. split; [exact Ha|reflexivity].
  - pose proof G as G'. apply step_guard_false in G'.
    pose proof (step_spec ls V SOK fl fc Hend st m HI G' I) as [P1 _].
    pose proof (Inv_active_le ls fl fc Hend st HI) as Hact. destruct HI as [H1 _].
    rewrite sm_full_step_in_order in * by exact G. rewrite sm_full_step_body_eq in *.
    pose proof (ph1_spec ls V SOK st m H1 Hact G' I) as [A1 [A2 [A3 _]]].
    pose proof (ph1_mapped ls st m) as M1.
    destruct (ph1 ls st m) as [st1 ev1]. cbn [fst snd] in *.
    pose proof (ph24_spec ls V SOK st1 m A1 A2 I) as [_ [B2 _]]. unfold ph24 in B2.
    pose proof (ph2_unmapped ls st1 m) as M2.
    destruct (ph2 ls st1 m) as [st2 ev2]. pose proof (ph3_unmapped ls st2 m) as M3.
    destruct (ph3 ls st2 m) as [st3 ev3]. pose proof (ph4_unmapped ls st3 m) as M4.
    destruct (ph4 ls st3 m) as [st4 ev4]. cbn [fst snd] in *. split.
    + intros mp Hin Hm. rewrite !chunk_mappings_app in Hin.
      apply in_app_or in Hin. destruct Hin as [Hin|Hin]; [apply M1; exact Hin|].
      apply in_app_or in Hin. destruct Hin as [Hin|Hin]; [rewrite (M2 mp Hin) in Hm; discriminate|].
      apply in_app_or in Hin. destruct Hin as [Hin|Hin]; [rewrite (M3 mp Hin) in Hm; discriminate|].
      rewrite (M4 mp Hin) in Hm. discriminate.
    + intros Ha. right. unfold fpos, mpos in P1. inversion P1 as [[P1l P1c]].
      unfold ph5 in *. destruct (m_orig m) as [o|] eqn:Eo.
      * destruct ((g_line m <? fl) || ((g_line m =? fl) && (g_col m <? fc))).
        -- unfold cur in *. cbn [f_line f_col f_orig] in *. rewrite P1l, P1c, <- Eo. destruct m; reflexivity.
        -- rewrite B2, A3 in Ha. discriminate.
      * rewrite B2, A3 in Ha. discriminate.
Qed.

Lemma loop_mapped : forall ms st (A : list mapping), Inv fl fc st ->
  (f_active st = true -> In (cur st) A) ->
  (forall mp, In mp (chunk_mappings (snd (sm_full_loop ls fl fc st ms))) -> is_mapped mp = true -> In mp (A ++ ms)) /\
  (f_active (fst (sm_full_loop ls fl fc st ms)) = true -> In (cur (fst (sm_full_loop ls fl fc st ms))) (A ++ ms)) /\
  Inv fl fc (fst (sm_full_loop ls fl fc st ms)).
Proof.
  induction ms as [|m ms IH]; intros st A HI HA.
  - cbn [sm_full_loop fst snd chunk_mappings]. rewrite app_nil_r. split; [intros mp []|]. split; assumption.
  - cbn [sm_full_loop]. pose proof (step_mapped st m HI) as [S1 S2].
    pose proof (step_any ls V SOK fl fc Hend st m HI I) as [HI1 _].
    destruct (sm_full_step ls fl fc st m) as [st1 e1]. cbn [fst snd] in *.
    assert (HA1 : f_active st1 = true -> In (cur st1) (A ++ [m])).
    { intros Ha. destruct (S2 Ha) as [[Ha0 E]|E]; rewrite E; apply in_or_app; [left; apply HA; exact Ha0|right; left; reflexivity]. }
    pose proof (IH st1 (A ++ [m]) HI1 HA1) as [B1 [B2 B3]].
    destruct (sm_full_loop ls fl fc st1 ms) as [st2 e2]. cbn [fst snd] in *.
    rewrite <- app_assoc in B1, B2. cbn [app] in B1, B2.
    split; [|split; assumption]. intros mp Hin Hm. rewrite chunk_mappings_app in Hin.
    apply in_app_or in Hin. destruct Hin as [Hin|Hin]; [|apply B1; assumption].
    destruct (S1 mp Hin Hm) as [Ha ->]. apply in_or_app. left. apply HA. exact Ha.
Qed.

End FullMapped.

Theorem full_stream_mapped (t : text) (m : smap) : ascii t = true ->
  forall mp, In mp (chunk_mappings (fst (sm_stream_full t m))) -> is_mapped mp = true ->
  In mp (decode_mappings (sm_mappings m)).
Proof.
  intros Ha mp Hin Hm. unfold sm_stream_full in Hin.
  destruct (is_nil (split_lines t)) eqn:Hnil; [destruct Hin|].
  destruct (lines_end_info (split_lines t)) as [fl fc] eqn:Hinfo.
  pose proof (end_info_ok _ fl fc (is_nil_false _ Hnil) Hinfo) as [He _].
  assert (Hend : fl <= len (split_lines t) + 1 /\ (fl = len (split_lines t) + 1 -> fc = 0)).
  { destruct He as [[A B]|[A _]]; lia. }
  pose proof (lines_ok_forall t (ascii_lines_ok t Ha)) as SOK.
  assert (HI0 : Inv fl fc (mkF 1 0 false None)).
  { split; [cbn; lia|cbn; discriminate]. }
  pose proof (loop_mapped (split_lines t) SOK fl fc Hend (decode_mappings (sm_mappings m)) _ [] HI0
                (fun H => match Bool.diff_false_true H with end)) as [L1 [L2 L3]].
  destruct (sm_full_loop (split_lines t) fl fc (mkF 1 0 false None) (decode_mappings (sm_mappings m))) as [st evs].
  cbn [fst snd app] in *.
  pose proof (step_mapped (split_lines t) SOK fl fc Hend st (unmapped fl fc) L3) as [S1 _].
  destruct (sm_full_step (split_lines t) fl fc st (unmapped fl fc)) as [st' evs']. cbn [fst snd] in *.
  rewrite !chunk_mappings_app in Hin.
  rewrite (chunk_mappings_chunks_of (announce_sources _ _ _)), announce_sources_chunks in Hin.
  rewrite (chunk_mappings_chunks_of (announce_names _ _)), announce_names_chunks in Hin. cbn [map app] in Hin.
  apply in_app_or in Hin. destruct Hin as [Hin|Hin]; [apply L1; assumption|].
  destruct (S1 mp Hin Hm) as [Hact ->]. apply L2. exact Hact.
Qed.

Theorem final_stream_mapped (t : text) (m : smap) :
  forall mp, In mp (chunk_mappings (fst (sm_stream_final t m))) -> is_mapped mp = true ->
  In mp (decode_mappings (sm_mappings m)).
Proof.
  intros mp Hin Hm. unfold sm_stream_final in Hin. destruct (gen_info t) as [rl rc].
  destruct ((rl =? 1) && (rc =? 0)); [destruct Hin|]. cbn [fst] in Hin.
  rewrite !chunk_mappings_app in Hin.
  rewrite (chunk_mappings_chunks_of (announce_sources _ _ _)), announce_sources_chunks in Hin.
  rewrite (chunk_mappings_chunks_of (announce_names _ _)), announce_names_chunks in Hin. cbn [map app] in Hin.
  apply (final_loop_mapped rl rc _ 0 mp Hin Hm).
Qed.

(* ================================================================== *)
(* the resolved segments of a replayed map                              *)
(* ================================================================== *)
Lemma cm_announce m srcs i names j chunks :
  chunk_mappings (announce_sources m srcs i ++ announce_names names j ++ chunks) = chunk_mappings chunks.
Proof.
  rewrite !chunk_mappings_app.
  rewrite (chunk_mappings_chunks_of (announce_sources _ _ _)), announce_sources_chunks.
  rewrite (chunk_mappings_chunks_of (announce_names _ _)), announce_names_chunks. reflexivity.
Qed.

Lemma fsegs_sm_both m chunks : only_chunks chunks = true ->
  fsegs (announce_sources m (sm_sources m) 0 ++ announce_names (sm_names m) 0 ++ chunks) [] [] =
  map (rsF (fileM m) (fileT (sm_names m))) (chunk_mappings chunks).
Proof.
  intros H. unfold fsegs. rewrite (rsegs_sm_both m chunks H), chunk_mappings_chunks_of, !map_map. reflexivity.
Qed.

Lemma sm_final_fsegs t m :
  fsegs (fst (sm_stream_final t m)) [] [] =
  map (rsF (fileM m) (fileT (sm_names m))) (chunk_mappings (fst (sm_stream_final t m))).
Proof.
  unfold sm_stream_final. destruct (gen_info t) as [rl rc]. destruct ((rl =? 1) && (rc =? 0)); [reflexivity|].
  cbn [fst]. rewrite cm_announce. apply fsegs_sm_both. apply final_loop_chunks.
Qed.

Lemma sm_full_fsegs t m :
  fsegs (fst (sm_stream_full t m)) [] [] =
  map (rsF (fileM m) (fileT (sm_names m))) (chunk_mappings (fst (sm_stream_full t m))).
Proof.
  unfold sm_stream_full. destruct (is_nil (split_lines t)); [reflexivity|].
  destruct (lines_end_info (split_lines t)) as [fl fc].
  pose proof (loop_only (split_lines t) fl fc (decode_mappings (sm_mappings m)) (mkF 1 0 false None)) as O1.
  destruct (sm_full_loop (split_lines t) fl fc (mkF 1 0 false None) (decode_mappings (sm_mappings m))) as [st evs].
  pose proof (step_only (split_lines t) fl fc st (unmapped fl fc)) as O2.
  destruct (sm_full_step (split_lines t) fl fc st (unmapped fl fc)) as [st' evs']. cbn [fst snd] in *.
  rewrite cm_announce. apply fsegs_sm_both. rewrite only_chunks_app, O1, O2. reflexivity.
Qed.

Lemma raw_chunks_unmapped : forall ls i mp, In mp (chunk_mappings (raw_chunks ls i)) -> is_mapped mp = false.
Proof.
  induction ls as [|l ls IH]; intros i mp H; [destruct H|]. cbn [raw_chunks chunk_mappings] in H.
  destruct H as [<-|H]; [reflexivity|apply (IH _ _ H)].
Qed.

Lemma unmapped_seg_on tg : forall evs S Nn, (forall mp, In mp (chunk_mappings evs) -> is_mapped mp = false) ->
  Forall (seg_on tg) (fsegs evs S Nn).
Proof.
  induction evs as [|e evs IH]; intros S Nn H; [constructor|].
  destruct e as [t m|i n c|i n]; unfold fsegs; cbn [rsegs_of_events map snd].
  - constructor.
    + pose proof (H m (or_introl eq_refl)) as Hm. unfold is_mapped in Hm. destruct (m_orig m); [discriminate|exact I].
    + apply IH. intros mp Hin. apply H. right. exact Hin.
  - apply IH. exact H.
  - apply IH. exact H.
Qed.

(* the entry of a cache, and its replay in both modes *)
Definition SE (inner : src) (v : option smap) : Prop :=
  Forall (seg_on (tagged (source inner) (prov inner) 1 0)) (segs_of v).

Definition SGt (T : text) (tags : list ptag) (evs : list event) : Prop :=
  Forall (seg_on (tagged T tags 1 0)) (fsegs evs [] []).

Theorem replay_SG (inner : src) (v : option smap) (f : bool) : ascii (source inner) = true ->
  SE inner v -> SGt (source inner) (prov inner) (fst (replay (source inner) v (mkOpts true f))).
Proof.
  intros Ha He. unfold SGt. destruct v as [m|]; cbn [replay final_source].
  - unfold sm_stream. cbn [columns final_source].
    assert (X : forall evs, fsegs evs [] [] = map (rsF (fileM m) (fileT (sm_names m))) (chunk_mappings evs) ->
                (forall mp, In mp (chunk_mappings evs) -> is_mapped mp = true -> In mp (decode_mappings (sm_mappings m))) ->
                Forall (seg_on (tagged (source inner) (prov inner) 1 0)) (fsegs evs [] [])).
    { intros evs E Hm. rewrite E, Forall_map. apply Forall_forall. intros mp Hin.
      destruct (is_mapped mp) eqn:Em.
      - unfold SE in He. cbn [segs_of] in He. rewrite rsegs_of_map_F, Forall_map, Forall_forall in He.
        apply He. apply (Hm mp Hin Em).
      - unfold is_mapped in Em. unfold rsF, optF. destruct (m_orig mp); [discriminate|exact I]. }
    destruct f.
    + apply X; [apply sm_final_fsegs|apply final_stream_mapped].
    + apply X; [apply sm_full_fsegs|apply full_stream_mapped; exact Ha].
  - unfold raw_stream. destruct f; cbn [fst]; [constructor|].
    apply unmapped_seg_on. apply raw_chunks_unmapped.
Qed.

(* ================================================================== *)
(* ConcatSource, text-carrying mode                                     *)
(* ================================================================== *)
Lemma child_decomp_text st out evs gi T :
  tabs out [] [] = (c_sources st, c_names st) -> dense evs 0 0 = true -> c_close st = false ->
  gi = advance 1 0 T ->
  let r := concat_child false st evs gi in
  tabs (out ++ snd r) [] [] = (c_sources (fst r), c_names (fst r)) /\
  fsegs (out ++ snd r) [] [] = fsegs out [] [] ++ map (shseg (c_loff st) (c_coff st)) (fsegs evs [] []) /\
  c_close (fst r) = false /\ cpos (fst r) = adv (cpos st) T.
Proof.
  intros Ht Hd Hc Hgi. cbn zeta.
  pose proof (concat_child_cpos false st evs gi T Hgi) as P4.
  unfold concat_child in *.
  pose proof (concat_events_segs false evs (concat_child_start st) [] []
                (ren_ok_nil _) (ren_ok_nil _) Hd) as [A1 [A2 [A3 A4]]].
  change (c_sources (concat_child_start st)) with (c_sources st) in *.
  change (c_names (concat_child_start st)) with (c_names st) in *.
  change (c_loff (concat_child_start st)) with (c_loff st) in *.
  change (c_coff (concat_child_start st)) with (c_coff st) in *.
  change (c_close (concat_child_start st)) with (c_close st) in *.
  destruct (concat_events false (concat_child_start st) evs) as [st1 o1]. cbn [fst snd] in *.
  rewrite Hc in A2, A3. cbn [andb app] in A2, A3.
  unfold concat_child_end in *. cbn [fst snd] in *. rewrite A3 in *. cbn [andb orb fst snd c_sources c_names c_close] in *.
  rewrite app_nil_r. split; [rewrite tabs_app, Ht; exact A1|]. split.
  - rewrite fsegs_app, Ht. cbn [fst snd]. rewrite A2. reflexivity.
  - split; [reflexivity|exact P4].
Qed.

Definition kt_text (kt : kid * list ptag) : Prop :=
  dense (tr_events (fst kt)) 0 0 = true /\ tr_info (fst kt) = advance 1 0 (tr_text (fst kt)) /\
  length (snd kt) = length (tr_text (fst kt)) /\
  Forall (seg_on (tagged (tr_text (fst kt)) (snd kt) 1 0)) (fsegs (tr_events (fst kt)) [] []).

Lemma fold_seg_on_text : forall (kts : list (kid * list ptag)) st out T G,
  tabs out [] [] = (c_sources st, c_names st) -> cpos st = adv (1, 0) T -> length G = length T ->
  c_close st = false ->
  Forall (seg_on (tagged T G 1 0)) (fsegs out [] []) -> Forall kt_text kts ->
  Forall (seg_on (tagged (T ++ concat (map (fun kt => tr_text (fst kt)) kts)) (G ++ flat_map snd kts) 1 0))
         (fsegs (snd (concat_fold false (map (fun kt => fst (fst kt)) kts) (st, out))) [] []).
Proof.
  induction kts as [|[tr g] kts IH]; intros st out T G Ht HT HG Hcl Hout HF.
  - cbn [map concat flat_map concat_fold fold_left snd]. rewrite !app_nil_r. exact Hout.
  - inversion HF as [|? ? Hkt HF']; subst. destruct Hkt as [Hd [Hi [Hlen Hsegs]]]. cbn [fst snd] in Hd, Hi, Hlen, Hsegs.
    cbn [map concat flat_map fst snd]. rewrite concat_fold_cons. cbn [fst snd].
    change (fst (fst tr)) with (tr_events tr). change (snd (fst tr)) with (tr_info tr).
    pose proof (child_decomp_text st out (tr_events tr) (tr_info tr) (tr_text tr) Ht Hd Hcl Hi) as [B1 [B3 [B5 B4]]].
    cbn zeta in B1, B3, B4, B5.
    destruct (concat_child false st (tr_events tr) (tr_info tr)) as [st' o]. cbn [fst snd] in *.
    rewrite !app_assoc. apply IH.
    + exact B1.
    + rewrite B4, HT, adv_app. reflexivity.
    + rewrite !app_length, HG, Hlen. reflexivity.
    + exact B5.
    + rewrite B3, (tagged_app T G (tr_text tr) g 1 0 HG).
      apply Forall_app. split.
      * eapply Forall_impl; [|exact Hout]. intros sg. apply seg_on_app_l.
      * rewrite Forall_map. eapply Forall_impl; [|exact Hsegs]. intros sg Hsg. apply seg_on_app_r.
        unfold cpos, adv in HT. cbn [fst snd] in HT. rewrite <- HT. cbn [fst snd].
        apply seg_on_shift. exact Hsg.
    + exact HF'.
Qed.

(* ================================================================== *)
(* the class, seen from a subtree                                       *)
(* ================================================================== *)
Lemma kinds_true_nocache : forall s, c04_kinds s true = true -> has_cached s = false.
Proof.
  apply (src_ind' (fun s => c04_kinds s true = true -> has_cached s = false)); cbn [c04_kinds has_cached]; try reflexivity.
  - intros cs IH H. rewrite Forall_forall in IH. rewrite forallb_forall in H.
    destruct (existsb has_cached cs) eqn:E; [|reflexivity]. apply existsb_exists in E. destruct E as [c [Hc E]].
    rewrite (IH c Hc (H c Hc)) in E. discriminate.
  - intros i rs IH H. apply IH. exact H.
  - intros id i _ H. discriminate.
Qed.

Lemma kinds_mono : forall s, c04_kinds s true = true -> c04_kinds s false = true.
Proof.
  apply (src_ind' (fun s => c04_kinds s true = true -> c04_kinds s false = true)); cbn [c04_kinds];
    try (intros; reflexivity).
  - intros v n m og i r H. exact H.
  - intros cs IH H. rewrite Forall_forall in IH. rewrite forallb_forall in H. apply forallb_forall.
    intros c Hc. apply (IH c Hc (H c Hc)).
  - intros i rs _ H. exact H.
  - intros id i _ H. discriminate.
Qed.

Lemma FG_domain4 c s r : cls s -> FG c s r -> enc_domain (chunk_mappings (fst r)) = true.
Proof.
  intros Hcl [[K1 [K2 [K3 K4]]] [_ [_ Hb]]]. unfold tr_events, tr_info, tr_text in *. cbn [fst snd] in *.
  apply (entry_domain s (fst r) Hcl K1 K4 (ev_pos_cm _ _ K2) Hb).
Qed.

Section Segs.
Variable Fc : text -> option text.
Hypothesis FcOK : forall f v, Fc f = Some v -> len v < two32 /\ ascii v = true.
Variable U : src.
Hypothesis HU : ids_distinct U.

Definition Sg4 (st : store) : Prop :=
  forall id inner, In (id, inner) (nodes U) ->
  forall f v, cache_get (store_get st id) (mkOpts true f) = Some v -> SE inner v.

Definition Inv4 (st : store) : Prop := Sound st U /\ Sg4 st.

Lemma sg4_put st id inner c f v : In (id, inner) (nodes U) -> Sg4 st -> (c = true -> SE inner v) ->
  Sg4 (store_put st id (mkOpts c f) v).
Proof.
  intros Hin Hs Hv id' inner' Hin' f' x H. apply store_put_get_inv in H.
  destruct H as [H|[Ei [Eo [Ex _]]]].
  - apply (Hs id' inner' Hin' f' x H).
  - subst id' x. inversion Eo. subst c f'.
    rewrite (nodes_inj U HU id inner' inner Hin' Hin). apply Hv. reflexivity.
Qed.

Definition good4 (s : src) : Prop :=
  cls s /\ pshape (uncache s) = true /\ c04_kinds s false = true /\ side_s Fc s.

Lemma good4_concat cs ch : good4 (SConcat cs) -> In ch cs -> good4 ch.
Proof.
  intros [Hcl [Hp [Hk Hsd]]] Hc. split; [apply (cls_concat cs ch Hcl Hc)|]. split; [|split].
  - cbn [uncache pshape] in Hp. rewrite forallb_map in Hp. rewrite forallb_forall in Hp. apply Hp. exact Hc.
  - cbn [c04_kinds] in Hk. rewrite forallb_forall in Hk. apply Hk. exact Hc.
  - intros n v Hin. apply Hsd. cbn [originals]. apply in_flat_map. exists ch. split; assumption.
Qed.

Lemma good4_cached id i : good4 (SCached id i) -> good4 i.
Proof. intros [Hcl [Hp [Hk Hsd]]]. split; [exact Hcl|]. split; [exact Hp|]. split; [exact Hk|exact Hsd]. Qed.

Lemma good4_replace i rs : good4 (SReplace i rs) -> has_cached (SReplace i rs) = false /\ good4 i.
Proof.
  intros [Hcl [Hp [Hk Hsd]]]. cbn [c04_kinds] in Hk. pose proof (kinds_true_nocache i Hk) as Hn.
  split; [exact Hn|]. split; [apply (cls_replace i rs Hcl)|]. split; [exact Hp|]. split; [|exact Hsd].
  apply kinds_mono. exact Hk.
Qed.

Lemma good4_nocache s : good4 s -> has_cached s = false ->
  pshape s = true /\ treeA s = true /\ rsmall s = true /\ side_s Fc s.
Proof.
  intros [Hcl [Hp [_ Hsd]]] Hn. destruct (cls_nocache s Hcl Hn) as [_ [HA [Hsm _]]].
  rewrite (uncache_id s Hn) in Hp. auto.
Qed.

Lemma good4_prov_length s : good4 s -> length (prov s) = length (source s).
Proof.
  intros [Hcl [Hp [_ Hsd]]]. destruct (cls_uncache s Hcl) as [_ [_ [HA [Hsm _]]]]. rewrite uncache_idem in Hsm.
  rewrite <- uncache_prov, <- uncache_source.
  apply (prov_length Fc FcOK [] (uncache s) Hp HA Hsm).
  intros n v Hin. apply Hsd. rewrite uncache_originals in Hin. exact Hin.
Qed.

(* a cache-free subtree, both modes *)
Lemma nocache_SG s st f : good4 s -> has_cached s = false ->
  SGt (source s) (prov s) (fst (fst (stream st s (mkOpts true f)))).
Proof.
  intros Hg Hn. destruct (good4_nocache s Hg Hn) as [Hp [Ha [Hs Hsd]]]. destruct f.
  - apply (ProvReplaceSegs.sgood2_all Fc FcOK s st Hp Ha Hs Hsd).
  - pose proof (pshape_rshape s Hp) as Hr.
    pose proof (rgood_all s st true Hr Ha Hs) as [[G1 G2] _]. cbn zeta in G1, G2.
    pose proof (tidy_tree s Hr Ha Hs st) as [_ N0]. unfold evs_of, o10 in N0.
    pose proof (pshape_chunks_s Fc st s FcOK Hp Ha Hs Hsd) as HC.
    apply (chunks_seg_on Fc _ [] [] (1, 0) (source s) (prov s) G1 G2 N0 HC).
Qed.

(* what the induction carries *)
Definition concl (s : src) : Prop :=
  (forall st c f, Inv4 st ->
     (c = true -> SGt (source s) (prov s) (fst (fst (stream st s (mkOpts c f))))) /\
     Inv4 (snd (stream st s (mkOpts c f)))) /\
  (forall st c, Inv4 st ->
     (c = true -> SE s (fst (map_of st s c))) /\ Inv4 (snd (map_of st s c))).

Definition PS (s : src) : Prop := incl (nodes s) (nodes U) -> good4 s -> concl s.

Lemma nocache_stream_concl s : good4 s -> has_cached s = false ->
  forall st c f, Inv4 st ->
    (c = true -> SGt (source s) (prov s) (fst (fst (stream st s (mkOpts c f))))) /\
    Inv4 (snd (stream st s (mkOpts c f))).
Proof.
  intros Hg Hn st c f Hs. split.
  - intros ->. apply nocache_SG; assumption.
  - rewrite (nocache_stream s st _ Hn). exact Hs.
Qed.

(* the entry built from a stream *)
Lemma events_SE c s r : cls s -> FG c s r -> (c = true -> SGt (source s) (prov s) (fst r)) ->
  c = true -> SE s (map_of_events c (fst r)).
Proof.
  intros Hcl F G ->. unfold SE. apply Forall_forall. intros sg Hin.
  pose proof (G eq_refl) as G'. unfold SGt in G'. rewrite Forall_forall in G'. apply G'.
  apply map_segs_in_fsegs; [|apply (FG_domain4 true s r Hcl F)|exact Hin].
  destruct F as [[K1 _] _]. exact K1.
Qed.

Lemma get_map_concl s : incl (nodes s) (nodes U) -> good4 s ->
  (forall st c f, Inv4 st ->
     (c = true -> SGt (source s) (prov s) (fst (fst (stream st s (mkOpts c f))))) /\
     Inv4 (snd (stream st s (mkOpts c f)))) ->
  forall st c, Inv4 st ->
    (c = true -> SE s (fst (Tree.get_map st s c))) /\ Inv4 (snd (Tree.get_map st s c)).
Proof.
  intros Hin Hg K st c Hs. destruct Hg as [Hcl _].
  destruct (warm_all U HU s Hin Hcl) as [_ [B _]]. destruct (B st c (proj1 Hs)) as [F _].
  destruct (K st c true Hs) as [G S]. unfold Tree.get_map.
  destruct (stream st s (mkOpts c true)) as [[evs gi] st']. cbn [fst snd] in *.
  split; [|exact S]. apply (events_SE c s (evs, gi) Hcl F G).
Qed.

(* the children of a ConcatSource *)
Definition kid_hyp (ch : src) : Prop := incl (nodes ch) (nodes U) /\ good4 ch /\ concl ch.

Lemma kids_inv4 (c f : bool) : forall cs, (forall ch, In ch cs -> kid_hyp ch) ->
  forall st, Inv4 st -> Inv4 (snd (kid_streams st cs (mkOpts c f))).
Proof.
  induction cs as [|ch cs IH]; intros Hall st Hs; [exact Hs|].
  cbn [kid_streams]. destruct (Hall ch (or_introl eq_refl)) as [_ [_ [K _]]].
  destruct (K st c f Hs) as [_ S1].
  destruct (stream st ch (mkOpts c f)) as [[evs gi] st1]. cbn [snd] in S1.
  pose proof (IH (fun x Hx => Hall x (or_intror Hx)) st1 S1) as S2.
  destruct (kid_streams st1 cs (mkOpts c f)) as [ks st2]. cbn [snd] in *. exact S2.
Qed.

Lemma kids_kts (f : bool) : forall cs, (forall ch, In ch cs -> kid_hyp ch) ->
  forall st, Inv4 st ->
  exists kts : list (kid * list ptag),
    map (fun kt => fst (fst kt)) kts = fst (kid_streams st cs (mkOpts true f)) /\
    map (fun kt => tr_text (fst kt)) kts = map source cs /\ map snd kts = map prov cs /\
    Forall (if f then kt_on else kt_text) kts.
Proof.
  induction cs as [|ch cs IH]; intros Hall st Hs.
  - exists []. cbn [kid_streams map fst]. repeat split; constructor.
  - cbn [kid_streams]. destruct (Hall ch (or_introl eq_refl)) as [Hin [Hg [K _]]].
    destruct (K st true f Hs) as [G S1]. specialize (G eq_refl).
    pose proof Hg as [Hcl _]. destruct (warm_all U HU ch Hin Hcl) as [A [B _]].
    pose proof (A st true (proj1 Hs)) as [TGx _]. pose proof (B st true (proj1 Hs)) as [FGx _].
    pose proof (good4_prov_length ch Hg) as Hlen.
    assert (Hkt : (if f then kt_on else kt_text) ((fst (stream st ch (mkOpts true f)), source ch), prov ch)).
    { destruct f.
      - split; [apply FGx|]. split; [exact Hlen|exact G].
      - destruct TGx as [T1 [_ [_ [_ [_ [T6 _]]]]]]. split; [exact T1|]. split; [exact T6|]. split; [exact Hlen|exact G]. }
    destruct (stream st ch (mkOpts true f)) as [[evs gi] st1]. cbn [fst snd] in *.
    destruct (IH (fun x Hx => Hall x (or_intror Hx)) st1 S1) as [kts [E1 [E2 [E3 Kk]]]].
    destruct (kid_streams st1 cs (mkOpts true f)) as [ks st2]. cbn [fst] in *.
    exists (((evs, gi, source ch), prov ch) :: kts). cbn [map fst snd]. unfold tr_text at 1. cbn [snd].
    rewrite E1, E2, E3. repeat split; try reflexivity. constructor; [exact Hkt|exact Kk].
Qed.

Theorem warm4_all : forall s, PS s.
Proof.
  apply (src_ind' PS); unfold PS.
  - (* SRaw *) intros b v _ Hg. split; [apply nocache_stream_concl; [exact Hg|reflexivity]|].
    intros st c Hs. cbn [map_of fst snd]. split; [intros _; constructor|exact Hs].
  - intros v _ Hg. split; [apply nocache_stream_concl; [exact Hg|reflexivity]|].
    intros st c Hs. cbn [map_of fst snd]. split; [intros _; constructor|exact Hs].
  - intros v _ Hg. split; [apply nocache_stream_concl; [exact Hg|reflexivity]|].
    intros st c Hs. cbn [map_of fst snd]. split; [intros _; constructor|exact Hs].
  - (* SOriginal *) intros v n Hin Hg.
    pose proof (nocache_stream_concl (SOriginal v n) Hg eq_refl) as K. split; [exact K|].
    intros st c Hs. change (map_of st (SOriginal v n) c) with (Tree.get_map st (SOriginal v n) c).
    apply get_map_concl; assumption.
  - (* SMapped *) intros v n m og i r _ [_ [Hp _]]. destruct i; discriminate.
  - (* SConcat *) intros cs IH Hin Hg. rewrite Forall_forall in IH.
    assert (Hkids : forall ch, In ch cs -> kid_hyp ch).
    { intros ch Hch.
      assert (H1 : incl (nodes ch) (nodes U)) by (intros x Hx; apply Hin; apply (nodes_child cs ch Hch); exact Hx).
      pose proof (good4_concat cs ch Hg Hch) as H2. split; [exact H1|]. split; [exact H2|apply (IH ch Hch H1 H2)]. }
    assert (K : forall st c f, Inv4 st ->
              (c = true -> SGt (source (SConcat cs)) (prov (SConcat cs)) (fst (fst (stream st (SConcat cs) (mkOpts c f))))) /\
              Inv4 (snd (stream st (SConcat cs) (mkOpts c f)))).
    { intros st c f Hs. destruct (Nat.eq_dec (length cs) 1) as [E|E].
      - destruct cs as [|ch [|c2 r]]; try discriminate.
        change (stream st (SConcat [ch]) (mkOpts c f)) with (stream st ch (mkOpts c f)).
        cbn [source prov map concat flat_map]. rewrite !app_nil_r.
        destruct (Hkids ch (or_introl eq_refl)) as [_ [_ [X _]]]. apply X. exact Hs.
      - rewrite (stream_concat_fold st cs _ E). cbn [fst snd final_source]. split.
        + intros ->. destruct (kids_kts f cs Hkids st Hs) as [kts [E1 [E2 [E3 Kk]]]]. rewrite <- E1.
          assert (Es : source (SConcat cs) = [] ++ concat (map (fun kt => tr_text (fst kt)) kts))
            by (cbn [source app]; rewrite E2; reflexivity).
          assert (Ep : prov (SConcat cs) = [] ++ flat_map snd kts)
            by (cbn [prov app]; rewrite !flat_map_concat_map, E3; reflexivity).
          unfold SGt. rewrite Es, Ep. destruct f.
          * apply (fold_seg_on kts concat_init [] [] []); [reflexivity|reflexivity|reflexivity|constructor|exact Kk].
          * apply (fold_seg_on_text kts concat_init [] [] []);
              [reflexivity|reflexivity|reflexivity|reflexivity|constructor|exact Kk].
        + apply (kids_inv4 c f cs Hkids st Hs). }
    split; [exact K|]. intros st c Hs.
    change (map_of st (SConcat cs) c) with (Tree.get_map st (SConcat cs) c).
    apply get_map_concl; assumption.
  - (* SReplace *) intros i rs IH Hin Hg. destruct (good4_replace i rs Hg) as [Hn Hgi].
    pose proof (nocache_stream_concl _ Hg Hn) as K. split; [exact K|].
    destruct rs as [|r rs].
    + intros st c Hs. change (map_of st (SReplace i []) c) with (map_of st i c).
      destruct (IH Hin Hgi) as [_ IM]. destruct (IM st c Hs) as [E S]. split; [|exact S].
      intros Hc. unfold SE. change (source (SReplace i [])) with (source i).
      change (prov (SReplace i [])) with (prov i). apply E. exact Hc.
    + intros st c Hs.
      change (map_of st (SReplace i (r :: rs)) c) with (Tree.get_map st (SReplace i (r :: rs)) c).
      apply get_map_concl; assumption.
  - (* SCached *) intros id i IH Hin Hg. pose proof (good4_cached id i Hg) as Hgi. pose proof Hgi as [Hci _].
    assert (Hnode : In (id, i) (nodes U)) by (apply Hin; left; reflexivity).
    assert (Hin' : incl (nodes i) (nodes U)) by (intros x Hx; apply Hin; right; exact Hx).
    destruct (IH Hin' Hgi) as [IS IM]. destruct (warm_all U HU i Hin' Hci) as [IA [IB IMs]].
    destruct (cls_sizes i Hci) as [_ [_ [_ Hasc]]].
    split.
    + intros st c f Hs. cbn [stream]. change (source (SCached id i)) with (source i).
      change (prov (SCached id i)) with (prov i).
      destruct (cache_get (store_get st id) (mkOpts c f)) as [v|] eqn:G.
      * assert (X : c = true -> SGt (source i) (prov i) (fst (replay (source i) v (mkOpts c f)))).
        { intros ->. apply replay_SG; [exact Hasc|]. apply (proj2 Hs id i Hnode f v G). }
        destruct v as [m|]; cbn [replay fst snd] in *; (split; [exact X|exact Hs]).
      * destruct (IS st c f Hs) as [Gx S].
        assert (F : FG c i (fst (stream st i (mkOpts c f)))).
        { destruct f; [apply (IB st c (proj1 Hs))|apply FG_of_TG; apply (IA st c (proj1 Hs))]. }
        assert (Ent : good_entry i c (map_of_events c (fst (fst (stream st i (mkOpts c f)))))).
        { destruct f; [apply (entry_of_final c i _ Hci); apply (IB st c (proj1 Hs))
                      |apply (entry_of_text c i _ Hci); apply (IA st c (proj1 Hs))]. }
        pose proof (events_SE c i _ Hci F Gx) as Ev.
        destruct (stream st i (mkOpts c f)) as [[evs gi] st']. cbn [fst snd columns] in *.
        split; [exact Gx|]. split.
        -- apply (sound_put U st' id i c f _ HU Hnode (proj1 S) Ent).
        -- apply (sg4_put st' id i c f _ Hnode (proj2 S) Ev).
    + intros st c Hs. cbn [map_of]. unfold SE. change (source (SCached id i)) with (source i).
      change (prov (SCached id i)) with (prov i). fold (SE i).
      destruct (cache_get (store_get st id) (mkOpts c false)) as [v|] eqn:G.
      * cbn [fst snd]. split; [|exact Hs]. intros ->. apply (proj2 Hs id i Hnode false v G).
      * destruct (IM st c Hs) as [E S]. destruct (IMs st c (proj1 Hs)) as [Ent _].
        destruct (map_of st i c) as [m st']. cbn [fst snd] in *.
        pose proof (sound_put U st' id i c false m HU Hnode (proj1 S) Ent) as S1.
        pose proof (sg4_put st' id i c false m Hnode (proj2 S) E) as S2.
        split; [|split; assumption]. intros ->.
        destruct (cache_get (store_get (store_put st' id (mkOpts true false) m) id) (mkOpts true false)) as [m'|] eqn:G';
          [apply (S2 id i Hnode false m' G')|apply E; reflexivity].
Qed.

End Segs.

Print Assumptions full_stream_mapped.
Print Assumptions final_stream_mapped.
Print Assumptions replay_SG.
Print Assumptions fold_seg_on_text.
Print Assumptions warm4_all.
