(* Driver around the code extracted from the Coq model.
   Modes:
     driver model <cases>              print the model's observation line for each case
     driver check <cases> <impl.out>   apply the extracted property checkers to the
                                       implementation's observations
   All parsing/printing glue is here (trusted, see DESIGN.md section 4). *)

module L = Stdlib.List
module S = Stdlib.String

open BinNums

(* ---------- numbers ---------- *)
let rec pos_of_int (i : int) : positive =
  if i = 1 then Coq_xH
  else if i land 1 = 0 then Coq_xO (pos_of_int (i lsr 1))
  else Coq_xI (pos_of_int (i lsr 1))
let n_of_int (i : int) : coq_N = if i = 0 then N0 else Npos (pos_of_int i)
let rec int_of_pos (p : positive) : int =
  match p with Coq_xH -> 1 | Coq_xO q -> 2 * int_of_pos q | Coq_xI q -> 2 * int_of_pos q + 1
let int_of_n (n : coq_N) : int = match n with N0 -> 0 | Npos p -> int_of_pos p
let z_of_int (i : int) : coq_Z =
  if i = 0 then Z0 else if i > 0 then Zpos (pos_of_int i) else Zneg (pos_of_int (- i))
let int_of_z (z : coq_Z) : int =
  match z with Z0 -> 0 | Zpos p -> int_of_pos p | Zneg p -> - (int_of_pos p)

(* decimal strings that may exceed OCaml int are not needed: every number in a
   case is < 2^62 *)
let n_of_string (s : string) : coq_N = n_of_int (int_of_string s)
let string_of_n (n : coq_N) : string = string_of_int (int_of_n n)

(* ---------- text <-> hex ---------- *)
let hexval c =
  match c with
  | '0'..'9' -> Char.code c - 48
  | 'a'..'f' -> Char.code c - 87
  | 'A'..'F' -> Char.code c - 55
  | _ -> failwith "hex"
let text_of_hex (h : string) : coq_N list =
  if h = "." then [] else begin
    let n = S.length h / 2 in
    let rec go i acc =
      if i < 0 then acc
      else go (i - 1) (n_of_int (hexval h.[2*i] * 16 + hexval h.[2*i+1]) :: acc) in
    go (n - 1) []
  end
let hex_of_text (t : coq_N list) : string =
  if t = [] then "." else begin
    let b = Buffer.create 64 in
    L.iter (fun n -> Buffer.add_string b (Printf.sprintf "%02x" (int_of_n n))) t;
    Buffer.contents b
  end
let opt_hex (o : coq_N list option) : string =
  match o with None -> "-" | Some t -> hex_of_text t
let opt_of_hex (h : string) : coq_N list option =
  if h = "-" then None else Some (text_of_hex h)

(* ---------- mappings ---------- *)
open Prelude
let optn_of_string s = if s = "-" then None else Some (n_of_string s)
let string_of_optn o = match o with None -> "-" | Some n -> string_of_n n

let mapping_of_fields gl gc si ol oc ni : mapping =
  { g_line = n_of_string gl; g_col = n_of_string gc;
    m_orig = (if si = "-" then None else
      Some { o_src = n_of_string si; o_line = n_of_string ol; o_col = n_of_string oc;
             o_name = optn_of_string ni }) }

let string_of_mapping (m : mapping) : string =
  match m.m_orig with
  | None -> Printf.sprintf "%s:%s:-:-:-:-" (string_of_n m.g_line) (string_of_n m.g_col)
  | Some o -> Printf.sprintf "%s:%s:%s:%s:%s:%s" (string_of_n m.g_line) (string_of_n m.g_col)
                (string_of_n o.o_src) (string_of_n o.o_line) (string_of_n o.o_col)
                (string_of_optn o.o_name)
let string_of_mlist (ms : mapping list) : string =
  if ms = [] then "." else S.concat ";" (L.map string_of_mapping ms)
let mapping_of_string (s : string) : mapping =
  match S.split_on_char ':' s with
  | [gl; gc; si; ol; oc; ni] -> mapping_of_fields gl gc si ol oc ni
  | _ -> failwith ("mapping: " ^ s)
let mlist_of_string (s : string) : mapping list =
  if s = "." then [] else L.map mapping_of_string (S.split_on_char ';' s)

(* take n mappings (6 tokens each) from a token list *)
let rec take_mappings n toks acc =
  if n = 0 then (L.rev acc, toks) else
  match toks with
  | gl :: gc :: si :: ol :: oc :: ni :: rest ->
    take_mappings (n - 1) rest (mapping_of_fields gl gc si ol oc ni :: acc)
  | _ -> failwith "take_mappings"

(* ---------- observation lines ---------- *)
let parse_obs (line : string) : string * (string * string) list =
  match S.split_on_char ' ' line with
  | id :: kvs ->
    (id, L.filter_map (fun kv ->
        match S.index_opt kv '=' with
        | Some i -> Some (S.sub kv 0 i, S.sub kv (i + 1) (S.length kv - i - 1))
        | None -> None) kvs)
  | [] -> failwith "obs"
let get kvs k = try L.assoc k kvs with Not_found -> failwith ("missing key " ^ k)


(* ---------- rope programs ---------- *)
let rec parse_rprog (toks : string list) : RopeProg.rprog * string list =
  match toks with
  | "new" :: r -> (RopeProg.PNew, r)
  | "from" :: h :: r -> (RopeProg.PFrom (text_of_hex h), r)
  | "iter" :: n :: r ->
    let rec go k r acc = if k = 0 then (L.rev acc, r) else
        match r with h :: r' -> go (k - 1) r' (text_of_hex h :: acc) | [] -> failwith "iter" in
    let (ts, r') = go (int_of_string n) r [] in (RopeProg.PFromIter ts, r')
  | "add" :: r -> let (p, r1) = parse_rprog r in
    (match r1 with h :: r2 -> (RopeProg.PAdd (p, text_of_hex h), r2) | [] -> failwith "add")
  | "app" :: r -> let (p, r1) = parse_rprog r in let (q, r2) = parse_rprog r1 in (RopeProg.PAppend (p, q), r2)
  | "slice" :: r -> let (p, r1) = parse_rprog r in
    (match r1 with a :: b :: r2 -> (RopeProg.PSlice (p, n_of_string a, n_of_string b), r2) | _ -> failwith "slice")
  | "line" :: r -> let (p, r1) = parse_rprog r in
    (match r1 with tr :: k :: r2 -> (RopeProg.PLine (p, tr = "1", n_of_string k), r2) | _ -> failwith "line")
  | k :: _ -> failwith ("rope op " ^ k)
  | [] -> failwith "rope prog"

let list_str f l = if l = [] then "_" else S.concat "," (L.map f l)
let b01 b = if b then "1" else "0"
let split_list (s : string) : string list = if s = "_" then [] else S.split_on_char ',' s

let print_rope_obs (o : ChkRope.rope_obs) (sw : bool) (eq : bool option) (eqs : bool) : string =
  let open ChkRope in
  Printf.sprintf "ok=1 len=%s empty=%s str=%s bytes=%s gb=%s ci=%s lines=%s nt=%s sl=%s ew=%s hash=%s sw=%s eq=%s eqs=%s"
    (string_of_n o.ro_len) (b01 o.ro_is_empty) (hex_of_text o.ro_string) (hex_of_text o.ro_bytes)
    (list_str string_of_optn o.ro_get_byte)
    (list_str (fun (i, c) -> string_of_n i ^ ":" ^ string_of_n c) o.ro_char_indices)
    (list_str hex_of_text o.ro_lines) (list_str hex_of_text o.ro_lines_nt)
    (S.concat ";" (L.map (fun ((a, b), g) -> Printf.sprintf "%s:%s:%s" (string_of_n a) (string_of_n b) (opt_hex g)) o.ro_slices))
    (list_str (fun (c, b) -> hex_of_text c ^ ":" ^ b01 b) o.ro_ends_with)
    (list_str hex_of_text o.ro_hash)
    (b01 sw) (match eq with Some b -> b01 b | None -> "panic") (b01 eqs)

let parse_rope_obs kvs : ChkRope.rope_obs =
  let open ChkRope in
  { ro_len = n_of_string (get kvs "len"); ro_is_empty = (get kvs "empty" = "1");
    ro_string = text_of_hex (get kvs "str"); ro_bytes = text_of_hex (get kvs "bytes");
    ro_get_byte = L.map optn_of_string (split_list (get kvs "gb"));
    ro_char_indices = L.map (fun x -> match S.split_on_char ':' x with
        | [i; c] -> (n_of_string i, n_of_string c) | _ -> failwith "ci") (split_list (get kvs "ci"));
    ro_lines = L.map text_of_hex (split_list (get kvs "lines"));
    ro_lines_nt = L.map text_of_hex (split_list (get kvs "nt"));
    ro_slices = L.map (fun x -> match S.split_on_char ':' x with
        | [a; b; g] -> ((n_of_string a, n_of_string b), opt_of_hex g) | _ -> failwith "sl")
        (S.split_on_char ';' (get kvs "sl"));
    ro_ends_with = L.map (fun x -> match S.split_on_char ':' x with
        | [c; b] -> (text_of_hex c, b = "1") | _ -> failwith "ew") (split_list (get kvs "ew"));
    ro_hash = L.map text_of_hex (split_list (get kvs "hash")) }


(* ---------- source trees ---------- *)
let hexlist_of (l : coq_N list list) : string = list_str hex_of_text l
let hexlist_parse (s : string) : coq_N list list = L.map text_of_hex (split_list s)

let parse_smap (toks : string list) : Prelude.smap * string list =
  match toks with
  | "M" :: mp :: srcs :: cts :: nms :: file :: root :: dbg :: rest ->
    ({ Prelude.sm_file = opt_of_hex file; sm_mappings = text_of_hex mp; sm_sources = hexlist_parse srcs;
       sm_contents = hexlist_parse cts; sm_names = hexlist_parse nms; sm_root = opt_of_hex root;
       sm_debug = opt_of_hex dbg }, rest)
  | _ -> failwith "smap"

let rec parse_src (toks : string list) : Types.src * string list =
  match toks with
  | "raws" :: h :: r -> (Types.SRaw (false, text_of_hex h), r)
  | "rawb" :: h :: r -> (Types.SRaw (true, text_of_hex h), r)
  | "rstr" :: h :: r -> (Types.SRawString (text_of_hex h), r)
  | "rbuf" :: h :: r -> (Types.SRawBuffer (text_of_hex h), r)
  | "orig" :: h :: n :: r -> (Types.SOriginal (text_of_hex h, text_of_hex n), r)
  | ("sms" | "usr") :: v :: n :: r ->
    let (m, r1) = parse_smap r in
    (match r1 with
     | o :: r2 ->
       let (inner, r3) = (match r2 with "-" :: r3 -> (None, r3) | _ -> let (im, r3) = parse_smap r2 in (Some im, r3)) in
       (match r3 with
        | rm :: r4 -> (Types.SMapped (text_of_hex v, text_of_hex n, m, opt_of_hex o, inner, rm = "1"), r4)
        | [] -> failwith "sms remove")
     | [] -> failwith "sms orig")
  | ("concat" | "concata") :: n :: r ->
    let rec go k r acc = if k = 0 then (L.rev acc, r) else
        match r with
        | "t" :: r1 -> let (c, r2) = parse_src r1 in
          (match c with Types.SConcat cs -> go (k - 1) r2 (Tree.ITyped cs :: acc) | _ -> failwith "typed item must be a concat")
        | "b" :: r1 -> let (c, r2) = parse_src r1 in go (k - 1) r2 (Tree.IBoxed c :: acc)
        | _ -> failwith "concat item" in
    let (items, r') = go (int_of_string n) r [] in (Tree.concat_new items, r')
  | "repl" :: r ->
    let (inner, r1) = parse_src r in
    (match r1 with
     | n :: r2 ->
       let rec go k r acc = if k = 0 then (L.rev acc, r) else
           match r with
           | st :: en :: c :: nm :: enf :: r' ->
             go (k - 1) r' ({ Types.r_start = n_of_string st; r_end = n_of_string en; r_content = text_of_hex c;
                              r_name = opt_of_hex nm; r_enforce = n_of_string enf } :: acc)
           | _ -> failwith "repl item" in
       let (rs, r3) = go (int_of_string n) r2 [] in (Types.SReplace (inner, rs), r3)
     | [] -> failwith "repl")
  | "cached" :: id :: r -> let (inner, r1) = parse_src r in (Types.SCached (n_of_string id, inner), r1)
  | k :: _ -> failwith ("src kind " ^ k)
  | [] -> failwith "src"

let parse_wop (s : string) : ApiTree.wop =
  match s with
  | "m1" -> ApiTree.WMap true | "m0" -> ApiTree.WMap false
  | "s10" -> ApiTree.WStream (true, false) | "s00" -> ApiTree.WStream (false, false)
  | "s11" -> ApiTree.WStream (true, true) | "s01" -> ApiTree.WStream (false, true)
  | _ -> failwith ("wop " ^ s)

let parse_warm (toks : string list) : (coq_N * ApiTree.wop) list * string list =
  match toks with
  | n :: r ->
    let rec go k r acc = if k = 0 then (L.rev acc, r) else
        match r with id :: op :: r' -> go (k - 1) r' ((n_of_string id, parse_wop op) :: acc) | _ -> failwith "warm" in
    go (int_of_string n) r []
  | [] -> ([], [])

let string_of_event (e : Types.event) : string =
  match e with
  | Types.EChunk (t, m) -> "C:" ^ opt_hex t ^ ":" ^ string_of_mapping m
  | Types.ESource (i, n, c) -> "S:" ^ string_of_n i ^ ":" ^ hex_of_text n ^ ":" ^ opt_hex c
  | Types.EName (i, n) -> "N:" ^ string_of_n i ^ ":" ^ hex_of_text n
let string_of_events (evs : Types.event list) : string =
  if evs = [] then "_" else S.concat "|" (L.map string_of_event evs)
let event_of_string (s : string) : Types.event =
  match S.split_on_char ':' s with
  | ["C"; t; gl; gc; si; ol; oc; ni] -> Types.EChunk (opt_of_hex t, mapping_of_fields gl gc si ol oc ni)
  | ["S"; i; n; c] -> Types.ESource (n_of_string i, text_of_hex n, opt_of_hex c)
  | ["N"; i; n] -> Types.EName (n_of_string i, text_of_hex n)
  | _ -> failwith ("event " ^ s)
let events_of_string (s : string) : Types.event list =
  if s = "_" then [] else L.map event_of_string (S.split_on_char '|' s)

let string_of_smap (m : Prelude.smap) : string =
  S.concat ";" [hex_of_text m.Prelude.sm_mappings; hexlist_of m.Prelude.sm_sources; hexlist_of m.Prelude.sm_contents;
                hexlist_of m.Prelude.sm_names; opt_hex m.Prelude.sm_file; opt_hex m.Prelude.sm_root; opt_hex m.Prelude.sm_debug]
let string_of_optmap (m : Prelude.smap option) : string =
  match m with None -> "-" | Some m -> string_of_smap m
let optmap_of_string (s : string) : Prelude.smap option =
  if s = "-" then None else
  match S.split_on_char ';' s with
  | [mp; srcs; cts; nms; file; root; dbg] ->
    Some { Prelude.sm_file = opt_of_hex file; sm_mappings = text_of_hex mp; sm_sources = hexlist_parse srcs;
           sm_contents = hexlist_parse cts; sm_names = hexlist_parse nms; sm_root = opt_of_hex root;
           sm_debug = opt_of_hex dbg }
  | _ -> failwith "optmap"

let gi_str (g : coq_N * coq_N) = string_of_n (fst g) ^ ":" ^ string_of_n (snd g)

let print_tree_obs (o : ApiTree.tree_obs) : string =
  let open ApiTree in
  let streams = match o.to_streams with
    | [a; b; c; d] ->
      Printf.sprintf "e10=%s g10=%s e00=%s g00=%s e11=%s g11=%s e01=%s g01=%s"
        (string_of_events (fst a)) (gi_str (snd a)) (string_of_events (fst b)) (gi_str (snd b))
        (string_of_events (fst c)) (gi_str (snd c)) (string_of_events (fst d)) (gi_str (snd d))
    | _ -> failwith "streams" in
  let maps = match o.to_maps with
    | [a; b] -> Printf.sprintf "m1=%s m0=%s" (string_of_optmap a) (string_of_optmap b)
    | _ -> failwith "maps" in
  Printf.sprintf "src=%s buf=%s size=%s rope=%s wr=%s %s %s"
    (hex_of_text o.to_source) (hex_of_text o.to_buffer) (string_of_n o.to_size) (opt_hex o.to_rope)
    (hexlist_of (L.filter (fun t -> t <> []) o.to_writer)) streams maps

let parse_gi (s : string) : coq_N * coq_N =
  match S.split_on_char ':' s with
  | [a; b] -> (n_of_string a, n_of_string b)
  | _ -> failwith ("gi " ^ s)

let has_panic kvs =
  L.exists (fun (_, v) -> S.length v >= 5 && S.sub v 0 5 = "PANIC") kvs

let parse_tree_obs kvs : ApiTree.tree_obs =
  let st tag = (events_of_string (get kvs ("e" ^ tag)), parse_gi (get kvs ("g" ^ tag))) in
  { ApiTree.to_source = text_of_hex (get kvs "src"); to_buffer = text_of_hex (get kvs "buf");
    to_size = n_of_string (get kvs "size"); to_rope = opt_of_hex (get kvs "rope");
    to_writer = hexlist_parse (get kvs "wr");
    to_streams = [st "10"; st "00"; st "11"; st "01"];
    to_maps = [optmap_of_string (get kvs "m1"); optmap_of_string (get kvs "m0")] }

let parse_tree_case (rest : string list) =
  let (s, r1) = parse_src rest in
  let (ws, _) = parse_warm r1 in
  (s, ws)


(* ---------- ReplaceSource histories (C05) ---------- *)
let parse_rhist (toks : string list) : Types.src * ReplaceObj.rcall list =
  let (inner, r) = parse_src toks in
  match r with
  | n :: r1 ->
    let rec go k r acc = if k = 0 then L.rev acc else
        match r with
        | "mut" :: st :: en :: c :: nm :: enf :: r' ->
          go (k - 1) r' (ReplaceObj.RMutate { Types.r_start = n_of_string st; r_end = n_of_string en;
                                              r_content = text_of_hex c; r_name = opt_of_hex nm;
                                              r_enforce = n_of_string enf } :: acc)
        | "obs" :: kk :: r' -> go (k - 1) r' (ReplaceObj.RObserve (n_of_string kk) :: acc)
        | "clone" :: r' -> go (k - 1) r' (ReplaceObj.RClone :: acc)
        | _ -> failwith "rhist op" in
    (inner, go (int_of_string n) r1 [])
  | [] -> failwith "rhist"

let string_of_rout (o : ChkReplace.rout) : string =
  match o with
  | ChkReplace.ONone -> "-"
  | ChkReplace.OText t -> hex_of_text t
  | ChkReplace.OSize n -> "n" ^ string_of_n n
let rout_of_string (s : string) : ChkReplace.rout =
  if s = "-" then ChkReplace.ONone
  else if s.[0] = 'n' then ChkReplace.OSize (n_of_string (S.sub s 1 (S.length s - 1)))
  else ChkReplace.OText (text_of_hex s)


(* ---------- histories and pairs ---------- *)
let parse_hop (s : string) : ApiHist.hop =
  match s with
  | "src" -> ApiHist.OSrc | "buf" -> ApiHist.OBuf | "size" -> ApiHist.OSize | "rope" -> ApiHist.ORope
  | "m1" -> ApiHist.OMap true | "m0" -> ApiHist.OMap false
  | "s10" -> ApiHist.OStream (true, false) | "s00" -> ApiHist.OStream (false, false)
  | "s11" -> ApiHist.OStream (true, true) | "s01" -> ApiHist.OStream (false, true)
  | "hash" -> ApiHist.OHash | "cl" -> ApiHist.OClone
  | _ -> failwith ("hop " ^ s)

let parse_hops (toks : string list) : ApiHist.hop list * string list =
  match toks with
  | n :: r ->
    let rec go k r acc = if k = 0 then (L.rev acc, r) else
        match r with o :: r' -> go (k - 1) r' (parse_hop o :: acc) | [] -> failwith "hops" in
    go (int_of_string n) r []
  | [] -> failwith "hops"

(* nthreads, then per thread: count and calls; result: all calls in thread-major order *)
let parse_thread_progs (toks : string list) : ApiHist.hop list =
  match toks with
  | n :: r ->
    let rec go k r acc = if k = 0 then acc else
        let (ops, r') = parse_hops r in go (k - 1) r' (acc @ ops) in
    go (int_of_string n) r []
  | [] -> failwith "thread programs"

let rec string_of_hev (h : HashEq.hev) : string =
  match h with
  | HashEq.HB t -> "b:" ^ hex_of_text t
  | HashEq.HU8 n -> "u8:" ^ string_of_n n
  | HashEq.HUs n -> "us:" ^ string_of_n n
  | HashEq.HIs n -> "is:" ^ string_of_n n
  | HashEq.HU32 n -> "u32:" ^ string_of_n n
  | HashEq.HU64 _ -> "u64:*"
let hev_of_string (s : string) : HashEq.hev =
  match S.split_on_char ':' s with
  | ["b"; h] -> HashEq.HB (text_of_hex h)
  | ["u8"; n] -> HashEq.HU8 (n_of_string n)
  | ["us"; n] -> HashEq.HUs (n_of_string n)
  | ["is"; n] -> HashEq.HIs (n_of_string n)
  | ["u32"; n] -> HashEq.HU32 (n_of_string n)
  | ["u64"; n] ->
    (* the digest itself stands for the inner stream: equal digests <-> equal singleton lists;
       u64 values may exceed OCaml's int, keep them as text *)
    HashEq.HU64 [HashEq.HB (L.map (fun c -> n_of_int (Char.code c)) (L.init (S.length n) (S.get n)))]
  | _ -> failwith ("hev " ^ s)

let string_of_answer (a : ApiHist.answer) : string =
  match a with
  | ApiHist.AText t -> "T" ^ hex_of_text t
  | ApiHist.ANum n -> "n" ^ string_of_n n
  | ApiHist.AOptText t -> "T" ^ opt_hex t
  | ApiHist.AMap m -> "M" ^ string_of_optmap m
  | ApiHist.AStream (evs, gi) -> "E" ^ string_of_events evs ^ "@" ^ gi_str gi
  | ApiHist.AHash h -> "H" ^ list_str string_of_hev h
  | ApiHist.ANone -> "-"

let answer_of_string (o : ApiHist.hop) (s : string) : ApiHist.answer =
  if s = "-" then ApiHist.ANone else
  let body = S.sub s 1 (S.length s - 1) in
  match s.[0], o with
  | 'T', ApiHist.ORope -> ApiHist.AOptText (opt_of_hex body)
  | 'T', _ -> ApiHist.AText (text_of_hex body)
  | 'n', _ -> ApiHist.ANum (n_of_string body)
  | 'M', _ -> ApiHist.AMap (optmap_of_string body)
  | 'E', _ ->
    let i = S.rindex body '@' in
    ApiHist.AStream (events_of_string (S.sub body 0 i), parse_gi (S.sub body (i + 1) (S.length body - i - 1)))
  | 'H', _ -> ApiHist.AHash (L.map hev_of_string (split_list body))
  | _ -> failwith ("answer " ^ s)

let answers_kv prefix (l : ApiHist.answer list) : string =
  S.concat " " (L.mapi (fun i a -> Printf.sprintf "%s%d=%s" prefix i (string_of_answer a)) l)

let parse_answers kvs prefix (ops : ApiHist.hop list) : ApiHist.answer list =
  L.mapi (fun i o -> answer_of_string o (get kvs (Printf.sprintf "%s%d" prefix i))) ops

let final_ops = ApiHist.final_ops

let parse_pair (toks : string list) =
  match toks with
  | relaxed :: r ->
    let (a, r1) = parse_src r in
    let (opsa, r2) = parse_hops r1 in
    let (b, r3) = parse_src r2 in
    let (opsb, _) = parse_hops r3 in
    (relaxed = "1", a, opsa, b, opsb)
  | [] -> failwith "pair"


(* ---------- schedules (C18) ---------- *)
let take_n (n : int) (toks : string list) : string list * string list =
  let rec go k r acc = if k = 0 then (L.rev acc, r) else
      match r with x :: r' -> go (k - 1) r' (x :: acc) | [] -> failwith "take_n" in
  go n toks []

let parse_progs (toks : string list) (f : string -> 'a) : 'a list list * string list =
  match toks with
  | n :: r ->
    let rec go k r acc = if k = 0 then (L.rev acc, r) else
        match r with
        | m :: r1 -> let (ops, r2) = take_n (int_of_string m) r1 in go (k - 1) r2 (L.map f ops :: acc)
        | [] -> failwith "progs" in
    go (int_of_string n) r []
  | [] -> failwith "progs"

let parse_sched (toks : string list) : coq_N list =
  match toks with
  | n :: r -> let (xs, _) = take_n (int_of_string n) r in L.map n_of_string xs
  | [] -> []

let parse_repls (toks : string list) : Types.repl list * string list =
  match toks with
  | n :: r2 ->
    let rec go k r acc = if k = 0 then (L.rev acc, r) else
        match r with
        | st :: en :: c :: nm :: enf :: r' ->
          go (k - 1) r' ({ Types.r_start = n_of_string st; r_end = n_of_string en; r_content = text_of_hex c;
                           r_name = opt_of_hex nm; r_enforce = n_of_string enf } :: acc)
        | _ -> failwith "repl item" in
    go (int_of_string n) r2 []
  | [] -> failwith "repls"

let rop_of s = match s with "sorted" -> Conc.RopSorted | "clone" -> Conc.RopClone | _ -> failwith "rop"
let cop_of s =
  let k = n_of_string (S.sub s 1 (S.length s - 1)) in
  match s.[0] with 'm' -> Conc.CopMap k | 's' -> Conc.CopStream k | _ -> failwith "cop"

let nlist_str (l : coq_N list) = if l = [] then "_" else S.concat "," (L.map string_of_n l)
let nlist_dot (l : coq_N list) = if l = [] then "_" else S.concat "." (L.map string_of_n l)
let nlist_of_dot (s : string) = if s = "_" then [] else L.map n_of_string (S.split_on_char '.' s)

let hist_str (h : (coq_N * coq_N) list list) : string =
  if h = [] then "_" else
    S.concat ";" (L.map (fun snap ->
        let ks = L.filter_map (fun k ->
            match L.assoc_opt (n_of_int k) snap with Some id -> Some (Printf.sprintf "%d:%s" k (string_of_n id)) | None -> None)
            [0; 1; 2; 3] in
        if ks = [] then "-" else S.concat "." ks) h)
let hist_of_str (s : string) : (coq_N * coq_N) list list =
  if s = "_" then [] else
    L.map (fun snap -> if snap = "-" then [] else
              L.map (fun kv -> match S.split_on_char ':' kv with
                  | [k; id] -> (n_of_string k, n_of_string id) | _ -> failwith "hist") (S.split_on_char '.' snap))
      (S.split_on_char ';' s)

(* ---------- per-kind handlers ---------- *)
let model_case (toks : string list) : string =
  match toks with
  | "codec_enc" :: n :: rest ->
    let (ms, _) = take_mappings (int_of_string n) rest [] in
    let ((((enc, dec), reenc), lenc), ldec) = ApiCodec.api_codec_enc ms in
    Printf.sprintf "enc=%s dec=%s reenc=%s lenc=%s ldec=%s"
      (hex_of_text enc) (string_of_mlist dec) (hex_of_text reenc) (hex_of_text lenc)
      (string_of_mlist ldec)
  | "codec_dec" :: h :: _ ->
    Printf.sprintf "dec=%s" (string_of_mlist (ApiCodec.api_codec_dec (text_of_hex h)))
  | "rope" :: rest ->
    let (p, r1) = parse_rprog rest in
    let (q, _) = parse_rprog r1 in
    (match ApiRope.api_rope p q with
     | None -> "ok=0"
     | Some ((o, ((sw, eq), eqs)), wf) -> print_rope_obs o sw eq eqs ^ (if wf then "" else " WF=0"))
  | "tree" :: rest ->
    let (s, ws) = parse_tree_case rest in
    print_tree_obs (ApiTree.api_tree s ws)
  | "rhist" :: rest ->
    let (inner, h) = parse_rhist rest in
    "outs=" ^ list_str string_of_rout (ApiCheck.api_rhist inner h)
  | "comp" :: rest ->
    let (s, r1) = parse_src rest in
    let (ws, _) = parse_warm r1 in
    let (((c10, c00), k10), k00) = ApiCheck.api_comp s ws in
    Printf.sprintf "src=%s e10=%s e00=%s nk=%d %s %s" (hex_of_text (Tree.source s)) (string_of_events c10) (string_of_events c00)
      (L.length k10)
      (S.concat " " (L.mapi (fun i e -> Printf.sprintf "k%d.e10=%s" i (string_of_events e)) k10))
      (S.concat " " (L.mapi (fun i e -> Printf.sprintf "k%d.e00=%s" i (string_of_events e)) k00))
  | "jsonv" :: rest ->
    let (m, _) = parse_smap rest in
    let (tj, r) = ApiCheck.api_json_value m in
    Printf.sprintf "tj=%s tw=%s rt=%s rs=%s rr=%s" (hex_of_text tj) (hex_of_text tj)
      (string_of_optmap r) (string_of_optmap r) (string_of_optmap r)
  | "jsond" :: h :: _ ->
    let r = ApiCheck.api_json_doc (text_of_hex h) in
    let s = match r with Some m -> string_of_smap m | None -> "ERR" in
    Printf.sprintf "fj=%s fs=%s fr=%s" s s s
  | "sched" :: "R" :: rest ->
    let (inner, r1) = parse_src rest in
    let (rs, r2) = parse_repls r1 in
    (match r2 with
     | presort :: r3 ->
       let (progs, r4) = parse_progs r3 rop_of in
       let sched = parse_sched r4 in
       let (ths, (flag, index)) = ApiSched.api_sched_replace inner rs (n_of_string presort) progs sched in
       S.concat " " (L.mapi (fun i (results, trace) ->
           S.concat " " ([Printf.sprintf "t%d.n=%d" i (L.length results)]
                         @ L.mapi (fun j (txt, cl) ->
                             Printf.sprintf "t%d.r%d=%s" i j
                               (match cl with
                                | None -> "T" ^ hex_of_text txt
                                | Some (f, idx) -> Printf.sprintf "K%s:%s:%s" (b01 f) (nlist_dot idx) (hex_of_text txt))) results
                         @ [Printf.sprintf "t%d.trace=%s" i (nlist_str trace)])) ths)
       ^ Printf.sprintf " flag=%s index=%s" (b01 flag) (nlist_dot index)
     | [] -> failwith "sched R")
  | "sched" :: "H" :: rest ->
    (* hashing is a function of the constructor data (C14): whatever the interleaving, every call
       returns the value a single thread computes *)
    let (_, r1) = parse_src rest in
    let (progs, _) = parse_progs r1 (fun s -> s) in
    S.concat " " (L.mapi (fun i prog ->
        S.concat " " (Printf.sprintf "t%d.n=%d" i (L.length prog)
                      :: L.mapi (fun j _ -> Printf.sprintf "t%d.r%d=1" i j) prog)) progs)
  | "sched" :: (("C" | "L") as k) :: rest ->
    let (inner, r1) = parse_src rest in
    let (progs, r2) = parse_progs r1 cop_of in
    let sched = parse_sched r2 in
    let (ths, hist) = if k = "C" then ApiSched.api_sched_cached inner progs sched
      else ApiSched.api_sched_locked inner progs sched in
    S.concat " " (L.mapi (fun i (answers, trace) ->
        S.concat " " ([Printf.sprintf "t%d.n=%d" i (L.length answers)]
                      @ L.mapi (fun j a -> Printf.sprintf "t%d.r%d=%s" i j (string_of_answer a)) answers
                      @ [Printf.sprintf "t%d.trace=%s" i (nlist_str trace)])) ths)
    ^ " hist=" ^ hist_str hist
  | "wr" :: rest ->
    let (s, r1) = parse_src rest in
    (match r1 with
     | cap :: short :: _ ->
       let ((buf, w), ok) = ApiCheck.api_writer s (n_of_string cap) (short = "1") in
       Printf.sprintf "buf=%s written=%s ok=%s" (hex_of_text buf) (hex_of_text w) (b01 ok)
     | _ -> failwith "wr")
  | ("thist" | "chist") as k :: rest ->
    let (s, r1) = parse_src rest in
    let (ops, _) = parse_hops r1 in
    let (ans, ref) = if k = "thist" then ApiHist.api_thist s ops else ApiHist.api_chist s ops in
    answers_kv "a" ans ^ " " ^ answers_kv "r" ref
  | "fhist" :: rest ->
    (* free-running threads on one shared object: the model runs the thread-major interleaving;
       Props/C18.v C18_free_running_observers: every other interleaving gives every thread the same *)
    let (s, r1) = parse_src rest in
    let ops = parse_thread_progs r1 in
    let (ans, ref) = ApiHist.api_thist s ops in
    answers_kv "a" ans ^ " " ^ answers_kv "r" ref
  | "pair" :: rest ->
    let (_, a, opsa, b, opsb) = parse_pair rest in
    let o = ApiHist.api_pair a opsa b opsb in
    Printf.sprintf "eq0=%s eq=%s eqr=%s %s %s" (b01 o.ApiHist.po_eq0) (b01 o.ApiHist.po_eq) (b01 o.ApiHist.po_eqr)
      (answers_kv "A" o.ApiHist.po_a) (answers_kv "B" o.ApiHist.po_b)
  | k :: _ -> failwith ("unknown case kind " ^ k)
  | [] -> failwith "empty case"

(* verdict: "OK", "SKIP" (outside the property's domain) or "FAIL <clause>" *)
let verdict (n : coq_N) : string =
  match int_of_n n with
  | 0 -> "OK"
  | 100 -> "SKIP"
  | k when k >= 51 && k <= 59 -> Printf.sprintf "FAIL clause=%d KF=K%d" k (k - 50)
  | k -> Printf.sprintf "FAIL clause=%d" k

let panic_verdict (trees : Types.src list) : string =
  let cls = L.map (fun s -> int_of_n (ApiCheck.api_panic_class s)) trees in
  if L.mem 100 cls then "SKIP"
  else if L.mem 53 cls then "FAIL clause=panic KF=K3"
  else "FAIL clause=panic"

let prop_num (prop : string) : coq_N = n_of_int (int_of_string (S.sub prop 1 (S.length prop - 1)))

let check_case (prop : string) (toks : string list) (kvs : (string * string) list) : string =
  if prop = "C19" then
    (* unsafe preconditions only: a probe that reported `false`, or a hard abort *)
    (if L.mem_assoc "UB" kvs then "FAIL clause=unsafe-precondition:" ^ get kvs "UB"
     else if L.mem_assoc "ABORT" kvs then "FAIL clause=abort"
     else "OK")
  else
  if prop = "C17" && (match toks with ("codec_dec" | "jsond") :: _ -> true | _ -> false) then
    (* totality only: any answer is fine, a panic / abort / hang is not *)
    (if has_panic kvs || L.mem_assoc "PANIC" kvs then "FAIL clause=panic"
     else if L.mem_assoc "ABORT" kvs then "FAIL clause=abort"
     else if L.mem_assoc "HANG" kvs then "FAIL clause=hang" else "OK")
  else
  if L.mem_assoc "PANIC" kvs then "FAIL clause=panic"
  else if L.mem_assoc "ABORT" kvs then "FAIL clause=abort"
  else if L.mem_assoc "HANG" kvs then "FAIL clause=hang" else
  match toks with
  | "codec_enc" :: n :: rest ->
    let (ms, _) = take_mappings (int_of_string n) rest [] in
    verdict (ChkCodec.chk_C12_enc ms (text_of_hex (get kvs "enc")) (mlist_of_string (get kvs "dec"))
               (text_of_hex (get kvs "reenc")) (text_of_hex (get kvs "lenc"))
               (mlist_of_string (get kvs "ldec")))
  | "codec_dec" :: h :: _ ->
    verdict (ChkCodec.chk_C12_dec (text_of_hex h) (mlist_of_string (get kvs "dec")))
  | "rope" :: rest ->
    let (p, r1) = parse_rprog rest in
    let (q, _) = parse_rprog r1 in
    if get kvs "ok" = "0" then
      (* the implementation rejected a slice / line index: the string semantics must too *)
      (if ApiRope.api_rope_valid p q then "FAIL clause=rejects-valid-program" else "OK")
    else if not (ApiRope.api_rope_valid p q) then "FAIL clause=accepts-invalid-program"
    else
      verdict (ApiRope.api_rope_check p q (parse_rope_obs kvs) (get kvs "sw" = "1") (get kvs "eq" = "1")
                 (get kvs "eqs" = "1"))
  | ("thist" | "chist") :: rest ->
    let (s, r1) = parse_src rest in
    let (ops, _) = parse_hops r1 in
    if has_panic kvs then panic_verdict [s] else
    verdict (ApiCheck.api_check_hist s ops (parse_answers kvs "a" ops) (parse_answers kvs "r" ops))
  | "fhist" :: rest ->
    let (s, r1) = parse_src rest in
    let ops = parse_thread_progs r1 in
    if has_panic kvs then panic_verdict [s] else
    verdict (ApiCheck.api_check_hist s ops (parse_answers kvs "a" ops) (parse_answers kvs "r" ops))
  | "pair" :: rest ->
    let (relaxed, a, opsa, b, opsb) = parse_pair rest in
    if has_panic kvs then panic_verdict [a; b] else
    let o = { ApiHist.po_eq0 = (get kvs "eq0" = "1"); po_eq = (get kvs "eq" = "1"); po_eqr = (get kvs "eqr" = "1");
              po_a = parse_answers kvs "A" final_ops; po_b = parse_answers kvs "B" final_ops } in
    verdict (ApiCheck.api_check_pair (prop_num prop) a opsa b opsb relaxed o)
  | "sched" :: "R" :: rest ->
    let (inner, r1) = parse_src rest in
    let (rs, r2) = parse_repls r1 in
    (match r2 with
     | presort :: r3 ->
       let (progs, _) = parse_progs r3 rop_of in
       if has_panic kvs || L.mem_assoc "PANIC" kvs then "FAIL clause=panic" else
       let results = L.mapi (fun i prog ->
           let n = int_of_string (get kvs (Printf.sprintf "t%d.n" i)) in
           if n <> L.length prog then failwith "a thread did not finish its program" else
           L.init n (fun j ->
               let v = get kvs (Printf.sprintf "t%d.r%d" i j) in
               let body = S.sub v 1 (S.length v - 1) in
               if v.[0] = 'T' then (text_of_hex body, None)
               else match S.split_on_char ':' body with
                 | [f; idx; txt] -> (text_of_hex txt, Some (f = "1", nlist_of_dot idx))
                 | _ -> failwith "clone result")) progs in
       verdict (ApiSched.chk_C18_replace inner rs (n_of_string presort) results
                  (get kvs "flag" = "1", nlist_of_dot (get kvs "index")))
     | [] -> failwith "sched R")
  | "sched" :: "H" :: rest ->
    let (_, r1) = parse_src rest in
    let (progs, _) = parse_progs r1 (fun s -> s) in
    if has_panic kvs || L.mem_assoc "PANIC" kvs then "FAIL clause=panic" else
    let ok = L.for_all (fun x -> x) (L.mapi (fun i prog ->
        (match L.assoc_opt (Printf.sprintf "t%d.n" i) kvs with Some n -> int_of_string n = L.length prog | None -> false)
        && L.for_all (fun x -> x) (L.mapi (fun j _ -> L.assoc_opt (Printf.sprintf "t%d.r%d" i j) kvs = Some "1") prog)) progs) in
    if ok then "OK" else "FAIL clause=1"
  | "sched" :: ("C" | "L") :: rest ->
    let (inner, r1) = parse_src rest in
    let (progs, _) = parse_progs r1 cop_of in
    if has_panic kvs || L.mem_assoc "PANIC" kvs then "FAIL clause=panic" else
    let answers = L.mapi (fun i prog ->
        let n = int_of_string (get kvs (Printf.sprintf "t%d.n" i)) in
        if n <> L.length prog then failwith "a thread did not finish its program" else
        L.mapi (fun j o -> answer_of_string (ApiSched.key_hop o) (get kvs (Printf.sprintf "t%d.r%d" i j))) prog) progs in
    verdict (ApiSched.chk_C18_cached inner progs answers (hist_of_str (get kvs "hist")))
  | "jsonv" :: rest ->
    let (m, _) = parse_smap rest in
    let om k = let v = get kvs k in if v = "ERR" then None else optmap_of_string v in
    if has_panic kvs then "FAIL clause=panic" else
    verdict (ApiCheck.api_check_json_value m (text_of_hex (get kvs "tj")) (text_of_hex (get kvs "tw"))
               (om "rt") (om "rs") (om "rr"))
  | "jsond" :: h :: _ ->
    let om k = let v = get kvs k in if v = "ERR" then None else optmap_of_string v in
    if has_panic kvs then "FAIL clause=panic" else
    verdict (ApiCheck.api_check_json_doc (text_of_hex h) (om "fj") (om "fs") (om "fr"))
  | "comp" :: rest ->
    let (s, _) = parse_src rest in
    if has_panic kvs then panic_verdict [s] else
    let nk = int_of_string (get kvs "nk") in
    let kid key = L.init nk (fun i -> events_of_string (get kvs (Printf.sprintf "k%d.%s" i key))) in
    verdict (ApiCheck.api_check_comp s (text_of_hex (get kvs "src")) (events_of_string (get kvs "e10"))
               (events_of_string (get kvs "e00")) (kid "e10") (kid "e00"))
  | "wr" :: rest ->
    let (s, r1) = parse_src rest in
    if has_panic kvs || L.mem_assoc "PANIC" kvs then panic_verdict [s] else
    (match r1 with
     | cap :: short :: _ ->
       verdict (ApiCheck.api_check_writer s (n_of_string cap) (short = "1") (text_of_hex (get kvs "buf"))
                  (text_of_hex (get kvs "written")) (get kvs "ok" = "1"))
     | _ -> failwith "wr")
  | "rhist" :: rest ->
    let (inner, h) = parse_rhist rest in
    verdict (ApiCheck.api_check_rhist inner h (L.map rout_of_string (split_list (get kvs "outs"))))
  | "tree" :: rest ->
    let (s, ws) = parse_tree_case rest in
    (* only the observers the property talks about *)
    let relevant = match prop with
      | "C07" -> ["src"; "buf"; "size"; "rope"; "wr"]
      | "C01" -> ["src"; "e10"; "e00"; "g10"; "g00"]
      | "C04" -> ["src"; "m1"; "m0"]
      | _ -> L.map fst kvs in
    let kvs_rel = L.filter (fun (k, _) -> L.mem k relevant) kvs in
    let kvs = if has_panic kvs_rel then kvs else
        L.map (fun (k, v) -> if S.length v >= 5 && S.sub v 0 5 = "PANIC" then
                  (k, (match k.[0] with 'e' -> "_" | 'g' -> "1:0" | 'm' -> "-" | _ -> ".")) else (k, v)) kvs in
    if has_panic kvs_rel then
      (* a panic is a failure unless the case is outside the property's domain *)
      (if int_of_n (ApiCheck.api_check_tree (prop_num prop) s ws (ApiTree.api_tree s ws)) = 100
       then "SKIP" else panic_verdict [s])
    else verdict (ApiCheck.api_check_tree (prop_num prop) s ws (parse_tree_obs kvs))
  | k :: _ -> failwith ("unknown case kind " ^ k)
  | [] -> failwith "empty case"

let read_lines (path : string) : string list =
  let ic = open_in path in
  let rec go acc =
    match input_line ic with
    | l -> go (l :: acc)
    | exception End_of_file -> close_in ic; L.rev acc in
  go []

let split_case (line : string) : string * string list =
  match S.split_on_char ' ' line with
  | id :: toks -> (id, L.filter (fun t -> t <> "") toks)
  | [] -> failwith "case"

let () =
  match Array.to_list Sys.argv with
  | _ :: "model" :: cases :: _ ->
    L.iter (fun line ->
        if line <> "" then begin
          let (id, toks) = split_case line in
          let out = try model_case toks with
            | Failure m -> "MODELERR=" ^ S.map (fun c -> if c = ' ' then '_' else c) m
            | Stack_overflow -> "MODELERR=stack_overflow" in
          print_string id; print_char ' '; print_endline out
        end) (read_lines cases)
  | _ :: "check" :: prop :: cases :: implout :: _ ->
    let obs = Hashtbl.create 1024 in
    L.iter (fun l -> if l <> "" then begin
        let (id, kvs) = parse_obs l in Hashtbl.replace obs id kvs end) (read_lines implout);
    L.iter (fun line ->
        if line <> "" then begin
          let (id, toks) = split_case line in
          let out =
            match Hashtbl.find_opt obs id with
            | None -> "FAIL clause=missing-observation"
            | Some kvs ->
              (try check_case prop toks kvs with
               | Failure m -> "FAIL clause=driver:" ^ S.map (fun c -> if c = ' ' then '_' else c) m) in
          print_string id; print_char ' '; print_endline out
        end) (read_lines cases)
  | _ -> prerr_endline "usage: driver (model <cases> | check <prop> <cases> <impl.out>)"; exit 2
