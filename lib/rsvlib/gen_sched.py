"""Schedules for C18: programs of 2-3 threads over a shared ReplaceSource / CachedSource, and an
interleaving at the granularity of the schedule points."""
import itertools
from .common import *
from . import gen_tree

def gen_sched_R(rng):
    g = gen_tree.Gen(rng, gen_tree.Cfg(ascii=rng.random() < 0.6, sms=0.0, cached=0.0, replace=0.0, bufs=0.0))
    inner = g.leaf() if rng.random() < 0.8 else g.node(1)
    rs = g.replacements(gen_tree.text_of(inner))
    presort = weighted(rng, [(0, 3), (1, 2), (2, 4), (3, 1)])
    nth = rng.choice([2, 2, 3])
    progs = [[rng.choice(['sorted', 'sorted', 'clone']) for _ in range(rng.randrange(1, 4))] for _ in range(nth)]
    steps = sum(6 * len(p) for p in progs)
    sched = [rng.randrange(0, nth) for _ in range(rng.randrange(0, steps + 1))]
    feats = {'nontrivial', 'replace'}
    if presort >= 2: feats.add('stale_index')
    if any('clone' in p for p in progs): feats.add('clone')
    return Case('sched', {'k': 'R', 'inner': inner, 'rs': rs, 'presort': presort, 'progs': progs, 'sched': sched}, feats)

def gen_sched_C(rng):
    g = gen_tree.Gen(rng, gen_tree.Cfg(ascii=True, sms=0.3, cached=0.0, replace=0.0, warm=0.0))
    inner = g.node(rng.randrange(0, 3))
    nth = rng.choice([2, 2, 3])
    ops = ['m0', 'm1', 's0', 's1', 'm0', 's0', 's2', 's3']
    progs = [[rng.choice(ops) for _ in range(rng.randrange(1, 4))] for _ in range(nth)]
    steps = sum(2 * len(p) for p in progs)
    sched = [rng.randrange(0, nth) for _ in range(rng.randrange(0, steps + 1))]
    feats = {'nontrivial', 'cached'}
    keys = [o for p in progs for o in p]
    if any(o[0] == 'm' for o in keys) and any(o[0] == 's' for o in keys): feats.add('both_fill_paths')
    return Case('sched', {'k': 'C', 'inner': inner, 'progs': progs, 'sched': sched}, feats)

def gen_sched_L(rng):
    """one option set per case (one map shard): the critical section of the stream fill path is probed"""
    g = gen_tree.Gen(rng, gen_tree.Cfg(ascii=True, sms=0.3, cached=0.0, replace=0.0, warm=0.0))
    inner = g.node(rng.randrange(0, 3))
    nth = rng.choice([2, 2, 3])
    k = rng.choice([0, 0, 1, 2, 3])
    ops = ['s%d' % k, 's%d' % k, 'm%d' % k] if k < 2 else ['s%d' % k]
    progs = [[rng.choice(ops) for _ in range(rng.randrange(1, 3))] for _ in range(nth)]
    if not any(o[0] == 's' for p in progs for o in p):
        progs[0][0] = 's%d' % k
    steps = sum(2 * len(p) for p in progs)
    sched = [rng.randrange(0, nth) for _ in range(rng.randrange(0, steps + 2))]
    return Case('sched', {'k': 'L', 'inner': inner, 'progs': progs, 'sched': sched}, {'nontrivial', 'cached', 'lock_probe'})

def gen_sched_H(rng):
    """threads hash clones of one CachedSource whose tree calls back into a user-defined child: the
    callback is the only schedule point inside CachedSource::hash"""
    g = gen_tree.Gen(rng, gen_tree.Cfg(ascii=True, sms=0.2, cached=0.0, replace=0.2, warm=0.0))
    inner = g.node(rng.randrange(0, 2))
    nth = rng.choice([2, 2, 3])
    progs = [['h'] * rng.randrange(1, 3) for _ in range(nth)]
    steps = sum(2 * len(p) for p in progs)
    sched = [rng.randrange(0, nth) for _ in range(rng.randrange(0, steps + 2))]
    return Case('sched', {'k': 'H', 'inner': inner, 'progs': progs, 'sched': sched}, {'nontrivial', 'cached', 'hash_probe'})

def ser_progs(progs):
    return ' '.join([str(len(progs))] + ['%d %s' % (len(p), ' '.join(p)) if p else '0' for p in progs])

def ser_sched(obj):
    sch = ' '.join([str(len(obj['sched']))] + [str(x) for x in obj['sched']])
    if obj['k'] == 'R':
        rs = ' '.join([str(len(obj['rs']))] + ['%d %d %s %s %d' % (s, e, hx(c), ohx(nm), enf) for (s, e, c, nm, enf) in obj['rs']])
        return 'sched R %s %s %d %s %s' % (gen_tree.ser_node(obj['inner']), rs, obj['presort'], ser_progs(obj['progs']), sch)
    return 'sched %s %s %s %s' % (obj['k'], gen_tree.ser_node(obj['inner']), ser_progs(obj['progs']), sch)

def shrink_sched(obj):
    sch = obj['sched']
    for i in range(len(sch)):
        o2 = dict(obj); o2['sched'] = sch[:i] + sch[i + 1:]
        yield o2
    for ti, p in enumerate(obj['progs']):
        for i in range(len(p)):
            if len(p) > 1:
                o2 = dict(obj); o2['progs'] = obj['progs'][:ti] + [p[:i] + p[i + 1:]] + obj['progs'][ti + 1:]
                yield o2
    if obj['k'] == 'R':
        for i in range(len(obj['rs'])):
            o2 = dict(obj); o2['rs'] = obj['rs'][:i] + obj['rs'][i + 1:]
            yield o2

def all_interleavings(progs_steps):
    """all interleavings of threads with the given step counts (bounded exhaustive)"""
    out = []
    def go(rem, acc):
        if all(r == 0 for r in rem):
            out.append(tuple(acc)); return
        for t, r in enumerate(rem):
            if r > 0:
                rem[t] -= 1; acc.append(t)
                go(rem, acc)
                acc.pop(); rem[t] += 1
    go(list(progs_steps), [])
    return out


import re as _re
_U64 = _re.compile(r'u64:\d+')
def normalize(kvs):
    """mask CachedSource digests; the cache history is compared up to stuttering"""
    out = {}
    for k, v in kvs.items():
        if isinstance(v, str):
            v = _U64.sub('u64:*', v)
            if k == 'hist' and v != '_':
                # identities are compared per key, as ranks in order of first appearance
                ranks = {}
                snaps = []
                for snap in v.split(';'):
                    if snap == '-':
                        snaps.append(snap); continue
                    parts = []
                    for kv in snap.split('.'):
                        key, ident = kv.split(':')
                        r = ranks.setdefault(key, {})
                        if ident not in r:
                            r[ident] = len(r)
                        parts.append('%s:%d' % (key, r[ident]))
                    snaps.append('.'.join(parts))
                ded = [x for i, x in enumerate(snaps) if i == 0 or x != snaps[i - 1]]
                # leading empty snapshots carry nothing (none is taken while a fill path holds the shard)
                while len(ded) > 1 and ded[0] == '-':
                    ded.pop(0)
                v = ';'.join(ded)
        out[k] = v
    return out
