"""SourceMap values and JSON documents (C15, parser part of C17)."""
import json as pyjson
from .common import *
from . import gen_tree

CHARS = ['a', 'b', '"', '\\', '/', '\n', '\r', '\t', '\x00', '\x1f', '\x7f', ' ', ' ', 'é', '€', '😀', '퟿', '', ' ', ';', '{', '}', '\x08', '\x0c']

def ustr(rng, maxlen=8):
    n = weighted(rng, [(0, 2), (1, 2), (2, 2), (rng.randrange(3, maxlen + 1), 4)])
    return ''.join(rng.choice(CHARS) for _ in range(n))

def gen_smap(rng):
    ns = rng.randrange(0, 4)
    contents_mode = rng.choice(['none', 'all_empty', 'some', 'full'])
    sources = [ustr(rng) for _ in range(ns)]
    if contents_mode == 'none':
        contents = []
    elif contents_mode == 'all_empty':
        contents = ['' for _ in range(ns)]
    elif contents_mode == 'some':
        contents = [ustr(rng) if rng.random() < 0.5 else '' for _ in range(rng.randrange(0, ns + 2))]
    else:
        contents = [ustr(rng, 12) for _ in range(ns)]
    return {'mappings': rng.choice(['', 'AAAA', ';;AACA,C', ustr(rng)]), 'sources': sources, 'contents': contents,
            'names': [ustr(rng) for _ in range(rng.randrange(0, 3))],
            'file': ustr(rng) if rng.random() < 0.4 else None,
            'root': ustr(rng) if rng.random() < 0.4 else None,
            'debug': ustr(rng) if rng.random() < 0.3 else None}

def case_value(rng):
    m = gen_smap(rng)
    feats = {'nontrivial'} if m['sources'] or m['names'] else set()
    allc = ''.join([m['mappings']] + m['sources'] + m['contents'] + m['names'] + [x for x in (m['file'], m['root'], m['debug']) if x])
    if '"' in allc or '\\' in allc: feats.add('quotes_backslashes')
    if any(ord(c) < 32 for c in allc): feats.add('control_chars')
    if ' ' in allc or ' ' in allc: feats.add('u2028_2029')
    if '😀' in allc: feats.add('astral')
    if m['contents'] and all(c == '' for c in m['contents']): feats.add('contents_all_empty')
    for k in ('file', 'root', 'debug'):
        if m[k] is not None: feats.add('has_' + k)
    return Case('jsonv', {'m': m}, feats)

def ser_value(obj):
    return 'jsonv ' + gen_tree.ser_map(obj['m'])

def shrink_value(obj):
    m = obj['m']
    for k in ('sources', 'contents', 'names'):
        for i in range(len(m[k])):
            m2 = dict(m); m2[k] = m[k][:i] + m[k][i + 1:]
            yield {'m': m2}
        for i, x in enumerate(m[k]):
            for j in range(len(x)):
                m2 = dict(m); m2[k] = m[k][:i] + [x[:j] + x[j + 1:]] + m[k][i + 1:]
                yield {'m': m2}
    for k in ('file', 'root', 'debug'):
        if m[k] is not None:
            m2 = dict(m); m2[k] = None
            yield {'m': m2}
    for j in range(len(m['mappings'])):
        m2 = dict(m); m2['mappings'] = m['mappings'][:j] + m['mappings'][j + 1:]
        yield {'m': m2}

def gen_doc(rng):
    """a valid JSON document that is (mostly) a source map: nulls, missing arrays, reordered keys,
    unknown keys, whitespace, both escape styles"""
    m = gen_smap(rng)
    feats = {'nontrivial'}
    def arr(xs, key):
        out = []
        for x in xs:
            if rng.random() < 0.2:
                out.append(None); feats.add('null_entry')
            else:
                out.append(x)
        return out
    items = [('version', 3)]
    if rng.random() < 0.9:
        items.append(('mappings', m['mappings']))
    else:
        feats.add('mappings_missing')
    for key, val in (('sources', m['sources']), ('sourcesContent', m['contents']), ('names', m['names'])):
        r = rng.random()
        if r < 0.15:
            feats.add('missing_array'); continue
        if r < 0.25:
            items.append((key, None)); feats.add('null_array'); continue
        items.append((key, arr(val, key)))
    for key, val in (('file', m['file']), ('sourceRoot', m['root']), ('debugId', m['debug'])):
        if val is not None:
            items.append((key, val))
        elif rng.random() < 0.2:
            items.append((key, None))
    if rng.random() < 0.3:
        items.append((rng.choice(['x_extra', 'sections', 'ignoreList']), rng.choice([1, [1, 2], {'a': None}, 'z', True, -1.5e3])))
        feats.add('unknown_key')
    if rng.random() < 0.1:
        # a type error the deserialiser must reject
        k = rng.choice(['sources', 'names', 'file', 'mappings'])
        items = [(a, b) for a, b in items if a != k] + [(k, rng.choice([5, {'a': 1}, [1], True]))]
        feats.add('type_error')
    rng.shuffle(items); feats.add('reordered_keys')
    ascii_only = rng.random() < 0.5
    if ascii_only: feats.add('unicode_escapes')
    if rng.random() < 0.5:
        s = pyjson.dumps(dict(items), ensure_ascii=ascii_only, separators=(',', ':'))
    else:
        s = pyjson.dumps(dict(items), ensure_ascii=ascii_only, indent=rng.choice([1, 2]))
        feats.add('whitespace')
    return s, feats

def case_doc(rng):
    while True:
        s, feats = gen_doc(rng)
        try:
            b = s.encode('utf-8')     # lone surrogates cannot be encoded: python escaped them iff ensure_ascii
        except UnicodeEncodeError:
            continue
        return Case('jsond', {'d': b}, feats)

def ser_doc(obj):
    return 'jsond ' + hx(obj['d'])

def shrink_doc(obj):
    d = obj['d']
    n = len(d)
    for k in (n // 2, n // 4, 1):
        if k < 1: continue
        for i in range(0, n, k):
            yield {'d': d[:i] + d[i + k:]}

def case_junk(rng):
    """malformed stream for C17: arbitrary bytes, truncated / perturbed documents, deep nesting, huge numbers"""
    r = rng.random()
    if r < 0.3:
        b = bytes(rng.randrange(0, 256) for _ in range(rng.randrange(0, 40)))
        feats = {'random_bytes'}
    elif r < 0.7:
        s, _ = gen_doc(rng)
        b = s.encode('utf-8', 'replace')
        k = rng.random()
        if k < 0.4 and b:
            b = b[:rng.randrange(0, len(b))]; feats = {'truncated'}
        else:
            b = bytearray(b)
            for _ in range(rng.randrange(1, 4)):
                if b:
                    b[rng.randrange(0, len(b))] = rng.randrange(0, 256)
            b = bytes(b); feats = {'perturbed'}
    elif r < 0.85:
        depth = rng.randrange(50, 3000)
        b = (b'[' * depth) if rng.random() < 0.5 else (b'{"a":' * depth)
        feats = {'deep_nesting'}
    else:
        b = ('{"mappings":"","version":%s}' % rng.choice(['1e999', '-0', '1' * 400, '0.' + '1' * 300, '1E-999'])).encode()
        feats = {'huge_number'}
    feats.add('nontrivial')
    return Case('jsond', {'d': b}, feats)
