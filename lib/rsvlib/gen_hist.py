"""History generators: ReplaceSource call histories (C05)."""
from .common import *
from . import gen_tree

def gen_rhist_many(rng):
    """many replacements sharing few keys, pushed out of key order (tie-breaking by insertion order
    only shows with more elements than a sort's small-input path)"""
    inner = ('raws', 'abcdefghij')
    keys = rng.sample([(0, 0), (2, 2), (2, 4), (5, 5), (7, 7), (7, 9), (10, 10), (12, 12)], rng.randrange(2, 5))
    n = rng.randrange(33, 80)
    ops = []
    for i in range(n):
        s, e = rng.choice(keys)
        ops.append(('mut', s, e, '<%d>' % i, None, rng.choice([1, 1, 1, 0, 2])))
        if rng.random() < 0.03:
            ops.append(('obs', rng.randrange(0, 8)))
    ops.append(('obs', rng.choice([0, 3, 6])))
    return Case('rhist', {'inner': inner, 'ops': ops}, {'nontrivial', 'many_equal_keys', 'equal_keys'})

def gen_rhist_case(rng, exhaustive=None):
    if rng.random() < 0.12:
        return gen_rhist_many(rng)
    multibyte = rng.random() < 0.5
    g = gen_tree.Gen(rng, gen_tree.Cfg(ascii=not multibyte, sms=0.0, cached=0.0, replace=0.0, bufs=0.1, invalid_utf8=0.2))
    inner = g.leaf() if rng.random() < 0.7 else g.node(1)
    inner_b = gen_tree.text_of(inner)
    n = weighted(rng, [(1, 1), (2, 2), (3, 3), (4, 3), (rng.randrange(5, 9), 3)])
    ops = []
    nmut = 0
    pending = g.replacements(inner_b)
    feats = set()
    for _ in range(n):
        r = rng.random()
        if r < 0.5:
            if not pending:
                pending = g.replacements(inner_b)
            if pending:
                # colliding keys: repeat the key of an earlier mutation
                rp = pending.pop()
                prev = [o for o in ops if o[0] == 'mut']
                if prev and rng.random() < 0.3:
                    rp = (prev[-1][1], prev[-1][2], rp[2], rp[3], rng.choice([0, 1, 2]))
                    feats.add('equal_keys')
                ops.append(('mut',) + rp)
                nmut += 1
        elif r < 0.92:
            ops.append(('obs', rng.randrange(0, 8)))
        else:
            ops.append(('clone',))
    ops.append(('obs', rng.choice([0, 1, 3, 4, 6])))
    if nmut >= 2:
        feats.add('nontrivial')
    if any(o[0] == 'obs' for o in ops[:-1]) and nmut >= 1:
        feats.add('observer_between_mutators')
    if any(b > 127 for b in inner_b):
        feats.add('multibyte')
    if any(o[0] == 'mut' and (o[1] > len(inner_b) or o[2] > len(inner_b)) for o in ops):
        feats.add('beyond_end')
    return Case('rhist', {'inner': inner, 'ops': ops}, feats)

def ser_rhist(obj):
    parts = ['rhist', gen_tree.ser_node(obj['inner']), str(len(obj['ops']))]
    for o in obj['ops']:
        if o[0] == 'mut':
            parts.append('mut %d %d %s %s %d' % (o[1], o[2], hx(o[3]), ohx(o[4]), o[5]))
        elif o[0] == 'obs':
            parts.append('obs %d' % o[1])
        else:
            parts.append('clone')
    return ' '.join(parts)

def shrink_rhist(obj):
    ops = obj['ops']
    for i in range(len(ops)):
        yield {'inner': obj['inner'], 'ops': ops[:i] + ops[i + 1:]}
    for i, o in enumerate(ops):
        if o[0] == 'mut':
            for c2 in gen_tree.shrink_text(o[3]):
                yield {'inner': obj['inner'], 'ops': ops[:i] + [('mut', o[1], o[2], c2, o[4], o[5])] + ops[i + 1:]}
            if o[5] != 1:
                yield {'inner': obj['inner'], 'ops': ops[:i] + [('mut', o[1], o[2], o[3], o[4], 1)] + ops[i + 1:]}
            if o[4] is not None:
                yield {'inner': obj['inner'], 'ops': ops[:i] + [('mut', o[1], o[2], o[3], None, o[5])] + ops[i + 1:]}
    for t2 in gen_tree.shrink_node(obj['inner']):
        b = gen_tree.text_of(t2)
        ok = lambda p: p >= len(b) or (b[p] & 0xC0) != 0x80
        if all(o[0] != 'mut' or (ok(o[1]) and ok(o[2])) for o in ops):
            yield {'inner': t2, 'ops': ops}

# ---------------------------------------------------------------------------
# histories of observers on trees (C10, C14) and pairs (C13, C14, C20)
# ---------------------------------------------------------------------------
import copy, re

HOPS = ['src', 'buf', 'size', 'rope', 'm1', 'm0', 's10', 's00', 's11', 's01', 'hash', 'cl']

def gen_hops(rng, maxlen=8, clone=True):
    n = weighted(rng, [(1, 1), (2, 2), (3, 3), (4, 3), (rng.randrange(5, maxlen + 1), 3)])
    pool = ['m1', 'm0', 's10', 's00', 'm1', 'm0', 's10', 's00', 's11', 's01', 'src', 'buf', 'size', 'rope', 'hash'] + (['cl'] if clone else [])
    return [rng.choice(pool) for _ in range(n)]

def ser_hops(ops):
    return ' '.join([str(len(ops))] + ops)

def gen_chist_case(rng, cfg):
    g = gen_tree.Gen(rng, cfg)
    d = weighted(rng, [(0, 1), (1, 3), (2, 4), (3, 2)])
    inner = g.node(d)
    t = ('cached', 99, inner)
    ops = gen_hops(rng)
    feats = gen_tree.kinds_of(t, set())
    if len(ops) >= 2 and len(gen_tree.text_of(t)) >= 2:
        feats.add('nontrivial')
    ms = [o for o in ops if o[0] in 'ms']
    if any(a[0] == 'm' and b[0] == 's' or a[0] == 's' and b[0] == 'm' for a, b in zip(ms, ms[1:])):
        feats.add('both_fill_paths')
    if len(set(o[1] for o in ms if len(o) > 1)) == 2:
        feats.add('both_column_settings')
    return Case('chist', {'t': t, 'ops': ops}, feats)

def gen_thist_case(rng, cfg):
    g = gen_tree.Gen(rng, cfg)
    t = g.node(weighted(rng, [(0, 1), (1, 3), (2, 4), (3, 2)]))
    ops = gen_hops(rng)
    feats = gen_tree.kinds_of(t, set())
    if len(ops) >= 2 and len(gen_tree.text_of(t)) >= 2:
        feats.add('nontrivial')
    return Case('thist', {'t': t, 'ops': ops}, feats)

def gen_fhist_case(rng, cfg):
    """free-running threads on one shared tree without CachedSource nodes (lazy decode of binary
    leaves, lazy sort of ReplaceSource): every answer is a function of the tree alone"""
    g = gen_tree.Gen(rng, cfg)
    t = g.node(weighted(rng, [(0, 2), (1, 3), (2, 4), (3, 2)]))
    nthreads = weighted(rng, [(2, 3), (3, 2), (4, 1)])
    # the first call of every thread tends to be one that triggers the lazy work
    progs = []
    for _ in range(nthreads):
        ops = gen_hops(rng, maxlen=5)
        if rng.random() < 0.6:
            ops[0] = rng.choice(['src', 'rope', 's10', 'm1', 'hash', 'size'])
        progs.append(ops)
    feats = gen_tree.kinds_of(t, set())
    feats.add('free_running')
    if len(gen_tree.text_of(t)) >= 2:
        feats.add('nontrivial')
    return Case('fhist', {'t': t, 'progs': progs}, feats)

def ser_fhist(obj):
    return 'fhist %s %d %s' % (gen_tree.ser_node(obj['t']), len(obj['progs']), ' '.join(ser_hops(p) for p in obj['progs']))

def shrink_fhist(obj):
    progs = obj['progs']
    for i in range(len(progs)):
        if len(progs) > 1:
            yield {'t': obj['t'], 'progs': progs[:i] + progs[i + 1:]}
        for j in range(len(progs[i])):
            yield {'t': obj['t'], 'progs': progs[:i] + [progs[i][:j] + progs[i][j + 1:]] + progs[i + 1:]}
    for c2 in gen_tree.shrink_node(obj['t']):
        yield {'t': c2, 'progs': progs}

def ser_hist(kind):
    return lambda obj: '%s %s %s' % (kind, gen_tree.ser_node(obj['t']), ser_hops(obj['ops']))

def shrink_hist(obj):
    ops = obj['ops']
    for i in range(len(ops)):
        yield {'t': obj['t'], 'ops': ops[:i] + ops[i + 1:]}
    t = obj['t']
    if t[0] == 'cached' and t[1] == 99:
        for c2 in gen_tree.shrink_node(t[2]):
            yield {'t': ('cached', 99, c2), 'ops': ops}
    else:
        for c2 in gen_tree.shrink_node(t):
            yield {'t': c2, 'ops': ops}

# ---- pairs ----
def ser_pair(obj):
    return 'pair %d %s %s %s %s' % (1 if obj.get('relaxed') else 0, gen_tree.ser_node(obj['a']), ser_hops(obj.get('opsa', [])),
                                    gen_tree.ser_node(obj['b']), ser_hops(obj.get('opsb', [])))

def shrink_pair(obj):
    for k in ('opsa', 'opsb'):
        ops = obj.get(k, [])
        for i in range(len(ops)):
            o2 = dict(obj); o2[k] = ops[:i] + ops[i + 1:]
            yield o2
    if obj.get('law') is None:
        for a2 in gen_tree.shrink_node(obj['a']):
            o2 = dict(obj); o2['a'] = a2
            yield o2
        for b2 in gen_tree.shrink_node(obj['b']):
            o2 = dict(obj); o2['b'] = b2
            yield o2
    else:
        # keep the law: shrink the ingredients and rebuild both sides
        parts = obj['parts']
        for i, p in enumerate(parts):
            for p2 in gen_tree.shrink_node(p):
                ps = parts[:i] + [p2] + parts[i + 1:]
                a, b, relaxed = apply_law(obj['law'], ps, obj.get('law_arg'))
                o2 = dict(obj); o2.update({'a': a, 'b': b, 'parts': ps, 'relaxed': relaxed})
                yield o2

def renumber(n, off):
    """fresh cache ids for a copy of a subtree"""
    k = n[0]
    if k == 'cached':
        return ('cached', n[1] + off, renumber(n[2], off))
    if k == 'concat':
        return ('concat', n[1], [(t, renumber(c, off)) for t, c in n[2]])
    if k == 'repl':
        return ('repl', renumber(n[1], off), n[2])
    return n

LAWS = ['nest_typed', 'nest_boxed', 'add_later', 'single_child', 'empty_neighbours', 'replace_none',
        'replace_empty_insertions', 'cached', 'nest_typed_left', 'concat_of_concats']

def apply_law(law, parts, arg=None):
    a, b, c = parts[0], parts[1], parts[2]
    B = lambda x: (False, x)
    T = lambda x: (True, x)
    flat = ('concat', 'new', [B(a), B(b), B(c)])
    relaxed = False
    if law == 'nest_typed':
        lhs = ('concat', 'new', [B(a), T(('concat', 'new', [B(b), B(c)]))])
        rhs = flat
    elif law == 'nest_typed_left':
        lhs = ('concat', 'new', [T(('concat', 'new', [B(a), B(b)])), B(c)])
        rhs = flat
    elif law == 'nest_boxed':
        lhs = ('concat', 'new', [B(a), B(('concat', 'new', [B(b), B(c)]))])
        rhs = flat
    elif law == 'concat_of_concats':
        lhs = ('concat', 'new', [T(('concat', 'new', [B(a)])), T(('concat', 'add', [B(b), B(c)]))])
        rhs = flat
    elif law == 'add_later':
        lhs = ('concat', 'add', [B(a), B(b), B(c)])
        rhs = flat
    elif law == 'single_child':
        lhs = ('concat', 'new', [B(a)]); rhs = a
    elif law == 'empty_neighbours':
        e1 = arg[0]; e2 = arg[1]
        lhs = ('concat', 'new', [B(e1), B(a), B(e2)]); rhs = a
    elif law == 'replace_none':
        lhs = ('repl', a, []); rhs = a
    elif law == 'replace_empty_insertions':
        lhs = ('repl', a, [(p, p, '', None, enf) for (p, enf) in arg]); rhs = a
        relaxed = True
    elif law == 'cached':
        lhs = ('cached', 77, a); rhs = a
    return lhs, renumber(rhs, 1000), relaxed

def gen_law_case(rng, cfg):
    g = gen_tree.Gen(rng, cfg)
    parts = [g.node(weighted(rng, [(0, 2), (1, 3), (2, 3)])) for _ in range(3)]
    law = rng.choice(LAWS)
    arg = None
    if law == 'empty_neighbours':
        empties = [('raws', ''), ('rstr', ''), ('orig', '', g.file_name('')), ('concat', 'new', []), ('rbuf', b'')]
        arg = (rng.choice(empties), rng.choice(empties))
    if law == 'replace_empty_insertions':
        n = len(gen_tree.text_of(parts[0]))
        arg = [(rng.randrange(0, n + 2), rng.choice([0, 1, 2])) for _ in range(rng.randrange(1, 4))]
    a, b, relaxed = apply_law(law, parts, arg)
    feats = {'law_' + law} | gen_tree.kinds_of(a, set())
    if len(gen_tree.text_of(a)) >= 2:
        feats.add('nontrivial')
    return Case('pair', {'a': a, 'b': b, 'relaxed': relaxed, 'law': law, 'parts': parts, 'law_arg': arg,
                         'opsa': [], 'opsb': []}, feats)

# ---- one-edit mutations of a tree (C14 unequal pairs, C20) ----
def nodes_of(n, path=()):
    yield path, n
    if n[0] == 'concat':
        for i, (_, c) in enumerate(n[2]):
            yield from nodes_of(c, path + (i,))
    elif n[0] == 'repl':
        yield from nodes_of(n[1], path + (0,))
    elif n[0] == 'cached':
        yield from nodes_of(n[2], path + (0,))

def replace_at(n, path, new):
    if not path:
        return new
    i = path[0]
    if n[0] == 'concat':
        items = list(n[2]); items[i] = (items[i][0] and new[0] == 'concat', replace_at(items[i][1], path[1:], new))
        return ('concat', n[1], items)
    if n[0] == 'repl':
        inner = replace_at(n[1], path[1:], new)
        return ('repl', inner, n[2])
    if n[0] == 'cached':
        return ('cached', n[1], replace_at(n[2], path[1:], new))

def edit_text(rng, s):
    if isinstance(s, bytes):
        alpha = [b'a', b'b', b'\n']
        if not s or rng.random() < 0.4:
            i = rng.randrange(0, len(s) + 1); return s[:i] + rng.choice(alpha) + s[i:]
        i = rng.randrange(0, len(s))
        return s[:i] + s[i + 1:] if rng.random() < 0.5 else s[:i] + (b'z' if s[i:i + 1] != b'z' else b'y') + s[i + 1:]
    if not s or rng.random() < 0.4:
        i = rng.randrange(0, len(s) + 1); return s[:i] + rng.choice(['a', ';', '\n']) + s[i:]
    i = rng.randrange(0, len(s))
    return s[:i] + s[i + 1:] if rng.random() < 0.5 else s[:i] + ('z' if s[i] != 'z' else 'y') + s[i + 1:]

def edit_map(rng, m):
    m = dict(m)
    k = rng.choice(['mappings', 'sources', 'contents', 'names', 'file', 'root', 'debug'])
    if k == 'mappings':
        segs = list(m.get('segs') or [])
        if segs and rng.random() < 0.7:
            i = rng.randrange(0, len(segs))
            gl, gc, o = segs[i]
            if o is None:
                segs[i] = (gl, gc, (0, 1, 0, None))
            else:
                segs[i] = (gl, gc, (o[0], o[1] + 1, o[2], o[3]))
            m['segs'] = segs; m['mappings'] = gen_tree.encode_segments(segs)
        else:
            m['mappings'] = m['mappings'] + ';AAAA'
            m['segs'] = None
    elif k in ('sources', 'contents', 'names'):
        l = list(m[k])
        if l and rng.random() < 0.6:
            i = rng.randrange(0, len(l)); l[i] = l[i] + 'x'
        else:
            l.append('added')
        m[k] = l
    else:
        m[k] = 'x' if m[k] is None else (None if rng.random() < 0.5 else m[k] + 'y')
    return m

def one_edit(rng, t):
    """returns (edited tree, kind of edit) - the edit changes something constructor-visible"""
    nodes = list(nodes_of(t))
    for _ in range(20):
        path, n = rng.choice(nodes)
        k = n[0]
        if k in ('raws', 'rstr'):
            r = rng.random()
            if r < 0.6:
                return replace_at(t, path, (k, edit_text(rng, n[1]))), 'leaf_text'
            return replace_at(t, path, ('rstr' if k == 'raws' else 'raws', n[1])), 'leaf_type'
        if k in ('rawb', 'rbuf'):
            if rng.random() < 0.7:
                return replace_at(t, path, (k, edit_text(rng, n[1]))), 'leaf_text'
            return replace_at(t, path, ('rbuf' if k == 'rawb' else 'rawb', n[1])), 'leaf_type'
        if k == 'orig':
            if rng.random() < 0.5:
                return replace_at(t, path, ('orig', edit_text(rng, n[1]), n[2])), 'leaf_text'
            return replace_at(t, path, ('orig', n[1], n[2] + 'x')), 'original_name'
        if k == 'sms':
            _, value, name, m, orig, inner, remove = n
            c = rng.choice(['value', 'map', 'orig', 'inner', 'remove', 'name'])
            if c == 'value':
                return replace_at(t, path, (k, edit_text(rng, value), name, m, orig, inner, remove)), 'leaf_text'
            if c == 'map':
                return replace_at(t, path, (k, value, name, edit_map(rng, m), orig, inner, remove)), 'attached_map'
            if c == 'orig':
                return replace_at(t, path, (k, value, name, m, 'o' if orig is None else orig + 'x', inner, remove)), 'original_source'
            if c == 'inner' and inner is not None:
                return replace_at(t, path, (k, value, name, m, orig, edit_map(rng, inner), remove)), 'inner_map'
            if c == 'remove' and inner is not None:
                return replace_at(t, path, (k, value, name, m, orig, inner, not remove)), 'remove_flag'
            if c == 'name':
                return replace_at(t, path, (k, value, name + 'x', m, orig, inner, remove)), 'sms_name'
            continue
        if k == 'concat':
            items = list(n[2])
            if items and rng.random() < 0.5:
                i = rng.randrange(0, len(items))
                return replace_at(t, path, ('concat', n[1], items[:i] + items[i + 1:])), 'child_removed'
            i = rng.randrange(0, len(items) + 1)
            return replace_at(t, path, ('concat', n[1], items[:i] + [(False, ('raws', 'q'))] + items[i:])), 'child_added'
        if k == 'repl':
            rs = list(n[2])
            if rs:
                i = rng.randrange(0, len(rs))
                s, e, c, nm, enf = rs[i]
                ch = rng.choice(['range', 'content', 'name', 'enforce', 'drop'])
                if ch == 'range':
                    # positions are u32: at the maximum the edit moves the start down instead
                    rs[i] = (s, e + 1, c, nm, enf) if e < 4294967295 else (max(0, s - 1) if s > 0 else s, e, c + 'r', nm, enf)
                elif ch == 'content':
                    rs[i] = (s, e, c + 'k', nm, enf)
                elif ch == 'name':
                    rs[i] = (s, e, c, 'nn' if nm is None else None, enf)
                elif ch == 'enforce':
                    rs[i] = (s, e, c, nm, (enf + 1) % 3)
                else:
                    rs = rs[:i] + rs[i + 1:]
                return replace_at(t, path, ('repl', n[1], rs)), 'replacement_' + ch
            return replace_at(t, path, ('repl', n[1], [(0, 0, 'ins', None, 1)])), 'replacement_added'
        if k == 'cached':
            continue
    return ('concat', 'new', [(False, t), (False, ('raws', 'q'))]), 'child_added'

def hash_invisible_edit(rng, t):
    """an edit that == sees but the hash deliberately does not: SourceMapSource name, RawSource
    string vs buffer, insertion order of replacements"""
    nodes = list(nodes_of(t))
    rng.shuffle(nodes)
    for path, n in nodes:
        if n[0] == 'sms':
            return replace_at(t, path, (n[0], n[1], n[2] + 'x', n[3], n[4], n[5], n[6])), 'sms_name'
        if n[0] == 'raws':
            return replace_at(t, path, ('rawb', n[1].encode())), 'raw_string_vs_buffer'
        if n[0] == 'repl' and len(n[2]) >= 2 and n[2][0][:2] != n[2][1][:2]:
            rs = list(n[2]); rs[0], rs[1] = rs[1], rs[0]
            return replace_at(t, path, ('repl', n[1], rs)), 'replacement_order'
    return None, None

def gen_hash_equal_pair(rng, cfg):
    """two unequal trees with identical hasher streams, both behind a CachedSource, both hashed"""
    for _ in range(20):
        g = gen_tree.Gen(rng, cfg)
        a = g.node(weighted(rng, [(0, 2), (1, 3), (2, 3)]))
        b, kind = hash_invisible_edit(rng, a)
        if b is not None:
            break
    else:
        return gen_edit_pair(rng, cfg)
    wrap = rng.random() < 0.7
    if wrap:
        a = ('cached', 500, a); b = ('cached', 501, renumber(b, 1000))
    else:
        b = renumber(b, 1000)
    pre = lambda: [rng.choice(['hash', 'src', 'm1', 's10']) for _ in range(rng.randrange(0, 3))] + (['hash'] if rng.random() < 0.8 else [])
    return Case('pair', {'a': a, 'b': b, 'relaxed': False, 'law': None, 'opsa': pre(), 'opsb': pre()},
                {'nontrivial', 'edit_' + kind, 'hash_equal_unequal_trees', 'observers_before_compare'} | ({'cached_wrapper'} if wrap else set()))

def gen_edit_pair(rng, cfg, with_ops=True):
    g = gen_tree.Gen(rng, cfg)
    a = g.node(weighted(rng, [(0, 2), (1, 3), (2, 3), (3, 2)]))
    r = rng.random()
    if r < 0.25:
        b, kind = copy.deepcopy(a), 'identical'
    elif r < 0.9:
        b, kind = one_edit(rng, a)
    else:
        b, kind = gen_tree.Gen(rng, cfg).node(2), 'independent'
    b = renumber(b, 1000)
    feats = {'edit_' + kind} | gen_tree.kinds_of(a, set())
    feats.add('nontrivial')
    opsa = gen_hops(rng, 5) if with_ops and rng.random() < 0.6 else []
    opsb = gen_hops(rng, 5) if with_ops and rng.random() < 0.4 else []
    if opsa or opsb:
        feats.add('observers_before_compare')
    return Case('pair', {'a': a, 'b': b, 'relaxed': False, 'law': None, 'opsa': opsa, 'opsb': opsb}, feats)

def gen_first_observer_pair(rng):
    """identical trees with a CachedSource over map-carrying leaves, observed in a different ORDER on
    the two sides: one side fills the cache by streaming, the other by map() (or not at all) - equal
    values must answer alike whichever path filled their caches"""
    cfg = gen_tree.Cfg(ascii=True, sms=0.6, cached=0.0, replace=0.0, warm=0.0, names=0.5)
    g = gen_tree.Gen(rng, cfg)
    inner = g.leaf() if rng.random() < 0.5 else g.node(1)
    a = ('cached', 1, inner)
    feats0 = set()
    if rng.random() < 0.25:
        # the padding shape of K7: inside the cache a content-less file is announced before a file
        # with content; a sibling outside the cache announces that second file first
        m = {'mappings': 'AAAA', 'sources': ['s1.js'], 'contents': [], 'names': [], 'file': None, 'root': None, 'debug': None}
        sms = ('sms', g.text(4) or 'ab', 'gen.js', m, None, None, False)
        og = g.orig()
        a = ('concat', 'new', [(False, og), (False, ('cached', 1, ('concat', 'new', [(False, sms), (False, copy.deepcopy(og))])))])
        if rng.random() < 0.5:
            a = ('cached', 1, ('concat', 'new', [(False, sms), (False, og)]))
        feats0.add('content_gap_in_cache')
    elif rng.random() < 0.4:
        a = ('concat', 'new', [(False, a), (False, g.leaf())])
    b = renumber(copy.deepcopy(a), 1000)
    streams, maps = ['s10', 's00', 's11', 's01'], ['m1', 'm0']
    opsa = [rng.choice(streams)] + (gen_hops(rng, 5)[:2] if rng.random() < 0.5 else [])
    opsb = ([rng.choice(maps)] if rng.random() < 0.6 else []) + (gen_hops(rng, 5)[:2] if rng.random() < 0.3 else [])
    if rng.random() < 0.5:
        opsa, opsb = opsb, opsa
    feats = {'edit_identical', 'nontrivial', 'observers_before_compare', 'first_observer_differs'} | feats0 | gen_tree.kinds_of(a, set())
    return Case('pair', {'a': a, 'b': b, 'relaxed': False, 'law': None, 'opsa': opsa, 'opsb': opsb}, feats)

U64 = re.compile(r'u64:\d+')
def mask_u64(kvs):
    return {k: U64.sub('u64:*', v) if isinstance(v, str) else v for k, v in kvs.items()}
