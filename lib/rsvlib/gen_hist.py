"""History generators: ReplaceSource call histories (C05)."""
from .common import *
from . import gen_tree

def gen_rhist_case(rng, exhaustive=None):
    multibyte = rng.random() < 0.5
    g = gen_tree.Gen(rng, gen_tree.Cfg(ascii=not multibyte, sms=0.0, cached=0.0, replace=0.0, bufs=0.1, invalid_utf8=0.2))
    inner = g.leaf() if rng.random() < 0.7 else g.node(1)
    inner_b = gen_tree.text_of(inner)
    n = weighted(rng, [(1, 1), (2, 2), (3, 3), (4, 3), (rng.randrange(5, 9), 3)])
    ops = []
    nmut = 0
    pending = g.replacements(inner_b)
    feats = set()
    for _ in range(n):
        r = rng.random()
        if r < 0.5:
            if not pending:
                pending = g.replacements(inner_b)
            if pending:
                # colliding keys: repeat the key of an earlier mutation
                rp = pending.pop()
                prev = [o for o in ops if o[0] == 'mut']
                if prev and rng.random() < 0.3:
                    rp = (prev[-1][1], prev[-1][2], rp[2], rp[3], rng.choice([0, 1, 2]))
                    feats.add('equal_keys')
                ops.append(('mut',) + rp)
                nmut += 1
        elif r < 0.92:
            ops.append(('obs', rng.randrange(0, 8)))
        else:
            ops.append(('clone',))
    ops.append(('obs', rng.choice([0, 1, 3, 4, 6])))
    if nmut >= 2:
        feats.add('nontrivial')
    if any(o[0] == 'obs' for o in ops[:-1]) and nmut >= 1:
        feats.add('observer_between_mutators')
    if any(b > 127 for b in inner_b):
        feats.add('multibyte')
    if any(o[0] == 'mut' and (o[1] > len(inner_b) or o[2] > len(inner_b)) for o in ops):
        feats.add('beyond_end')
    return Case('rhist', {'inner': inner, 'ops': ops}, feats)

def ser_rhist(obj):
    parts = ['rhist', gen_tree.ser_node(obj['inner']), str(len(obj['ops']))]
    for o in obj['ops']:
        if o[0] == 'mut':
            parts.append('mut %d %d %s %s %d' % (o[1], o[2], hx(o[3]), ohx(o[4]), o[5]))
        elif o[0] == 'obs':
            parts.append('obs %d' % o[1])
        else:
            parts.append('clone')
    return ' '.join(parts)

def shrink_rhist(obj):
    ops = obj['ops']
    for i in range(len(ops)):
        yield {'inner': obj['inner'], 'ops': ops[:i] + ops[i + 1:]}
    for i, o in enumerate(ops):
        if o[0] == 'mut':
            for c2 in gen_tree.shrink_text(o[3]):
                yield {'inner': obj['inner'], 'ops': ops[:i] + [('mut', o[1], o[2], c2, o[4], o[5])] + ops[i + 1:]}
            if o[5] != 1:
                yield {'inner': obj['inner'], 'ops': ops[:i] + [('mut', o[1], o[2], o[3], o[4], 1)] + ops[i + 1:]}
            if o[4] is not None:
                yield {'inner': obj['inner'], 'ops': ops[:i] + [('mut', o[1], o[2], o[3], None, o[5])] + ops[i + 1:]}
    for t2 in gen_tree.shrink_node(obj['inner']):
        b = gen_tree.text_of(t2)
        ok = lambda p: p >= len(b) or (b[p] & 0xC0) != 0x80
        if all(o[0] != 'mut' or (ok(o[1]) and ok(o[2])) for o in ops):
            yield {'inner': t2, 'ops': ops}
