"""Rope program generator (C16, C19)."""
from .common import *

PIECES = ['', 'a', 'b\n', 'é', '\n', 'ab', '€x', '😀', 'c\nd', ';', 'xyz\n', '\n\n', 'é\né']

def gen_piece(rng):
    if rng.random() < 0.8:
        return rng.choice(PIECES)
    return ''.join(rng.choice(['a', 'b', '\n', 'é', '€', '😀', ';', ' ']) for _ in range(rng.randrange(0, 6)))

def text_of(p):
    """flat string of a program, or None if invalid (python reference used only for generation)"""
    k = p[0]
    if k == 'new':
        return ''
    if k == 'from':
        return p[1]
    if k == 'iter':
        return ''.join(p[1])
    if k == 'add':
        s = text_of(p[1]); return None if s is None else s + p[2]
    if k == 'app':
        a, b = text_of(p[1]), text_of(p[2])
        return None if a is None or b is None else a + b
    if k == 'slice':
        s = text_of(p[1])
        if s is None:
            return None
        bs = s.encode()
        a, b = p[2], p[3]
        if not (a <= b <= len(bs)):
            return None
        try:
            bs[:a].decode(); bs[a:b].decode(); bs[b:].decode()
        except UnicodeDecodeError:
            return None
        return bs[a:b].decode()
    if k == 'line':
        s = text_of(p[1])
        if s is None:
            return None
        ls = s.split('\n')
        lines = [x + '\n' for x in ls[:-1]] + ([ls[-1]] if ls[-1] != '' else [])
        if p[2] and (s == '' or s.endswith('\n')):
            lines.append('')
        return lines[p[3]] if p[3] < len(lines) else None

def gen_prog(rng, depth):
    if depth == 0:
        k = weighted(rng, [('new', 1), ('from', 4), ('iter', 3)])
    else:
        k = weighted(rng, [('new', 0.3), ('from', 1), ('iter', 1), ('add', 3), ('app', 3), ('slice', 2.5), ('line', 1)])
    if k == 'new':
        return ('new',)
    if k == 'from':
        return ('from', gen_piece(rng))
    if k == 'iter':
        return ('iter', [gen_piece(rng) for _ in range(rng.randrange(0, 5))])
    if k == 'add':
        return ('add', gen_prog(rng, depth - 1), gen_piece(rng))
    if k == 'app':
        return ('app', gen_prog(rng, depth - 1), gen_prog(rng, depth - 1))
    if k == 'slice':
        p = gen_prog(rng, depth - 1)
        s = text_of(p)
        n = len(s.encode()) if s is not None else 3
        if rng.random() < 0.85 and s is not None:
            # mostly valid: pick char boundaries
            bs = s.encode()
            bounds = [i for i in range(n + 1) if i == n or (bs[i] & 0xC0) != 0x80]
            a = rng.choice(bounds); b = rng.choice([x for x in bounds if x >= a])
        else:
            a = rng.randrange(0, n + 2); b = rng.randrange(0, n + 2)
        return ('slice', p, a, b)
    if k == 'line':
        p = gen_prog(rng, depth - 1)
        return ('line', p, rng.random() < 0.5, rng.randrange(0, 3))

def ser_prog(p):
    k = p[0]
    if k == 'new':
        return 'new'
    if k == 'from':
        return 'from ' + hx(p[1])
    if k == 'iter':
        return ' '.join(['iter', str(len(p[1]))] + [hx(x) for x in p[1]])
    if k == 'add':
        return 'add %s %s' % (ser_prog(p[1]), hx(p[2]))
    if k == 'app':
        return 'app %s %s' % (ser_prog(p[1]), ser_prog(p[2]))
    if k == 'slice':
        return 'slice %s %d %d' % (ser_prog(p[1]), p[2], p[3])
    if k == 'line':
        return 'line %s %d %d' % (ser_prog(p[1]), 1 if p[2] else 0, p[3])

def ser_rope(obj):
    return 'rope %s %s' % (ser_prog(obj['p']), ser_prog(obj['q']))

def ops_of(p, acc):
    acc.add(p[0])
    for x in p[1:]:
        if isinstance(x, tuple):
            ops_of(x, acc)
    return acc

def related(rng, p):
    """a second program denoting an equal / prefix / near string in a different piece division"""
    s = text_of(p)
    if s is None:
        return gen_prog(rng, 2)
    r = rng.random()
    if r < 0.3:
        t = s
    elif r < 0.6:
        t = s[:rng.randrange(0, len(s) + 1)]
    elif r < 0.75 and s:
        i = rng.randrange(0, len(s))
        t = s[:i] + rng.choice(['a', 'é', 'b', '\n']) + s[i + 1:]
    else:
        return gen_prog(rng, 2)
    # random division into pieces
    cuts = sorted(rng.sample(range(len(t) + 1), min(len(t) + 1, rng.randrange(0, 4))))
    parts = [t[a:b] for a, b in zip([0] + cuts, cuts + [len(t)])]
    k = rng.random()
    if k < 0.4:
        return ('iter', parts)
    q = ('from', parts[0])
    for x in parts[1:]:
        q = ('add', q, x) if rng.random() < 0.5 else ('app', q, ('from', x))
    return q

def gen_case(rng, maxdepth=4):
    d = weighted(rng, [(0, 1), (1, 2), (2, 3), (3, 3), (maxdepth, 2)])
    p = gen_prog(rng, d)
    q = related(rng, p) if rng.random() < 0.7 else gen_prog(rng, rng.randrange(0, 3))
    feats = set()
    ops = ops_of(p, set())
    feats |= {'op_' + o for o in ops}
    s = text_of(p)
    if s is None:
        feats.add('invalid_program')
    else:
        if len(s) >= 2 and d >= 1:
            feats.add('nontrivial')
        if any(ord(c) > 127 for c in s):
            feats.add('multibyte')
        if s == '' and d >= 1:
            feats.add('empty_multi_piece')
        s2 = text_of(q)
        if s2 is not None:
            if s2 == s: feats.add('pair_equal')
            elif s.startswith(s2): feats.add('pair_prefix')
    return Case('rope', {'p': p, 'q': q}, feats)

def shrink_prog(p):
    k = p[0]
    if k in ('add', 'slice', 'line'):
        yield p[1]
    if k == 'app':
        yield p[1]; yield p[2]
    if k == 'from' and p[1]:
        for i in range(len(p[1])):
            yield ('from', p[1][:i] + p[1][i + 1:])
    if k == 'iter':
        for i in range(len(p[1])):
            yield ('iter', p[1][:i] + p[1][i + 1:])
        for i, x in enumerate(p[1]):
            for j in range(len(x)):
                yield ('iter', p[1][:i] + [x[:j] + x[j + 1:]] + p[1][i + 1:])
    if k == 'add':
        for sp in shrink_prog(p[1]):
            yield ('add', sp, p[2])
        for j in range(len(p[2])):
            yield ('add', p[1], p[2][:j] + p[2][j + 1:])
    if k == 'app':
        for sp in shrink_prog(p[1]):
            yield ('app', sp, p[2])
        for sp in shrink_prog(p[2]):
            yield ('app', p[1], sp)
    if k == 'slice':
        for sp in shrink_prog(p[1]):
            yield ('slice', sp, p[2], p[3])
        if p[2] > 0:
            yield ('slice', p[1], p[2] - 1, p[3])
        if p[3] > 0:
            yield ('slice', p[1], p[2], p[3] - 1)
    if k == 'line':
        for sp in shrink_prog(p[1]):
            yield ('line', sp, p[2], p[3])
        if p[3] > 0:
            yield ('line', p[1], p[2], p[3] - 1)

def shrink_rope(obj):
    yield {'p': obj['p'], 'q': ('new',)}
    for sp in shrink_prog(obj['p']):
        yield {'p': sp, 'q': obj['q']}
    for sq in shrink_prog(obj['q']):
        yield {'p': obj['p'], 'q': sq}
