"""Source tree generator (C01-C04, C06-C11, C13, C17 ...).

Nodes:
 ('raws', str) ('rawb', bytes) ('rstr', str) ('rbuf', bytes) ('orig', str, name)
 ('sms'|'usr', value, name, map, orig|None, inner_map|None, remove)
 ('concat', 'new'|'add', [(typed, node)])   ('repl', node, [(start, end, content, name|None, enforce)])
 ('cached', id, node)
map = dict(mappings, sources, contents, names, file, root, debug)
"""
from .common import *
from .gen_codec import vlq

ASCII_ALPHA = ['a', 'b', ';', '{', '}', ' ', '\t', '\r', '\n', '\n']
MB_ALPHA = ['a', 'é', '€', '😀', '\n', ';', 'b']

class Cfg:
    def __init__(self, **kw):
        self.ascii = True
        self.sms = 0.15          # probability weight of SourceMapSource leaves
        self.usr = 0.0
        self.inner = 0.0         # fraction of sms leaves with inner map
        self.wild = 0.0          # fraction of sms leaves with wild (inconsistent but sorted) maps
        self.cached = 0.12
        self.replace = 0.2
        self.warm = 0.5          # probability that a cached node gets warm-up ops
        self.replay_family = 0.12  # share of cases of the shape Concat[.., warm Cached(multi-piece), mapped ..]
        self.bufs = 0.1          # binary leaves
        self.invalid_utf8 = 0.0
        self.maxdepth = 4
        self.names = 0.4
        self.cached_under_replace = True
        self.root = 0.3
        for k, v in kw.items():
            setattr(self, k, v)

class Gen:
    def __init__(self, rng, cfg):
        self.rng = rng
        self.cfg = cfg
        self.next_id = 1
        self.files = {}          # content -> name (names are a function of the content)
        self.warm = []
        self.with_contents = rng.random() < 0.7   # one decision per case: a shared name carries the same content everywhere
        self.ninner = 0

    def text(self, maxlen=12):
        r = self.rng
        n = weighted(r, [(0, 1), (1, 1), (2, 2), (3, 3), (r.randrange(4, 8), 4), (r.randrange(8, max(9, maxlen + 1)), 2)])
        n = min(n, maxlen)
        alpha = ASCII_ALPHA if self.cfg.ascii or r.random() < 0.5 else MB_ALPHA
        return ''.join(r.choice(alpha) for _ in range(n))

    def file_name(self, content):
        if content not in self.files:
            self.files[content] = 'f%d.js' % len(self.files)
        return self.files[content]

    def orig(self):
        r = self.rng
        if self.files and r.random() < 0.25:
            content = r.choice(list(self.files.keys()))
        else:
            content = self.text()
        return ('orig', content, self.file_name(content))

    # ---- source maps ----
    def consistent_map(self, value, nsources=None, inner_name=None, full=False):
        """segments strictly increasing, inside `value`, indices inside the tables"""
        r = self.rng
        lines = value.split('\n')
        nlines = len(lines) if lines[-1] != '' else len(lines) - 1
        ns = nsources if nsources is not None else weighted(r, [(1, 4), (2, 3), (3, 2)])
        sources, contents = [], []
        for i in range(ns):
            c = self.text(10)
            # source-map sources live in their own namespace; name determined by content
            nm = 's%d.js' % (abs(hash_str(c)) % 7)
            c = content_for(nm, c)
            sources.append(nm); contents.append(c)
        # distinct names
        seen = {}
        for i, nm in enumerate(sources):
            if nm in seen:
                contents[i] = contents[seen[nm]]
            seen[nm] = i
        if inner_name is not None:
            k = r.randrange(0, ns)
            sources[k] = inner_name
        with_contents = self.with_contents
        nn = weighted(r, [(0, 3), (1, 2), (2, 2), (3, 1)])
        names = [r.choice(['n1', 'n2', 'a', 'b', 'ab']) for _ in range(nn)]
        segs = []
        for li in range(nlines):
            line = lines[li]
            width = len(line)     # ascii: chars == bytes
            if r.random() < 0.25:
                continue
            ncol = weighted(r, [(1, 3), (2, 3), (3, 2), (4, 1)])
            cols = sorted(set(r.randrange(0, width + 1) for _ in range(ncol))) if width > 0 else [0]
            if r.random() < 0.6 and 0 not in cols:
                cols = [0] + cols
            for c in cols:
                if r.random() < 0.2:
                    segs.append((li + 1, c, None))
                else:
                    si = r.randrange(0, ns)
                    src_lines = contents[si].split('\n')
                    ol = r.randrange(1, max(2, len(src_lines) + 1))
                    oc = r.randrange(0, 6)
                    ni = r.randrange(0, nn) if nn > 0 and r.random() < self.cfg.names else None
                    prev = segs[-1] if segs and segs[-1][0] == li + 1 and segs[-1][2] is not None else None
                    if prev is not None and r.random() < 0.2:
                        # the same original location as the previous segment of the line, named differently
                        # (or not at all): only the name tells the two apart
                        psi, pol, poc, pni = prev[2]
                        others = [x for x in list(range(nn)) + [None] if x != pni]
                        si, ol, oc, ni = psi, pol, poc, (r.choice(others) if others else pni)
                    segs.append((li + 1, c, (si, ol, oc, ni)))
        if with_contents and ns > 1 and inner_name is None and not full and r.random() < 0.15:
            # sourcesContent shorter than sources: the last files carry no content
            contents = contents[:r.randrange(1, ns)]
        return {'mappings': encode_segments(segs, r), 'sources': sources,
                'contents': contents if with_contents else [], 'names': names,
                'file': None if r.random() < 0.8 else 'out.js',
                'root': weighted(r, [(None, 6), ('', 1), ('r', 1), ('r/', 1), ('/', 0.5), ('webpack:///', 0.7), ('file://', 0.5), ('a//b//', 0.3)]) if r.random() < self.cfg.root else None,
                'debug': None if r.random() < 0.9 else 'dbg-1', 'segs': segs}

    def wild_map(self, value):
        """sorted by (line, column) but outside the text and the tables; original line may be 0"""
        r = self.rng
        segs = []
        line, col = 1, 0
        for _ in range(r.randrange(0, 7)):
            if r.random() < 0.4:
                line += r.randrange(1, 4); col = r.randrange(0, 9)
            else:
                col += r.randrange(0 if not segs else 1, 9)
            if r.random() < 0.2:
                segs.append((line, col, None))
            else:
                segs.append((line, col, (r.randrange(0, 5), r.randrange(0, 6), r.randrange(0, 20),
                                         r.randrange(0, 5) if r.random() < 0.4 else None)))
        ns = r.randrange(0, 3)
        return {'mappings': encode_segments(segs, r), 'sources': ['w%d.js' % i for i in range(ns)],
                'contents': [self.text(8) for _ in range(r.randrange(0, ns + 1))],
                'names': ['n%d' % i for i in range(r.randrange(0, 3))],
                'file': None, 'root': None, 'debug': None, 'segs': segs}

    def sms(self, kind='sms'):
        r = self.rng
        value = self.text()
        name = 'gen%d.js' % r.randrange(0, 3)
        if kind == 'sms' and r.random() < self.cfg.wild:
            if r.random() < self.cfg.inner and r.random() < 0.5:
                # a consistent combined leaf whose tables are then cut short: the segments that the
                # outer map resolves into the inner map carry name / source indices outside the tables
                k, v, nm, outer, orig, inner, rm = self.combined(value, name)
                inner = dict(inner); outer = dict(outer)
                which = r.randrange(0, 4)
                if which in (0, 3) and inner['names']:
                    inner['names'] = inner['names'][:r.randrange(0, len(inner['names']))]
                if which == 1 and outer['names']:
                    outer['names'] = outer['names'][:r.randrange(0, len(outer['names']))]
                if which in (2, 3) and len(inner['sources']) > 1:
                    cut = r.randrange(1, len(inner['sources']))
                    inner['sources'] = inner['sources'][:cut]; inner['contents'] = inner['contents'][:cut]
                return (k, v, nm, outer, orig, inner, rm)
            if r.random() < self.cfg.inner:
                # wild outer and/or inner map around the combined-map code
                inner_name = 'inner%d.js' % self.ninner
                self.ninner += 1
                outer = self.wild_map(value)
                if not outer['sources']:
                    outer['sources'] = ['w0.js']
                outer['sources'][r.randrange(0, len(outer['sources']))] = inner_name
                original = self.text(10)
                inner = self.wild_map(original) if r.random() < 0.6 else self.consistent_map(original, full=True)
                give = r.random()
                return ('sms', value, inner_name, outer, original if give < 0.6 else None, inner, r.random() < 0.3)
            return ('sms', value, name, self.wild_map(value), None, None, False)
        if kind == 'sms' and r.random() < self.cfg.inner:
            return self.combined(value, name)
        return (kind, value, name, self.consistent_map(value), None, None, False)

    def combined(self, value, name):
        r = self.rng
        inner_name = 'inner%d.js' % self.ninner
        self.ninner += 1
        original = self.text(14)
        outer = self.consistent_map(value, nsources=weighted(r, [(1, 3), (2, 3), (3, 2)]), inner_name=inner_name)
        k = outer['sources'].index(inner_name)
        # outer segments into the inner source should point inside `original`
        olines = original.split('\n')
        segs = []
        for (gl, gc, o) in outer['segs']:
            if o is not None and o[0] == k:
                ol = r.randrange(1, max(2, len(olines) + 1))
                # point at a character of the original text (the line break counts)
                width = (len(olines[ol - 1]) + (1 if ol < len(olines) else 0)) if ol <= len(olines) else 0
                oc = r.randrange(0, width) if width > 0 else 0
                o = (k, ol, oc, o[3])
            segs.append((gl, gc, o))
        outer['segs'] = segs
        outer['mappings'] = encode_segments(segs, r)
        give_orig = r.random() < 0.5
        if outer['contents']:
            outer['contents'][k] = original
        elif not give_orig and r.random() < 0.8:
            outer['contents'] = ['' for _ in outer['sources']]
            outer['contents'][k] = original
        inner = self.consistent_map(original, full=True)
        if r.random() < 0.4 and inner['sources'] and inner['contents']:
            # the inner map itself also names the inner file (e.g. a partial identity map)
            j = r.randrange(0, len(inner['sources']))
            inner['sources'][j] = inner_name
            if inner['contents']:
                inner['contents'][j] = original
        # the inner source is identified by the SourceMapSource's own name; sometimes the name
        # matches no source of the outer map (the inner map is then never applied) - the name is
        # observable through map() although the hash ignores it (Props/C20.v)
        own_name = inner_name
        if r.random() < 0.12:
            own_name = r.choice(['', name, inner_name + 'x'])
        return ('sms', value, own_name, outer, original if give_orig else None, inner, r.random() < 0.3)

    # ---- trees ----
    def leaf(self):
        r = self.rng
        c = self.cfg
        k = weighted(r, [('raws', 2), ('rstr', 1.5), ('orig', 4), ('sms', 10 * c.sms), ('usr', 10 * c.usr),
                         ('rawb', 10 * c.bufs * 0.5), ('rbuf', 10 * c.bufs * 0.5)])
        if k == 'raws':
            return ('raws', self.text())
        if k == 'rstr':
            return ('rstr', self.text())
        if k == 'orig':
            return self.orig()
        if k in ('sms', 'usr'):
            return self.sms(k)
        b = self.text().encode()
        if r.random() < c.invalid_utf8:
            b = bytes(r.choice([0x61, 0x0a, 0xc3, 0xa9, 0xe2, 0x82, 0xac, 0xf0, 0x9f, 0x98, 0x80, 0xff, 0xc0, 0xed, 0xa0, 0x80])
                      for _ in range(r.randrange(0, 9)))
        return (k, b)

    def node(self, depth, under_replace=False):
        r = self.rng
        c = self.cfg
        if depth <= 0:
            return self.leaf()
        k = weighted(r, [('leaf', 3), ('concat', 4), ('repl', 10 * c.replace),
                         ('cached', 10 * c.cached if (c.cached_under_replace or not under_replace) else 0)])
        if k == 'leaf':
            return self.leaf()
        if k == 'concat' and c.invalid_utf8 > 0 and r.random() < 0.15:
            # adjacent binary leaves that split multi-byte characters at their boundaries: each leaf
            # decodes lossily on its own, the joined bytes would decode differently
            b = ''.join(r.choice(['\u00e9', '\u20ac', '\U0001f600', 'a', '\n', '\u597d']) for _ in range(r.randrange(1, 5))).encode()
            cuts = sorted(r.randrange(0, len(b) + 1) for _ in range(r.randrange(1, 4)))
            pieces = [b[i:j] for i, j in zip([0] + cuts, cuts + [len(b)])]
            items = [(False, (r.choice(['rawb', 'rbuf']), p)) for p in pieces]
            return ('concat', 'new' if r.random() < 0.6 else 'add', items)
        if k == 'concat':
            n = weighted(r, [(0, 0.5), (1, 1), (2, 4), (3, 3), (4, 1)])
            items = []
            for _ in range(n):
                ch = self.node(depth - 1, under_replace)
                typed = ch[0] == 'concat' and r.random() < 0.5
                items.append((typed, ch))
            return ('concat', 'new' if r.random() < 0.6 else 'add', items)
        if k == 'repl' and depth >= 2 and r.random() < 0.12:
            # rope-slicing family: a ReplaceSource (>= 1 replacement) over a ReplaceSource whose first
            # replacement strips a prefix ending inside the first piece of a multi-piece inner rope
            kids = [(False, self.leaf()) for _ in range(r.randrange(2, 4))]
            base = ('concat', 'new', kids)
            first = text_of(kids[0][1])
            b = text_of(base)
            cut = [i for i in range(1, len(first)) if (b[i] & 0xC0) != 0x80]
            if cut:
                rs = [(0, r.choice(cut), '', None, 1)] + [x for x in self.replacements(b)[:2] if x[0] > 0]
                mid = ('repl', base, rs)
                outer_rs = self.replacements(text_of(mid)) or [(0, 0, 'q', None, 1)]
                return ('repl', mid, outer_rs)
        if k == 'repl':
            inner = self.node(depth - 1, True)
            return ('repl', inner, self.replacements(text_of(inner)))
        if k == 'cached':
            inner = self.node(depth - 1, under_replace)
            cid = self.next_id
            self.next_id += 1
            if r.random() < c.warm:
                for _ in range(r.randrange(1, 3)):
                    self.warm.append((cid, r.choice(['m1', 'm0', 's10', 's00', 's11', 's01'])))
            return ('cached', cid, inner)

    def replacements(self, inner_bytes):
        r = self.rng
        n = len(inner_bytes)
        bounds = [i for i in range(n + 1) if i == n or (inner_bytes[i] & 0xC0) != 0x80]
        beyond = [n + 1, n + 3, 4294967295 if r.random() < 0.5 else n + 2]
        k = weighted(r, [(0, 1), (1, 4), (2, 4), (3, 2), (4, 1)])
        out = []
        if k > 0 and n > 0 and r.random() < 0.15:
            # strip a prefix: the first replacement starts at 0 and deletes up to a boundary near the start
            e = r.choice([b for b in bounds if b <= 4] or [0])
            out.append((0, e, '', None, 1))
        nls = [i for i in range(n) if inner_bytes[i] == 0x0a]
        if len(nls) >= 2 and r.random() < 0.12:
            # line-join family: an earlier edit changes the line count, a later pure deletion starts at
            # column > 0 and runs through its line's break (the first edit on that output line)
            j = r.randrange(1, len(nls))
            p1, p2 = nls[j - 1], nls[j]
            starts = [b for b in bounds if p1 + 1 < b <= p2]
            if starts:
                first = (0, 0, r.choice(['new\n', 'a\nb\n', '\n']), None, 1) if r.random() < 0.6 else (nls[0], nls[0] + 1, '', None, 1)
                if first[1] <= p1 + 1:
                    out.append(first)
                    out.append((r.choice(starts), p2 + 1, '', None, 1))
                    if r.random() < 0.5:
                        return out
        for _ in range(k):
            pool = bounds + (beyond if r.random() < 0.15 else [])
            if out and r.random() < 0.3:
                # collide with / nest in / touch an earlier one
                s0, e0 = out[-1][0], out[-1][1]
                start = r.choice([s0, e0, s0, min(s0 + 1, n)])
                if start not in pool:
                    start = r.choice(pool)
            else:
                start = r.choice(pool)
            ends = [x for x in pool if x >= start] or [start]
            end = start if r.random() < 0.35 else r.choice(ends[:4]) if r.random() < 0.7 else r.choice(ends)
            content = weighted(r, [('', 2), (self.text(5), 5), ('\n', 1), ('x\ny', 1), ('q', 2)])
            if not self.cfg.ascii and r.random() < 0.3:
                content += 'é'
            name = r.choice(['rn', 'n1', 'x']) if r.random() < 0.25 else None
            out.append((start, end, content, name, weighted(r, [(1, 6), (0, 1), (2, 1)])))
        return out

def hash_str(s):
    h = 0
    for ch in s:
        h = (h * 131 + ord(ch)) & 0xffffffff
    return h

def content_for(name, seed_text):
    """content determined by the file name alone (a shared name carries the same content)"""
    k = int(name[1])
    base = ['ab;cd\nef', 'x{y}\n\nz', 'n1 n2;\nab', 'a\nb\nc\nd', '', 'q;', 'one line n1'][k]
    return base

def encode_segments(segs, rng=None):
    """standard v3 encoding of absolute segments (line, col, None | (src, line1, col, name))"""
    out = []
    cur_line = 1
    pc = 0; ps = 0; pl = 0; pcol = 0; pn = 0
    line_segs = []
    def flush():
        out.append(','.join(line_segs))
    for (gl, gc, o) in segs:
        while cur_line < gl:
            flush(); line_segs = []; cur_line += 1; pc = 0
        s = vlq(gc - pc); pc = gc
        if o is not None:
            si, ol, oc, ni = o
            s += vlq(si - ps) + vlq((ol - 1) - pl) + vlq(oc - pcol)
            ps, pl, pcol = si, ol - 1, oc
            if ni is not None:
                s += vlq(ni - pn); pn = ni
        line_segs.append(s)
    flush()
    return ';'.join(out)

# ---------- python reference of source() bytes (only to pick replacement positions) ----------
def text_of(n):
    k = n[0]
    if k in ('raws', 'rstr'):
        return n[1].encode()
    if k in ('rawb', 'rbuf'):
        return n[1].decode('utf-8', 'replace').encode()
    if k == 'orig':
        return n[1].encode()
    if k in ('sms', 'usr'):
        return n[1].encode()
    if k == 'concat':
        return b''.join(text_of(c) for _, c in n[2])
    if k == 'cached':
        return text_of(n[2])
    if k == 'repl':
        inner = text_of(n[1])
        rs = sorted(enumerate(n[2]), key=lambda ir: (ir[1][0], ir[1][1], ir[1][4], ir[0]))
        out = b''
        pos = 0
        for _, (s, e, c, _nm, _enf) in rs:
            if pos < s:
                out += inner[pos:min(s, len(inner))]
            out += c.encode()
            pos = min(max(pos, e), len(inner))
        return out + inner[pos:]

# ---------- serialisation ----------
def hexlist(xs):
    return '_' if not xs else ','.join(hx(x) for x in xs)

def ser_map(m):
    return 'M %s %s %s %s %s %s %s' % (hx(m['mappings']), hexlist(m['sources']), hexlist(m['contents']),
                                        hexlist(m['names']), ohx(m['file']), ohx(m['root']), ohx(m['debug']))

def ser_node(n):
    k = n[0]
    if k in ('raws', 'rstr', 'rawb', 'rbuf'):
        return '%s %s' % (k, hx(n[1]))
    if k == 'orig':
        return 'orig %s %s' % (hx(n[1]), hx(n[2]))
    if k in ('sms', 'usr'):
        _, value, name, m, orig, inner, remove = n
        return '%s %s %s %s %s %s %d' % (k, hx(value), hx(name), ser_map(m), ohx(orig),
                                          '-' if inner is None else ser_map(inner), 1 if remove else 0)
    if k == 'concat':
        return ' '.join(['concat' if n[1] == 'new' else 'concata', str(len(n[2]))] +
                        [('t ' if t else 'b ') + ser_node(c) for t, c in n[2]])
    if k == 'repl':
        return ' '.join(['repl', ser_node(n[1]), str(len(n[2]))] +
                        ['%d %d %s %s %d' % (s, e, hx(c), ohx(nm), enf) for (s, e, c, nm, enf) in n[2]])
    if k == 'cached':
        return 'cached %d %s' % (n[1], ser_node(n[2]))
    raise ValueError(k)

def ser_tree(obj):
    w = obj.get('warm', [])
    return 'tree %s %d %s' % (ser_node(obj['t']), len(w), ' '.join('%d %s' % x for x in w))

def kinds_of(n, acc, depth=0, under_repl=False):
    acc.add(n[0])
    if n[0] == 'concat':
        if any(t for t, _ in n[2]): acc.add('typed_nested')
        if any((not t) and c[0] == 'concat' for t, c in n[2]): acc.add('boxed_nested')
        if len(n[2]) == 1: acc.add('single_child')
        if len(n[2]) == 0: acc.add('empty_concat')
        for _, c in n[2]:
            kinds_of(c, acc, depth + 1, under_repl)
    elif n[0] == 'repl':
        if not n[2]: acc.add('repl_empty')
        inner = text_of(n[1])
        for (s, e, c, nm, enf) in n[2]:
            if s > len(inner) or e > len(inner): acc.add('repl_beyond_end')
            if b'\n' in inner[s:e]: acc.add('repl_deletes_newline')
            if '\n' in c: acc.add('repl_inserts_newline')
            if s == e: acc.add('repl_insert')
            if nm: acc.add('repl_named')
        ks = sorted((s, e) for (s, e, _, _, _) in n[2])
        if any(a[1] > b[0] for a, b in zip(ks, ks[1:])): acc.add('repl_overlap')
        if any(a == b for a, b in zip(ks, ks[1:])): acc.add('repl_equal_keys')
        kinds_of(n[1], acc, depth + 1, True)
    elif n[0] == 'cached':
        if under_repl: acc.add('cached_under_replace')
        kinds_of(n[2], acc, depth + 1, under_repl)
    elif n[0] == 'sms':
        if n[5] is not None: acc.add('combined')
    return acc

def replay_family(rng, g):
    """the bundler's shape: a warm CachedSource over a multi-piece rope (lines spanning pieces, line
    breaks inside pieces) as a non-last child of a Concat whose later children are mapped"""
    def piece():
        n = rng.randrange(1, 7)
        t = ''.join(rng.choice('ab;\n\n{}x ') for _ in range(n))
        k = rng.random()
        if k < 0.55:
            return ('orig', t, g.file_name(t))
        if k < 0.8:
            return ('raws', t)
        return g.leaf()
    inner_kids = [(False, piece()) for _ in range(rng.randrange(2, 6))]
    inner = ('concat', rng.choice(['new', 'add']), inner_kids)
    if rng.random() < 0.3:
        inner = ('repl', inner, g.replacements(text_of(inner)))
    cid = g.next_id
    g.next_id += 1
    for _ in range(rng.randrange(1, 3)):
        g.warm.append((cid, rng.choice(['m1', 'm0', 's10', 's00', 's11', 's01', 'm1', 's11'])))
    tail = [(False, piece()) for _ in range(rng.randrange(1, 3))]
    head = [(False, piece())] if rng.random() < 0.3 else []
    return ('concat', 'new', head + [(False, ('cached', cid, inner))] + tail)

def gen_tree_case(rng, cfg):
    g = Gen(rng, cfg)
    d = weighted(rng, [(0, 1), (1, 3), (2, 4), (3, 3), (cfg.maxdepth, 2)])
    t = replay_family(rng, g) if (cfg.cached > 0 and rng.random() < cfg.replay_family) else g.node(d)
    feats = kinds_of(t, set())
    if d >= 1 and len(text_of(t)) >= 2:
        feats.add('nontrivial')
    if g.warm:
        feats.add('warm_cache')
    if any(b > 127 for b in text_of(t)):
        feats.add('multibyte')
    return Case('tree', {'t': t, 'warm': g.warm}, feats)

# ---------- shrinking ----------
def shrink_text(s):
    if isinstance(s, bytes):
        for i in range(len(s)):
            yield s[:i] + s[i + 1:]
    else:
        for i in range(len(s)):
            yield s[:i] + s[i + 1:]

def shrink_node(n):
    k = n[0]
    if k in ('raws', 'rstr', 'rawb', 'rbuf'):
        for s in shrink_text(n[1]):
            yield (k, s)
    elif k == 'orig':
        yield ('raws', n[1])
        for s in shrink_text(n[1]):
            yield ('orig', s, n[2])
    elif k in ('sms', 'usr'):
        yield ('raws', n[1])
        if n[5] is not None:
            yield (k, n[1], n[2], n[3], None, None, False)
        m = n[3]
        segs = m.get('segs')
        if segs:
            for i in range(len(segs)):
                s2 = segs[:i] + segs[i + 1:]
                m2 = dict(m); m2['segs'] = s2; m2['mappings'] = encode_segments(s2)
                yield (k, n[1], n[2], m2, n[4], n[5], n[6])
        if m.get('root') is not None:
            m2 = dict(m); m2['root'] = None
            yield (k, n[1], n[2], m2, n[4], n[5], n[6])
    elif k == 'concat':
        for _, c in n[2]:
            yield c
        for i in range(len(n[2])):
            yield ('concat', n[1], n[2][:i] + n[2][i + 1:])
        for i, (t, c) in enumerate(n[2]):
            if t:
                yield ('concat', n[1], n[2][:i] + [(False, c)] + n[2][i + 1:])
            for c2 in shrink_node(c):
                if t and c2[0] != 'concat':
                    continue
                yield ('concat', n[1], n[2][:i] + [(t, c2)] + n[2][i + 1:])
    elif k == 'repl':
        yield n[1]
        for i in range(len(n[2])):
            yield ('repl', n[1], n[2][:i] + n[2][i + 1:])
        for i, (s, e, c, nm, enf) in enumerate(n[2]):
            alts = []
            if nm is not None: alts.append((s, e, c, None, enf))
            if enf != 1: alts.append((s, e, c, nm, 1))
            for c2 in shrink_text(c): alts.append((s, e, c2, nm, enf))
            if e > s: alts.append((s, e - 1, c, nm, enf)); alts.append((s + 1, e, c, nm, enf))
            if s > 0: alts.append((s - 1, e - 1 if e > s else e - 1, c, nm, enf))
            for a in alts:
                if 0 <= a[0] <= a[1]:
                    yield ('repl', n[1], n[2][:i] + [a] + n[2][i + 1:])
        for c2 in shrink_node(n[1]):
            # keep only replacement bounds that are still char boundaries
            b = text_of(c2)
            ok = lambda p: p >= len(b) or (b[p] & 0xC0) != 0x80
            if all(ok(s) and ok(e) for (s, e, _, _, _) in n[2]):
                yield ('repl', c2, n[2])
    elif k == 'cached':
        yield n[2]
        for c2 in shrink_node(n[2]):
            yield ('cached', n[1], c2)

def ids_of(n, acc):
    if n[0] == 'cached':
        acc.add(n[1]); ids_of(n[2], acc)
    elif n[0] == 'concat':
        for _, c in n[2]: ids_of(c, acc)
    elif n[0] == 'repl':
        ids_of(n[1], acc)
    return acc

def shrink_tree(obj):
    w = obj.get('warm', [])
    for i in range(len(w)):
        yield {'t': obj['t'], 'warm': w[:i] + w[i + 1:]}
    for t2 in shrink_node(obj['t']):
        ids = ids_of(t2, set())
        yield {'t': t2, 'warm': [x for x in w if x[0] in ids]}
