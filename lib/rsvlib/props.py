"""Per-property specifications: generators, projections, shrinkers, evidence texts."""
import os
from . import build, gen_codec, gen_rope
from .common import Case

class Spec:
    def __init__(self, pid, **kw):
        self.pid = pid
        self.level = 'proof'
        self.kinds = {}
        self.obs_bin = 'obs'
        self.needs_release = False
        self.coqchk = True
        self.extra = []
        self.timeout = {'quick': 900, 'thorough': 7200}
        self.trusted_extra = []
        self.assumptions = []
        self.rule = ''
        self.explanation = ''
        self.checker_name = ''
        self.model_name = ''
        self.gen = lambda rng, tier: []
        for k, v in kw.items():
            setattr(self, k, v)

    def corpus(self):
        p = os.path.join(build.VERIF, 'corpus', self.pid + '.cases')
        out = []
        if os.path.exists(p):
            for l in open(p):
                l = l.strip()
                if not l or l.startswith('#'):
                    continue
                kind = l.split(' ', 1)[0]
                c = Case(kind, None, {'corpus', 'nontrivial'})
                c.raw = l
                out.append(c)
        return out

# ---------------- generic shrinkers ----------------
def shrink_list(xs):
    n = len(xs)
    if n == 0:
        return
    # halves, then single removals
    if n > 2:
        yield xs[n // 2:]
        yield xs[:n // 2]
    for i in range(n):
        yield xs[:i] + xs[i + 1:]

def shrink_int(v, lo=0):
    if v > lo:
        yield lo
        if (v + lo) // 2 not in (v, lo):
            yield (v + lo) // 2
        yield v - 1

def shrink_mapping(m):
    gl, gc, o = m
    for x in shrink_int(gl, 1):
        yield (x, gc, o)
    for x in shrink_int(gc):
        yield (gl, x, o)
    if o is not None:
        yield (gl, gc, None)
        si, ol, oc, ni = o
        for x in shrink_int(si):
            yield (gl, gc, (x, ol, oc, ni))
        for x in shrink_int(ol, 1):
            yield (gl, gc, (si, x, oc, ni))
        for x in shrink_int(oc):
            yield (gl, gc, (si, ol, x, ni))
        if ni is not None:
            yield (gl, gc, (si, ol, oc, None))
            for x in shrink_int(ni):
                yield (gl, gc, (si, ol, oc, x))

def is_sorted_ms(ms):
    return all((a[0], a[1]) <= (b[0], b[1]) for a, b in zip(ms, ms[1:]))

def shrink_enc(obj):
    ms = obj['ms']
    for c in shrink_list(ms):
        yield {'ms': c}
    for i, m in enumerate(ms):
        for m2 in shrink_mapping(m):
            c = ms[:i] + [m2] + ms[i + 1:]
            if is_sorted_ms(c):
                yield {'ms': c}

def shrink_str(obj):
    s = obj['s']
    for c in shrink_list(list(s)):
        yield {'s': ''.join(c)}

# ---------------- C12 ----------------
def gen_c12(rng, tier):
    n_enc, n_dec = (1500, 1500) if tier == 'quick' else (60000, 60000)
    out = []
    for _ in range(n_enc):
        out.append(gen_codec.case_enc(gen_codec.gen_sorted_mappings(rng)))
    for _ in range(n_dec):
        s, f = gen_codec.gen_grammar_string(rng)
        out.append(gen_codec.case_dec(s, f))
    if tier == 'thorough':
        # magnitude sweep around every digit boundary, both signs (the exhaustive sweep over
        # |d| < 2^20 is the separate `sweep` routine)
        for k in range(0, 31):
            for d in (-1, 0, 1):
                v = max(0, (1 << k) + d)
                if v < (1 << 30):
                    out.append(gen_codec.case_enc([(1, v, None)]))
                    out.append(gen_codec.case_enc([(1, 0, (v, 1, 0, None)), (2, 0, (0, 1 + v, v, v))]))
    return out

C12 = Spec('C12',
    kinds={
        'codec_enc': {'ser': gen_codec.ser_enc, 'proj': ['enc', 'dec', 'reenc', 'lenc', 'ldec'], 'shrink': shrink_enc},
        'codec_dec': {'ser': gen_codec.ser_dec, 'proj': ['dec'], 'shrink': shrink_str},
    },
    gen=gen_c12,
    rule='sorted mapping sequences (0-10 segments; magnitudes biased to VLQ digit boundaries up to 2^30-1; 1/4/5-field mix; repeated originals; duplicate positions; line gaps) and strings of the v3 grammar (redundant continuation digits, empty segments, backward columns, several ";"); non-trivial = at least 2 segments / more than 4 characters; distinct = distinct case text',
    explanation='theorems of Props/C12.v are about the Gallina model of encoder.rs/decoder.rs; the model is tied to the code by executing encode/decode/re-encode/line-only-encode on the same inputs in the Rust crate and in the extracted model and comparing strings and segment lists; the extracted checker chk_C12_enc/chk_C12_dec (the formal statement) judges the implementation output against the independent v3 reading CodecSpec.v',
    checker_name='ChkCodec.chk_C12_enc / chk_C12_dec',
    model_name='Codec/Vlq.v',
    assumptions=['generated lines fit u32 (fewer than 2^32 ";")', 'decoder clause: every running value < 2^32'],
)

# ---------------- C16 ----------------
def gen_c16(rng, tier):
    n = 3000 if tier == 'quick' else 150000
    out = [gen_rope.gen_case(rng) for _ in range(n)]
    if tier == 'thorough':
        # exhaustive small scope: all programs of <= 2 operations over 4 pieces
        pcs = ['', 'a', '\n', 'é']
        base = [('new',)] + [('from', x) for x in pcs] + [('iter', [x, y]) for x in pcs for y in pcs]
        lvl1 = list(base)
        for b in base:
            for x in pcs:
                lvl1.append(('add', b, x))
            for b2 in base[:5]:
                lvl1.append(('app', b, b2))
        for p in lvl1:
            for q in base[:9]:
                out.append(Case('rope', {'p': p, 'q': q}, {'nontrivial', 'exhaustive_scope'}))
    return out

C16 = Spec('C16',
    kinds={'rope': {'ser': gen_rope.ser_rope, 'proj': None, 'shrink': gen_rope.shrink_rope}},
    gen=gen_c16,
    rule='random rope construction programs (new/from/from_iter/add/append/byte_slice/line, depth <= 4) over pieces "", a, b\\n, e-acute, \\n, ab, euro x, emoji, c\\nd, ...; second rope denotes an equal / prefix / one-char-different string in another piece division (70%) or is independent; all slice ranges 0..len+1 squared observed per case; non-trivial = at least one operation and flat length >= 2',
    explanation='theorems of Props/C16.v are about the piece-table model Rope/RopeModel.v; correspondence compares every observer answer of the model with the Rust Rope on the same construction program; the extracted checker chk_C16 judges the implementation against plain string functions',
    checker_name='ChkRope.chk_C16_unary / chk_C16_binary (via ApiRope.api_rope_check)',
    model_name='Rope/RopeModel.v',
    assumptions=['slice::binary_search_by is modelled by its contract on strictly increasing keys'],
)

REGISTRY = {'C12': C12, 'C16': C16}

def get(pid):
    return REGISTRY[pid]
