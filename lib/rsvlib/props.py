"""Per-property specifications: generators, projections, shrinkers, evidence texts."""
import os
from . import xcheck
from . import build, gen_codec, gen_rope, gen_tree, gen_hist, gen_json, gen_sched
from .common import Case

class Spec:
    def __init__(self, pid, **kw):
        self.pid = pid
        self.level = 'proof'
        self.kinds = {}
        self.obs_bin = 'obs'
        self.needs_release = False
        self.coqchk = True
        self.extra = []
        self.timeout = {'quick': 150, 'thorough': 7200}
        self.trusted_extra = []
        self.assumptions = []
        self.rule = ''
        self.explanation = ''
        self.checker_name = ''
        self.model_name = ''
        self.gen = lambda rng, tier: []
        self.normalize = None
        for k, v in kw.items():
            setattr(self, k, v)

    def corpus(self):
        p = os.path.join(build.VERIF, 'corpus', self.pid + '.cases')
        out = []
        if os.path.exists(p):
            for l in open(p):
                l = l.strip()
                if not l or l.startswith('#'):
                    continue
                kind = l.split(' ', 1)[0]
                c = Case(kind, None, {'corpus', 'nontrivial'})
                c.raw = l
                out.append(c)
        return out

# ---------------- generic shrinkers ----------------
def shrink_list(xs):
    n = len(xs)
    if n == 0:
        return
    # halves, then single removals
    if n > 2:
        yield xs[n // 2:]
        yield xs[:n // 2]
    for i in range(n):
        yield xs[:i] + xs[i + 1:]

def shrink_int(v, lo=0):
    if v > lo:
        yield lo
        if (v + lo) // 2 not in (v, lo):
            yield (v + lo) // 2
        yield v - 1

def shrink_mapping(m):
    gl, gc, o = m
    for x in shrink_int(gl, 1):
        yield (x, gc, o)
    for x in shrink_int(gc):
        yield (gl, x, o)
    if o is not None:
        yield (gl, gc, None)
        si, ol, oc, ni = o
        for x in shrink_int(si):
            yield (gl, gc, (x, ol, oc, ni))
        for x in shrink_int(ol, 1):
            yield (gl, gc, (si, x, oc, ni))
        for x in shrink_int(oc):
            yield (gl, gc, (si, ol, x, ni))
        if ni is not None:
            yield (gl, gc, (si, ol, oc, None))
            for x in shrink_int(ni):
                yield (gl, gc, (si, ol, oc, x))

def is_sorted_ms(ms):
    return all((a[0], a[1]) <= (b[0], b[1]) for a, b in zip(ms, ms[1:]))

def shrink_enc(obj):
    ms = obj['ms']
    for c in shrink_list(ms):
        yield {'ms': c}
    for i, m in enumerate(ms):
        for m2 in shrink_mapping(m):
            c = ms[:i] + [m2] + ms[i + 1:]
            if is_sorted_ms(c):
                yield {'ms': c}

def shrink_str(obj):
    s = obj['s']
    for c in shrink_list(list(s)):
        yield {'s': ''.join(c)}

# ---------------- C12 ----------------
def gen_c12(rng, tier):
    n_enc, n_dec = (1500, 1500) if tier == 'quick' else (60000, 60000)
    out = []
    for _ in range(n_enc):
        out.append(gen_codec.case_enc(gen_codec.gen_sorted_mappings(rng)))
    for _ in range(n_dec):
        s, f = gen_codec.gen_grammar_string(rng)
        out.append(gen_codec.case_dec(s, f))
    if tier == 'thorough':
        # magnitude sweep around every digit boundary, both signs (the exhaustive sweep over
        # |d| < 2^20 is the separate `sweep` routine)
        for k in range(0, 31):
            for d in (-1, 0, 1):
                v = max(0, (1 << k) + d)
                if v < (1 << 30):
                    out.append(gen_codec.case_enc([(1, v, None)]))
                    out.append(gen_codec.case_enc([(1, 0, (v, 1, 0, None)), (2, 0, (0, 1 + v, v, v))]))
    return out

C12 = Spec('C12',
    kinds={
        'codec_enc': {'ser': gen_codec.ser_enc, 'proj': ['enc', 'dec', 'reenc', 'lenc', 'ldec'], 'shrink': shrink_enc},
        'codec_dec': {'ser': gen_codec.ser_dec, 'proj': ['dec'], 'shrink': shrink_str},
    },
    gen=gen_c12,
    rule='sorted mapping sequences (0-10 segments; magnitudes biased to VLQ digit boundaries up to 2^30-1; 1/4/5-field mix; repeated originals; duplicate positions; line gaps) and strings of the v3 grammar (redundant continuation digits, empty segments, backward columns, several ";"); non-trivial = at least 2 segments / more than 4 characters; distinct = distinct case text',
    explanation='theorems of Props/C12.v are about the Gallina model of encoder.rs/decoder.rs; the model is tied to the code by executing encode/decode/re-encode/line-only-encode on the same inputs in the Rust crate and in the extracted model and comparing strings and segment lists; the extracted checker chk_C12_enc/chk_C12_dec (the formal statement) judges the implementation output against the independent v3 reading CodecSpec.v',
    checker_name='ChkCodec.chk_C12_enc / chk_C12_dec',
    model_name='Codec/Vlq.v',
    assumptions=['generated lines fit u32 (fewer than 2^32 ";")', 'decoder clause: every running value < 2^32'],
)

# ---------------- C16 ----------------
def gen_c16(rng, tier):
    n = 3000 if tier == 'quick' else 150000
    out = [gen_rope.gen_case(rng) for _ in range(n)]
    if tier == 'thorough':
        # exhaustive small scope: all programs of <= 2 operations over 4 pieces
        pcs = ['', 'a', '\n', 'é']
        base = [('new',)] + [('from', x) for x in pcs] + [('iter', [x, y]) for x in pcs for y in pcs]
        lvl1 = list(base)
        for b in base:
            for x in pcs:
                lvl1.append(('add', b, x))
            for b2 in base[:5]:
                lvl1.append(('app', b, b2))
        for p in lvl1:
            for q in base[:9]:
                out.append(Case('rope', {'p': p, 'q': q}, {'nontrivial', 'exhaustive_scope'}))
    return out

C16 = Spec('C16',
    kinds={'rope': {'ser': gen_rope.ser_rope, 'proj': None, 'shrink': gen_rope.shrink_rope}},
    gen=gen_c16,
    rule='random rope construction programs (new/from/from_iter/add/append/byte_slice/line, depth <= 4) over pieces "", a, b\\n, e-acute, \\n, ab, euro x, emoji, c\\nd, ...; second rope denotes an equal / prefix / one-char-different string in another piece division (70%) or is independent; all slice ranges 0..len+1 squared observed per case; non-trivial = at least one operation and flat length >= 2',
    explanation='theorems of Props/C16.v are about the piece-table model Rope/RopeModel.v; correspondence compares every observer answer of the model with the Rust Rope on the same construction program; the extracted checker chk_C16 judges the implementation against plain string functions',
    checker_name='ChkRope.chk_C16_unary / chk_C16_binary (via ApiRope.api_rope_check)',
    model_name='Rope/RopeModel.v',
    assumptions=['slice::binary_search_by is modelled by its contract on strictly increasing keys'],
)

# ---------------- tree properties ----------------
TREE_KEYS_TEXT = ['src', 'buf', 'size', 'rope', 'wr']
STREAM_KEYS = ['e10', 'g10', 'e00', 'g00', 'e11', 'g11', 'e01', 'g01']
MAP_KEYS = ['m1', 'm0']

def tree_kind(proj):
    return {'tree': {'ser': gen_tree.ser_tree, 'proj': proj, 'shrink': gen_tree.shrink_tree}}

def gen_c01(rng, tier):
    n = 2500 if tier == 'quick' else 100000
    out = []
    cfgs = [gen_tree.Cfg(ascii=True), gen_tree.Cfg(ascii=False, bufs=0.15, invalid_utf8=0.3),
            gen_tree.Cfg(ascii=True, sms=0.4, wild=0.5), gen_tree.Cfg(ascii=False, sms=0.3, wild=0.3, inner=0.2)]
    for i in range(n):
        out.append(gen_tree.gen_tree_case(rng, cfgs[i % len(cfgs)]))
    return out

C01 = Spec('C01',
    kinds=tree_kind(['src', 'e10', 'e00']),
    gen=gen_c01,
    rule='random source trees (depth <= 4) over Raw/RawString/RawBuffer/Original/SourceMapSource/Concat/Replace/Cached; ASCII and 1-4 byte UTF-8 texts; replacement sets on char boundaries incl. overlapping, nested, touching, beyond end; consistent and wild (sorted, outside the text) maps; warm caches; non-trivial = depth >= 1 and output length >= 2',
    explanation='Props/C01.v states reassembly on the Gallina stream model; correspondence compares chunk streams (texts, positions, announcements) and source() of model and Rust crate on the same trees; chk_C01 judges the implementation stream directly',
    checker_name='ChkTree.chk_C01', model_name='Stream/Tree.v',
)

def gen_ascii_trees(rng, tier, nq=2500, nt=100000, cfgs=None):
    n = nq if tier == 'quick' else nt
    cfgs = cfgs or [gen_tree.Cfg(ascii=True), gen_tree.Cfg(ascii=True, sms=0.35), gen_tree.Cfg(ascii=True, replace=0.4, cached=0.05),
                    gen_tree.Cfg(ascii=True, sms=0.3, inner=0.3)]
    return [gen_tree.gen_tree_case(rng, cfgs[i % len(cfgs)]) for i in range(n)]

TREE_RULE = 'random ASCII source trees (depth <= 4) over Raw*/Original/SourceMapSource(consistent maps, 1-3 sources, names, sourceRoot variants)/Concat(typed, boxed, add-later)/Replace(0-4 replacements: overlapping, nested, touching, beyond end, deleting/inserting line breaks, named)/Cached(cold or warmed by map/stream in any option set); non-trivial = depth >= 1 and output length >= 2; distinct = distinct case text'

def tree_spec(pid, proj, gen, checker, explanation):
    return Spec(pid, kinds=tree_kind(proj), gen=gen, rule=TREE_RULE, explanation=explanation,
                checker_name=checker, model_name='Stream/Tree.v')

C02 = tree_spec('C02', ['src'] + STREAM_KEYS, gen_ascii_trees, 'ChkTree.chk_C02',
    'theorems about positions on the Gallina stream model; correspondence compares all four chunk streams incl. generated positions and end info; chk_C02 recomputes the true position of every chunk from the text')
C03 = tree_spec('C03', ['src', 'e10', 'e00', 'm1', 'm0'], gen_ascii_trees, 'ChkTree.chk_C03',
    'attribution semantics Sem/Attr.v; chk_C03 compares per output byte the attribution through map() with the attribution by the covering chunk, and map()=None iff no mapped chunk')
C07 = tree_spec('C07', TREE_KEYS_TEXT, lambda rng, tier: gen_c01(rng, tier), 'ChkTree.chk_C07',
    'text views of the model (source, buffer, size, rope, to_writer payloads) vs the crate; chk_C07 states the agreement clauses')
def ser_wr(obj):
    return 'wr %s %d %d' % (gen_tree.ser_node(obj['t']), obj['cap'], 1 if obj['short'] else 0)
def shrink_wr(obj):
    for t2 in gen_tree.shrink_node(obj['t']):
        yield {'t': t2, 'cap': obj['cap'], 'short': obj['short']}
    if obj['cap'] > 0:
        yield {'t': obj['t'], 'cap': obj['cap'] - 1, 'short': obj['short']}
def gen_c07(rng, tier):
    out = gen_c01(rng, tier)
    for i in range(300 if tier == 'quick' else 8000):
        g = gen_tree.Gen(rng, gen_tree.Cfg(ascii=False, bufs=1.0, invalid_utf8=0.7, sms=0.0))
        leaf = (rng.choice(['rawb', 'rbuf']), g.leaf()[1] if False else bytes(rng.choice([0x61, 0x0a, 0xc3, 0xa9, 0xff, 0xc0, 0xe2, 0x82, 0xf0, 0x9f]) for _ in range(rng.randrange(0, 7))))
        inner = leaf if rng.random() < 0.6 else ('concat', 'new', [(False, leaf), (False, ('raws', g.text(4)))])
        rs = [] if rng.random() < 0.5 else g.replacements(gen_tree.text_of(inner))[:2]
        t = ('repl', inner, rs)
        if rng.random() < 0.3:
            t = ('concat', 'new', [(False, t), (False, ('raws', 'z'))])
        if rng.random() < 0.2:
            t = ('cached', 1, t)
        out.append(Case('tree', {'t': t, 'warm': []}, {'nontrivial', 'replace_over_binary_leaf'} | gen_tree.kinds_of(t, set())))
    nw = 300 if tier == 'quick' else 5000
    cfgs = [gen_tree.Cfg(ascii=True), gen_tree.Cfg(ascii=False, bufs=0.2, invalid_utf8=0.3)]
    for i in range(nw):
        c = gen_tree.gen_tree_case(rng, cfgs[i % 2])
        size = len(gen_tree.text_of(c.obj['t'])) + 3
        # writers that fail after k bytes, for every k
        for k in range(0, min(size, 24) + 1):
            out.append(Case('wr', {'t': c.obj['t'], 'cap': k, 'short': (k + i) % 2 == 0}, {'nontrivial', 'failing_writer'} | c.feats))
    return out
C07.gen = gen_c07
C07.kinds['wr'] = {'ser': ser_wr, 'proj': None, 'shrink': shrink_wr}

C08 = tree_spec('C08', ['src'] + STREAM_KEYS + MAP_KEYS, None, 'ChkTree.chk_C08',
    'chk_C08 compares the attribution of all four streams of a SourceMapSource / user-defined source with looking positions up in the given map')
C11 = tree_spec('C11', STREAM_KEYS + MAP_KEYS, gen_ascii_trees, 'ChkTree.chk_C11',
    'chk_C11: announced indices dense and announced before use in all four streams; map() segments strictly increasing, inside the text, indices inside tables, alphabet')

def gen_c08(rng, tier):
    n = 2500 if tier == 'quick' else 100000
    out = []
    for i in range(n):
        g = gen_tree.Gen(rng, gen_tree.Cfg(ascii=True, names=0.5, root=0.5))
        t = g.sms('usr' if i % 3 == 0 else 'sms')
        feats = {'nontrivial'} if len(t[1]) >= 2 and t[3]['segs'] else set()
        if i % 5 == 4:
            t = ('concat', 'new', [(False, ('raws', g.text())), (False, t)])
        out.append(Case('tree', {'t': t, 'warm': []}, feats | gen_tree.kinds_of(t, set())))
    return out
C08.gen = gen_c08

def gen_c05(rng, tier):
    n = 3000 if tier == 'quick' else 150000
    out = [gen_hist.gen_rhist_case(rng) for _ in range(n)]
    if tier == 'thorough':
        # exhaustive small scope: all histories of <= 3 mutators over a 3-char text, observer at every gap
        import itertools
        inner = ('raws', 'a\nb')
        muts = [(s, e, c, None, enf) for s in range(0, 4) for e in range(s, 5) if e <= 4 for c in ('', 'x') for enf in (0, 1, 2)]
        small = [m for m in muts if m[4] == 1 or m[0] == m[1]]
        for k in (1, 2):
            for combo in itertools.product(small[:18], repeat=k):
                ops = []
                for m in combo:
                    ops.append(('mut',) + m); ops.append(('obs', 0))
                out.append(Case('rhist', {'inner': inner, 'ops': ops}, {'nontrivial', 'exhaustive_scope'}))
    return out

C05 = Spec('C05',
    kinds={'rhist': {'ser': gen_hist.ser_rhist, 'proj': None, 'shrink': gen_hist.shrink_rhist}},
    gen=gen_c05,
    rule='histories of 1-9 calls on a ReplaceSource over a random inner leaf/tree (ASCII and multi-byte, lossy-decoded buffers): replace/insert/replace_with_enforce/insert_with_enforce with colliding (start,end) keys, overlaps, nesting, positions beyond the end, and histories of 33-80 replacements over 2-4 keys pushed out of order; observers source/buffer/size/rope/to_writer/hash/stream/map and clone between any two mutators; non-trivial = at least 2 mutators',
    explanation='Props/C05.v: the object model with its lazily sorted index refines the reference replacement model written from the property text; correspondence compares the text every observer renders after every call; chk_C05 judges the implementation against the reference model',
    checker_name='ChkReplace.chk_C05', model_name='Sem/ReplaceObj.v + Stream/Replace.v',
)

# ---------------- histories and pairs ----------------
def cfgs_hist():
    return [gen_tree.Cfg(ascii=True, warm=0.0), gen_tree.Cfg(ascii=True, sms=0.35, warm=0.0),
            gen_tree.Cfg(ascii=True, replace=0.35, cached=0.1, warm=0.0), gen_tree.Cfg(ascii=True, sms=0.3, inner=0.3, warm=0.0)]

def gen_c10(rng, tier):
    n = 2500 if tier == 'quick' else 100000
    cf = cfgs_hist()
    return [gen_hist.gen_chist_case(rng, cf[i % len(cf)]) for i in range(n)]

C10 = Spec('C10',
    kinds={'chist': {'ser': gen_hist.ser_hist('chist'), 'proj': None, 'shrink': gen_hist.shrink_hist}},
    gen=gen_c10, normalize=gen_hist.mask_u64,
    rule='call histories (1-8 calls: source/buffer/size/rope/map/stream in all option sets/hash/clone) on a CachedSource over a random ASCII tree; every answer compared with the answer of the freshly built wrapped source; non-trivial = at least 2 calls and output length >= 2',
    explanation='store-passing model of the caches (Stream/Tree.v); correspondence compares every answer along the history; chk_hist judges text/size/end-info equality and attribution equality of maps and streams against the wrapped source',
    checker_name='ChkHist.chk_hist', model_name='Stream/Tree.v (store) + Api/ApiHist.v')

def gen_c13(rng, tier):
    n = 2500 if tier == 'quick' else 100000
    cf = cfgs_hist()
    return [gen_hist.gen_law_case(rng, cf[i % len(cf)]) for i in range(n)]

C13 = Spec('C13',
    kinds={'pair': {'ser': gen_hist.ser_pair, 'proj': None, 'shrink': gen_hist.shrink_pair}},
    gen=gen_c13, normalize=gen_hist.mask_u64,
    rule='triples of random ASCII trees a b c combined by a law: typed/boxed nesting (left and right), add-later, concat of concats, single child, empty neighbours (5 kinds of empty source), Replace without / with only empty replacements, CachedSource wrapper; both sides observed independently',
    explanation='both sides of each composition law are built and observed; chk_C13 compares text and per-position attribution of map() for both column settings (columns up to the identity refinement for empty insertions)',
    checker_name='ChkHist.chk_C13', model_name='Stream/Tree.v')

def gen_c14(rng, tier):
    n = 1500 if tier == 'quick' else 60000
    cf = cfgs_hist() + [gen_tree.Cfg(ascii=False, bufs=0.2, invalid_utf8=0.3, warm=0.0)]
    out = []
    for i in range(n):
        out.append(gen_hist.gen_edit_pair(rng, cf[i % len(cf)]))
        if i % 2 == 0:
            out.append(gen_hist.gen_thist_case(rng, cf[i % len(cf)]))
        if i % 4 == 1:
            out.append(gen_hist.gen_hash_equal_pair(rng, cf[i % 4]))
        if i % 5 == 2:
            out.append(gen_hist.gen_first_observer_pair(rng))
    return out

C14 = Spec('C14',
    kinds={'pair': {'ser': gen_hist.ser_pair, 'proj': None, 'shrink': gen_hist.shrink_pair},
           'thist': {'ser': gen_hist.ser_hist('thist'), 'proj': None, 'shrink': gen_hist.shrink_hist}},
    gen=gen_c14, normalize=gen_hist.mask_u64,
    rule='pairs of trees: identical by construction (25%), one edit apart (leaf text/type, name, replacement range/content/name/enforce, child added/removed, attached map, inner map, flag) or independent, each side after a random observer history (0-5 calls), compared with ==, both directions, recorded typed hasher streams, and all observers; plus observer/clone histories on one object compared call by call with a fresh object',
    explanation='eq and hash are functions of constructor data in the model (Sem/HashEq.v): correspondence of the truth table of == and of the typed hasher stream after arbitrary observer histories ties history-independence to the code; chk_C14_pair: symmetry, == implies equal hash stream and equal observations; chk_hist: repeatability and clones',
    checker_name='ChkHist.chk_C14_pair / chk_hist', model_name='Sem/HashEq.v')

def gen_c20(rng, tier):
    n = 2500 if tier == 'quick' else 100000
    cf = cfgs_hist() + [gen_tree.Cfg(ascii=False, bufs=0.2, invalid_utf8=0.3, warm=0.0)]
    out = [gen_hist.gen_edit_pair(rng, cf[i % len(cf)]) for i in range(n)]
    out += [gen_hist.gen_hash_equal_pair(rng, cf[i % 4]) for i in range(n // 8)]
    return out

C20 = Spec('C20',
    kinds={'pair': {'ser': gen_hist.ser_pair, 'proj': None, 'shrink': gen_hist.shrink_pair}},
    gen=gen_c20, normalize=gen_hist.mask_u64,
    rule='pairs of trees one edit apart (every kind of edit at a random depth), identical, or independent; typed hasher streams recorded after random observer histories; SourceMapSource name edits are outside the domain',
    explanation='hash_events (Sem/HashEq.v) is a prefix code of the constructor data; correspondence of the recorded typed hasher stream (Cached digests masked) ties it to the code; chk_C20_pair: different source/buffer/map() implies different hash stream and ==false',
    checker_name='ChkHist.chk_C20_pair', model_name='Sem/HashEq.v')

def gen_c04(rng, tier):
    n = 2500 if tier == 'quick' else 100000
    cfgs = [gen_tree.Cfg(ascii=True, sms=0.0, cached_under_replace=False),
            gen_tree.Cfg(ascii=True, sms=0.0, replace=0.45, cached=0.05, cached_under_replace=False),
            gen_tree.Cfg(ascii=True, sms=0.0, replace=0.0, cached=0.2)]
    return [gen_tree.gen_tree_case(rng, cfgs[i % len(cfgs)]) for i in range(n)]

C04 = tree_spec('C04', ['src', 'm1', 'm0'], gen_c04, 'ChkProv.chk_C04',
    'independent provenance semantics Sem/Prov.v (no chunks, no tokens): chk_C04 checks every mapped segment of map(), every surviving original byte, raw bytes, statement starts, the sources/sourcesContent tables and the line attribution with columns=false against it')

def same_location_pieces(rng, g):
    """a warm CachedSource over a Concat of 3-5 pieces that all map to one original location whose
    recorded content is the whole text: the cached map merges them, so the replayed chunk spans
    several rope pieces and a cut inside it compares a multi-piece text with the recorded content"""
    k = rng.randrange(3, 6)
    pieces = [''.join(rng.choice('abcxyz;{} ') for _ in range(rng.randrange(1, 4))) for _ in range(k)]
    if rng.random() < 0.6:
        pieces[-1] += '\n'
    whole = ''.join(pieces)
    name = 's%d.js' % rng.randrange(0, 3)
    r0 = rng.random()
    if r0 < 0.55:
        content = whole
    elif r0 < 0.85 and len(whole) > 2:
        # the recorded content ends INSIDE the generated segment: text before a cut can equal the
        # content up to its very end (no line break after it)
        content = whole[:rng.randrange(1, len(whole))].rstrip('\n') or whole
    else:
        content = whole[:-1] + '#'
    kids = []
    for i, pc in enumerate(pieces):
        if rng.random() < 0.85:
            segs = [(1, 0, (0, 1, 0, None))]
            m = {'mappings': gen_tree.encode_segments(segs, rng), 'sources': [name], 'contents': [content], 'names': [],
                 'file': None, 'root': None, 'debug': None, 'segs': segs}
            kids.append((False, ('sms', pc, 'gen%d.js' % i, m, None, None, False)))
        else:
            kids.append((False, ('raws', pc)))
    cid = g.next_id
    g.next_id += 1
    g.warm.append((cid, rng.choice(['m1', 's10', 's10', 'm0', 's00'])))
    if rng.random() < 0.5:
        g.warm.append((cid, rng.choice(['m1', 's10', 's00'])))
    return ('cached', cid, ('concat', 'new', kids))

def gen_c06(rng, tier):
    n = 2500 if tier == 'quick' else 100000
    cfgs = [gen_tree.Cfg(ascii=True, sms=0.45, names=0.6), gen_tree.Cfg(ascii=True, sms=0.3, names=0.6, replace=0.3),
            gen_tree.Cfg(ascii=True, sms=0.3, inner=0.3),
            gen_tree.Cfg(ascii=True, sms=0.4, names=0.5, cached=0.35, warm=0.8)]
    out = []
    for i in range(n):
        g = gen_tree.Gen(rng, cfgs[i % len(cfgs)])
        if i % 10 == 9:
            inner = same_location_pieces(rng, g)
            if rng.random() < 0.3:
                inner = ('concat', 'new', [(False, g.leaf()), (False, inner)])
            t = ('repl', inner, g.replacements(gen_tree.text_of(inner)))
        elif i % 2 == 0:
            k = rng.randrange(1, 5)
            t = ('concat', rng.choice(['new', 'add']), [(False, g.node(rng.randrange(0, 3))) for _ in range(k)])
        else:
            inner = g.node(rng.randrange(0, 3))
            t = ('repl', inner, g.replacements(gen_tree.text_of(inner)))
        feats = gen_tree.kinds_of(t, set())
        if len(gen_tree.text_of(t)) >= 2:
            feats.add('nontrivial')
        if g.warm:
            feats.add('warm_cache')
        out.append(Case('comp', {'t': t, 'warm': list(g.warm)}, feats))
    return out

def shrink_comp(obj):
    t = obj['t']
    w = obj.get('warm', [])
    for i in range(len(w)):
        yield {'t': t, 'warm': w[:i] + w[i + 1:]}
    for t2 in gen_tree.shrink_node(t):
        if t2[0] == t[0] and (t2[0] != 'concat' or all(not ty for ty, _ in t2[2])):
            yield {'t': t2, 'warm': w}

def ser_comp(obj):
    w = obj.get('warm', [])
    return 'comp %s %d %s' % (gen_tree.ser_node(obj['t']), len(w), ' '.join('%d %s' % x for x in w))

C06 = Spec('C06',
    kinds={'comp': {'ser': ser_comp, 'proj': None, 'shrink': shrink_comp}},
    gen=gen_c06,
    rule='a ConcatSource of 1-4 boxed children or a ReplaceSource (0-4 replacements, named or not) over random ASCII trees with SourceMapSource leaves (1-3 sources, shared and distinct file names, with/without sourcesContent, names), a quarter of them with CachedSource nodes warmed by earlier map()/stream calls, a tenth a ReplaceSource over a warm CachedSource over 3-5 pieces sharing one original location; the composite and every child are streamed standalone (each on a freshly built and equally warmed instance) with both column settings',
    explanation='chk_C06 compares the per-byte attribution of the composite stream with (Concat) the concatenation of the children\'s own attributions and contents, (Replace) a reference written over byte positions: cuts, pieces whose column advances only where the recorded original content matches, emission points of replacement content',
    checker_name='ChkComp.chk_C06', model_name='Stream/Concat.v, Stream/Replace.v')

def gen_c09(rng, tier):
    n = 2500 if tier == 'quick' else 100000
    out = []
    for i in range(n):
        g = gen_tree.Gen(rng, gen_tree.Cfg(ascii=True, names=0.6, root=0.2))
        value = g.text(14)
        t = g.combined(value, 'gen%d.js' % rng.randrange(0, 3))
        feats = gen_tree.kinds_of(t, set())
        if len(value) >= 2 and t[3]['segs']:
            feats.add('nontrivial')
        if t[4] is not None: feats.add('original_source_given')
        if t[6]: feats.add('remove_original_source')
        if len(t[3]['sources']) > 1: feats.add('several_outer_sources')
        out.append(Case('tree', {'t': t, 'warm': []}, feats))
    return out

C09 = tree_spec('C09', ['src', 'm1', 'm0'] + STREAM_KEYS, gen_c09, 'ChkCombined.chk_C09',
    'chk_C09 is a relational reference over the two decoded maps: pass-through of other sources, resolution through the inner map (column interval, admissible names), fallback to the inner source or removal, matching contents; combined streaming is modelled in Stream/Combined.v and compared event by event')
C09.rule = 'SourceMapSource with inner map: ASCII generated text, consistent outer map over 1-3 sources one of which is the inner source (segments into it point inside the original text), consistent inner map over the original text, original_source given or taken from the outer sourcesContent (or absent), remove_original_source both, names; both column settings'

def gen_c15(rng, tier):
    n = 2000 if tier == 'quick' else 80000
    out = []
    for i in range(n):
        out.append(gen_json.case_value(rng))
        out.append(gen_json.case_doc(rng))
    return out

C15 = Spec('C15',
    kinds={'jsonv': {'ser': gen_json.ser_value, 'proj': ['rt', 'rs', 'rr'], 'shrink': gen_json.shrink_value},
           'jsond': {'ser': gen_json.ser_doc, 'proj': ['fj', 'fs', 'fr'], 'shrink': gen_json.shrink_doc}},
    gen=gen_c15,
    rule='SourceMap values over strings with quotes, backslashes, control characters, DEL, U+2028/2029, BMP edge and astral characters, optional fields present/absent, sourcesContent none/all-empty/partly/full; documents with null entries, null or missing arrays, reordered and unknown keys, both escape styles (raw UTF-8 and \\uXXXX incl. surrogate pairs), whitespace, type errors',
    explanation='the independent JSON reader is the Coq parser Sem/Json.v: it must accept the bytes to_json produces and read the same fields (chk_C15_value), to_writer must be byte-identical, the three parsing entry points must return the normalised value; documents the Coq reader accepts as source maps must be read identically by from_json/from_slice/from_reader (chk_C15_doc); escaping/parsing by simd-json+serde is third-party code covered by this correspondence only',
    checker_name='ChkJson.chk_C15_value / chk_C15_doc', model_name='Sem/Json.v')

def gen_c17(rng, tier):
    n = 1500 if tier == 'quick' else 60000
    out = []
    cfgs = [gen_tree.Cfg(ascii=False, bufs=0.15, invalid_utf8=0.3, sms=0.3, wild=0.6, inner=0.2),
            gen_tree.Cfg(ascii=True, sms=0.4, wild=0.7, inner=0.3),
            gen_tree.Cfg(ascii=False, sms=0.2, wild=0.3, replace=0.4)]
    for i in range(n):
        out.append(gen_tree.gen_tree_case(rng, cfgs[i % len(cfgs)]))
        s, f = gen_codec.gen_junk_string(rng)
        out.append(gen_codec.case_dec(s, f))
        out.append(gen_json.case_junk(rng))
    return out

C17 = Spec('C17',
    kinds={'tree': {'ser': gen_tree.ser_tree, 'proj': [], 'shrink': gen_tree.shrink_tree},
           'codec_dec': {'ser': gen_codec.ser_dec, 'proj': ['dec'], 'shrink': shrink_str},
           'jsond': {'ser': gen_json.ser_doc, 'proj': [], 'shrink': gen_json.shrink_doc}},
    gen=gen_c17, needs_release=True,
    rule='(a) decoder: strings over the base64 alphabet, separators and junk, continuation runs up to 45 digits, deltas up to 2^70; (b) parsers: arbitrary bytes, truncated and byte-perturbed documents, nesting up to 3000 deep, huge numbers, through from_json/from_slice/from_reader; (c) trees with multi-byte text, invalid-UTF-8 buffers, wild sorted maps (segments, source and name indices outside text and tables, original line 0), combined maps, replacements on char boundaries or beyond the end: every Source method and all four streaming modes; debug (overflow-checked) and release builds',
    explanation='decoder: theorem that no overflow check of the Rust arithmetic can fail (Sem/Panic.v) + correspondence; trees/parsers: every observer runs under catch_unwind in both builds, aborts and hangs are detected per case; a panic inside the documented domain is a violation (class K3 is a known finding)',
    checker_name='ChkTree.chk_C17 (domain) + panic/abort/hang detection in ocaml/driver.ml', model_name='Codec/Vlq.v, Stream/Tree.v')

def gen_c19(rng, tier):
    n = 1200 if tier == 'quick' else 50000
    out = []
    cfgs = [gen_tree.Cfg(ascii=False, bufs=0.15, invalid_utf8=0.3, sms=0.3, wild=0.6, inner=0.2),
            gen_tree.Cfg(ascii=False, sms=0.2, wild=0.3, replace=0.4, cached=0.2)]
    for i in range(n):
        out.append(gen_rope.gen_case(rng))
        out.append(gen_tree.gen_tree_case(rng, cfgs[i % len(cfgs)]))
        if i % 3 == 0:
            out.append(gen_codec.case_enc(gen_codec.gen_sorted_mappings(rng)))
    # empty multi-piece ropes
    for p in [('iter', []), ('iter', ['', '']), ('app', ('new',), ('iter', [''])), ('slice', ('iter', ['a', 'b']), 1, 1), ('add', ('new',), '')]:
        out.append(Case('rope', {'p': p, 'q': ('new',)}, {'nontrivial', 'empty_multi_piece'}))
    return out

C19 = Spec('C19',
    kinds={'rope': {'ser': gen_rope.ser_rope, 'proj': [], 'shrink': gen_rope.shrink_rope},
           'tree': {'ser': gen_tree.ser_tree, 'proj': [], 'shrink': gen_tree.shrink_tree},
           'codec_enc': {'ser': gen_codec.ser_enc, 'proj': [], 'shrink': shrink_enc}},
    gen=gen_c19,
    rule='rope programs of C16 (incl. empty multi-piece ropes, all slice ranges), source trees of C01 with multi-byte text, invalid-UTF-8 buffers and wild maps (all observers, all four streaming modes), encoder inputs; a guarded probe immediately before each of the 14 unsafe operations evaluates its documented precondition on the runtime arguments',
    explanation='Coq: the preconditions are theorems of the model - rope_slice never reaches SUB (C16_slice), substring offsets come from char_indices, the encoder emits only ASCII (C12_alphabet), a cached map is never replaced (C18); the probes (hook H4) report any violated precondition in the running code, debug-assertion aborts are detected per case',
    checker_name='unsafe-precondition probes (hook H4) + abort detection', model_name='Rope/RopeModel.v (SUB), Codec/Vlq.v')

def gen_c18(rng, tier):
    n = 1500 if tier == 'quick' else 40000
    out = []
    for i in range(n):
        out.append(gen_sched.gen_sched_R(rng) if i % 2 == 0 else gen_sched.gen_sched_C(rng))
    for i in range(n // 6):
        out.append(gen_sched.gen_sched_L(rng))
    for i in range(n // 10):
        out.append(gen_sched.gen_sched_H(rng))
    # free-running threads (no scheduler) on shared trees without caches: lazy decode of binary
    # leaves, lazy sort of ReplaceSource, composites of them
    fcf = [gen_tree.Cfg(ascii=True, cached=0.0, warm=0.0, bufs=0.5), gen_tree.Cfg(ascii=True, cached=0.0, warm=0.0, replace=0.4, bufs=0.3),
           gen_tree.Cfg(ascii=False, cached=0.0, warm=0.0, bufs=0.5, invalid_utf8=0.3), gen_tree.Cfg(ascii=True, cached=0.0, warm=0.0, sms=0.3, inner=0.3)]
    for i in range(n // 5):
        out.append(gen_hist.gen_fhist_case(rng, fcf[i % len(fcf)]))
    innerh = ('orig', 'a;b\nc', 'f0.js')
    for progs, steps in (([['h'], ['h']], [2, 2]), ([['h', 'h'], ['h']], [3, 2]), ([['h'], ['h'], ['h']], [2, 2, 2])):
        for sch in sorted(gen_sched.all_interleavings(steps))[::(3 if tier == 'quick' else 1)]:
            out.append(Case('sched', {'k': 'H', 'inner': innerh, 'progs': progs, 'sched': list(sch)}, {'nontrivial', 'exhaustive_scope', 'hash_probe'}))
    # bounded exhaustive: 2 threads, all interleavings of one observer vs one clone on a stale index,
    # and of map vs stream on a cold cache
    inner = ('raws', 'abcdef')
    rs = [(1, 2, 'X', None, 1), (0, 1, 'Y', None, 1)]
    for progs, steps in (([['sorted'], ['clone']], [4, 6]), ([['sorted'], ['sorted']], [4, 4]), ([['clone'], ['clone']], [6, 6])):
        inter = sorted(gen_sched.all_interleavings(steps))
        if tier == 'quick':
            inter = inter[::max(1, len(inter) // 60)]
        for sch in inter:
            out.append(Case('sched', {'k': 'R', 'inner': inner, 'rs': rs, 'presort': 2, 'progs': progs, 'sched': list(sch)}, {'nontrivial', 'exhaustive_scope'}))
    innerc = ('orig', 'a;b\nc', 'f0.js')
    for progs, steps in (([['m0'], ['s0']], [2, 1]), ([['m0'], ['m0']], [2, 2]), ([['m0', 's0'], ['s0', 'm0']], [3, 3]), ([['m0'], ['s0'], ['m0']], [2, 1, 2])):
        for sch in sorted(gen_sched.all_interleavings(steps)):
            out.append(Case('sched', {'k': 'C', 'inner': innerc, 'progs': progs, 'sched': list(sch)}, {'nontrivial', 'exhaustive_scope'}))
    # the critical section of the stream fill path: all interleavings of a first stream with a map / a stream
    for progs, steps in (([['s0'], ['m0']], [2, 2]), ([['s0'], ['s0']], [2, 2]), ([['s2'], ['s2'], ['s2']], [2, 2, 2]), ([['s0', 'm0'], ['m0', 's0']], [3, 3])):
        inter = sorted(gen_sched.all_interleavings(steps))
        if tier == 'quick':
            inter = inter[::max(1, len(inter) // 30)]
        for sch in inter:
            out.append(Case('sched', {'k': 'L', 'inner': innerc, 'progs': progs, 'sched': list(sch)}, {'nontrivial', 'exhaustive_scope', 'lock_probe'}))
    return out

C18 = Spec('C18',
    kinds={'sched': {'ser': gen_sched.ser_sched, 'proj': None, 'shrink': gen_sched.shrink_sched},
           'fhist': {'ser': gen_hist.ser_fhist, 'proj': None, 'shrink': gen_hist.shrink_fhist}},
    gen=gen_c18, normalize=gen_sched.normalize,
    rule='2-3 threads with 1-3 operations each over a shared ReplaceSource (observers that sort lazily, clone; cold, sorted or stale index) or a shared CachedSource and clones of it (map and stream in all option sets); random schedules at the granularity of the schedule points before each shared-state access, plus all interleavings of small programs (observer vs clone on a stale index; map vs stream on a cold cache); lock-probe cases park a thread inside the critical section of the stream fill path (before its insert) and let the others run into the held shard lock; hash-probe cases park a thread inside the Hash callback of a user-defined child, i.e. inside the one-time initialisation of CachedSource::hash, while other threads hash clones; free-running cases: 2-4 threads released together (no scheduler) run observer programs on ONE shared tree without CachedSource nodes (binary leaves with their lazy decode, ReplaceSource with its lazy sort, SourceMapSources, composites), every answer compared with a freshly built object',
    explanation='Sem/Conc.v is an interleaving semantics with one step per shared-state access (Sem/ConcLock.v: the stream fill path as acquire / store-and-release with blocking); the harness executes the same schedule on real threads parked at the hook-H3 schedule points and the per-thread site traces, all results, the final flag/index and the storage identity of every cache entry after every step are compared with the model; chk_C18_* : every result equals the sequential answer, every clone satisfies the object invariant, cache entries are write-once; free-running cases: Sem/ConcFree.v - the model runs the thread-major interleaving, C18_free_running_observers shows every interleaving gives every thread the same answers, chk_hist compares each answer with the fresh object\'s',
    checker_name='ApiSched.chk_C18_replace / chk_C18_cached', model_name='Sem/Conc.v, Sem/ConcLock.v')

C12.xcheck = xcheck.codec_crosscheck
for _p in (C01, C02, C03, C04, C07, C08, C09, C11):
    _p.xcheck = xcheck.tree_crosscheck
C17.xcheck = None

REGISTRY = {'C18': C18, 'C19': C19, 'C17': C17, 'C15': C15, 'C09': C09, 'C06': C06, 'C04': C04, 'C12': C12, 'C16': C16, 'C01': C01, 'C05': C05, 'C10': C10, 'C13': C13, 'C14': C14, 'C20': C20, 'C02': C02, 'C03': C03, 'C07': C07, 'C08': C08, 'C11': C11}

def get(pid):
    return REGISTRY[pid]
