"""Check protocol (DESIGN.md section 8)."""
import json, os, random, sys, time, hashlib, traceback
from . import build, runner, props
from .common import Case

VERIF = build.VERIF
EVID = os.path.join(VERIF, 'evidence')
REPLAYS = os.path.join(EVID, 'replays')

TRUSTED_BASE = [
    'Coq 8.16.1 kernel (coqc, full .vo build; vm_compute only inside proofs of finite sweeps; no native_compute)',
    'Print Assumptions under every property theorem must report "Closed under the global context" (development is axiom-free)',
    'extraction: ExtrOcamlBasic only (bool, option, unit, list, prod, sumbool, sumor to OCaml types; andb/orb inlined); N/Z/positive/nat stay inductive; OCaml 4.13.1',
    'ocaml/driver.ml (case/observation parsing, printing), harness/ (Rust; builds objects from cases, records callbacks), lib/rsvlib (generation, diff, shrink, evidence)',
    'rustc/cargo 1.83.0 and the crate dependencies',
    'the Gallina model is hand-written: /repo/src is modelled, not verified; the tie is differential execution of model and implementation on the generated cases plus the committed corpus',
]

def load_known():
    p = os.path.join(VERIF, 'known_findings.json')
    if not os.path.exists(p):
        return []
    return json.load(open(p)).get('findings', [])

def assign_ids(prop, cases):
    for i, c in enumerate(cases):
        c.cid = '%s-%d' % (prop, i)

def case_line(spec, c):
    if c.raw is not None:
        return c.cid + ' ' + c.raw
    return c.cid + ' ' + spec.kinds[c.kind]['ser'](c.obj)

def project(spec, kind, kvs):
    if spec.normalize:
        kvs = spec.normalize(kvs)
    keys = spec.kinds[kind].get('proj')
    if keys is None:
        return dict(kvs)
    return {k: kvs.get(k) for k in keys}

def write_replay(prop, payload):
    os.makedirs(REPLAYS, exist_ok=True)
    h = hashlib.sha256(json.dumps(payload, sort_keys=True).encode()).hexdigest()[:12]
    path = os.path.join(REPLAYS, '%s-%s.json' % (prop, h))
    json.dump(payload, open(path, 'w'), indent=1, sort_keys=True)
    return path

def eval_one(spec, bindir, kind, obj, tag='one'):
    c = Case(kind, obj)
    c.cid = 'x'
    line = case_line(spec, c)
    impl, model, verdict = runner.evaluate(spec.pid, tag, [line], bindir, shards=1, timeout=120, obs_bin=spec.obs_bin)
    return line, impl.get('x', {}), model.get('x', {}), verdict.get('x', '')

def is_fail(v):
    return v.startswith('FAIL')

def shrink(spec, bindir, kind, obj, pred, budget=400):
    """Greedy delta debugging: pred(impl, model, verdict) must stay true."""
    shr = spec.kinds[kind].get('shrink')
    if shr is None:
        return obj
    cur = obj
    steps = 0
    improved = True
    # wall-clock bound too: a change that makes the library loop turns every step into a time-out
    t_end = time.time() + float(os.environ.get('RSV_SHRINK_SECONDS', '90'))
    while improved and steps < budget and time.time() < t_end:
        improved = False
        for cand in shr(cur):
            steps += 1
            if steps > budget or time.time() > t_end:
                break
            try:
                _, impl, model, verdict = eval_one(spec, bindir, kind, cand, tag='shrink')
            except Exception:
                continue
            if pred(impl, model, verdict):
                cur = cand
                improved = True
                break
    return cur

def check(prop, tier, seed):
    t0 = time.time()
    spec = props.get(prop)
    os.makedirs(EVID, exist_ok=True)
    evpath = os.path.join(EVID, '%s.json' % prop)
    violations = []      # (replay path, suffix)
    known_lines = []
    notes = []
    proof = {'theorems': [], 'assumptions': {}, 'problems': []}
    obligations = []

    # ---- 1. proofs ----
    try:
        hits = build.forbidden_scan()
        if hits:
            proof['problems'] += ['forbidden construct: ' + h for h in hits]
        cb = build.coq_build(clean=(tier == 'thorough' and os.environ.get('RSV_NO_CLEAN') != '1'))
        notes.append('coq build: %s' % ('rebuilt in %.0fs' % cb['wall_s'] if cb['rebuilt'] else 'reused .vo (content hash match)'))
        thms, assumptions, problems = build.check_props_file(prop)
        proof['theorems'] = thms
        proof['assumptions'] = assumptions
        proof['problems'] += problems
        if os.path.exists(os.path.join(build.COQ, 'theories/Props/%s.v' % prop)):
            deps = build.coqdep_closure('theories/Props/%s.v' % prop)
            obligations = build.count_statements(deps)
        if tier == 'thorough' and spec.coqchk:
            rc, out = build.run(['coqchk', '-silent', '-o', '-Q', 'theories', 'RS', 'RS.Props.%s' % prop], cwd=build.COQ, timeout=3600, check=False)
            notes.append('coqchk: rc=%d %s' % (rc, out.strip().replace('\n', ' | ')[-600:]))
            if rc != 0:
                proof['problems'].append('coqchk failed')
        build.extract_and_driver()
    except build.BuildError as e:
        proof['problems'].append('%s failed: %s' % (e.what, e.log[-2000:]))

    # ---- 2. implementation harness from /repo's working tree ----
    bindir = None
    harness_error = None
    try:
        bindir = build.cargo_build(release=False)
        reldir = build.cargo_build(release=True) if spec.needs_release else None
    except build.BuildError as e:
        harness_error = '%s failed: %s' % (e.what, e.log[-3000:])

    # ---- 3. cases ----
    rng = random.Random(seed)
    cases = list(spec.corpus()) + list(spec.gen(rng, tier))
    assign_ids(prop, cases)
    bykid = {c.cid: c for c in cases}
    lines = [case_line(spec, c) for c in cases]
    stats = {'cases': len(cases), 'kinds': {}, 'features': {}}
    for c in cases:
        stats['kinds'][c.kind] = stats['kinds'].get(c.kind, 0) + 1
        for f in c.feats:
            stats['features'][f] = stats['features'].get(f, 0) + 1
    distinct_nontrivial = len({l.split(' ', 1)[1] for c, l in zip(cases, lines) if 'nontrivial' in c.feats})

    mismatches, fails, skipped = [], [], 0
    impl = model = verdict = {}
    if bindir and not any('extraction' in p or 'ocaml driver' in p for p in proof['problems']) and os.path.exists(build.DRIVER):
        impl, model, verdict = runner.evaluate(prop, prop, lines, bindir, obs_bin=spec.obs_bin,
                                               timeout=spec.timeout.get(tier, 150 if tier == 'quick' else 3600))
        for c in cases:
            iv, mv, v = impl.get(c.cid, {}), model.get(c.cid, {}), verdict.get(c.cid, 'FAIL clause=no-verdict')
            if v.startswith('SKIP'):
                # outside the property's domain (decided on the case alone): nothing is claimed
                skipped += 1
                continue
            if is_fail(v):
                fails.append(c)
            if 'NOCORR' in mv:
                continue
            if mv.get('MODELERR') == 'stack_overflow':
                # the executable model recurses on unary numbers: a position near 2^32 (a wrapped u32 in
                # the implementation) exhausts its stack.  The case is not compared; it is counted.
                stats['model_not_evaluable'] = stats.get('model_not_evaluable', 0) + 1
                continue
            if project(spec, c.kind, iv) != project(spec, c.kind, mv):
                mismatches.append(c)
        # Scheduled cases detect "this thread is blocked on a lock" by a settle time-out (60 ms): on a
        # starved machine a slow thread can be taken for a blocked one.  A scheduled execution is
        # deterministic, so a real failure repeats: a failing or diverging `sched` case is re-run alone
        # (twice) and kept unless BOTH re-runs pass and agree with the model.  Unscheduled (`fhist`)
        # cases are never filtered - there a failure that does not repeat is still a failure.
        suspects = [c for c in cases if c.kind == 'sched' and (c in fails or c in mismatches)]
        for c in suspects[:20]:
            ok_runs = 0
            for _ in range(2):
                try:
                    _, i2, m2, v2 = eval_one(spec, bindir, c.kind, c.obj, tag='confirm')
                except Exception:
                    break
                if is_fail(v2) or project(spec, c.kind, i2) != project(spec, c.kind, m2):
                    break
                ok_runs += 1
            if ok_runs == 2:
                if c in fails:
                    fails.remove(c)
                if c in mismatches:
                    mismatches.remove(c)
                stats['timing_artefacts_not_repeated'] = stats.get('timing_artefacts_not_repeated', 0) + 1
        if getattr(spec, 'xcheck', None):
            # extraction cross-check: the kernel's vm_compute must agree with the extracted OCaml
            try:
                xr = spec.xcheck(lines, model, 40 if tier == 'quick' else 400, impl_kvs=impl, verdicts=verdict, prop=prop)
            except TypeError:
                xr = spec.xcheck(lines, model, 40 if tier == 'quick' else 400)
            stats['extraction_crosscheck'] = {'cases_evaluated_inside_coq': xr['cases'], 'agree': xr['ok']}
            if not xr['ok']:
                proof['problems'].append('extraction cross-check failed: ' + xr['log'])
        if spec.needs_release and reldir:
            # the same cases on the release build (wrapping arithmetic, no debug assertions)
            impl_r, _, verdict_r = runner.evaluate(prop, prop + '-release', lines, reldir, obs_bin=spec.obs_bin,
                                                   timeout=spec.timeout.get(tier, 150 if tier == 'quick' else 3600), want_model=False)
            stats['release_build_cases'] = len(verdict_r)
            for c in cases:
                vr = verdict_r.get(c.cid, '')
                if is_fail(vr) and not is_fail(verdict.get(c.cid, '')):
                    verdict[c.cid] = vr + ' build=release'
                    impl[c.cid] = impl_r.get(c.cid, {})
                    fails.append(c)
        if spec.extra:
            for name, fn in spec.extra:
                r = fn(tier, seed, bindir, reldir, rng)
                stats.setdefault('extra', {})[name] = r.get('stats')
                for item in r.get('fails', []):
                    fails.append(item)
    elif harness_error:
        path = write_replay(prop, {'property': prop, 'kind': 'harness-build-failure', 'detail': harness_error,
                                   'note': 'the verification harness no longer builds against /repo; correspondence cannot be established'})
        violations.append((path, ' no-failing-input-found'))

    # ---- 4. verdicts ----
    known = [k for k in load_known() if k.get('property') == prop and k.get('status', 'open') == 'open']
    reported_classes = set()
    known_samples = {}
    new_fail_replays = 0
    for c in fails:
        if isinstance(c, dict):      # produced by an extra routine: already a replay payload
            kf = c.get('known_class')
            if kf and any(k['class'] == kf for k in known):
                if kf not in reported_classes:
                    reported_classes.add(kf)
                continue
            if new_fail_replays < 3:
                violations.append((write_replay(prop, c), ''))
                new_fail_replays += 1
            continue
        v = verdict.get(c.cid, '')
        kf = None
        for tok in v.split():
            if tok.startswith('KF='):
                kf = tok[3:]
        if kf and any(k['class'] == kf for k in known):
            if kf not in reported_classes:
                known_samples[kf] = case_line(spec, c).split(' ', 1)[1]
            reported_classes.add(kf)
            continue
        if new_fail_replays >= 3:
            continue
        new_fail_replays += 1
        clause = v
        obj = c.obj
        if obj is not None:
            obj = shrink(spec, bindir, c.kind, obj, lambda i, m, vv: is_fail(vv) and 'KF=' not in vv)
        line, i1, m1, v1 = eval_one(spec, bindir, c.kind, obj) if obj is not None else (case_line(spec, c), impl.get(c.cid), model.get(c.cid), v)
        path = write_replay(prop, {'property': prop, 'kind': 'checker-failure', 'case': line.split(' ', 1)[1],
                                   'original_case': case_line(spec, c).split(' ', 1)[1], 'seed': seed,
                                   'impl_observation': i1, 'model_observation': m1, 'verdict': v1 or clause,
                                   'checker': spec.checker_name})
        violations.append((path, ''))
    for k in known:
        if k['class'] in reported_classes or k.get('always_report'):
            known_lines.append('KNOWN-FINDING: property=%s %s' % (prop, k['message']))

    fail_ids = {c.cid for c in fails if not isinstance(c, dict)}
    corr_only = [c for c in mismatches if c.cid not in fail_ids]
    if corr_only and not violations:
        # correspondence broken although the checker accepts the observations: search the
        # neighbourhood of the diverging cases for an input on which the property fails
        found = None
        budget = 300
        for c in corr_only[:5]:
            shr = spec.kinds[c.kind].get('shrink')
            mut = spec.kinds[c.kind].get('mutate')
            cands = []
            if shr and c.obj is not None:
                cands += list(shr(c.obj))
            if mut and c.obj is not None:
                cands += [mut(c.obj, rng) for _ in range(40)]
            for cand in cands:
                budget -= 1
                if budget < 0:
                    break
                try:
                    line, i1, m1, v1 = eval_one(spec, bindir, c.kind, cand, tag='search')
                except Exception:
                    continue
                if is_fail(v1) and 'KF=' not in v1:
                    found = (line, i1, m1, v1)
                    break
            if found or budget < 0:
                break
        c = corr_only[0]
        if found:
            line, i1, m1, v1 = found
            path = write_replay(prop, {'property': prop, 'kind': 'checker-failure-found-by-search', 'case': line.split(' ', 1)[1],
                                       'seed': seed, 'impl_observation': i1, 'model_observation': m1, 'verdict': v1,
                                       'diverging_case': case_line(spec, c).split(' ', 1)[1]})
            violations.append((path, ''))
        else:
            small = c.obj
            if small is not None:
                keys = spec.kinds[c.kind].get('proj')
                small = shrink(spec, bindir, c.kind, c.obj,
                               lambda i, m, vv: project(spec, c.kind, i) != project(spec, c.kind, m) and not str(vv).startswith('SKIP'), budget=200)
                line, i1, m1, v1 = eval_one(spec, bindir, c.kind, small)
            else:
                line, i1, m1, v1 = case_line(spec, c), impl.get(c.cid), model.get(c.cid), verdict.get(c.cid)
            path = write_replay(prop, {'property': prop, 'kind': 'correspondence-broken',
                                       'correspondence': 'projection %s of kind %s (model %s vs implementation)' % (spec.kinds[c.kind].get('proj'), c.kind, spec.model_name),
                                       'first_diverging_case': line.split(' ', 1)[1], 'seed': seed,
                                       'original_case': case_line(spec, c).split(' ', 1)[1],
                                       'impl_observation': i1, 'model_observation': m1,
                                       'diverging_cases': len(corr_only),
                                       'note': 'the model no longer describes the code; no input violating the property was found in the generated set, the corpus or the neighbourhood of the diverging cases'})
            violations.append((path, ' no-failing-input-found'))
    if proof['problems'] and not violations:
        path = write_replay(prop, {'property': prop, 'kind': 'proof-broken', 'theorems': proof['theorems'],
                                   'problems': proof['problems'],
                                   'note': 'a theorem of Props/%s.v or its assumption allow-list no longer checks' % prop})
        violations.append((path, ' no-failing-input-found'))

    # ---- 5. evidence ----
    samples = [l.split(' ', 1)[1][:400] for l in lines[:2]] + [l.split(' ', 1)[1][:400] for l in lines[-3:]]
    n_thm = len(proof['theorems'])
    ev = {
        'property_id': prop, 'tier': tier, 'seed': seed, 'level': spec.level,
        'coverage': {
            'obligations': max(1, len(obligations)),
            'discharged': max(1, len(obligations)) if not proof['problems'] else 0,
            'checker_cmd': 'make -C coq (coq_makefile, full .vo) && coqc -Q theories RS theories/Props/%s.v  [Print Assumptions under every theorem]%s' % (prop, '; coqchk -o' if tier == 'thorough' and spec.coqchk else ''),
            'trusted_base': TRUSTED_BASE + spec.trusted_extra,
            'property_theorems': proof['theorems'],
            'assumptions_reported': proof['assumptions'],
            'evaluations': len(cases),
            'distinct_nontrivial': distinct_nontrivial,
            'rule': spec.rule,
            'samples': samples,
            'correspondence': {'cases_compared': len(cases), 'diverging': len(mismatches),
                               'checker_fail': len(fails), 'checker_skip_out_of_domain': skipped,
                               'projection': {k: v.get('proj') for k, v in spec.kinds.items()}},
            'input_distribution': stats,
            'known_finding_samples': known_samples,
            'explanation': spec.explanation,
            'notes': notes,
        },
        'assumptions': spec.assumptions,
        'wall_s': round(time.time() - t0, 2),
        'violations': len(violations),
    }
    json.dump(ev, open(evpath, 'w'), indent=1, sort_keys=True)
    for l in known_lines:
        print(l)
    seen_paths = set()
    for path, suffix in violations:
        if path in seen_paths:
            continue
        seen_paths.add(path)
        print('VIOLATION property=%s replay=%s%s' % (prop, path, suffix))
    print('%s %s: %d cases, %d diverging, %d checker failures, %d theorems (%d statements in closure), %.1fs'
          % (prop, tier, len(cases), len(mismatches), len(fails), n_thm, len(obligations), time.time() - t0))
    return 1 if violations else 0

def setup():
    t0 = time.time()
    try:
        build.coq_build()
        build.extract_and_driver()
        build.cargo_build(release=False)
        build.cargo_build(release=True)
    except build.BuildError as e:
        print('setup failed: %s\n%s' % (e.what, e.log[-4000:]))
        return 1
    print('setup ok in %.0fs' % (time.time() - t0))
    return 0

def replay(path):
    r = json.load(open(path))
    prop = r['property']
    spec = props.get(prop)
    build.coq_build(); build.extract_and_driver()
    bindir = build.cargo_build(release=False)
    case = r.get('case') or r.get('first_diverging_case')
    if not case:
        print(json.dumps(r, indent=1))
        return 0
    impl, model, verdict = runner.evaluate(prop, 'replay', ['r ' + case], bindir, shards=1, obs_bin=spec.obs_bin)
    print('case:    ', case)
    print('impl:    ', impl.get('r'))
    print('model:   ', model.get('r'))
    print('verdict: ', verdict.get('r'))
    return 1 if is_fail(verdict.get('r', '')) or impl.get('r') != model.get('r') else 0

def main(argv):
    if not argv:
        print(__doc__); sys.exit(2)
    if argv[0] == 'setup':
        sys.exit(setup())
    if argv[0] == 'check':
        prop = argv[1]
        tier = os.environ.get('VERIF_TIER', 'quick')
        if '--tier' in argv:
            tier = argv[argv.index('--tier') + 1]
        seed = int(os.environ.get('VERIF_SEED', '1'))
        sys.exit(check(prop, tier, seed))
    if argv[0] == 'replay':
        sys.exit(replay(argv[1]))
    print('unknown command'); sys.exit(2)
