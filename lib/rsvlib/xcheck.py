"""Cross-check of the extraction: a few cases are evaluated by the Coq kernel's own vm_compute
(inside a generated .v file) and must equal what the extracted OCaml code printed."""
import os, subprocess
from . import build

def coq_list(xs, f=str):
    return '[' + '; '.join(f(x) for x in xs) + ']'

def coq_text(h):
    b = b'' if h == '.' else bytes.fromhex(h)
    return coq_list(list(b))

def coq_optn(x):
    return 'None' if x == '-' else '(Some %s)' % x

def coq_mapping_fields(gl, gc, si, ol, oc, ni):
    if si == '-':
        return '(mkMapping %s %s None)' % (gl, gc)
    return '(mkMapping %s %s (Some (mkOrig %s %s %s %s)))' % (gl, gc, si, ol, oc, coq_optn(ni))

def coq_mlist(s):
    if s == '.':
        return '[]'
    return coq_list([coq_mapping_fields(*m.split(':')) for m in s.split(';')], lambda x: x)

def codec_crosscheck(case_lines, model_kvs, limit=40):
    """case_lines: 'id codec_enc n ...' / 'id codec_dec hex'; model_kvs: id -> kvs from the OCaml driver"""
    body = ['From RS Require Import Base.Prelude Codec.Vlq Api.ApiCodec.', 'Open Scope N_scope.']
    n = 0
    for line in case_lines:
        toks = line.split(' ')
        cid, kind = toks[0], toks[1]
        kv = model_kvs.get(cid)
        if kv is None:
            continue
        if kind == 'codec_enc':
            k = int(toks[2])
            ms = [toks[3 + 6 * i: 9 + 6 * i] for i in range(k)]
            if any(int(x) > 10 ** 6 for m in ms for x in m if x != '-'):
                continue
            term = coq_list([coq_mapping_fields(*m) for m in ms], lambda x: x)
            exp = '(%s, %s, %s, %s, %s)' % (coq_text(kv['enc']), coq_mlist(kv['dec']), coq_text(kv['reenc']),
                                           coq_text(kv['lenc']), coq_mlist(kv['ldec']))
            body.append('Example x%d : api_codec_enc %s = %s. Proof. vm_compute. reflexivity. Qed.' % (n, term, exp))
        elif kind == 'codec_dec':
            body.append('Example x%d : api_codec_dec %s = %s. Proof. vm_compute. reflexivity. Qed.'
                        % (n, coq_text(toks[2]), coq_mlist(kv['dec'])))
        else:
            continue
        n += 1
        if n >= limit:
            break
    d = os.path.join(build.BUILD, 'xcheck')
    os.makedirs(d, exist_ok=True)
    path = os.path.join(d, 'XCheck.v')
    open(path, 'w').write('\n'.join(body) + '\n')
    rc, out = build.run(['coqc', '-noglob', '-Q', os.path.join(build.COQ, 'theories'), 'RS', '-o',
                         os.path.join(d, 'XCheck.vo'), path], cwd=d, timeout=900, check=False)
    return {'cases': n, 'ok': rc == 0, 'log': out[-1500:] if rc != 0 else ''}


# ---------------- tree cases ----------------
class _Toks:
    def __init__(self, toks): self.t = toks; self.i = 0
    def next(self):
        x = self.t[self.i]; self.i += 1; return x
    def peek(self): return self.t[self.i] if self.i < len(self.t) else None

def coq_opt_text(h):
    return 'None' if h == '-' else '(Some %s)' % coq_text(h)

def coq_text_list(s):
    if s == '_':
        return '[]'
    return coq_list([coq_text(x) for x in s.split(',')], lambda x: x)

def coq_smap_fields(mp, srcs, cts, nms, file, root, dbg):
    return '(mkSmap %s %s %s %s %s %s %s)' % (coq_opt_text(file), coq_text(mp), coq_text_list(srcs), coq_text_list(cts),
                                              coq_text_list(nms), coq_opt_text(root), coq_opt_text(dbg))

def _smap(t):
    assert t.next() == 'M'
    return coq_smap_fields(*[t.next() for _ in range(7)])

def coq_src(t):
    """independent parser of the case grammar (see ocaml/driver.ml parse_src) producing a Gallina term"""
    k = t.next()
    if k == 'raws': return '(SRaw false %s)' % coq_text(t.next())
    if k == 'rawb': return '(SRaw true %s)' % coq_text(t.next())
    if k == 'rstr': return '(SRawString %s)' % coq_text(t.next())
    if k == 'rbuf': return '(SRawBuffer %s)' % coq_text(t.next())
    if k == 'orig':
        v = t.next(); n = t.next()
        return '(SOriginal %s %s)' % (coq_text(v), coq_text(n))
    if k in ('sms', 'usr'):
        v = t.next(); n = t.next(); m = _smap(t); o = t.next()
        inner = 'None'
        if t.peek() == '-':
            t.next()
        else:
            inner = '(Some %s)' % _smap(t)
        rm = t.next()
        return '(SMapped %s %s %s %s %s %s)' % (coq_text(v), coq_text(n), m, coq_opt_text(o), inner, 'true' if rm == '1' else 'false')
    if k in ('concat', 'concata'):
        n = int(t.next()); items = []
        for _ in range(n):
            ty = t.next(); c = coq_src(t)
            items.append('(IBoxed %s)' % c if ty == 'b' else '(match %s with SConcat cs => ITyped cs | x => IBoxed x end)' % c)
        return '(concat_new %s)' % coq_list(items, lambda x: x)
    if k == 'repl':
        inner = coq_src(t); n = int(t.next()); rs = []
        for _ in range(n):
            st, en, c, nm, enf = [t.next() for _ in range(5)]
            rs.append('(mkRepl %s %s %s %s %s)' % (st, en, coq_text(c), coq_opt_text(nm), enf))
        return '(SReplace %s %s)' % (inner, coq_list(rs, lambda x: x))
    if k == 'cached':
        cid = t.next(); inner = coq_src(t)
        return '(SCached %s %s)' % (cid, inner)
    raise ValueError(k)

_WOP = {'m1': '(WMap true)', 'm0': '(WMap false)', 's10': '(WStream true false)', 's00': '(WStream false false)',
        's11': '(WStream true true)', 's01': '(WStream false true)'}

def coq_event(e):
    f = e.split(':')
    if f[0] == 'S':
        return '(ESource %s %s %s)' % (f[1], coq_text(f[2]), coq_opt_text(f[3]))
    if f[0] == 'N':
        return '(EName %s %s)' % (f[1], coq_text(f[2]))
    return '(EChunk %s %s)' % (coq_opt_text(f[1]), coq_mapping_fields(*f[2:8]))

def coq_events(s):
    return '[]' if s == '_' else coq_list([coq_event(e) for e in s.split('|')], lambda x: x)

def coq_optmap(s):
    if s == '-':
        return 'None'
    return '(Some %s)' % coq_smap_fields(*s.split(';'))

def tree_crosscheck(case_lines, model_kvs, limit=25, impl_kvs=None, verdicts=None, prop=None):
    """'id tree <src> <nwarm> (<cache id> <op>)*' : source(), the four streams with their end info and both
    maps as printed by the extracted OCaml must be what the kernel computes for the independently
    translated term"""
    body = ['From RS Require Import Base.Prelude Base.Text Codec.Vlq Stream.Types Stream.Tree Api.ApiTree Api.ApiCheck.',
            'Open Scope N_scope.']
    n = 0
    for line in case_lines:
        toks = [x for x in line.split(' ') if x != '']
        if len(toks) < 3 or toks[1] != 'tree' or len(line) > 700:
            continue
        # call-by-value evaluation inside Coq builds unary numbers the lazy `||` of the extracted code never touches
        if any(x.isdigit() and int(x) > 10 ** 6 for x in toks[2:]):
            continue
        kv = model_kvs.get(toks[0])
        if not kv or 'MODELERR' in kv or any(k not in kv for k in ('src', 'e10', 'g10', 'm1', 'm0')):
            continue
        try:
            t = _Toks(toks[2:])
            term = coq_src(t)
            ws = []
            if t.peek() is not None:
                for _ in range(int(t.next())):
                    cid = t.next(); op = t.next()
                    ws.append('(%s, %s)' % (cid, _WOP[op]))
            streams = []
            for tag in ('10', '00', '11', '01'):
                gl, gc = kv['g' + tag].split(':')
                streams.append('(%s, (%s, %s))' % (coq_events(kv['e' + tag]), gl, gc))
            exp = '(%s, %s, %s)' % (coq_text(kv['src']), coq_list(streams, lambda x: x),
                                    coq_list([coq_optmap(kv['m1']), coq_optmap(kv['m0'])], lambda x: x))
        except Exception:
            continue
        body.append('Example x%d : (let o := api_tree %s %s in (to_source o, to_streams o, to_maps o)) = %s.\n'
                    'Proof. vm_compute. reflexivity. Qed.' % (n, term, coq_list(ws, lambda x: x), exp))
        # the extracted CHECKER too: its verdict on what the implementation answered
        iv = (impl_kvs or {}).get(toks[0]); vd = (verdicts or {}).get(toks[0])
        if iv and vd and prop and not any(str(x).startswith('PANIC') for x in iv.values()) \
           and all(k in iv for k in ('src', 'buf', 'size', 'rope', 'wr', 'm1', 'm0')):
            try:
                code = 0 if vd == 'OK' else 100 if vd == 'SKIP' else int(vd.split('clause=')[1].split()[0])
                st2 = []
                for tag in ('10', '00', '11', '01'):
                    gl, gc = iv['g' + tag].split(':')
                    st2.append('(%s, (%s, %s))' % (coq_events(iv['e' + tag]), gl, gc))
                obs = '(mkTreeObs %s %s %s %s %s %s %s)' % (
                    coq_text(iv['src']), coq_text(iv['buf']), iv['size'], coq_opt_text(iv['rope']),
                    coq_text_list(iv['wr']), coq_list(st2, lambda x: x),
                    coq_list([coq_optmap(iv['m1']), coq_optmap(iv['m0'])], lambda x: x))
                body.append('Example v%d : api_check_tree %d %s %s %s = %d.\nProof. vm_compute. reflexivity. Qed.'
                            % (n, int(prop[1:]), term, coq_list(ws, lambda x: x), obs, code))
            except Exception:
                pass
        n += 1
        if n >= limit:
            break
    d = os.path.join(build.BUILD, 'xcheck', prop)
    os.makedirs(d, exist_ok=True)
    path = os.path.join(d, 'XCheckTree.v')
    open(path, 'w').write('\n'.join(body) + '\n')
    rc, out = build.run(['coqc', '-noglob', '-Q', os.path.join(build.COQ, 'theories'), 'RS', '-o',
                         os.path.join(d, 'XCheckTree.vo'), path], cwd=d, timeout=1200, check=False)
    return {'cases': n, 'ok': rc == 0, 'log': out[-1500:] if rc != 0 else ''}
