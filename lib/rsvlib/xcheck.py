"""Cross-check of the extraction: a few cases are evaluated by the Coq kernel's own vm_compute
(inside a generated .v file) and must equal what the extracted OCaml code printed."""
import os, subprocess
from . import build

def coq_list(xs, f=str):
    return '[' + '; '.join(f(x) for x in xs) + ']'

def coq_text(h):
    b = b'' if h == '.' else bytes.fromhex(h)
    return coq_list(list(b))

def coq_optn(x):
    return 'None' if x == '-' else '(Some %s)' % x

def coq_mapping_fields(gl, gc, si, ol, oc, ni):
    if si == '-':
        return '(mkMapping %s %s None)' % (gl, gc)
    return '(mkMapping %s %s (Some (mkOrig %s %s %s %s)))' % (gl, gc, si, ol, oc, coq_optn(ni))

def coq_mlist(s):
    if s == '.':
        return '[]'
    return coq_list([coq_mapping_fields(*m.split(':')) for m in s.split(';')], lambda x: x)

def codec_crosscheck(case_lines, model_kvs, limit=40):
    """case_lines: 'id codec_enc n ...' / 'id codec_dec hex'; model_kvs: id -> kvs from the OCaml driver"""
    body = ['From RS Require Import Base.Prelude Codec.Vlq Api.ApiCodec.', 'Open Scope N_scope.']
    n = 0
    for line in case_lines:
        toks = line.split(' ')
        cid, kind = toks[0], toks[1]
        kv = model_kvs.get(cid)
        if kv is None:
            continue
        if kind == 'codec_enc':
            k = int(toks[2])
            ms = [toks[3 + 6 * i: 9 + 6 * i] for i in range(k)]
            if any(int(x) > 10 ** 6 for m in ms for x in m if x != '-'):
                continue
            term = coq_list([coq_mapping_fields(*m) for m in ms], lambda x: x)
            exp = '(%s, %s, %s, %s, %s)' % (coq_text(kv['enc']), coq_mlist(kv['dec']), coq_text(kv['reenc']),
                                           coq_text(kv['lenc']), coq_mlist(kv['ldec']))
            body.append('Example x%d : api_codec_enc %s = %s. Proof. vm_compute. reflexivity. Qed.' % (n, term, exp))
        elif kind == 'codec_dec':
            body.append('Example x%d : api_codec_dec %s = %s. Proof. vm_compute. reflexivity. Qed.'
                        % (n, coq_text(toks[2]), coq_mlist(kv['dec'])))
        else:
            continue
        n += 1
        if n >= limit:
            break
    d = os.path.join(build.BUILD, 'xcheck')
    os.makedirs(d, exist_ok=True)
    path = os.path.join(d, 'XCheck.v')
    open(path, 'w').write('\n'.join(body) + '\n')
    rc, out = build.run(['coqc', '-noglob', '-Q', os.path.join(build.COQ, 'theories'), 'RS', '-o',
                         os.path.join(d, 'XCheck.vo'), path], cwd=d, timeout=900, check=False)
    return {'cases': n, 'ok': rc == 0, 'log': out[-1500:] if rc != 0 else ''}
