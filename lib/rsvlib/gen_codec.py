"""Generators for the mappings codec (C12, decoder part of C17)."""
from .common import *

B64 = 'ABCDEFGHIJKLMNOPQRSTUVWXYZabcdefghijklmnopqrstuvwxyz0123456789+/'

BOUNDARY = [0, 1, 2, 15, 16, 17, 31, 32, 33, 511, 512, 1023, 1024, 1025, 16383, 16384, 524287, 524288,
            16777215, 16777216, 536870911, 536870912, (1 << 30) - 1]

def magnitude(rng):
    r = rng.random()
    if r < 0.55:
        return rng.randrange(0, 40)
    if r < 0.8:
        return rng.choice(BOUNDARY)
    if r < 0.9:
        return rng.randrange(0, 1 << rng.randrange(1, 30))
    return max(0, rng.choice(BOUNDARY) + rng.randrange(-2, 3))

def gen_sorted_mappings(rng, maxlen=10):
    n = weighted(rng, [(0, 1), (1, 2), (2, 3), (3, 4), (rng.randrange(4, maxlen + 1), 6)])
    ms = []
    # generated lines stay small: the encoding spends one ';' per line
    line = 1 + (rng.randrange(0, 40) if rng.random() < 0.15 else rng.randrange(0, 3) if rng.random() < 0.3 else 0)
    col = magnitude(rng) if rng.random() < 0.5 else 0
    pool = []   # originals to repeat (exercise the redundant-segment rule)
    for _ in range(n):
        r = rng.random()
        if r < 0.2:
            o = None
        elif r < 0.45 and pool:
            o = rng.choice(pool)
        else:
            ni = None if rng.random() < 0.6 else magnitude(rng)
            o = (magnitude(rng) if rng.random() < 0.5 else rng.randrange(0, 3),
                 1 + magnitude(rng) if rng.random() < 0.5 else rng.randrange(1, 5),
                 magnitude(rng), ni)
            pool.append(o)
            if rng.random() < 0.3:
                pool.append((o[0], o[1], o[2], None))
        ms.append((min(line, (1 << 30) - 1), min(col, (1 << 30) - 1), o))
        r = rng.random()
        if r < 0.3:
            line += 1 + (rng.randrange(0, 3) if rng.random() < 0.3 else 0) + (rng.randrange(0, 40) if rng.random() < 0.05 else 0)
            col = magnitude(rng) if rng.random() < 0.5 else 0
        elif r < 0.93:
            col += 1 + magnitude(rng) if rng.random() < 0.4 else 1 + rng.randrange(0, 6)
        # else: same position again (non-strict sortedness)
    return ms

def feats_enc(ms):
    f = set()
    if len(ms) >= 2:
        f.add('nontrivial')
    if any(m[2] is None for m in ms):
        f.add('has_unmapped')
    if any(m[2] is not None and m[2][3] is not None for m in ms):
        f.add('has_name')
    if any(a[2] is not None and b[2] is not None and a[0] == b[0] and a[2][:3] == b[2][:3] for a, b in zip(ms, ms[1:])):
        f.add('repeats_active_original')
    if any(a[0] == b[0] and a[1] == b[1] for a, b in zip(ms, ms[1:])):
        f.add('duplicate_position')
    if any(max(m[0], m[1]) >= 1 << 20 for m in ms):
        f.add('large_value')
    if any(b[0] - a[0] > 1 for a, b in zip(ms, ms[1:])):
        f.add('line_gap')
    return f

def case_enc(ms):
    return Case('codec_enc', {'ms': ms}, feats_enc(ms))

def ser_enc(obj):
    return 'codec_enc ' + fmt_mappings(obj['ms'])

def vlq(v, rng=None, redundant=0):
    """standard base64 VLQ of a signed integer, optionally with redundant continuation digits"""
    n = (v << 1) if v >= 0 else ((-v) << 1) | 1
    digits = []
    while True:
        d = n & 31
        n >>= 5
        digits.append(d)
        if n == 0:
            break
    for _ in range(redundant):
        digits.append(0)
    out = ''
    for i, d in enumerate(digits):
        if i < len(digits) - 1:
            d |= 32
        out += B64[d]
    return out

def gen_grammar_string(rng):
    """A string of the v3 grammar with 1/4/5-field segments and non-negative running values."""
    nlines = weighted(rng, [(1, 3), (2, 3), (3, 2), (rng.randrange(4, 8), 1)])
    src = ol = oc = nm = 0
    out = []
    feats = set()
    for _ in range(nlines):
        nseg = weighted(rng, [(0, 2), (1, 3), (2, 3), (3, 2), (rng.randrange(4, 7), 1)])
        gcol = 0
        segs = []
        for _ in range(nseg):
            if rng.random() < 0.08:
                segs.append('')
                feats.add('empty_segment')
                continue
            def delta(cur, allow_neg=True):
                if allow_neg and cur > 0 and rng.random() < 0.3:
                    return -rng.randrange(1, cur + 1)
                return magnitude(rng) if rng.random() < 0.25 else rng.randrange(0, 12)
            dc = delta(gcol)
            if dc < 0:
                feats.add('backward_column')
            fields = [dc]
            gcol += dc
            ar = weighted(rng, [(1, 2), (4, 5), (5, 3)])
            if ar >= 4:
                ds = delta(src); src += ds
                dl = delta(ol); ol += dl
                dcol = delta(oc); oc += dcol
                fields += [ds, dl, dcol]
            if ar == 5:
                dn = delta(nm); nm += dn
                fields.append(dn)
            red = 0
            s = ''
            for fv in fields:
                red = 0
                if rng.random() < 0.1:
                    red = rng.randrange(1, 5) if rng.random() < 0.8 else rng.randrange(5, 20)
                    feats.add('redundant_continuation')
                    if red >= 12:
                        feats.add('over_12_digits')
                s += vlq(fv, redundant=red)
            segs.append(s)
        out.append(','.join(segs))
    s = ';'.join(out)
    if ';;' in s:
        feats.add('consecutive_semicolons')
    if len(s) > 4:
        feats.add('nontrivial')
    return s, feats

def case_dec(s, feats=()):
    return Case('codec_dec', {'s': s}, feats)

def ser_dec(obj):
    return 'codec_dec ' + hx(obj['s'])

def gen_junk_string(rng):
    alpha = B64 + ',;' + ' !\x00\x7f=-_\n'
    n = rng.randrange(0, 40)
    r = rng.random()
    if r < 0.3:
        # long continuation runs
        s = ''.join(rng.choice('ghijklmnopqrstuvwxyz0123456789+/') for _ in range(rng.randrange(10, 45)))
        s += rng.choice(B64[:32]) if rng.random() < 0.7 else ''
        s = ''.join(rng.choice(alpha) for _ in range(rng.randrange(0, 5))) + s + ''.join(rng.choice(alpha) for _ in range(rng.randrange(0, 8)))
        return s, {'nontrivial', 'long_continuation'}
    if r < 0.5:
        # huge deltas
        parts = []
        for _ in range(rng.randrange(1, 6)):
            v = rng.choice([1, -1]) * rng.randrange(0, 1 << rng.randrange(1, 70))
            parts.append(vlq(v))
        return rng.choice([',', ';', '']).join(parts), {'nontrivial', 'huge_delta'}
    s = ''.join(rng.choice(alpha) for _ in range(n))
    return s, ({'nontrivial'} if n > 3 else set())
