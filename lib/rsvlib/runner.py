"""Runs case files through the implementation harness, the extracted model and the extracted checkers."""
import os, subprocess, time
from . import build

RUN = os.path.join(build.BUILD, 'run')

def parse_obs_line(line):
    parts = line.rstrip('\n').split(' ')
    cid = parts[0]
    kvs = {}
    for p in parts[1:]:
        if '=' in p:
            k, v = p.split('=', 1)
            kvs[k] = v
    return cid, kvs

def _shard(lines, n):
    n = max(1, min(n, len(lines)))
    return [lines[i::n] for i in range(n)]

def _run_parallel(cmds, timeout):
    procs = []
    for cmd, outpath in cmds:
        f = open(outpath, 'wb')
        procs.append((subprocess.Popen(cmd, stdout=f, stderr=subprocess.DEVNULL), f, cmd))
    rcs = []
    deadline = time.time() + timeout
    for p, f, cmd in procs:
        try:
            rc = p.wait(timeout=max(1, deadline - time.time()))
        except subprocess.TimeoutExpired:
            p.kill()
            rc = -9
        f.close()
        rcs.append(rc)
    return rcs

def evaluate(prop, tag, lines, bindir, shards=16, timeout=1800, want_model=True, want_check=True, obs_bin='obs'):
    """lines: case lines (with ids).  Returns (impl, model, verdict) dicts keyed by case id.
    impl[id] = kvs; a case whose process died without output gets {'ABORT': '1'}."""
    d = os.path.join(RUN, tag)
    os.makedirs(d, exist_ok=True)
    parts = _shard(lines, shards)
    cmds_impl, cmds_model = [], []
    for i, part in enumerate(parts):
        cf = os.path.join(d, 'cases.%d' % i)
        with open(cf, 'w') as f:
            f.write('\n'.join(part) + '\n')
        cmds_impl.append(([os.path.join(bindir, obs_bin), cf], os.path.join(d, 'impl.%d' % i)))
        if want_model:
            cmds_model.append(([build.DRIVER, 'model', cf], os.path.join(d, 'model.%d' % i)))
    env_stack = 'ulimit -s unlimited 2>/dev/null;'
    rcs = _run_parallel(cmds_impl + cmds_model, timeout)
    impl, model, verdict = {}, {}, {}
    hangs = 0
    for i, part in enumerate(parts):
        seen = set()
        with open(os.path.join(d, 'impl.%d' % i), errors='replace') as f:
            for l in f:
                if l.strip():
                    cid, kvs = parse_obs_line(l)
                    impl[cid] = kvs
                    seen.add(cid)
        # the harness process died (abort / stack overflow): everything after the last
        # printed case is unobserved; re-run those one by one to attribute the abort
        missing = [l for l in part if l.split(' ', 1)[0] not in seen]
        for l in missing:
            cid = l.split(' ', 1)[0]
            if hangs >= 3:
                # a library that loops: three attributed hangs are enough, the rest stays unobserved
                # (reported as a hang as well - it was part of a run that did not finish)
                impl[cid] = {'HANG': 'unobserved'}
                continue
            one = os.path.join(d, 'one.case')
            with open(one, 'w') as f:
                f.write(l + '\n')
            try:
                p = subprocess.run([os.path.join(bindir, obs_bin), one], stdout=subprocess.PIPE,
                                   stderr=subprocess.PIPE, timeout=60)
                out = p.stdout.decode('utf-8', 'replace').strip()
                if out:
                    c2, kvs = parse_obs_line(out.split('\n')[0])
                    impl[cid] = kvs
                else:
                    impl[cid] = {'ABORT': 'rc%d' % p.returncode}
            except subprocess.TimeoutExpired:
                impl[cid] = {'HANG': '60s'}
                hangs += 1
        if want_model:
            with open(os.path.join(d, 'model.%d' % i), errors='replace') as f:
                for l in f:
                    if l.strip():
                        cid, kvs = parse_obs_line(l)
                        model[cid] = kvs
    if want_check:
        # checkers run on the implementation's observations
        cmds = []
        for i, part in enumerate(parts):
            io = os.path.join(d, 'implall.%d' % i)
            with open(io, 'w') as f:
                for l in part:
                    cid = l.split(' ', 1)[0]
                    kvs = impl.get(cid, {})
                    f.write(cid + ' ' + ' '.join('%s=%s' % kv for kv in kvs.items()) + '\n')
            cmds.append(([build.DRIVER, 'check', prop, os.path.join(d, 'cases.%d' % i), io], os.path.join(d, 'verdict.%d' % i)))
        _run_parallel(cmds, timeout)
        for i, part in enumerate(parts):
            with open(os.path.join(d, 'verdict.%d' % i), errors='replace') as f:
                for l in f:
                    l = l.strip()
                    if l:
                        cid, rest = (l.split(' ', 1) + [''])[:2]
                        verdict[cid] = rest
    return impl, model, verdict
