"""Builds: Coq development (.vo through coq_makefile), extraction, OCaml driver, Rust harness."""
import hashlib, os, subprocess, sys, time, glob, re, shutil

VERIF = os.path.abspath(os.path.join(os.path.dirname(__file__), '..', '..'))
COQ = os.path.join(VERIF, 'coq')
BUILD = os.path.join(VERIF, '.build')
EXTRACTED = os.path.join(BUILD, 'extracted')
DRIVER = os.path.join(BUILD, 'driver')
TARGET = os.path.join(BUILD, 'target')
HARNESS = os.path.join(VERIF, 'harness')
CFG = '--cfg rspack_sources_verif'

class BuildError(Exception):
    def __init__(self, what, log):
        super().__init__(what)
        self.what = what
        self.log = log

def run(cmd, cwd=None, env=None, timeout=3600, check=True, what=None):
    e = dict(os.environ)
    e.update({'CARGO_NET_OFFLINE': 'true'})
    if env:
        e.update(env)
    p = subprocess.run(cmd, cwd=cwd, env=e, stdout=subprocess.PIPE, stderr=subprocess.STDOUT,
                       timeout=timeout, shell=isinstance(cmd, str))
    out = p.stdout.decode('utf-8', 'replace')
    if check and p.returncode != 0:
        raise BuildError(what or (cmd if isinstance(cmd, str) else ' '.join(cmd)), out)
    return p.returncode, out

def sha_files(paths):
    h = hashlib.sha256()
    for p in sorted(paths):
        h.update(p.encode())
        with open(p, 'rb') as f:
            h.update(hashlib.sha256(f.read()).digest())
    return h.hexdigest()

def coq_sources():
    out = []
    for root, _, files in os.walk(os.path.join(COQ, 'theories')):
        for f in files:
            if f.endswith('.v'):
                out.append(os.path.join(root, f))
    return sorted(out)

def coqproject_files():
    files = []
    with open(os.path.join(COQ, '_CoqProject')) as f:
        for l in f:
            l = l.strip()
            if l.endswith('.v'):
                files.append(l)
    return files

FORBIDDEN = re.compile(r'\b(Admitted|admit|Axiom|Axioms|Parameter|Parameters|Conjecture|Admit Obligations|Unset Guard Checking|bypass_check|Unset Positivity Checking|Unset Universe Checking|give_up)\b')

def strip_comments(src):
    out = []
    depth = 0
    i = 0
    n = len(src)
    while i < n:
        if src.startswith('(*', i):
            depth += 1
            i += 2
        elif src.startswith('*)', i) and depth > 0:
            depth -= 1
            i += 2
        else:
            if depth == 0:
                out.append(src[i])
            i += 1
    return ''.join(out)

def forbidden_scan():
    """Admitted / Axiom / ... anywhere in the development (comments stripped)."""
    hits = []
    for p in coq_sources():
        src = strip_comments(open(p).read())
        for ln, line in enumerate(src.split('\n'), 1):
            if FORBIDDEN.search(line):
                hits.append('%s:%d: %s' % (os.path.relpath(p, VERIF), ln, line.strip()))
    return hits

def coq_build(clean=False, jobs=16):
    """Full .vo build through coq_makefile (never -vos).  Re-uses .vo files only when the
    content hash of every source is the one they were built from."""
    os.makedirs(BUILD, exist_ok=True)
    stamp = os.path.join(BUILD, 'coq.stamp')
    srcs = [os.path.join(COQ, f) for f in coqproject_files()] + [os.path.join(COQ, '_CoqProject')]
    h = sha_files(srcs)
    vos = [os.path.join(COQ, f[:-2] + '.vo') for f in coqproject_files()]
    if not clean and os.path.exists(stamp) and open(stamp).read().strip() == h and all(os.path.exists(v) for v in vos):
        return {'rebuilt': False, 'hash': h, 'wall_s': 0.0}
    t0 = time.time()
    if clean:
        for v in glob.glob(os.path.join(COQ, 'theories', '**', '*.vo*'), recursive=True) + \
                 glob.glob(os.path.join(COQ, 'theories', '**', '*.glob'), recursive=True) + \
                 glob.glob(os.path.join(COQ, 'theories', '**', '.*.aux'), recursive=True):
            os.remove(v)
    run(['coq_makefile', '-f', '_CoqProject', '-o', 'Makefile'], cwd=COQ, what='coq_makefile')
    rc, out = run(['make', '-j%d' % jobs], cwd=COQ, timeout=7200, check=False)
    if rc != 0:
        if os.path.exists(stamp):
            os.remove(stamp)
        raise BuildError('coq make', out)
    open(stamp, 'w').write(h)
    return {'rebuilt': True, 'hash': h, 'wall_s': time.time() - t0}

def extract_and_driver(force=False):
    os.makedirs(EXTRACTED, exist_ok=True)
    stamp = os.path.join(BUILD, 'driver.stamp')
    srcs = [os.path.join(COQ, f) for f in coqproject_files()] + \
           [os.path.join(COQ, 'theories', 'Extract', 'Extract.v'), os.path.join(VERIF, 'ocaml', 'driver.ml')]
    h = sha_files(srcs)
    if not force and os.path.exists(stamp) and open(stamp).read().strip() == h and os.path.exists(DRIVER):
        return {'rebuilt': False}
    for f in glob.glob(os.path.join(EXTRACTED, '*')):
        os.remove(f)
    run(['coqc', '-Q', os.path.join(COQ, 'theories'), 'RS', os.path.join(COQ, 'theories', 'Extract', 'Extract.v'),
         '-o', os.path.join(EXTRACTED, 'Extract.vo')], cwd=EXTRACTED, timeout=1800, what='extraction')
    shutil.copy(os.path.join(VERIF, 'ocaml', 'driver.ml'), os.path.join(EXTRACTED, 'driver.ml'))
    run('ocamlfind ocamlopt -w -a $(ocamlfind ocamldep -sort *.mli *.ml) -o %s' % DRIVER, cwd=EXTRACTED,
        timeout=1800, what='ocaml driver build')
    open(stamp, 'w').write(h)
    return {'rebuilt': True}

def repo_path():
    """The crate the harness is built against: the `path` of harness/Cargo.toml (/repo)."""
    m = re.search(r'rspack_sources\s*=\s*\{\s*path\s*=\s*"([^"]+)"', open(os.path.join(HARNESS, 'Cargo.toml')).read())
    return m.group(1)

def repo_digest():
    root = repo_path()
    files = [os.path.join(root, f) for f in ('Cargo.toml', 'Cargo.lock') if os.path.exists(os.path.join(root, f))]
    for d, _, fs in os.walk(os.path.join(root, 'src')):
        files += [os.path.join(d, f) for f in fs]
    return sha_files(files)

def cargo_build(release=False):
    """Always invoked: cargo decides from /repo's current working tree what to rebuild.  Cargo's
    freshness test goes by modification times; a content digest of the crate's sources is kept
    beside the build and, when it differs from the last build's, the crate's artefacts are
    removed first - so a source whose content changed under an old timestamp (or a build
    directory restored from elsewhere) can never leave a stale library behind the harness."""
    prof = 'release' if release else 'debug'
    stamp = os.path.join(BUILD, 'repo-%s.stamp' % prof)
    digest = repo_digest()
    if not (os.path.exists(stamp) and open(stamp).read() == digest):
        if os.path.exists(stamp):
            os.remove(stamp)
        run(['cargo', 'clean', '--offline', '-p', 'rspack_sources'] + (['--release'] if release else []),
            cwd=HARNESS, env={'RUSTFLAGS': CFG}, timeout=600, check=False)
    cmd = ['cargo', 'build', '--offline', '--bins']
    if release:
        cmd.append('--release')
    run(cmd, cwd=HARNESS, env={'RUSTFLAGS': CFG}, timeout=3600, what='cargo build harness')
    os.makedirs(BUILD, exist_ok=True)
    open(stamp, 'w').write(digest)
    return os.path.join(TARGET, 'release' if release else 'debug')

def coqdep_closure(vfile):
    """Transitive dependencies (inside the development) of a .v file, as source paths."""
    rc, out = run(['coqdep', '-Q', 'theories', 'RS'] + coqproject_files(), cwd=COQ)
    deps = {}
    for line in out.split('\n'):
        if ':' not in line:
            continue
        lhs, rhs = line.split(':', 1)
        tgt = [t for t in lhs.split() if t.endswith('.vo')]
        if not tgt:
            continue
        key = tgt[0][:-1]
        deps[key] = [d[:-1] for d in rhs.split() if d.endswith('.vo') and d.startswith('theories/')]
    seen = set()
    stack = [vfile]
    while stack:
        f = stack.pop()
        if f in seen:
            continue
        seen.add(f)
        stack.extend(deps.get(f, []))
    return sorted(seen)

STMT = re.compile(r'^\s*(Theorem|Lemma|Corollary|Example|Fact|Proposition|Remark)\s+([A-Za-z0-9_\']+)', re.M)

def count_statements(files):
    names = []
    for f in files:
        src = strip_comments(open(os.path.join(COQ, f)).read())
        names += [m.group(2) for m in STMT.finditer(src)]
    return names

ALLOWED_AXIOMS = set()   # the development is axiom-free; see DESIGN.md section 4

def check_props_file(prop):
    """Recompiles Props/<prop>.v, returns (theorem names, assumptions report, problems)."""
    rel = 'theories/Props/%s.v' % prop
    path = os.path.join(COQ, rel)
    problems = []
    if not os.path.exists(path):
        return [], {}, ['missing ' + rel]
    rc, out = run(['coqc', '-Q', 'theories', 'RS', rel], cwd=COQ, timeout=1800, check=False)
    if rc != 0:
        return [], {}, ['coqc %s failed:\n%s' % (rel, out[-3000:])]
    src = strip_comments(open(path).read())
    theorems = [m.group(2) for m in STMT.finditer(src)]
    printed = re.findall(r'Print Assumptions\s+([A-Za-z0-9_\']+)', src)
    for t in theorems:
        if t not in printed:
            problems.append('no Print Assumptions for %s' % t)
    # parse output blocks: either "Closed under the global context" or "Axioms:" + lines
    blocks = re.split(r'(?=Closed under the global context|Axioms:)', out)
    reports = [b.strip() for b in blocks if b.startswith('Closed under') or b.startswith('Axioms:')]
    assumptions = {}
    if len(reports) != len(printed):
        problems.append('expected %d Print Assumptions reports, got %d' % (len(printed), len(reports)))
    for name, rep in zip(printed, reports):
        if rep.startswith('Closed under'):
            assumptions[name] = []
        else:
            axs = re.findall(r'^([A-Za-z0-9_\.\']+)\s*:', rep, re.M)
            assumptions[name] = axs
            for a in axs:
                if a not in ALLOWED_AXIOMS:
                    problems.append('%s depends on axiom %s' % (name, a))
    return theorems, assumptions, problems
