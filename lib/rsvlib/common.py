"""Case objects, hex helpers, PRNG helpers shared by the generators."""
import random

def hx(b):
    if isinstance(b, str):
        b = b.encode('utf-8')
    return b.hex() if len(b) else '.'

def ohx(b):
    return '-' if b is None else hx(b)

def unhx(h):
    return b'' if h == '.' else bytes.fromhex(h)

def fmt_mapping(m):
    """m = (gl, gc, None) | (gl, gc, (si, ol, oc, ni|None))"""
    gl, gc, o = m
    if o is None:
        return '%d %d - - - -' % (gl, gc)
    si, ol, oc, ni = o
    return '%d %d %d %d %d %s' % (gl, gc, si, ol, oc, '-' if ni is None else str(ni))

def fmt_mappings(ms):
    return ' '.join([str(len(ms))] + [fmt_mapping(m) for m in ms])

class Case:
    __slots__ = ('cid', 'kind', 'obj', 'feats', 'raw')
    def __init__(self, kind, obj, feats=()):
        self.cid = None
        self.kind = kind
        self.obj = obj
        self.feats = set(feats)
        self.raw = None

def weighted(rng, pairs):
    tot = sum(w for _, w in pairs)
    x = rng.random() * tot
    for v, w in pairs:
        x -= w
        if x <= 0:
            return v
    return pairs[-1][0]
