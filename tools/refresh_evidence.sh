#!/bin/bash
# runs every quick check on /repo as it is and reports; use before committing evidence
cd /verif
git -C /repo diff --quiet || { echo "/repo working tree is not clean"; exit 2; }
rc=0
for p in C01 C02 C03 C04 C05 C06 C07 C08 C09 C10 C11 C12 C13 C14 C15 C16 C17 C18 C19 C20; do
  out=$(bin/rsv check $p --tier quick 2>&1); r=$?
  echo "$p exit $r: $(echo "$out" | tail -1)"
  echo "$out" | grep -E "^(VIOLATION|KNOWN-FINDING)" | sed 's/^/    /' | cut -c1-200
  [ $r -ne 0 ] && rc=1
done
exit $rc
