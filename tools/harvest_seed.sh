#!/bin/bash
# harvest_seed.sh <worktree> <name> <property> "<needs>"  : confirm a seeded change and store it under seeded/<name>
set -u
WT=$1; NAME=$2; PROP=$3; NEEDS=$4
D=/verif/seeded/$NAME
mkdir -p $D
cd $WT || exit 1
git diff -- src > $D/patch.diff
cp tests/seed_demo.rs $D/seed_demo.rs 2>/dev/null
[ -s $D/patch.diff ] || { echo "empty patch"; exit 1; }
# 1. with the change: whole suite passes except the demo
OUT=$(cargo test --offline --no-fail-fast 2>&1)
SUITE_OK=$(echo "$OUT" | grep -c "^test result: ok. 77 passed")
DOC_OK=$(echo "$OUT" | grep -c "^test result: ok. 9 passed")
COMPAT_OK=$(echo "$OUT" | grep -c "^test result: ok. 2 passed")
DEMO_FAIL_WITH=$(cargo test --offline --test seed_demo 2>&1 | grep -c "^test result: FAILED")
# 2. without the change: demo passes
# (git stash is shared between worktrees: revert and re-apply with the saved patch instead)
git apply -R $D/patch.diff
DEMO_PASS_WITHOUT=$(cargo test --offline --test seed_demo 2>&1 | grep -c "^test result: ok")
git apply $D/patch.diff
echo "suite77=$SUITE_OK doc9=$DOC_OK compat2=$COMPAT_OK demo_fails_with_change=$DEMO_FAIL_WITH demo_passes_without=$DEMO_PASS_WITHOUT"
python3 - "$D" "$PROP" "$NEEDS" "$SUITE_OK" "$DOC_OK" "$COMPAT_OK" "$DEMO_FAIL_WITH" "$DEMO_PASS_WITHOUT" <<'PY'
import json,sys
d,prop,needs,a,b,c,e,f=sys.argv[1:]
json.dump({"property":prop,"needs_to_manifest":needs,
 "confirmed":{"existing_suite_passes_with_change":a=="1" and b=="1" and c=="1","demo_fails_with_change":e=="1","demo_passes_without_change":f=="1"},
 "ran":"cargo test --offline --no-fail-fast (with change); cargo test --offline --test seed_demo (with and without the src change) in a scratch worktree of /repo",
 "demo":"seed_demo.rs","detected_by":[]},open(d+"/meta.json","w"),indent=1)
PY
