#!/usr/bin/env python3
"""Regenerates MANIFEST.json from the claims table below (properties.jsonl is never touched)."""
import json, os, subprocess
HERE = os.path.dirname(os.path.abspath(__file__))
VERIF = os.path.dirname(HERE)
props = [json.loads(l) for l in open(os.path.join(VERIF, 'properties.jsonl'))]
hooks = subprocess.check_output(['git', '-C', '/repo', 'log', '--format=%H', '--grep=verif hook']).decode().split()

TECH = 'machine-checked proof in Coq over a hand-written executable model + model/implementation correspondence check (extracted Coq checker judges the implementation)'
NOTE_TB = 'trusted base: DESIGN.md section 4 (Coq kernel, ExtrOcamlBasic extraction, OCaml driver, Rust harness, generators); the Rust source is modelled, tied by differential execution on every run'

CLAIMS = json.load(open(os.path.join(HERE, 'claims.json')))

m = {
 'version': 1,
 'setup_cmd': 'bin/rsv setup',
 'hooks': {'guard': '--cfg rspack_sources_verif',
           'enable': 'RUSTFLAGS="--cfg rspack_sources_verif" cargo build --offline (harness/ depends on /repo by path)',
           'baseline_off_cmd': 'cd /repo && cargo test --workspace --no-fail-fast --offline',
           'source_commits': hooks, 'add_only': True},
 'engines': [{'name': 'rsv', 'path': 'bin/rsv', 'serves_properties': sorted(CLAIMS.keys()),
              'kind_free_text': 'Coq 8.16 model + theorems (coq/theories), OCaml-extracted model and checkers (ocaml/driver.ml), Rust differential harness (harness/), python orchestrator (lib/rsvlib)'}],
 'checks': [],
 'notes': 'See DESIGN.md. Every check: full .vo build of the Coq development (content-hash cache), recompilation of Props/<id>.v with Print Assumptions, rebuild of the Rust harness against /repo working tree, differential execution of model and implementation, extracted Coq checker applied to the implementation observations. Known findings: known_findings.json.',
 'not_applicable': [],
}
for p in props:
    pid = p['id']
    if pid in CLAIMS:
        c = CLAIMS[pid]
        m['checks'].append({
            'property_id': pid, 'quick_cmd': 'bin/rsv check %s --tier quick' % pid,
            'thorough_cmd': 'bin/rsv check %s --tier thorough' % pid,
            'evidence_file': 'evidence/%s.json' % pid, 'replay_cmd_template': 'bin/rsv replay {path}', 'engine': 'rsv',
            'level_claimed': {'category': 'proof', 'text': c['text'], 'design_ref': 'DESIGN.md section 6, %s' % pid},
            'level_note': c['note'] + '; ' + NOTE_TB, 'technique': TECH})
    else:
        m['not_applicable'].append({'property_id': pid, 'reason': 'not claimed in this revision: the check for it is still being built (DESIGN.md section 9); not a statement that the technique cannot apply'})
json.dump(m, open(os.path.join(VERIF, 'MANIFEST.json'), 'w'), indent=1)
print('claimed:', sorted(CLAIMS.keys()))
