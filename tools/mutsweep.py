#!/usr/bin/env python3
"""Mechanical mutation sweep (a robustness test of the checks, not a check itself).

  mutsweep.py gen  <n> <seed> <out.json>      sample n one-token mutants of /repo/src (non-test code)
  mutsweep.py test <in.json> <out.json> [k]   phase 1: in k scratch worktrees under /tmp (removed at the
                                              end) keep the mutants that compile and pass the pinned tests
  mutsweep.py run  <in.json> <out.json>       phase 2: apply each survivor to /repo, run all 20 quick
                                              checks, undo; record which checks raise an alarm

Phase 2 can run without touching /repo: copy /verif to a scratch directory, point its
harness/Cargo.toml at a scratch worktree of /repo and set MUT_REPO to that worktree.

Nothing here is registered in MANIFEST.json; the results are summarised in DESIGN.md section 9."""
import json, os, random, re, shutil, subprocess, sys, tempfile, concurrent.futures as cf

VERIF = os.path.dirname(os.path.dirname(os.path.abspath(__file__)))
REPO = os.environ.get('MUT_REPO', '/repo')   # phase 2 may run in a scratch copy of /verif whose harness points at a scratch worktree
PROPS = ['C%02d' % i for i in range(1, 21)]

OPS = [
    (r'<=', '<'), (r'>=', '>'), (r'(?<![<\-=]) < (?!<)', ' <= '), (r'(?<![>\-=]) > (?!>)', ' >= '),
    (r'==', '!='), (r'!=', '=='), (r'&&', '||'), (r'\|\| ', '&& '),
    (r'\+ 1\b', '+ 2'), (r'\+ 1\b', '+ 0'), (r'- 1\b', '- 0'), (r'- 1\b', '- 2'),
    (r'\+= ', '-= '), (r'-= ', '+= '), (r'\btrue\b', 'false'), (r'\bfalse\b', 'true'),
    (r'\.is_some\(\)', '.is_none()'), (r'\.is_none\(\)', '.is_some()'),
    (r'\.is_empty\(\)', '.is_empty() == false'), (r'\bif !', 'if '), (r' \+ ', ' - '), (r' - ', ' + '),
    (r'\bSome\((\w+)\) =>', r'Some(\1) if false =>'), (r'\b0\b', '1'), (r'\b1\b', '0'),
]

def sites():
    out = []
    for f in sorted(os.listdir(os.path.join(REPO, 'src'))):
        if not f.endswith('.rs') or f in ('verif.rs',):
            continue
        lines = open(os.path.join(REPO, 'src', f)).read().split('\n')
        skip_hook = 0
        for i, l in enumerate(lines):
            s = l.strip()
            if s.startswith('#[cfg(test)]') or s.startswith('mod tests') or s.startswith('mod test '):
                break
            if 'rspack_sources_verif' in l:
                skip_hook = 12          # hook blocks are short; never mutate them
            if skip_hook:
                skip_hook -= 1
                continue
            if s.startswith('//') or s.startswith('#[') or s.startswith('use ') or s.startswith('///'):
                continue
            code = l.split('//')[0]
            for k, (pat, rep) in enumerate(OPS):
                for m in re.finditer(pat, code):
                    out.append({'file': 'src/' + f, 'line': i + 1, 'col': m.start(), 'op': k,
                                'old': l, 'new': l[:m.start()] + re.sub(pat, rep, l[m.start():], count=1)})
    return out

STMT = re.compile(r'^\s*[A-Za-z_\*][A-Za-z0-9_\.\*\[\]\(\) ]*?(\s[-+|&]?=\s|\.push\(|\.insert\(|\.extend\(|\.clear\(|\.truncate\(|\.pop\().*;\s*$')

def stmt_sites():
    """statement deletion: an assignment, compound assignment or container update on one line"""
    out = []
    for f in sorted(os.listdir(os.path.join(REPO, 'src'))):
        if not f.endswith('.rs') or f in ('verif.rs',):
            continue
        lines = open(os.path.join(REPO, 'src', f)).read().split('\n')
        skip_hook = 0
        for i, l in enumerate(lines):
            s = l.strip()
            if s.startswith('#[cfg(test)]') or s.startswith('mod tests') or s.startswith('mod test '):
                break
            if 'rspack_sources_verif' in l:
                skip_hook = 12
            if skip_hook:
                skip_hook -= 1
                continue
            if s.startswith('//') or s.startswith('let ') or s.startswith('return') or s.startswith('#['):
                continue
            if STMT.match(l.split('//')[0]):
                out.append({'file': 'src/' + f, 'line': i + 1, 'col': 0, 'op': 99, 'old': l,
                            'new': l[:len(l) - len(l.lstrip())] + '// (statement deleted)'})
    return out

def gen(n, seed, outp):
    r = random.Random(seed)
    s = stmt_sites() if os.environ.get('MUT_KIND') == 'stmt' else sites()
    # stratify: equal weight per (file, operator class) bucket so that large files do not dominate
    buckets = {}
    for x in s:
        buckets.setdefault((x['file'], x['op']), []).append(x)
    keys = sorted(buckets)
    picked, seen = [], set()
    while len(picked) < n and len(seen) < len(s):
        k = r.choice(keys)
        x = r.choice(buckets[k])
        key = (x['file'], x['line'], x['col'], x['op'])
        if key in seen:
            continue
        seen.add(key)
        picked.append(x)
    for i, x in enumerate(picked):
        x['id'] = 'm%d_%04d' % (seed, i)
    json.dump({'sites': len(s), 'mutants': picked}, open(outp, 'w'), indent=1)
    print('%d sites, %d sampled' % (len(s), len(picked)))

def apply_mut(root, m):
    p = os.path.join(root, m['file'])
    lines = open(p).read().split('\n')
    assert lines[m['line'] - 1] == m['old'], (m['id'], lines[m['line'] - 1])
    lines[m['line'] - 1] = m['new']
    open(p, 'w').write('\n'.join(lines))

def undo_mut(root, m):
    p = os.path.join(root, m['file'])
    lines = open(p).read().split('\n')
    lines[m['line'] - 1] = m['old']
    open(p, 'w').write('\n'.join(lines))

def worker(wt, muts):
    res = []
    env = dict(os.environ, CARGO_NET_OFFLINE='true', CARGO_TARGET_DIR=os.path.join(wt, 'target'))
    for m in muts:
        apply_mut(wt, m)
        try:
            try:
                p = subprocess.run(['cargo', 'test', '--workspace', '--no-fail-fast', '--offline', '-j', '4'], cwd=wt, env=env,
                                   stdout=subprocess.PIPE, stderr=subprocess.STDOUT, timeout=420)
                out = p.stdout.decode('utf-8', 'replace')
                if 'error' in out and 'could not compile' in out:
                    st = 'nocompile'
                elif p.returncode == 0:
                    st = 'survives_tests'
                else:
                    st = 'killed_by_tests'
            except subprocess.TimeoutExpired:
                st = 'timeout'
                subprocess.run('pkill -f %s/target' % wt, shell=True)
        finally:
            undo_mut(wt, m)
        m['tests'] = st
        res.append(m)
        print(m['id'], m['file'], m['line'], st, flush=True)
    return res

def test(inp, outp, k):
    d = json.load(open(inp))
    muts = d['mutants']
    wts = []
    for i in range(k):
        wt = tempfile.mkdtemp(prefix='rsv_mut%d_' % i, dir='/tmp')
        os.rmdir(wt)
        subprocess.check_call(['git', '-C', REPO, 'worktree', 'add', '--detach', '-q', wt])
        wts.append(wt)
    try:
        with cf.ThreadPoolExecutor(k) as ex:
            futs = [ex.submit(worker, wts[i], muts[i::k]) for i in range(k)]
            res = [x for f in futs for x in f.result()]
    finally:
        for wt in wts:
            subprocess.run(['git', '-C', REPO, 'worktree', 'remove', '--force', wt])
            shutil.rmtree(wt, ignore_errors=True)
    res.sort(key=lambda m: m['id'])
    json.dump({'sites': d['sites'], 'mutants': res}, open(outp, 'w'), indent=1)
    from collections import Counter
    print(Counter(m['tests'] for m in res))

def run(inp, outp):
    d = json.load(open(inp))
    todo = [m for m in d['mutants'] if m.get('tests') == 'survives_tests' and 'checks' not in m]
    keep = tempfile.mkdtemp(prefix='rsv_mutev_')
    for p in PROPS:
        shutil.copy(os.path.join(VERIF, 'evidence', p + '.json'), keep)
    try:
        for m in todo:
            subprocess.check_call(['git', '-C', REPO, 'diff', '--quiet'])
            apply_mut(REPO, m)
            alarms = {}
            try:
                def one(p):
                    try:
                        r = subprocess.run([os.path.join(VERIF, 'bin', 'rsv'), 'check', p, '--tier', 'quick'], cwd=VERIF,
                                           stdout=subprocess.PIPE, stderr=subprocess.STDOUT, timeout=900)
                    except subprocess.TimeoutExpired:
                        # a mutant that makes the library loop: the check does not finish (it would, after
                        # its own per-case time-outs, with a violation)
                        subprocess.run("pkill -f '%s/.build/target/[a-z]*/obs'" % VERIF, shell=True)
                        return p, 124, 'check did not finish within 900 s'
                    out = r.stdout.decode('utf-8', 'replace')
                    v = [l for l in out.split('\n') if l.startswith('VIOLATION')]
                    return p, r.returncode, (v[0] if v else '')
                # the first check builds the harness; the others then run four at a time
                first = one(PROPS[0])
                rs = [first]
                with cf.ThreadPoolExecutor(4) as ex:
                    rs += list(ex.map(one, PROPS[1:]))
                for p, rc, v in rs:
                    if rc != 0:
                        alarms[p] = v[:200]
            finally:
                subprocess.check_call(['git', '-C', REPO, 'checkout', '--', '.'])
            m['checks'] = alarms
            print(m['id'], m['file'], m['line'], 'DETECTED by ' + ','.join(sorted(alarms)) if alarms else 'UNDETECTED', flush=True)
            json.dump(d, open(outp, 'w'), indent=1)
    finally:
        for p in PROPS:
            shutil.copy(os.path.join(keep, p + '.json'), os.path.join(VERIF, 'evidence', p + '.json'))
        shutil.rmtree(keep, ignore_errors=True)

if __name__ == '__main__':
    c = sys.argv[1]
    if c == 'gen':
        gen(int(sys.argv[2]), int(sys.argv[3]), sys.argv[4])
    elif c == 'test':
        test(sys.argv[2], sys.argv[3], int(sys.argv[4]) if len(sys.argv) > 4 else 4)
    elif c == 'run':
        run(sys.argv[2], sys.argv[3])
