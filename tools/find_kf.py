#!/usr/bin/env python3
"""find_kf.py <prop> <tier> <class> : regenerate the case set of a check, take the first case whose
verdict carries KF=<class>, shrink it while it stays in that class, print the minimal case line."""
import os, sys, random
sys.path.insert(0, os.path.join(os.path.dirname(os.path.abspath(__file__)), '..', 'lib'))
from rsvlib import main, props, build, runner
prop, tier, cls = sys.argv[1:4]
seed = int(os.environ.get('VERIF_SEED', '1'))
spec = props.get(prop)
bindir = build.cargo_build(release=False)
rng = random.Random(seed)
cases = list(spec.corpus()) + list(spec.gen(rng, tier))
main.assign_ids(prop, cases)
lines = [main.case_line(spec, c) for c in cases]
impl, model, verdict = runner.evaluate(prop, 'findkf', lines, bindir, obs_bin=spec.obs_bin, timeout=3600)
hits = [c for c in cases if ('KF=' + cls) in verdict.get(c.cid, '') and c.obj is not None]
print(len(hits), 'cases in class', cls)
if hits:
    c = min(hits, key=lambda c: len(main.case_line(spec, c)))
    small = main.shrink(spec, bindir, c.kind, c.obj, lambda i, m, vv: ('KF=' + cls) in vv, budget=600)
    line, i1, m1, v1 = main.eval_one(spec, bindir, c.kind, small)
    print(line.split(' ', 1)[1]); print(v1)
