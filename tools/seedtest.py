#!/usr/bin/env python3
"""Applies a seeded change (seeded/<name>/patch.diff) to /repo, runs the given checks (default: the
property named in meta.json, quick tier), and reverts /repo.  Prints which checks raise an alarm."""
import json, os, subprocess, sys
VERIF = os.path.dirname(os.path.dirname(os.path.abspath(__file__)))
name = sys.argv[1]
d = os.path.join(VERIF, 'seeded', name)
meta = json.load(open(os.path.join(d, 'meta.json')))
props = sys.argv[2:] or [meta['property']]
subprocess.check_call(['git', '-C', '/repo', 'diff', '--quiet'])
subprocess.check_call(['git', '-C', '/repo', 'apply', os.path.join(d, 'patch.diff')])
# the evidence files must describe /repo as it is, not the seeded tree: keep and restore them
import shutil, tempfile
keep = tempfile.mkdtemp(prefix='rsv_seedtest_')
for p in props:
    f = os.path.join(VERIF, 'evidence', p + '.json')
    if os.path.exists(f):
        shutil.copy(f, os.path.join(keep, p + '.json'))
try:
    for p in props:
        r = subprocess.run([os.path.join(VERIF, 'bin', 'rsv'), 'check', p, '--tier', 'quick'], cwd=VERIF,
                           stdout=subprocess.PIPE, stderr=subprocess.STDOUT)
        out = r.stdout.decode()
        viol = [l for l in out.split('\n') if l.startswith('VIOLATION')]
        print('%s on seed %s: exit %d%s' % (p, name, r.returncode, (' ' + viol[0]) if viol else ''))
        print('   ' + out.strip().split('\n')[-1])
finally:
    subprocess.check_call(['git', '-C', '/repo', 'checkout', '--', '.'])
    subprocess.run(['git', '-C', '/repo', 'clean', '-fdq', 'tests'])
    for p in props:
        f = os.path.join(keep, p + '.json')
        if os.path.exists(f):
            shutil.copy(f, os.path.join(VERIF, 'evidence', p + '.json'))
    shutil.rmtree(keep, ignore_errors=True)
