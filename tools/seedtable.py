#!/usr/bin/env python3
"""Rewrites section 9 of DESIGN.md (between the markers) from seeded/*/meta.json."""
import json, os, glob
V = os.path.dirname(os.path.dirname(os.path.abspath(__file__)))
rows = []
for d in sorted(glob.glob(os.path.join(V, 'seeded', '*', ''))):
    m = json.load(open(os.path.join(d, 'meta.json')))
    diff = open(os.path.join(d, 'patch.diff')).read()
    files = sorted({l[6:] for l in diff.split('\n') if l.startswith('+++ b/')})
    rows.append('| `%s` | %s | %s | %s | %s |' % (os.path.basename(os.path.dirname(d)), m['property'], ', '.join(files),
                m['needs_to_manifest'].replace('|', '/'), '; '.join(m.get('detected_by', [])).replace('|', '/')))
table = '\n'.join(['| seeded change (`seeded/<id>/`) | aimed at | touches | needs, to manifest | quick checks that raise VIOLATION |', '|---|---|---|---|---|'] + rows)
p = os.path.join(V, 'DESIGN.md'); s = open(p).read()
a, b = '<!-- seeded-table:begin -->', '<!-- seeded-table:end -->'
i, j = s.index(a), s.index(b)
s = s[:i + len(a)] + '\n' + table + '\n' + s[j:]
open(p, 'w').write(s)
print(len(rows), 'rows')
