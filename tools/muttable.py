#!/usr/bin/env python3
"""Rewrites the mutation-sweep summary of DESIGN.md (between the mutsweep markers) from seeded/mutation_sweep.json."""
import json, os
from collections import Counter
V = os.path.dirname(os.path.dirname(os.path.abspath(__file__)))
d = json.load(open(os.path.join(V, 'seeded', 'mutation_sweep.json')))
out = []
for b, ms in sorted(d['batches'].items()):
    c = Counter(m['tests'] for m in ms)
    surv = [m for m in ms if m['tests'] == 'survives_tests']
    det = [m for m in surv if m['alarms']]
    und = [m for m in surv if not m['alarms']]
    vc = Counter(m['verdict'] for m in und)
    out.append('**Batch %s**: %d mutants sampled - %d do not compile, %d killed by the pinned tests, %d time out in them, '
               '**%d survive the tests**. Of these %d raise an alarm in at least one check; %d do not: %s.' % (
        b, len(ms), c['nocompile'], c['killed_by_tests'], c['timeout'], len(surv), len(det), len(und),
        ', '.join('%d %s' % (n, v) for v, n in sorted(vc.items()))))
    byp = Counter(p for m in det for p in m['alarms'])
    out.append('Alarms per check over the detected survivors: ' + ', '.join('%s %d' % (p, n) for p, n in sorted(byp.items())) + '.')
    out.append('')
    out.append('| mutant | site | change | verdict |')
    out.append('|---|---|---|---|')
    for m in und:
        out.append('| %s | %s:%d | `%s` -> `%s` | %s: %s |' % (m['id'], m['file'], m['line'], m['old'].replace('|', '\\|')[:70],
                                                          m['new'].replace('|', '\\|')[:70], m['verdict'], m['why']))
    out.append('')
p = os.path.join(V, 'DESIGN.md')
s = open(p).read()
a = s.index('<!-- mutsweep:begin -->') + len('<!-- mutsweep:begin -->')
b = s.index('<!-- mutsweep:end -->')
open(p, 'w').write(s[:a] + '\n' + '\n'.join(out) + s[b:])
print('\n'.join(out[:3]))
