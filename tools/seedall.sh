#!/bin/bash
# runs every seeded change against the check of the property it was aimed at (quick tier)
cd /verif
for d in seeded/*/; do
  n=$(basename $d)
  python3 tools/seedtest.py $n 2>&1 | grep " on seed " | cut -c1-160
done
